(* SourceNamesWhole.v - C19 end to end on the SOURCE-DERIVED functions.  The oracle parameters of the per-function
   ties (SourceNamesProofs.v, SourceCacheProofs.v) are instantiated with the source-derived functions one level up,
   for a single-threaded execution (world__ := fun _ m => m):

     getenv__  := the environment record [env] of NameRes.v            (getenv_of)
     fopen__   := the file-system oracle [fs]
     factory__ := the default source, FileZoneInfoSource::Open = sn_FileOpen getenv fopen        (default_source)
     new_impl__ n := (fresh id, zone_ != nullptr) where zone_ = TimeZoneIf::Make(n): the "libc:" test, else
                  TimeZoneInfo::Make = sn_LoadName on a fresh TimeZoneInfo                         (whole_new_impl)
     load_time_zone__ := sn_LoadTimeZone with the above                                            (whole_load)

   Hand-written glue (three one-line C++ functions that the translator does not emit): time_zone::Impl::Impl(name)
   (name_ = name, zone_ = TimeZoneIf::Make(name)), TimeZoneIf::Make (the "libc:" prefix test), TimeZoneInfo::Make
   (Load(name) on a new TimeZoneInfo, reset() on failure); and the default factory falls back to
   FileZoneInfoSource::Open only (the Android/Fuchsia sources are taken to be absent, as in NameRes.v). *)
From CCTZ Require Import Base FixedImpl PosixImpl ZoneLoad ZoneImpl LoaderSM NameRes SourceZone SourceLoad SourceNames.
From CCTZ Require SourceFixed SourceFixedProofs SourceDecodeProofs SourceLoadProofs SourceNamesProofs SourceCacheProofs.
From CCTZ Require Properties_C15 Properties_C19.
Require Import Lia ZifyBool.
Local Open Scope Z_scope.

(* ------------------------------------------------------------------ *)
(* the oracles, instantiated *)
Definition var_TZDIR : list Z := [84; 90; 68; 73; 82].
Definition var_TZ : list Z := [84; 90].
Definition var_LOCALTIME : list Z := [76; 79; 67; 65; 76; 84; 73; 77; 69].

Definition getenv_of (e : env) (v : list Z) : option (list Z) :=
  if list_eqb v var_TZDIR then e_tzdir e
  else if list_eqb v var_TZ then e_tz e
  else if list_eqb v var_LOCALTIME then e_localtime e
  else None.

(* the fallback lambda handed to zone_info_source_factory: FileZoneInfoSource::Open(n) *)
Definition default_source (e : env) (fs : list Z -> option (list Z)) (n : list Z) : option (list Z * list Z) :=
  match sn_FileOpen (getenv_of e) fs n with OK r => r | Err _ => None end.

Inductive skind := SLibc | SInfo (z : zone).

(* TimeZoneInfo::Make(n) *)
Definition src_info_make (fuel : nat) (e : env) (fs : list Z -> option (list Z)) (n : list Z) : res (option zone) :=
  do '(ok, z, _) <- sn_LoadName fuel SourceLoadProofs.fresh_zone [] (default_source e fs) n ;;
  OK (if ok then Some z else None).

(* TimeZoneIf::Make(n) *)
Definition src_if_make (fuel : nat) (e : env) (fs : list Z -> option (list Z)) (n : list Z) : res (option skind) :=
  if has_prefix str_libc n then OK (Some SLibc)
  else do r <- src_info_make fuel e fs n ;; OK (option_map SInfo r).

(* new Impl(n): its identity and whether zone_ is non-null *)
Definition whole_new_impl (fuel : nat) (e : env) (fs : list Z -> option (list Z)) (fresh : nat) (n : list Z) : nat * bool :=
  (fresh, match src_if_make fuel e fs n with OK (Some _) => true | _ => false end).

(* load_time_zone(n, &tz), single-threaded: (return value, *tz, time_zone_map afterwards, mutex trace) *)
Definition sn_load_time_zone_whole (fuel : nat) (e : env) (fs : list Z -> option (list Z)) (fresh : nat)
  (cache : option imap) (n : list Z) : res (bool * option nat * option imap * list lk_event) :=
  sn_LoadTimeZone (fun _ m => m) (whole_new_impl fuel e fs fresh) cache [] n None.

(* ------------------------------------------------------------------ *)
(* side conditions (those of the ties) *)
Definition env_ok (e : env) : Prop := forall v, e_tzdir e = Some v -> ~ In 0 v.
Definition file_ok (fuel : nat) (fs : list Z -> option (list Z)) (e : env) (n : list Z) : Prop :=
  FixedOffsetFromName n = None -> has_prefix str_libc n = false ->     (* only names that reach the file system *)
  Z.of_nat (length n) < 2 ^ 64 /\
  forall bs, fs (zone_path e n) = Some bs ->
    SourceDecodeProofs.bytes_ok bs /\ Z.of_nat (length bs) < 2 ^ 62 /\ (length bs + 1300 <= fuel)%nat.

Lemma default_source_eq e fs n : env_ok e -> Z.of_nat (length n) < 2 ^ 64 ->
  default_source e fs n = option_map (fun b => (b, [])) (fs (zone_path e n)).
Proof.
  intros He Hs. unfold default_source.
  rewrite (SourceNamesProofs.sn_FileOpen_tie (getenv_of e) fs n e eq_refl He Hs). reflexivity.
Qed.

Lemma load_name_default e fs n : env_ok e -> Z.of_nat (length n) < 2 ^ 64 ->
  load_name (fun k => option_map fst (default_source e fs k)) n =
  match FixedOffsetFromName n with
  | Some off => do z <- reset_to_builtin_utc off ;; OK (Some z)
  | None => match fs (zone_path e n) with None => OK None | Some bytes => load_bytes bytes end
  end.
Proof.
  intros He Hs. unfold load_name. rewrite (default_source_eq e fs n He Hs).
  destruct (FixedOffsetFromName n); [reflexivity|]. destruct (fs (zone_path e n)); reflexivity.
Qed.

Lemma fixed_off_bound n off : FixedOffsetFromName n = Some off -> -86400 <= off <= 86400.
Proof.
  intros H. apply Properties_C15.fromname_only_if in H. destruct H as [[_ ->]|[[_ ->]|H]]; [lia|lia|].
  destruct H as (sg & h1 & h2 & m1 & m2 & s1 & s2 & _ & _ & A & B & C & D & E & F & G). cbv zeta in G.
  destruct G as [G ->]. destruct (sg =? 45); lia.
Qed.

(* the oracles are consulted at the requested name only; a fixed-offset name does not reach the factory at all *)
Lemma sn_LoadName_ext fuel z ver (f f' : list Z -> option (list Z * list Z)) n :
  f n = f' n -> sn_LoadName fuel z ver f n = sn_LoadName fuel z ver f' n.
Proof. intros H. unfold sn_LoadName. rewrite H. reflexivity. Qed.

Lemma bind_OK {A B} (x : A) (f : A -> res B) : bind (OK x) f = f x.
Proof. reflexivity. Qed.

Lemma sn_LoadName_fixed fuel z ver (f f' : list Z -> option (list Z * list Z)) n off :
  FixedOffsetFromName n = Some off -> sn_LoadName fuel z ver f n = sn_LoadName fuel z ver f' n.
Proof.
  intros H. unfold sn_LoadName. cbv zeta. rewrite SourceFixedProofs.so_FixedOffsetFromName_tie.
  unfold SourceFixedProofs.from_name_result. rewrite H. rewrite !bind_OK. reflexivity.
Qed.

Lemma sn_LoadTimeZone_ext w (ni ni' : list Z -> nat * bool) m tr n tz :
  ni n = ni' n -> sn_LoadTimeZone w ni m tr n tz = sn_LoadTimeZone w ni' m tr n tz.
Proof. intros H. unfold sn_LoadTimeZone. rewrite H. reflexivity. Qed.

(* what the constructed zone is, against the model's kind *)
Definition kind_rel (k : zkind) (sk : skind) : Prop :=
  match k, sk with
  | KLibc, SLibc => True
  | KFixed off, SInfo z => exists z0, reset_to_builtin_utc off = OK z0 /\ z = SourceLoadProofs.load_result 0 z0
  | KInfo z0, SInfo z => z = SourceLoadProofs.load_result 0 z0
  | _, _ => False
  end.

(* TimeZoneIf::Make as composed from the source-derived Load(name) and FileZoneInfoSource::Open decides as make_zone *)
Theorem src_if_make_tie fuel e fs n : env_ok e -> file_ok fuel fs e n ->
  match make_zone fs e n with
  | OK (Some k) => exists sk, src_if_make fuel e fs n = OK (Some sk) /\ kind_rel k sk
  | OK None => src_if_make fuel e fs n = OK None
  | Err _ => True
  end.
Proof.
  intros He Hfo. unfold make_zone, src_if_make.
  destruct (has_prefix str_libc n) eqn:EL; [exists SLibc; split; [reflexivity|exact I]|].
  unfold src_info_make, SourceLoadProofs.fresh_zone.
  destruct (FixedOffsetFromName n) as [off|] eqn:EF.
  - rewrite (sn_LoadName_fixed fuel _ [] (default_source e fs) (fun _ => None) n off EF).
    assert (HF : forall bs v, (fun _ : list Z => @None (list Z * list Z)) n = Some (bs, v) ->
       SourceDecodeProofs.bytes_ok bs /\ Z.of_nat (length bs) < 2 ^ 62 /\ (length bs + 1300 <= fuel)%nat) by discriminate.
    pose proof (SourceNamesProofs.sn_LoadName_tie (fun _ => None) n [] 0 [] false 0 fuel HF) as T.
    unfold load_name in T. rewrite EF in T.
    destruct (Properties_C15.fixed_zone_ok off (fixed_off_bound n off EF)) as (z & R & _).
    rewrite R in T. cbn [bind] in T. destruct T as (ver' & T). rewrite T. cbn [bind option_map].
    eexists. split; [reflexivity|]. exists z. split; [exact R|reflexivity].
  - destruct (Hfo EF EL) as [Hs Hb].
    assert (HF : forall bs v, default_source e fs n = Some (bs, v) ->
       SourceDecodeProofs.bytes_ok bs /\ Z.of_nat (length bs) < 2 ^ 62 /\ (length bs + 1300 <= fuel)%nat).
    { intros bs v. rewrite (default_source_eq e fs n He Hs). destruct (fs (zone_path e n)) as [b|] eqn:Fp; [|discriminate].
      cbn [option_map]. intros Q. inversion Q; subst. apply Hb. reflexivity. }
    pose proof (SourceNamesProofs.sn_LoadName_tie (default_source e fs) n [] 0 [] false 0 fuel HF) as T.
    rewrite (load_name_default e fs n He Hs) in T. rewrite EF in T.
    destruct (fs (zone_path e n)) as [bs|].
    + destruct (load_bytes bs) as [[z|]|]; cbn [bind]; [| |exact I].
      * destruct T as (ver' & T). rewrite T. cbn [bind option_map]. eexists. split; reflexivity.
      * destruct T as (z' & ver' & T). rewrite T. reflexivity.
    + destruct T as (z' & ver' & T). rewrite T. reflexivity.
Qed.

(* ------------------------------------------------------------------ *)
(* observations: return value, is *tz the UTC impl, time_zone::name() of *tz.  [names] is name_ of the Impls
   constructed before the call; the Impl constructed by this call has identity [fresh] and name_ = n *)
Definition name_of (names : nat -> list Z) (fresh : nat) (n : list Z) (p : option nat) : list Z :=
  match p with
  | Some O => str_UTC'
  | Some id => if Nat.eqb id fresh then n else names id
  | None => str_UTC'
  end.
Definition observe (names : nat -> list Z) (fresh : nat) (n : list Z)
  (r : bool * option nat * option imap * list lk_event) : bool * bool * list Z :=
  let '(ok, p, _, _) := r in (ok, optnat_eqb p utc_impl_ptr, name_of names fresh n p).
Definition is_utc_kind (k : zkind) : bool := match k with KUtc => true | _ => false end.
Definition model_obs (x : bool * list Z * zkind) : bool * bool * list Z :=
  let '(b, nm, k) := x in (b, is_utc_kind k, nm).

(* the cache agrees with what the model says of the present environment and file system: a name is mapped to the
   UTC impl exactly when loading it fails, and a cached Impl carries the name it is cached under; [fresh] is not
   in use *)
Definition cache_coherent (fs : list Z -> option (list Z)) (e : env) (names : nat -> list Z) (fresh : nat)
  (c : list (name * impl_id)) : Prop :=
  forall n id, cache_find c n = Some id ->
    id <> fresh /\
    match NameRes.load_time_zone fs e n with
    | OK (b, _, _) => b = negb (Nat.eqb id utc_id) /\ (id <> utc_id -> names id = n)
    | Err _ => True
    end.

Lemma ltz_nonutc fs e n : FixedOffsetFromName n <> Some 0 ->
  NameRes.load_time_zone fs e n =
  (do r <- make_zone fs e n ;;
   match r with Some k => OK (true, n, k) | None => OK (false, str_UTC', KUtc) end).
Proof. intros H. unfold NameRes.load_time_zone. destruct (FixedOffsetFromName n) as [[|q|q]|]; try reflexivity. contradiction H; reflexivity. Qed.

Lemma match_nonutc {A} n (a b : A) : FixedOffsetFromName n <> Some 0 ->
  match FixedOffsetFromName n with Some 0 => a | _ => b end = b.
Proof. intros H. destruct (FixedOffsetFromName n) as [[|q|q]|]; try reflexivity. contradiction H; reflexivity. Qed.

Lemma make_zone_not_utc fs e n k : make_zone fs e n = OK (Some k) -> is_utc_kind k = false.
Proof.
  unfold make_zone. destruct (has_prefix str_libc n); [intros Q; inversion Q; reflexivity|].
  destruct (FixedOffsetFromName n); [intros Q; inversion Q; reflexivity|].
  destruct (fs (zone_path e n)) as [bs|]; [|discriminate].
  destruct (load_bytes bs) as [[z|]|]; cbn [bind]; intros Q; inversion Q; reflexivity.
Qed.

(* ------------------------------------------------------------------ *)
(* 1. load_time_zone, whole *)
Theorem src_load_time_zone_whole fuel e fs fresh names m c n :
  env_ok e -> file_ok fuel fs e n -> fresh <> utc_id ->
  SourceCacheProofs.cache_rep m c -> cache_coherent fs e names fresh c ->
  match NameRes.load_time_zone fs e n with
  | OK x => exists r, sn_load_time_zone_whole fuel e fs fresh m n = OK r /\ observe names fresh n r = model_obs x
  | Err _ => True
  end.
Proof.
  intros He Hf Hfr R Hcoh. unfold sn_load_time_zone_whole.
  assert (Hf' : fst (whole_new_impl fuel e fs fresh n) <> utc_id) by exact Hfr.
  rewrite (SourceCacheProofs.sn_LoadTimeZone_tie (fun _ m => m) (whole_new_impl fuel e fs fresh) m [] n None c c R R Hf').
  assert (G : FixedOffsetFromName n <> Some 0 ->
    match NameRes.load_time_zone fs e n with
    | OK x => exists r,
       match FixedOffsetFromName n with
       | Some 0 => OK (true, Some utc_id, m, [])
       | _ => match cache_find c n with
              | Some id => OK (negb (Nat.eqb id utc_id), Some id, m, [] ++ [LkLock; LkUnlock])
              | None => let '(r, p, c3) := SourceCacheProofs.s3_result c n (fst (whole_new_impl fuel e fs fresh n)) (snd (whole_new_impl fuel e fs fresh n)) in
                        OK (r, p, Some (SourceCacheProofs.imap_of c3), [] ++ [LkLock; LkUnlock; LkLock; LkUnlock])
              end
       end = OK r /\ observe names fresh n r = model_obs x
    | Err _ => True
    end).
  { intros HF. rewrite (match_nonutc n _ _ HF).
    pose proof (src_if_make_tie fuel e fs n He Hf) as T. pose proof (Hcoh n) as Hc.
    rewrite (ltz_nonutc fs e n HF) in *.
    destruct (cache_find c n) as [id|] eqn:C.
    - destruct (Hc id eq_refl) as [Hid Hm]. clear Hc.
      destruct (make_zone fs e n) as [[k|]|] eqn:MZ; cbn [bind] in *; [| |exact I].
      + destruct Hm as [Hb Hn]. eexists. split; [reflexivity|].
        destruct id as [|id']; [discriminate Hb|].
        unfold observe, model_obs, name_of. rewrite (make_zone_not_utc fs e n k MZ).
        replace (Nat.eqb (S id') fresh) with false by (symmetry; apply Nat.eqb_neq; exact Hid).
        rewrite (Hn ltac:(discriminate)). reflexivity.
      + destruct Hm as [Hb _]. eexists. split; [reflexivity|].
        destruct id as [|id']; [reflexivity|discriminate Hb].
    - unfold SourceCacheProofs.s3_result. rewrite C. cbn [fst snd whole_new_impl].
      destruct (make_zone fs e n) as [[k|]|] eqn:MZ; cbn [bind]; [| |exact I].
      + destruct T as (sk & T & _). rewrite T. eexists. split; [reflexivity|].
        unfold observe, model_obs, name_of. rewrite (make_zone_not_utc fs e n k MZ).
        destruct fresh as [|f]; [contradiction Hfr; reflexivity|]. rewrite Nat.eqb_refl. reflexivity.
      + rewrite T. eexists. split; reflexivity. }
  destruct (FixedOffsetFromName n) as [[|q|q]|] eqn:EF; try (apply G; discriminate).
  unfold NameRes.load_time_zone. rewrite EF. eexists. split; reflexivity.
Qed.

Print Assumptions src_if_make_tie.
Print Assumptions src_load_time_zone_whole.

(* ------------------------------------------------------------------ *)
(* the decision rules of Properties_C19.v, re-derived for the SOURCE-DERIVED composition *)
Lemma src_transfer fuel e fs fresh names m c n x :
  env_ok e -> file_ok fuel fs e n -> fresh <> utc_id ->
  SourceCacheProofs.cache_rep m c -> cache_coherent fs e names fresh c ->
  NameRes.load_time_zone fs e n = OK x ->
  exists r, sn_load_time_zone_whole fuel e fs fresh m n = OK r /\ observe names fresh n r = model_obs x.
Proof.
  intros He Hf Hfr R Hc H. pose proof (src_load_time_zone_whole fuel e fs fresh names m c n He Hf Hfr R Hc) as W.
  rewrite H in W. exact W.
Qed.

(* "UTC" and "UTC0": internal, whatever the environment, the file system and the cache (no side condition at all) *)
Theorem src_utc_names_internal fuel e fs fresh m :
  sn_load_time_zone_whole fuel e fs fresh m str_UTC' = OK (true, Some utc_id, m, []) /\
  sn_load_time_zone_whole fuel e fs fresh m [85; 84; 67; 48] = OK (true, Some utc_id, m, []).
Proof. split; apply SourceCacheProofs.sn_LoadTimeZone_utc; reflexivity. Qed.

Lemma file_ok_fixed fuel fs e n off : FixedOffsetFromName n = Some off -> file_ok fuel fs e n.
Proof. intros H Q. congruence. Qed.

(* fixed-offset names: internal - success, not the UTC impl, reports the requested name; the file system is not
   consulted: the whole result is the same for every [fs'] (no side condition on files) *)
Theorem src_fixed_names_internal fuel e fs fresh names m c n off :
  FixedOffsetFromName n = Some off -> off <> 0 -> has_prefix str_libc n = false ->
  env_ok e -> fresh <> utc_id -> SourceCacheProofs.cache_rep m c -> cache_coherent fs e names fresh c ->
  (exists r, sn_load_time_zone_whole fuel e fs fresh m n = OK r /\ observe names fresh n r = (true, false, n)) /\
  (forall fs', sn_load_time_zone_whole fuel e fs' fresh m n = sn_load_time_zone_whole fuel e fs fresh m n) /\
  (exists z0, reset_to_builtin_utc off = OK z0 /\
     forall fs', src_if_make fuel e fs' n = OK (Some (SInfo (SourceLoadProofs.load_result 0 z0)))).
Proof.
  intros EF N L He Hfr R Hc. split; [|split].
  - apply (src_transfer fuel e fs fresh names m c n (true, n, KFixed off) He (file_ok_fixed fuel fs e n off EF) Hfr R Hc).
    apply Properties_C19.c19_fixed_names_internal; assumption.
  - intros fs'. unfold sn_load_time_zone_whole. apply sn_LoadTimeZone_ext.
    unfold whole_new_impl, src_if_make, src_info_make.
    rewrite (sn_LoadName_fixed fuel _ [] (default_source e fs') (default_source e fs) n off EF). reflexivity.
  - destruct (Properties_C15.fixed_zone_ok off (fixed_off_bound n off EF)) as (z & Rz & _). exists z. split; [exact Rz|].
    intros fs'. pose proof (src_if_make_tie fuel e fs' n He (file_ok_fixed fuel fs' e n off EF)) as T.
    unfold make_zone in T. rewrite L, EF in T. destruct T as (sk & T & K). rewrite T.
    destruct sk as [|z']; [contradiction K|]. cbn [kind_rel] in K. destruct K as (z0 & Rz0 & ->).
    rewrite Rz in Rz0. inversion Rz0. reflexivity.
Qed.

(* the file system is consulted at zone_path only *)
Lemma whole_fs_path fuel e fs fs' fresh m n : env_ok e -> Z.of_nat (length n) < 2 ^ 64 ->
  fs (zone_path e n) = fs' (zone_path e n) ->
  sn_load_time_zone_whole fuel e fs fresh m n = sn_load_time_zone_whole fuel e fs' fresh m n.
Proof.
  intros He Hs H. unfold sn_load_time_zone_whole. apply sn_LoadTimeZone_ext.
  unfold whole_new_impl, src_if_make, src_info_make.
  rewrite (sn_LoadName_ext fuel _ [] (default_source e fs) (default_source e fs') n); [reflexivity|].
  rewrite !default_source_eq by assumption. rewrite H. reflexivity.
Qed.

(* "name n is looked for at [path]": the source-derived Open hands exactly [path] to fopen, and the whole
   load_time_zone depends on the file system through that one path only *)
Definition opens_exactly (fuel : nat) (e : env) (n path : list Z) : Prop :=
  (forall fs, sn_FileOpen (getenv_of e) fs n = OK (option_map (fun b => (b, [])) (fs path))) /\
  (forall fs fs' fresh m, fs path = fs' path ->
     sn_load_time_zone_whole fuel e fs fresh m n = sn_load_time_zone_whole fuel e fs' fresh m n).

Lemma src_path_rule fuel e n path : env_ok e -> Z.of_nat (length n) < 2 ^ 64 ->
  zone_path e n = path -> opens_exactly fuel e n path.
Proof.
  intros He Hs <-. split.
  - intros fs. apply (SourceNamesProofs.sn_FileOpen_tie (getenv_of e) fs n e eq_refl He Hs).
  - intros fs fs' fresh m H. apply whole_fs_path; assumption.
Qed.

Theorem src_absolute_verbatim fuel e rest : env_ok e -> Z.of_nat (length (47 :: rest)) < 2 ^ 64 ->
  opens_exactly fuel e (47 :: rest) (c_str (47 :: rest)).
Proof. intros He Hs. apply src_path_rule; [assumption|assumption|apply Properties_C19.c19_absolute_verbatim]. Qed.

Theorem src_relative_under_tzdir fuel e c d n : env_ok e -> Z.of_nat (length n) < 2 ^ 64 ->
  e_tzdir e = Some (c :: d) -> has_prefix str_file n = false ->
  (match n with 47 :: _ => False | _ => True end) ->
  opens_exactly fuel e n (c_str ((c :: d) ++ [47] ++ n)).
Proof. intros He Hs A B C. apply src_path_rule; [assumption|assumption|apply Properties_C19.c19_relative_under_tzdir; assumption]. Qed.

Theorem src_tzdir_default fuel e n : env_ok e -> Z.of_nat (length n) < 2 ^ 64 ->
  (e_tzdir e = None \/ e_tzdir e = Some []) -> has_prefix str_file n = false ->
  (match n with 47 :: _ => False | _ => True end) ->
  opens_exactly fuel e n (c_str (default_tzdir ++ [47] ++ n)).
Proof. intros He Hs A B C. apply src_path_rule; [assumption|assumption|apply Properties_C19.c19_tzdir_default; assumption]. Qed.

Theorem src_file_prefix_stripped fuel e rest : env_ok e -> Z.of_nat (length (str_file ++ rest)) < 2 ^ 64 ->
  has_prefix str_file rest = false ->
  opens_exactly fuel e (str_file ++ rest) (zone_path e rest).
Proof.
  intros He Hs A. apply src_path_rule; [assumption|assumption|].
  destruct (file_prefix_stripped e rest) as [H|H]; [|congruence]. rewrite H. reflexivity.
Qed.

Theorem src_unresolvable_is_utc_false fuel e fs fresh names m c n :
  env_ok e -> file_ok fuel fs e n -> fresh <> utc_id ->
  SourceCacheProofs.cache_rep m c -> cache_coherent fs e names fresh c ->
  FixedOffsetFromName n = None -> has_prefix str_libc n = false -> fs (zone_path e n) = None ->
  exists r, sn_load_time_zone_whole fuel e fs fresh m n = OK r /\ observe names fresh n r = (false, true, str_UTC').
Proof.
  intros He Hf Hfr R Hc A B C. apply (src_transfer fuel e fs fresh names m c n (false, str_UTC', KUtc) He Hf Hfr R Hc).
  apply Properties_C19.c19_unresolvable_is_utc_false; assumption.
Qed.

Theorem src_rejected_data_is_utc_false fuel e fs fresh names m c n bytes :
  env_ok e -> file_ok fuel fs e n -> fresh <> utc_id ->
  SourceCacheProofs.cache_rep m c -> cache_coherent fs e names fresh c ->
  FixedOffsetFromName n = None -> has_prefix str_libc n = false ->
  fs (zone_path e n) = Some bytes -> load_bytes bytes = OK None ->
  exists r, sn_load_time_zone_whole fuel e fs fresh m n = OK r /\ observe names fresh n r = (false, true, str_UTC').
Proof.
  intros He Hf Hfr R Hc A B C D. apply (src_transfer fuel e fs fresh names m c n (false, str_UTC', KUtc) He Hf Hfr R Hc).
  apply (Properties_C19.c19_rejected_data_is_utc_false fs e n bytes); assumption.
Qed.

Theorem src_loaded_reports_requested_name fuel e fs fresh names m c n bytes z :
  env_ok e -> file_ok fuel fs e n -> fresh <> utc_id ->
  SourceCacheProofs.cache_rep m c -> cache_coherent fs e names fresh c ->
  FixedOffsetFromName n = None -> has_prefix str_libc n = false ->
  fs (zone_path e n) = Some bytes -> load_bytes bytes = OK (Some z) ->
  (exists r, sn_load_time_zone_whole fuel e fs fresh m n = OK r /\ observe names fresh n r = (true, false, n)) /\
  src_if_make fuel e fs n = OK (Some (SInfo (SourceLoadProofs.load_result 0 z))).
Proof.
  intros He Hf Hfr R Hc A B C D. split.
  - apply (src_transfer fuel e fs fresh names m c n (true, n, KInfo z) He Hf Hfr R Hc).
    apply (Properties_C19.c19_loaded_reports_requested_name fs e n bytes z); assumption.
  - pose proof (src_if_make_tie fuel e fs n He Hf) as T. unfold make_zone in T. rewrite B, A, C, D in T. cbn [bind] in T.
    destruct T as (sk & T & K). rewrite T. destruct sk as [|z']; [contradiction K|]. cbn [kind_rel] in K. rewrite K. reflexivity.
Qed.

(* ------------------------------------------------------------------ *)
(* 2. local_time_zone(), whole: load_time_zone__ := the composition above.  The time_zone value threaded through
   load_time_zone__ carries the global state with it: the impl pointer, time_zone_map, the mutex trace *)
Definition wstate : Type := (option nat * option imap * list lk_event)%type.
Definition whole_load (fuel : nat) (e : env) (fs : list Z -> option (list Z)) (fresh : nat) (n : list Z) (s : wstate) : bool * wstate :=
  let '(tz, m, tr) := s in
  match sn_LoadTimeZone (fun _ m => m) (whole_new_impl fuel e fs fresh) m tr n tz with
  | OK (b, p, m', tr') => (b, (p, m', tr'))
  | Err _ => (false, s)
  end.
Definition sn_local_time_zone_whole (fuel : nat) (e : env) (fs : list Z -> option (list Z)) (fresh : nat) (cache : option imap) : res wstate :=
  sn_local_time_zone (getenv_of e) wstate (None, cache, []) (whole_load fuel e fs fresh).

(* unconditionally: local_time_zone() is load_time_zone(local_zone_name, &tz) on a default-constructed tz *)
Lemma local_loads fuel e fs fresh m :
  sn_local_time_zone_whole fuel e fs fresh m = OK (snd (whole_load fuel e fs fresh (local_zone_name e) (None, m, []))).
Proof. apply SourceNamesProofs.sn_local_time_zone_tie; reflexivity. Qed.

Theorem src_local_time_zone_whole fuel e fs fresh names m c :
  env_ok e -> file_ok fuel fs e (local_zone_name e) -> fresh <> utc_id ->
  SourceCacheProofs.cache_rep m c -> cache_coherent fs e names fresh c ->
  match NameRes.local_time_zone fs e with
  | OK x => exists b p m' tr',
      sn_load_time_zone_whole fuel e fs fresh m (local_zone_name e) = OK (b, p, m', tr') /\
      sn_local_time_zone_whole fuel e fs fresh m = OK (p, m', tr') /\
      observe names fresh (local_zone_name e) (b, p, m', tr') = model_obs x
  | Err _ => True
  end.
Proof.
  intros He Hf Hfr R Hc. rewrite local_loads.
  pose proof (src_load_time_zone_whole fuel e fs fresh names m c (local_zone_name e) He Hf Hfr R Hc) as W.
  unfold NameRes.local_time_zone. destruct (NameRes.load_time_zone fs e (local_zone_name e)) as [x|]; [|exact I].
  destruct W as ([[[b p] m'] tr'] & W & O). exists b, p, m', tr'. split; [exact W|]. split; [|exact O].
  unfold whole_load. unfold sn_load_time_zone_whole in W. rewrite W. reflexivity.
Qed.

(* which name is loaded *)
Theorem src_local_follows_tz fuel e fs fresh m v : e_tz e = Some v ->
  (match v with 58 :: _ => False | _ => True end) -> list_eqb v str_localtime = false ->
  sn_local_time_zone_whole fuel e fs fresh m = OK (snd (whole_load fuel e fs fresh v (None, m, []))).
Proof. intros A B C. rewrite local_loads, (Properties_C19.c19_local_follows_tz e v A B C). reflexivity. Qed.

Theorem src_local_colon_once fuel e fs fresh m r : e_tz e = Some (58 :: r) -> list_eqb r str_localtime = false ->
  sn_local_time_zone_whole fuel e fs fresh m = OK (snd (whole_load fuel e fs fresh r (None, m, []))).
Proof. intros A B. rewrite local_loads, (Properties_C19.c19_local_colon_once e r A B). reflexivity. Qed.

Theorem src_local_localtime_env fuel e fs fresh m :
  (e_tz e = None \/ e_tz e = Some str_localtime \/ e_tz e = Some colon_localtime) ->
  sn_local_time_zone_whole fuel e fs fresh m
  = OK (snd (whole_load fuel e fs fresh (match e_localtime e with Some v => v | None => etc_localtime end) (None, m, []))).
Proof. intros A. rewrite local_loads, (Properties_C19.c19_local_localtime_env e A). reflexivity. Qed.

Theorem src_local_fallback_utc fuel e fs fresh names m c :
  env_ok e -> file_ok fuel fs e (local_zone_name e) -> fresh <> utc_id ->
  SourceCacheProofs.cache_rep m c -> cache_coherent fs e names fresh c ->
  FixedOffsetFromName (local_zone_name e) = None -> has_prefix str_libc (local_zone_name e) = false ->
  fs (zone_path e (local_zone_name e)) = None ->
  exists m' tr', sn_local_time_zone_whole fuel e fs fresh m = OK (Some utc_id, m', tr').
Proof.
  intros He Hf Hfr R Hc A B C.
  pose proof (src_local_time_zone_whole fuel e fs fresh names m c He Hf Hfr R Hc) as W.
  rewrite (Properties_C19.c19_local_fallback_utc fs e A B C) in W.
  destruct W as (b & p & m' & tr' & _ & W & O). exists m', tr'. rewrite W.
  unfold observe, model_obs in O. cbn [is_utc_kind] in O.
  destruct p as [[|id]|]; [reflexivity|discriminate O|discriminate O].
Qed.

Print Assumptions src_utc_names_internal.
Print Assumptions src_fixed_names_internal.
Print Assumptions src_absolute_verbatim.
Print Assumptions src_relative_under_tzdir.
Print Assumptions src_tzdir_default.
Print Assumptions src_file_prefix_stripped.
Print Assumptions src_unresolvable_is_utc_false.
Print Assumptions src_rejected_data_is_utc_false.
Print Assumptions src_loaded_reports_requested_name.
Print Assumptions src_local_time_zone_whole.
Print Assumptions src_local_follows_tz.
Print Assumptions src_local_colon_once.
Print Assumptions src_local_localtime_env.
Print Assumptions src_local_fallback_utc.

Lemma option_Z_dec (o : option Z) : {o = Some 0} + {o <> Some 0}.
Proof. destruct o as [[|q|q]|]; [left; reflexivity|right; discriminate..]. Qed.

(* ------------------------------------------------------------------ *)
(* the cache invariant is inductive: it holds of the empty cache and every call re-establishes it (for the heap
   extended with the Impl this call constructed, and any identity not yet in use) *)
Lemma coherent_weaken fs e names fresh fresh' n c :
  cache_coherent fs e names fresh c -> (forall k id, cache_find c k = Some id -> id <> fresh') ->
  cache_coherent fs e (fun id => if Nat.eqb id fresh then n else names id) fresh' c.
Proof.
  intros Hc Hn k id H. destruct (Hc k id H) as [A B]. split; [exact (Hn k id H)|].
  destruct (NameRes.load_time_zone fs e k) as [[[b nm] kd]|]; [|exact I]. destruct B as [B1 B2]. split; [exact B1|].
  intros U. replace (Nat.eqb id fresh) with false by (symmetry; apply Nat.eqb_neq; exact A). exact (B2 U).
Qed.

Theorem src_load_time_zone_whole_preserves fuel e fs fresh names m c n x :
  env_ok e -> file_ok fuel fs e n -> fresh <> utc_id ->
  SourceCacheProofs.cache_rep m c -> cache_coherent fs e names fresh c ->
  NameRes.load_time_zone fs e n = OK x ->
  exists b p m' tr' c', sn_load_time_zone_whole fuel e fs fresh m n = OK (b, p, m', tr') /\
    SourceCacheProofs.cache_rep m' c' /\
    forall fresh', fresh' <> fresh -> fresh' <> utc_id -> (forall k id, cache_find c k = Some id -> id <> fresh') ->
      cache_coherent fs e (fun id => if Nat.eqb id fresh then n else names id) fresh' c'.
Proof.
  intros He Hf Hfr R Hcoh Hx. unfold sn_load_time_zone_whole.
  assert (Hf' : fst (whole_new_impl fuel e fs fresh n) <> utc_id) by exact Hfr.
  rewrite (SourceCacheProofs.sn_LoadTimeZone_tie (fun _ m => m) (whole_new_impl fuel e fs fresh) m [] n None c c R R Hf').
  destruct (option_Z_dec (FixedOffsetFromName n)) as [EF|HF].
  - rewrite EF. exists true, (Some utc_id), m, [], c. split; [reflexivity|]. split; [exact R|].
    intros fresh' _ _ Hn. apply coherent_weaken; assumption.
  - rewrite (match_nonutc n _ _ HF). destruct (cache_find c n) as [id|] eqn:C.
    + eexists _, _, m, _, c. split; [reflexivity|]. split; [exact R|].
      intros fresh' _ _ Hn. apply coherent_weaken; assumption.
    + unfold SourceCacheProofs.s3_result. rewrite C. cbn [fst snd whole_new_impl].
      pose proof (src_if_make_tie fuel e fs n He Hf) as T. rewrite (ltz_nonutc fs e n HF) in Hx.
      destruct (make_zone fs e n) as [[k|]|] eqn:MZ; cbn [bind] in Hx; [| |discriminate Hx].
      * destruct T as (sk & T & _). rewrite T. eexists _, _, _, _, ((n, fresh) :: c). split; [reflexivity|]. split; [left; reflexivity|].
        intros fresh' N1 N2 Hn k' id H. cbn [cache_find] in H. destruct (list_eqb n k') eqn:EK.
        -- apply list_eqb_eq in EK. subst k'. injection H as <-. split; [intros Q; apply N1; symmetry; exact Q|].
           rewrite (ltz_nonutc fs e n HF), MZ. cbn [bind]. split.
           ++ destruct fresh; [contradiction Hfr; reflexivity|reflexivity].
           ++ intros _. rewrite Nat.eqb_refl. reflexivity.
        -- exact (coherent_weaken fs e names fresh fresh' n c Hcoh Hn k' id H).
      * rewrite T. eexists _, _, _, _, ((n, utc_id) :: c). split; [reflexivity|]. split; [left; reflexivity|].
        intros fresh' N1 N2 Hn k' id H. cbn [cache_find] in H. destruct (list_eqb n k') eqn:EK.
        -- apply list_eqb_eq in EK. subst k'. injection H as <-. split; [intros Q; apply N2; symmetry; exact Q|].
           rewrite (ltz_nonutc fs e n HF), MZ. cbn [bind]. split; [reflexivity|]. intros Q; contradiction Q; reflexivity.
        -- exact (coherent_weaken fs e names fresh fresh' n c Hcoh Hn k' id H).
Qed.
Print Assumptions src_load_time_zone_whole_preserves.

(* ------------------------------------------------------------------ *)
(* non-vacuity: a tiny file system (one valid TZif file reachable under /usr/share/zoneinfo and under /tz, one
   truncated file), $TZDIR unset / empty / set *)
Module Ex.
Definition s_EST : list Z := [69; 83; 84].
Definition s_Broken : list Z := [66; 114; 111; 107; 101; 110].
Definition s_Missing : list Z := [77; 105; 115; 115; 105; 110; 103].
Definition s_tz : list Z := [47; 116; 122].                                   (* "/tz" *)
Definition p_default_EST : list Z := default_tzdir ++ [47] ++ s_EST.          (* "/usr/share/zoneinfo/EST" *)
Definition p_tz_EST : list Z := s_tz ++ [47] ++ s_EST.                        (* "/tz/EST" *)
Definition p_tz_Broken : list Z := s_tz ++ [47] ++ s_Broken.                  (* "/tz/Broken" *)
Definition s_fixed : list Z := [70;105;120;101;100;47;85;84;67;43;48;49;58;48;48;58;48;48].  (* "Fixed/UTC+01:00:00" *)
Definition fs (p : list Z) : option (list Z) :=
  if list_eqb p p_default_EST then Some FinishZone.est_bytes
  else if list_eqb p p_tz_EST then Some FinishZone.est_bytes
  else if list_eqb p p_tz_Broken then Some (firstn 43 FinishZone.est_bytes)
  else None.
Definition nofs (p : list Z) : option (list Z) := None.
Definition e_unset := mkEnv None None None.
Definition e_empty := mkEnv (Some []) None None.
Definition e_set := mkEnv (Some s_tz) None None.
Definition miss4 := [LkLock; LkUnlock; LkLock; LkUnlock].

Example whole_examples :
  (* TZDIR unset / empty: /usr/share/zoneinfo/EST; set: /tz/EST *)
  sn_load_time_zone_whole 3000 e_unset fs 1 None s_EST = OK (true, Some 1%nat, Some [(s_EST, Some 1%nat)], miss4) /\
  sn_load_time_zone_whole 3000 e_empty fs 1 None s_EST = OK (true, Some 1%nat, Some [(s_EST, Some 1%nat)], miss4) /\
  sn_load_time_zone_whole 3000 e_set fs 1 None s_EST = OK (true, Some 1%nat, Some [(s_EST, Some 1%nat)], miss4) /\
  (* rejected data, missing file: false, UTC impl (and cached as such) *)
  sn_load_time_zone_whole 3000 e_set fs 1 None s_Broken = OK (false, Some utc_id, Some [(s_Broken, Some utc_id)], miss4) /\
  sn_load_time_zone_whole 3000 e_set fs 1 None s_Missing = OK (false, Some utc_id, Some [(s_Missing, Some utc_id)], miss4) /\
  sn_load_time_zone_whole 3000 e_unset fs 1 None s_Broken = OK (false, Some utc_id, Some [(s_Broken, Some utc_id)], miss4) /\
  (* absolute path, "file:" prefix *)
  sn_load_time_zone_whole 3000 e_unset fs 1 None p_tz_EST = OK (true, Some 1%nat, Some [(p_tz_EST, Some 1%nat)], miss4) /\
  sn_load_time_zone_whole 3000 e_set fs 1 None (str_file ++ s_EST) = OK (true, Some 1%nat, Some [(str_file ++ s_EST, Some 1%nat)], miss4) /\
  (* fixed-offset name with no file system at all; UTC names *)
  sn_load_time_zone_whole 3000 e_unset nofs 1 None s_fixed = OK (true, Some 1%nat, Some [(s_fixed, Some 1%nat)], miss4) /\
  sn_load_time_zone_whole 3000 e_unset nofs 1 None str_UTC' = OK (true, Some utc_id, None, []) /\
  (* second call: a hit *)
  sn_load_time_zone_whole 3000 e_set fs 2 (Some [(s_EST, Some 1%nat)]) s_EST
    = OK (true, Some 1%nat, Some [(s_EST, Some 1%nat)], [LkLock; LkUnlock]).
Proof. vm_compute. repeat split; reflexivity. Qed.

Example local_examples :
  (* TZ=":EST", TZDIR=/tz *)
  sn_local_time_zone_whole 3000 (mkEnv (Some s_tz) (Some (58 :: s_EST)) None) fs 1 None
    = OK (Some 1%nat, Some [(s_EST, Some 1%nat)], miss4) /\
  (* TZ="::EST": only one ':' is stripped; ":EST" is not found -> UTC *)
  sn_local_time_zone_whole 3000 (mkEnv (Some s_tz) (Some (58 :: 58 :: s_EST)) None) fs 1 None
    = OK (Some utc_id, Some [(58 :: s_EST, Some utc_id)], miss4) /\
  (* TZ unset, LOCALTIME unset: /etc/localtime, absent here -> UTC *)
  sn_local_time_zone_whole 3000 e_set fs 1 None = OK (Some utc_id, Some [(etc_localtime, Some utc_id)], miss4) /\
  (* TZ="localtime", LOCALTIME="/tz/EST" *)
  sn_local_time_zone_whole 3000 (mkEnv None (Some str_localtime) (Some p_tz_EST)) fs 1 None
    = OK (Some 1%nat, Some [(p_tz_EST, Some 1%nat)], miss4) /\
  (* TZ="UTC" *)
  sn_local_time_zone_whole 3000 (mkEnv None (Some str_UTC') None) fs 1 None = OK (Some utc_id, None, []).
Proof. vm_compute. repeat split; reflexivity. Qed.

(* the hypotheses of the whole theorems hold here, and the model is not in its Err case *)
Example hypotheses_satisfiable :
  env_ok e_set /\ file_ok 3000 fs e_set s_EST /\ file_ok 3000 fs e_set s_Broken /\ file_ok 3000 fs e_unset s_EST /\
  SourceCacheProofs.cache_rep None [] /\ cache_coherent fs e_set (fun _ => []) 1 [] /\
  (match NameRes.load_time_zone fs e_set s_EST with OK (true, n, KInfo _) => list_eqb n s_EST | _ => false end) = true /\
  NameRes.load_time_zone fs e_set s_Broken = OK (false, str_UTC', KUtc).
Proof.
  assert (B : forall k bs, firstn k FinishZone.est_bytes = bs ->
    SourceDecodeProofs.bytes_ok bs /\ Z.of_nat (length bs) < 2 ^ 62 /\ (length bs + 1300 <= 3000)%nat).
  { intros k bs <-. assert (L : (length (firstn k FinishZone.est_bytes) <= 141)%nat).
    { rewrite firstn_length. assert (length FinishZone.est_bytes = 141%nat) by (vm_compute; reflexivity). lia. }
    split; [|split; [|lia]].
    - unfold SourceDecodeProofs.bytes_ok. apply Forall_forall. intros x Hx. assert (Hx' : In x FinishZone.est_bytes) by (rewrite <- (firstn_skipn k FinishZone.est_bytes); apply in_or_app; left; exact Hx). clear Hx. rename Hx' into Hx.
      assert (Q : SourceDecodeProofs.bytes_ok FinishZone.est_bytes) by (apply SourceLoadProofs.bytes_ok_b; vm_compute; reflexivity).
      unfold SourceDecodeProofs.bytes_ok in Q. rewrite Forall_forall in Q. apply Q. exact Hx.
    - assert (2 ^ 62 = 4611686018427387904) by reflexivity. lia. }
  assert (S3 : forall n : list Z, (length n <= 10)%nat -> Z.of_nat (length n) < 2 ^ 64).
  { intros n H. assert (2 ^ 64 = 18446744073709551616) by reflexivity. lia. }
  split; [intros v Q; inversion Q; subst; intros [H|[H|[H|[]]]]; discriminate H|].
  split; [intros _ _; split; [apply S3; cbn; lia|intros bs H; apply (B 141%nat); assert (Q : fs (zone_path e_set s_EST) = Some (firstn 141 FinishZone.est_bytes)) by (vm_compute; reflexivity);
          rewrite Q in H; injection H as <-; reflexivity]|].
  split; [intros _ _; split; [apply S3; cbn; lia|intros bs H; apply (B 43%nat); assert (Q : fs (zone_path e_set s_Broken) = Some (firstn 43 FinishZone.est_bytes)) by (vm_compute; reflexivity);
          rewrite Q in H; injection H as <-; reflexivity]|].
  split; [intros _ _; split; [apply S3; cbn; lia|intros bs H; apply (B 141%nat); assert (Q : fs (zone_path e_unset s_EST) = Some (firstn 141 FinishZone.est_bytes)) by (vm_compute; reflexivity);
          rewrite Q in H; injection H as <-; reflexivity]|].
  split; [right; split; reflexivity|].
  split; [intros n id H; discriminate H|].
  split; vm_compute; reflexivity.
Qed.
End Ex.
