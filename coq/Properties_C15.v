(* Properties_C15.v — C15: fixed-offset names (helpers part; the zone part is
   in Properties_C15z.v once the zone model is in). *)
From CCTZ Require Import Base SrcConstants FixedImpl FixedProofs.
Local Open Scope Z_scope.

(* finite domain, exhausted inside the kernel: every offset in [-90000, 90000] *)
Theorem fixed_exhaustive : forall off, -90000 <= off <= 90000 ->
  FixedOffsetToName off = OK (fixed_name_spec off) /\
  FixedOffsetToAbbr off = OK (fixed_abbr_spec off) /\
  FixedOffsetFromName (fixed_name_spec off) =
    Some (if (off <? -86400) || (86400 <? off) then 0 else off).
Proof. exact fixed_exhaustive_lemma. Qed.
Print Assumptions fixed_exhaustive.

(* beyond the swept range (any Z): UTC *)
Theorem fixed_out_of_range : forall off, off < -86400 \/ 86400 < off ->
  FixedOffsetToName off = OK str_UTC /\ FixedOffsetToAbbr off = OK str_UTC.
Proof. exact fixed_out_of_range_lemma. Qed.
Print Assumptions fixed_out_of_range.

(* over ALL byte strings: accepted iff "UTC", "UTC0" or exactly the shape *)
Theorem fromname_iff_spec : forall s, FixedOffsetFromName s = fixed_from_spec s.
Proof. exact fromname_iff_spec_lemma. Qed.
Print Assumptions fromname_iff_spec.

Theorem fromname_only_if : forall s off, FixedOffsetFromName s = Some off ->
  (s = str_UTC /\ off = 0) \/ (s = str_UTC0 /\ off = 0) \/ fixed_shape s off.
Proof. exact fromname_only_if_lemma. Qed.
Print Assumptions fromname_only_if.

From CCTZ Require Import Base Cal CivilImpl PosixImpl FixedImpl ZoneLoad ZoneImpl ZoneZ ZoneHist ZoneRefineDefs ZoneRefine.

(* every built-in fixed-offset zone (|off| <= 24h, including exactly 24h)
   satisfies the certificate, is not extended, and has the documented
   abbreviation: with break_refines / make_refines this is "lookup reports
   exactly that offset, no DST and the numeric abbreviation at EVERY instant,
   without overflow" *)
Theorem fixed_zone_ok : forall off, -86400 <= off <= 86400 ->
  exists z, reset_to_builtin_utc off = OK z /\ zone_ok z = true /\ z_extended z = false /\
    (forall t, zoff (abs_zone z) t = off) /\
    (forall t, info_of z (zid (abs_zone z) t) = OK (false, fixed_abbr_spec off)).
Proof. exact fixed_zone_ok_lemma. Qed.
Print Assumptions fixed_zone_ok.

Example c15_nonvacuous :
  FixedOffsetFromName (fixed_name_spec (-45296)) = Some (-45296) /\
  FixedOffsetToAbbr (-45296) = OK [45; 49; 50; 51; 52; 53; 54].
Proof. vm_compute. split; reflexivity. Qed.

From CCTZ Require Import SourceFixed SourceFixedProofs.
(* SOURCE-DERIVED time_zone_fixed.cc (SourceFixed.v, regenerated from clang's AST of the current source on every run by
   gen/ast_translate_out.py: std::string as byte lists, the char buf[] written through checked indices, chrono counts
   as checked 64-bit integers, assert as Err Precond): the three helpers never err and compute EXACTLY what the
   hand-written model computes - for every string and every 64-bit count, no hypothesis.  An edit of the C++
   (e.g. `>` -> `>=` in the 24 h test, a shorter buf, a dropped abbr.erase) changes SourceFixed.v and breaks these. *)
Theorem src_fixed_from_name_tie : forall name offset0,
  so_FixedOffsetFromName name offset0
  = OK (match FixedOffsetFromName name with Some v => (true, v) | None => (false, offset0) end).
Proof. exact so_FixedOffsetFromName_tie. Qed.
Print Assumptions src_fixed_from_name_tie.
Theorem src_fixed_to_name_tie : forall offset, so_FixedOffsetToName offset = FixedOffsetToName offset.
Proof. exact so_FixedOffsetToName_tie. Qed.
Print Assumptions src_fixed_to_name_tie.
Theorem src_fixed_to_abbr_tie : forall offset, so_FixedOffsetToAbbr offset = FixedOffsetToAbbr offset.
Proof. exact so_FixedOffsetToAbbr_tie. Qed.
Print Assumptions src_fixed_to_abbr_tie.

From CCTZ Require Import SourceLoad SourceNames SourceNamesProofs.
(* ResetToBuiltinUTC (what fixed_time_zone / a fixed-offset name builds) as clang reads it now *)
Theorem src_reset_to_builtin_utc_tie : forall tr0 d0 f0 e0 ly0 offset z,
  reset_to_builtin_utc offset = OK z ->
  sn_ResetToBuiltinUTC (mkZone tr0 [] d0 [] f0 e0 ly0) offset
  = OK (true, mkZone (z_trans z) (z_types z) (z_default z) (z_abbrs z) (z_future z) (z_extended z) ly0).
Proof. exact SourceNamesProofs.sn_ResetToBuiltinUTC_tie. Qed.
Print Assumptions src_reset_to_builtin_utc_tie.
