(* LoadCert.v — the loader ESTABLISHES the certificate [zone_ok] of ZoneRefineDefs.v
   (which the extracted driver only evaluates at run time), for every byte
   string it accepts.

   FINDING (load_struct_refuted below): as stated, [zone_ok] is NOT established
   by every accepted byte string.  [type_ok] demands |utc offset| <= 86400 of
   every transition type.  Load() enforces |offset| < 86400 on the types that
   come from the TZif type table, but the types that ExtendTransitions() adds
   from the POSIX footer are not checked: ParsePosixSpec admits std offsets up
   to 24:59:59 (89999 s) and dst offsets up to 25:59:59 (93599 s).  A 127-byte
   all-bytes TZif whose footer is "AAA-24:30BBB,M3.2.0,M11.1.0" is accepted
   and yields types with offsets [0; 88200; 91800].  That is the only clause
   that fails: everything else zone_ok asks for (except the gaps_wide part of
   wfz, which is a property of the data and is a hypothesis of the zone
   theorems by design) is proved below for every accepted list of Z, with
   the offset bound weakened to the tight |offset| <= 93599
   ([zone_struct_ok_w]), and [zone_ok] itself is proved under the additional
   hypothesis that all type offsets are within a day ([offs_day]).
   Everything is proved; nothing is admitted. *)
From CCTZ Require Import Base SrcConstants Cal CivilImpl PosixImpl PosixSpec ZoneLoad ZoneImpl ZoneZ ZoneHist
  ZoneRefineDefs CalProofs CivilNorm CivilDiff PosixProofs LoadSafe.
Require Import Lia ZifyBool.
Local Open Scope Z_scope.
Local Strategy 100 [civil_of_seconds civil_of_days days_from_civil].

(* ------------------------------------------------------------------ *)
(* The certificate, split                                               *)

(* everything zone_ok asks for except the property's own side condition on the data (wfz) *)
Definition zone_struct_ok (z : zone) : bool :=
  match z_trans z with [] => false | _ => true end
  && forallb (type_ok z) (z_types z)
  && idx_ok z (z_default z)
  && forallb (fun tr => idx_ok z (tr_type tr) && (- 2 ^ 59 <=? tr_time tr) && (tr_time tr <=? 2 ^ 60)) (z_trans z)
  && civils_ok z (off_of z (z_default z)) (z_trans z)
  && match last_opt (z_trans z) with Some l => 0 <=? tr_time l | None => false end
  && match z_trans z with f :: _ => tr_time f <? 0 | [] => false end.

Lemma andb_shuffle a b c d e w g h :
  a && b && c && d && e && w && g && h = (a && b && c && d && e && g && h) && w.
Proof. destruct a, b, c, d, e, w, g, h; reflexivity. Qed.

Lemma zone_ok_split : forall z, zone_ok z = zone_struct_ok z && wfz (abs_zone z).
Proof. intros z. unfold zone_ok, zone_struct_ok. apply andb_shuffle. Qed.

(* the same with the bound the loader really guarantees on type offsets *)
Definition type_ok_w (z : zone) (ty : ttype) : bool :=
  (-93599 <=? tt_off ty) && (tt_off ty <=? 93599)
  && fields_eqb (tt_cmax ty) (civil_of_seconds (max64 + tt_off ty))
  && fields_eqb (tt_cmin ty) (civil_of_seconds (min64 + tt_off ty))
  && (0 <=? tt_abbr ty) && (tt_abbr ty <=? Z.of_nat (length (z_abbrs z))).

Definition zone_struct_ok_w (z : zone) : bool :=
  match z_trans z with [] => false | _ => true end
  && forallb (type_ok_w z) (z_types z)
  && idx_ok z (z_default z)
  && forallb (fun tr => idx_ok z (tr_type tr) && (- 2 ^ 59 <=? tr_time tr) && (tr_time tr <=? 2 ^ 60)) (z_trans z)
  && civils_ok z (off_of z (z_default z)) (z_trans z)
  && match last_opt (z_trans z) with Some l => 0 <=? tr_time l | None => false end
  && match z_trans z with f :: _ => tr_time f <? 0 | [] => false end.

(* the clause of type_ok that the loader does not guarantee *)
Definition off_day (ty : ttype) : bool := (-86400 <=? tt_off ty) && (tt_off ty <=? 86400).
Definition offs_day (z : zone) : bool := forallb off_day (z_types z).

Lemma type_ok_w_day z ty : type_ok z ty = type_ok_w z ty && off_day ty.
Proof.
  unfold type_ok, type_ok_w, off_day.
  generalize (fields_eqb (tt_cmax ty) (civil_of_seconds (max64 + tt_off ty))).
  generalize (fields_eqb (tt_cmin ty) (civil_of_seconds (min64 + tt_off ty))).
  intros b1 b2.
  destruct (Z.leb_spec (-86400) (tt_off ty)), (Z.leb_spec (tt_off ty) 86400),
           (Z.leb_spec (-93599) (tt_off ty)), (Z.leb_spec (tt_off ty) 93599);
    try lia; cbn [andb]; rewrite ?andb_true_r, ?andb_false_r; reflexivity.
Qed.

Lemma forallb_andb {A} (f g : A -> bool) l :
  forallb (fun x => f x && g x) l = forallb f l && forallb g l.
Proof.
  induction l as [|a l IH]; [reflexivity|]. cbn [forallb]. rewrite IH.
  destruct (f a), (g a), (forallb f l), (forallb g l); reflexivity.
Qed.

Lemma zone_struct_ok_w_day z : zone_struct_ok z = zone_struct_ok_w z && offs_day z.
Proof.
  unfold zone_struct_ok, zone_struct_ok_w, offs_day.
  assert (E : forallb (type_ok z) (z_types z) = forallb (type_ok_w z) (z_types z) && forallb off_day (z_types z)).
  { rewrite <- forallb_andb. induction (z_types z) as [|ty l IH]; [reflexivity|].
    cbn [forallb]. rewrite IH, type_ok_w_day. reflexivity. }
  rewrite E.
  generalize (forallb (type_ok_w z) (z_types z)) (forallb off_day (z_types z)). intros t1 t2.
  destruct (match z_trans z with [] => false | _ => true end), t1, t2; cbn [andb];
    rewrite ?andb_true_r, ?andb_false_r; reflexivity.
Qed.

(* ------------------------------------------------------------------ *)
(* Small list facts                                                     *)

Lemma fields_eqb_refl f : fields_eqb f f = true.
Proof. apply fields_eqb_eq. reflexivity. Qed.

Lemma OK_inj {A} (a b : A) : OK a = OK b -> a = b.
Proof. intros H. injection H. auto. Qed.

Lemma last_opt_map {A B} (f : A -> B) l : last_opt (map f l) = option_map f (last_opt l).
Proof. unfold last_opt. rewrite <- map_rev. destruct (rev l); reflexivity. Qed.

(* offsets by index, as a function of the type table only *)
Definition offl (types : list ttype) (i : Z) : Z :=
  match (if i <? 0 then None else nth_error types (Z.to_nat i)) with
  | Some ty => tt_off ty
  | None => 0
  end.

Lemma off_of_offl z i : off_of z i = offl (z_types z) i.
Proof. reflexivity. Qed.

Lemma offl_map types types' : map tt_off types = map tt_off types' ->
  forall i, offl types i = offl types' i.
Proof.
  intros E i. unfold offl. destruct (i <? 0); [reflexivity|].
  pose proof (nth_error_map tt_off (Z.to_nat i) types) as E1.
  pose proof (nth_error_map tt_off (Z.to_nat i) types') as E2.
  rewrite E in E1. rewrite E1 in E2.
  destruct (nth_error types (Z.to_nat i)), (nth_error types' (Z.to_nat i));
    cbn [option_map] in E2; congruence.
Qed.

Lemma offl_nth_res types i ty : nth_res types i = OK ty -> offl types i = tt_off ty.
Proof.
  unfold nth_res, offl. destruct (i <? 0); [discriminate|].
  destruct (nth_error types (Z.to_nat i)); [|discriminate]. intros H; inversion H; reflexivity.
Qed.

Fixpoint civils_l (types : list ttype) (prev_off : Z) (l : list transition) : bool :=
  match l with
  | [] => true
  | tr :: r =>
      fields_eqb (tr_cs tr) (civil_of_seconds (tr_time tr + offl types (tr_type tr)))
      && fields_eqb (tr_pcs tr) (civil_of_seconds (tr_time tr - 1 + prev_off))
      && civils_l types (offl types (tr_type tr)) r
  end.

Lemma civils_ok_l z : forall l p, civils_ok z p l = civils_l (z_types z) p l.
Proof.
  induction l as [|tr r IH]; intros p; [reflexivity|].
  cbn [civils_ok civils_l]. rewrite IH, !off_of_offl. reflexivity.
Qed.

Lemma civils_l_ext types types' : (forall i, offl types i = offl types' i) ->
  forall l p, civils_l types p l = civils_l types' p l.
Proof.
  intros E. induction l as [|tr r IH]; intros p; [reflexivity|].
  cbn [civils_l]. rewrite IH, !E. reflexivity.
Qed.

(* ------------------------------------------------------------------ *)
(* The civil pass computes exactly the civil seconds the certificate asks for *)

Definition tbound (tr : transition) : Prop := - 2 ^ 59 <= tr_time tr <= 2 ^ 60.

Lemma civil_pass_cert abbrs types : Forall off_ok types ->
  forall trans ttp prev acc out, off_ok ttp -> Forall tbound trans ->
  civil_pass abbrs types ttp prev trans acc = OK (Some out) ->
  exists new, out = rev acc ++ new /\ map tr_time new = map tr_time trans /\
    Forall (fun tr => 0 <= tr_type tr < Z.of_nat (length types)) new /\
    civils_l types (tt_off ttp) new = true.
Proof.
  intros Fo. induction trans as [|tr rest IH]; intros ttp prev acc out O F H.
  - cbn [civil_pass] in H. inversion H; subst. exists []. rewrite app_nil_r.
    repeat split. constructor.
  - inversion F as [|? ? T F']; subst. unfold tbound in T. cbn [civil_pass] in H.
    assert (I64 : int64 (tr_time tr)).
    { unfold int64, min64, max64. change (2 ^ 59) with 576460752303423488 in T.
      change (2 ^ 60) with 1152921504606846976 in T. lia. }
    rewrite (local_time_tt_val _ _ _ I64 O) in H.
    destruct (cstr_from abbrs (tt_abbr ttp)) as [ab|]; [|discriminate H]. cbn [bind al_cs] in H.
    rewrite minus64_sec in H.
    2: apply valid_cos.
    2:{ pose proof (cos_year_int64 (tr_time tr + tt_off ttp)
                     ltac:(unfold off_ok in O; unfold int64, min64, max64 in *; lia)).
        unfold int64, min64, max64. lia. }
    2:{ unfold int64, min64, max64. lia. }
    2:{ rewrite sec_of_cos. unfold off_ok in O; unfold int64, min64, max64 in *. lia. }
    cbn [bind] in H. rewrite sec_of_cos in H.
    destruct (nth_res types (tr_type tr)) as [ttp'|] eqn:Et; [|discriminate H]. cbn [bind] in H.
    destruct (nth_res_inv _ _ _ Et) as [Int Ir].
    assert (O' : off_ok ttp') by (rewrite Forall_forall in Fo; auto).
    rewrite (local_time_tt_val _ _ _ I64 O') in H.
    destruct (cstr_from abbrs (tt_abbr ttp')) as [ab'|]; [|discriminate H]. cbn [bind al_cs] in H.
    set (tr' := mkTr (tr_time tr) (tr_type tr) (civil_of_seconds (tr_time tr + tt_off ttp'))
                     (civil_of_seconds (tr_time tr + tt_off ttp - 1))) in *.
    assert (K : civil_pass abbrs types ttp' (Some (civil_of_seconds (tr_time tr + tt_off ttp'), tr_time tr))
                  rest (tr' :: acc) = OK (Some out)).
    { destruct prev as [[pc pt]|]; [|exact H].
      destruct (lt64 pc _); cbn [negb] in H; [|discriminate H].
      destruct (pt <? tr_time tr); cbn [negb] in H; [|discriminate H]. exact H. }
    destruct (IH _ _ _ _ O' F' K) as (new & E1 & E2 & E3 & E4).
    exists (tr' :: new). split; [|split; [|split]].
    + rewrite E1. cbn [rev]. rewrite <- app_assoc. reflexivity.
    + cbn [map]. rewrite E2. reflexivity.
    + constructor; [exact Ir|exact E3].
    + cbn [civils_l]. unfold tr' at 1 2 3 4 5 6. cbn [tr_cs tr_pcs tr_time tr_type].
      rewrite (offl_nth_res _ _ _ Et), fields_eqb_refl.
      replace (tr_time tr - 1 + tt_off ttp) with (tr_time tr + tt_off ttp - 1) by lia.
      rewrite fields_eqb_refl. cbn [andb]. exact E4.
Qed.

(* ------------------------------------------------------------------ *)
(* set_civil_limits                                                     *)

Definition limits_ok (abbrs : list Z) (ty : ttype) : Prop :=
  tt_cmax ty = civil_of_seconds (max64 + tt_off ty) /\
  tt_cmin ty = civil_of_seconds (min64 + tt_off ty) /\
  0 <= tt_abbr ty <= Z.of_nat (length abbrs).

Lemma scl_inv abbrs : forall types out, Forall off_ok types ->
  set_civil_limits abbrs types = OK out ->
  map tt_off out = map tt_off types /\ Forall (limits_ok abbrs) out.
Proof.
  induction types as [|ty rest IH]; intros out Fo H.
  - cbn [set_civil_limits] in H. inversion H; subst. split; [reflexivity|constructor].
  - inversion Fo as [|? ? O Fo']; subst. cbn [set_civil_limits] in H.
    rewrite (local_time_tt_val abbrs max64 ty) in H by (auto; unfold int64, min64, max64; lia).
    destruct (cstr_from abbrs (tt_abbr ty)) as [ab|] eqn:EC; [|discriminate H]. cbn [bind al_cs] in H.
    rewrite (local_time_tt_val abbrs min64 ty) in H by (auto; unfold int64, min64, max64; lia).
    rewrite EC in H. cbn [bind al_cs] in H.
    destruct (set_civil_limits abbrs rest) as [r|] eqn:ER; [|discriminate H]. cbn [bind] in H.
    apply OK_inj in H. subst out. destruct (IH _ Fo' eq_refl) as [M L].
    split; [cbn [map tt_off]; rewrite M; reflexivity|].
    constructor; [|exact L]. unfold limits_ok. cbn [tt_cmax tt_cmin tt_off tt_abbr].
    apply cstr_from_inv in EC. auto.
Qed.
