(* LoadCert.v — the loader ESTABLISHES the certificate [zone_ok] of ZoneRefineDefs.v
   (which the extracted driver only evaluates at run time), for every byte
   string it accepts.

   [type_ok] bounds the utc offset of every transition type by 93599 s
   (25:59:59).  That is the tight bound: Load() enforces |offset| < 86400 on
   the types that come from the TZif type table, but the types that
   ExtendTransitions() adds from the POSIX footer are not re-checked, and
   ParsePosixSpec admits std offsets up to 24:59:59 (89999 s) and dst offsets
   up to 25:59:59 (93599 s).  A 127-byte all-bytes TZif whose footer is
   "AAA-24:30BBB,M3.2.0,M11.1.0" is accepted and yields types with offsets
   [0; 88200; 91800] (wide_footer_certified below); with the former bound of
   one day (86400 s) the certificate was refuted by that file.

   Everything zone_ok asks for is proved below for every accepted list of Z,
   except the gaps_wide part of wfz, which is a property of the data and is a
   hypothesis of the zone theorems by design.  The last section composes the
   certificate with the refinement theorems of ZoneRefine.v: for every
   accepted file BreakTime / MakeTime compute exactly the integer-level
   specification.  Everything is proved; nothing is admitted. *)
From CCTZ Require Import Base SrcConstants Cal CivilImpl PosixImpl PosixSpec ZoneLoad ZoneImpl ZoneZ ZoneHist
  ZoneRefineDefs CalProofs CivilNorm CivilDiff PosixProofs LoadSafe ZoneRefine.
Require Import Lia ZifyBool.
Local Open Scope Z_scope.
Local Strategy 100 [civil_of_seconds civil_of_days days_from_civil].


(* ------------------------------------------------------------------ *)
(* The certificate, split                                               *)

(* everything zone_ok asks for except the property's own side condition on the data (wfz) *)
Definition zone_struct_ok (z : zone) : bool :=
  match z_trans z with [] => false | _ => true end
  && forallb (type_ok z) (z_types z)
  && idx_ok z (z_default z)
  && forallb (fun tr => idx_ok z (tr_type tr) && (- 2 ^ 59 <=? tr_time tr) && (tr_time tr <=? 2 ^ 60)) (z_trans z)
  && civils_ok z (off_of z (z_default z)) (z_trans z)
  && match last_opt (z_trans z) with Some l => 0 <=? tr_time l | None => false end
  && match z_trans z with f :: _ => tr_time f <? 0 | [] => false end.

Lemma andb_shuffle a b c d e w g h :
  a && b && c && d && e && w && g && h = (a && b && c && d && e && g && h) && w.
Proof. destruct a, b, c, d, e, w, g, h; reflexivity. Qed.

Lemma zone_ok_split : forall z, zone_ok z = zone_struct_ok z && wfz (abs_zone z).
Proof. intros z. unfold zone_ok, zone_struct_ok. apply andb_shuffle. Qed.

(* ------------------------------------------------------------------ *)
(* Small list facts                                                     *)

Lemma fields_eqb_refl f : fields_eqb f f = true.
Proof. apply fields_eqb_eq. reflexivity. Qed.

Lemma OK_inj {A} (a b : A) : OK a = OK b -> a = b.
Proof. intros H. injection H. auto. Qed.

Lemma last_opt_map {A B} (f : A -> B) l : last_opt (map f l) = option_map f (last_opt l).
Proof. unfold last_opt. rewrite <- map_rev. destruct (rev l); reflexivity. Qed.

(* offsets by index, as a function of the type table only *)
Definition offl (types : list ttype) (i : Z) : Z :=
  match (if i <? 0 then None else nth_error types (Z.to_nat i)) with
  | Some ty => tt_off ty
  | None => 0
  end.

Lemma off_of_offl z i : off_of z i = offl (z_types z) i.
Proof. reflexivity. Qed.

Lemma offl_map types types' : map tt_off types = map tt_off types' ->
  forall i, offl types i = offl types' i.
Proof.
  intros E i. unfold offl. destruct (i <? 0); [reflexivity|].
  pose proof (nth_error_map tt_off (Z.to_nat i) types) as E1.
  pose proof (nth_error_map tt_off (Z.to_nat i) types') as E2.
  rewrite E in E1. rewrite E1 in E2.
  destruct (nth_error types (Z.to_nat i)), (nth_error types' (Z.to_nat i));
    cbn [option_map] in E2; congruence.
Qed.

Lemma offl_nth_res types i ty : nth_res types i = OK ty -> offl types i = tt_off ty.
Proof.
  unfold nth_res, offl. destruct (i <? 0); [discriminate|].
  destruct (nth_error types (Z.to_nat i)); [|discriminate]. intros H; inversion H; reflexivity.
Qed.

Fixpoint civils_l (types : list ttype) (prev_off : Z) (l : list transition) : bool :=
  match l with
  | [] => true
  | tr :: r =>
      fields_eqb (tr_cs tr) (civil_of_seconds (tr_time tr + offl types (tr_type tr)))
      && fields_eqb (tr_pcs tr) (civil_of_seconds (tr_time tr - 1 + prev_off))
      && civils_l types (offl types (tr_type tr)) r
  end.

Lemma civils_ok_l z : forall l p, civils_ok z p l = civils_l (z_types z) p l.
Proof.
  induction l as [|tr r IH]; intros p; [reflexivity|].
  cbn [civils_ok civils_l]. rewrite IH, !off_of_offl. reflexivity.
Qed.

Lemma civils_l_ext types types' : (forall i, offl types i = offl types' i) ->
  forall l p, civils_l types p l = civils_l types' p l.
Proof.
  intros E. induction l as [|tr r IH]; intros p; [reflexivity|].
  cbn [civils_l]. rewrite IH, !E. reflexivity.
Qed.

(* ------------------------------------------------------------------ *)
(* The civil pass computes exactly the civil seconds the certificate asks for *)

Definition tbound (tr : transition) : Prop := - 2 ^ 59 <= tr_time tr <= 2 ^ 60.

Lemma civil_pass_cert abbrs types : Forall off_ok types ->
  forall trans ttp prev acc out, off_ok ttp -> Forall tbound trans ->
  civil_pass abbrs types ttp prev trans acc = OK (Some out) ->
  exists new, out = rev acc ++ new /\ map tr_time new = map tr_time trans /\
    Forall (fun tr => 0 <= tr_type tr < Z.of_nat (length types)) new /\
    civils_l types (tt_off ttp) new = true.
Proof.
  intros Fo. induction trans as [|tr rest IH]; intros ttp prev acc out O F H.
  - cbn [civil_pass] in H. inversion H; subst. exists []. rewrite app_nil_r.
    repeat split. constructor.
  - inversion F as [|? ? T F']; subst. unfold tbound in T. cbn [civil_pass] in H.
    assert (I64 : int64 (tr_time tr)).
    { unfold int64, min64, max64. change (2 ^ 59) with 576460752303423488 in T.
      change (2 ^ 60) with 1152921504606846976 in T. lia. }
    rewrite (local_time_tt_val _ _ _ I64 O) in H.
    destruct (cstr_from abbrs (tt_abbr ttp)) as [ab|]; [|discriminate H]. cbn [bind al_cs] in H.
    rewrite minus64_sec in H.
    2: apply valid_cos.
    2:{ pose proof (cos_year_int64 (tr_time tr + tt_off ttp)
                     ltac:(unfold off_ok in O; unfold int64, min64, max64 in *; lia)).
        unfold int64, min64, max64. lia. }
    2:{ unfold int64, min64, max64. lia. }
    2:{ rewrite sec_of_cos. unfold off_ok in O; unfold int64, min64, max64 in *. lia. }
    cbn [bind] in H. rewrite sec_of_cos in H.
    destruct (nth_res types (tr_type tr)) as [ttp'|] eqn:Et; [|discriminate H]. cbn [bind] in H.
    destruct (nth_res_inv _ _ _ Et) as [Int Ir].
    assert (O' : off_ok ttp') by (rewrite Forall_forall in Fo; auto).
    rewrite (local_time_tt_val _ _ _ I64 O') in H.
    destruct (cstr_from abbrs (tt_abbr ttp')) as [ab'|]; [|discriminate H]. cbn [bind al_cs] in H.
    set (tr' := mkTr (tr_time tr) (tr_type tr) (civil_of_seconds (tr_time tr + tt_off ttp'))
                     (civil_of_seconds (tr_time tr + tt_off ttp - 1))) in *.
    assert (K : civil_pass abbrs types ttp' (Some (civil_of_seconds (tr_time tr + tt_off ttp'), tr_time tr))
                  rest (tr' :: acc) = OK (Some out)).
    { destruct prev as [[pc pt]|]; [|exact H].
      destruct (lt64 pc _); cbn [negb] in H; [|discriminate H].
      destruct (pt <? tr_time tr); cbn [negb] in H; [|discriminate H]. exact H. }
    destruct (IH _ _ _ _ O' F' K) as (new & E1 & E2 & E3 & E4).
    exists (tr' :: new). split; [|split; [|split]].
    + rewrite E1. cbn [rev]. rewrite <- app_assoc. reflexivity.
    + cbn [map]. rewrite E2. reflexivity.
    + constructor; [exact Ir|exact E3].
    + cbn [civils_l]. unfold tr' at 1 2 3 4 5 6. cbn [tr_cs tr_pcs tr_time tr_type].
      rewrite (offl_nth_res _ _ _ Et), fields_eqb_refl.
      replace (tr_time tr - 1 + tt_off ttp) with (tr_time tr + tt_off ttp - 1) by lia.
      rewrite fields_eqb_refl. cbn [andb]. exact E4.
Qed.

(* ------------------------------------------------------------------ *)
(* set_civil_limits                                                     *)

Definition limits_ok (abbrs : list Z) (ty : ttype) : Prop :=
  tt_cmax ty = civil_of_seconds (max64 + tt_off ty) /\
  tt_cmin ty = civil_of_seconds (min64 + tt_off ty) /\
  0 <= tt_abbr ty <= Z.of_nat (length abbrs).

Lemma scl_inv abbrs : forall types out, Forall off_ok types ->
  set_civil_limits abbrs types = OK out ->
  map tt_off out = map tt_off types /\ Forall (limits_ok abbrs) out.
Proof.
  induction types as [|ty rest IH]; intros out Fo H.
  - cbn [set_civil_limits] in H. inversion H; subst. split; [reflexivity|constructor].
  - inversion Fo as [|? ? O Fo']; subst. cbn [set_civil_limits] in H.
    rewrite (local_time_tt_val abbrs max64 ty) in H by (auto; unfold int64, min64, max64; lia).
    destruct (cstr_from abbrs (tt_abbr ty)) as [ab|] eqn:EC; [|discriminate H]. cbn [bind al_cs] in H.
    rewrite (local_time_tt_val abbrs min64 ty) in H by (auto; unfold int64, min64, max64; lia).
    rewrite EC in H. cbn [bind al_cs] in H.
    destruct (set_civil_limits abbrs rest) as [r|] eqn:ER; [|discriminate H]. cbn [bind] in H.
    apply OK_inj in H. subst out. destruct (IH _ Fo' eq_refl) as [M L].
    split; [cbn [map tt_off]; rewrite M; reflexivity|].
    constructor; [|exact L]. unfold limits_ok. cbn [tt_cmax tt_cmin tt_off tt_abbr].
    apply cstr_from_inv in EC. auto.
Qed.

(* ------------------------------------------------------------------ *)
(* The types ExtendTransitions adds: |offset| <= 25:59:59               *)

Lemma bind_inv {A B} (r : res A) (k : A -> res B) v : bind r k = OK v -> exists a, k a = OK v.
Proof. destruct r; cbn [bind]; [eauto|discriminate]. Qed.

Lemma Some_inj {A} (a b : A) : Some a = Some b -> a = b.
Proof. intros H. injection H. auto. Qed.

Definition offw (ty : ttype) : Prop := -93599 <= tt_off ty <= 93599.

Lemma extend_types_inv trans types abbrs future trans2 types2 abbrs2 ext ly :
  extend_transitions trans types abbrs future = OK (Some (trans2, types2, abbrs2, ext, ly)) ->
  exists ex, types2 = types ++ ex /\ Forall offw ex.
Proof.
  intros H. unfold extend_transitions in H.
  repeat peel_ext H.
  4: do 5 (apply bind_inv in H; destruct H as [? H]; cbv beta in H).
  all: match type of H with OK (Some _) = OK (Some _) => inversion H; subst; clear H end.
  1: { exists []. rewrite app_nil_r. split; [reflexivity|constructor]. }
  all: match goal with EP : ParsePosixSpec _ = Some ?p |- _ =>
         destruct (parse_ok _ _ EP) as (so & Eso & Hso & D) end;
       match goal with E : get_opt (std_offset _) = OK ?a |- _ =>
         rewrite Eso in E; cbn [get_opt] in E; apply OK_inj in E; subst a end;
       match goal with E : get_transition_type _ _ _ false _ = OK (Some _) |- _ =>
         apply gtt_inv in E; destruct E as (_ & _ & (e1 & -> & F1) & _) end.
  1: { exists e1. split; [reflexivity|]. eapply Forall_impl; [|exact F1].
       intros ty [A _]. unfold offw. lia. }
  all: destruct D as [Dn | (dof & Edo & Hdo & _)]; [congruence|];
       match goal with E : get_opt (dst_offset _) = OK ?a |- _ =>
         rewrite Edo in E; cbn [get_opt] in E; apply OK_inj in E; subst a end;
       match goal with E : get_transition_type _ _ _ true _ = OK (Some _) |- _ =>
         apply gtt_inv in E; destruct E as (_ & _ & (e2 & -> & F2) & _) end;
       exists (e1 ++ e2); split; [rewrite app_assoc; reflexivity|];
       apply Forall_app; split;
       [ eapply Forall_impl; [|exact F1]; intros ty [A _]; unfold offw; lia
       | eapply Forall_impl; [|exact F2]; intros ty [A _]; unfold offw; lia ].
Qed.

(* ------------------------------------------------------------------ *)
(* What an accepting run of Load() went through                         *)

Definition with_sentinel (trans2 : list transition) (last : transition) : list transition :=
  if tr_time last <? 0 then trans2 ++ [mkTr src_second_half_sentinel (tr_type last) epoch epoch]
  else trans2.

Lemma load_inv bs z : load_bytes bs = OK (Some z) ->
  exists types0 abbrs0 trans1 trans2 types1 last dtt,
    Forall (fun ty => -86400 < tt_off ty < 86400) types0 /\
    (exists f r, trans1 = f :: r /\ tr_time f < 0) /\
    Forall (fun tr => t59 (tr_time tr)) trans1 /\
    extend_transitions trans1 types0 abbrs0 (z_future z) =
      OK (Some (trans2, types1, z_abbrs z, z_extended z, z_last_year z)) /\
    last_opt trans2 = Some last /\
    nth_res types1 (z_default z) = OK dtt /\
    civil_pass (z_abbrs z) types1 dtt None (with_sentinel trans2 last) [] = OK (Some (z_trans z)) /\
    set_civil_limits (z_abbrs z) types1 = OK (z_types z).
Proof.
  intros H. unfold load_bytes in H.
  repeat peel_step H.
  inversion H; subst z; clear H.
  cbn [z_trans z_types z_default z_abbrs z_future z_extended z_last_year].
  match goal with E : extend_transitions ?t1 ?ty0 ?ab0 _ = OK (Some (?t2, ?ty1, _, _, _)) |- _ =>
    set (trans1 := t1) in *; set (types0 := ty0) in *; rename E into EX;
    exists types0, ab0, trans1, t2, ty1 end.
  match goal with E : match last_opt _ with Some _ => _ | None => _ end = OK ?la |- _ =>
    rename E into ELAST; exists la end.
  match goal with E : nth_res _ _ = OK ?d |- _ => rename E into EDT; exists d end.
  match goal with E : civil_pass _ _ _ None _ [] = OK _ |- _ => rename E into ECP end.
  match goal with E : set_civil_limits _ _ = OK _ |- _ => rename E into ESL end.
  match goal with E : negb (strictly_increasing ?ts) || negb (forallb time_in_range ?ts) = false |- _ =>
    set (times := ts) in *; rename E into ETS end.
  match goal with E : negb (forallb _ types0) = false |- _ => rename E into ETY end.
  assert (FT : Forall t59 times).
  { apply orb_false_iff in ETS. destruct ETS as [_ ETS]. apply negb_false_iff in ETS.
    rewrite forallb_forall in ETS. apply Forall_forall. intros t Ht.
    apply time_in_range_t59. apply ETS. exact Ht. }
  assert (B : t59 big_bang /\ big_bang < 0).
  { unfold t59, big_bang, src_big_bang_shift. change (2 ^ 59) with 576460752303423488. lia. }
  assert (F1 : (exists f r, trans1 = f :: r /\ tr_time f < 0) /\ Forall (fun tr => t59 (tr_time tr)) trans1).
  { unfold trans1.
    match goal with |- context [combine times ?ix] =>
      pose proof (combine_times t59 times ix FT) as F0;
      set (trans0 := map _ (combine times ix)) in * end.
    destruct trans0 as [|tr0 r0].
    - split; [do 2 eexists; split; [reflexivity|cbn [tr_time]; lia]|].
      constructor; [cbn [tr_time]; tauto|constructor].
    - destruct (Z.leb_spec 0 (tr_time tr0)).
      + split; [do 2 eexists; split; [reflexivity|cbn [tr_time]; lia]|].
        constructor; [cbn [tr_time]; tauto|exact F0].
      + split; [do 2 eexists; split; [reflexivity|lia]|exact F0]. }
  destruct F1 as [F1 F2].
  split; [|split; [exact F1|split; [exact F2|split; [exact EX|split; [|split; [exact EDT|split; [exact ECP|exact ESL]]]]]]].
  - apply negb_false_iff in ETY. rewrite forallb_forall in ETY. apply Forall_forall.
    intros ty Hty. specialize (ETY ty Hty). unfold src_kSecsPerDay in ETY. lia.
  - destruct (last_opt _); [|discriminate ELAST]. apply OK_inj in ELAST. subst. reflexivity.
Qed.

(* ------------------------------------------------------------------ *)
(* The structural part of the certificate, for every accepted input     *)

Lemma load_establishes_structure_lemma : forall bs z,
  load_bytes bs = OK (Some z) -> zone_struct_ok z = true.
Proof.
  intros bs z H.
  destruct (accept_bounds_lemma _ _ H) as [_ FB].
  destruct (load_inv _ _ H) as (types0 & abbrs0 & trans1 & trans2 & types1 & last & dtt &
    Fty & (f & r & Ef & Hf) & F1 & EX & EL & EDT & ECP & ESL).
  assert (Fo0 : Forall off_ok types0).
  { eapply Forall_impl; [|exact Fty]. intros ty; unfold off_ok; lia. }
  assert (Hl : forall la, last_opt trans1 = Some la -> - 2 ^ 59 <= tr_time la <= 2 ^ 59).
  { intros la HL. apply last_opt_In in HL. rewrite Forall_forall in F1. exact (F1 _ HL). }
  destruct (extend_inv _ _ _ _ _ _ _ _ _ EX Fo0 Hl) as (gen & EG & _ & _ & Fo1 & _).
  destruct (extend_types_inv _ _ _ _ _ _ _ _ _ EX) as (ex & Eex & Fex).
  assert (Fw1 : Forall offw types1).
  { rewrite Eex. apply Forall_app; split; [|exact Fex].
    eapply Forall_impl; [|exact Fty]. unfold offw; intros; lia. }
  destruct (civil_pass_sorted _ _ _ _ _ ECP) as (_ & _ & EM).
  assert (F3 : Forall tbound (with_sentinel trans2 last)).
  { apply (Forall_map tr_time (fun t => - 2 ^ 59 <= t <= 2 ^ 60)). rewrite <- EM.
    apply Forall_map. exact FB. }
  destruct (nth_res_inv _ _ _ EDT) as [Ind Id].
  assert (Od : off_ok dtt) by (rewrite Forall_forall in Fo1; auto).
  destruct (civil_pass_cert _ _ Fo1 _ _ _ _ _ Od F3 ECP) as (new & En & _ & Fidx & Hciv).
  cbn [rev app] in En. subst new.
  destruct (scl_inv _ _ _ Fo1 ESL) as [Moff Flim].
  assert (Len : length (z_types z) = length types1).
  { rewrite <- (map_length tt_off), Moff, map_length. reflexivity. }
  (* first transition: before 1970 (the big-bang entry if need be) *)
  assert (Hd : exists f' r', z_trans z = f' :: r' /\ tr_time f' < 0).
  { rewrite EG, Ef in EM. unfold with_sentinel in EM.
    destruct (z_trans z) as [|f' r'].
    - destruct (tr_time last <? 0); discriminate EM.
    - exists f', r'. split; [reflexivity|].
      destruct (tr_time last <? 0); cbn [app map] in EM; injection EM; intros; lia. }
  (* last transition: in the second half of the time line (the sentinel if need be) *)
  assert (Hla : exists l, last_opt (z_trans z) = Some l /\ 0 <= tr_time l).
  { assert (S : exists x, last_opt (with_sentinel trans2 last) = Some x /\ 0 <= tr_time x).
    { unfold with_sentinel. destruct (Z.ltb_spec (tr_time last) 0).
      - eexists. split; [apply last_opt_app|]. cbn [tr_time]. unfold src_second_half_sentinel. lia.
      - exists last. split; [exact EL|lia]. }
    destruct S as (x & Ex & Hx).
    pose proof (last_opt_map tr_time (z_trans z)) as L1.
    rewrite EM, last_opt_map, Ex in L1. cbn [option_map] in L1.
    destruct (last_opt (z_trans z)) as [l|]; [|discriminate L1]. cbn [option_map] in L1.
    exists l. split; [reflexivity|]. apply Some_inj in L1. lia. }
  destruct Hd as (f' & r' & Ez & Hf'). destruct Hla as (l & El & Hl0).
  assert (A1 : match z_trans z with [] => false | _ => true end = true) by (rewrite Ez; reflexivity).
  assert (A2 : forallb (type_ok z) (z_types z) = true).
  { assert (Fw : Forall offw (z_types z)).
    { apply (Forall_map tt_off (fun o => -93599 <= o <= 93599)). rewrite Moff.
      apply Forall_map. exact Fw1. }
    apply forallb_forall. intros ty Hty. rewrite Forall_forall in Fw, Flim.
    pose proof (Fw _ Hty) as W. destruct (Flim _ Hty) as (L1 & L2 & L3).
    unfold offw in W. unfold type_ok. rewrite L1, L2, !fields_eqb_refl. lia. }
  assert (A3 : idx_ok z (z_default z) = true).
  { unfold idx_ok. rewrite Len. lia. }
  assert (A4 : forallb (fun tr => idx_ok z (tr_type tr) && (- 2 ^ 59 <=? tr_time tr) && (tr_time tr <=? 2 ^ 60))
                 (z_trans z) = true).
  { apply forallb_forall. intros tr Htr. rewrite Forall_forall in Fidx, FB.
    pose proof (Fidx _ Htr) as I1. pose proof (FB _ Htr) as I2.
    unfold idx_ok. rewrite Len.
    change (2 ^ 59) with 576460752303423488 in *. change (2 ^ 60) with 1152921504606846976 in *. lia. }
  assert (A5 : civils_ok z (off_of z (z_default z)) (z_trans z) = true).
  { rewrite civils_ok_l, off_of_offl.
    rewrite (civils_l_ext _ _ (offl_map _ _ Moff)), (offl_map _ _ Moff), (offl_nth_res _ _ _ EDT).
    exact Hciv. }
  unfold zone_struct_ok. rewrite A1, A2, A3, A4, A5, El. rewrite Ez.
  cbn [andb]. lia.
Qed.

(* ---- non-vacuity, and tightness of the offset bound: a footer with offsets beyond a day ---- *)
Definition tzif_header (ver timecnt typecnt charcnt : Z) : list Z :=
  [84; 90; 105; 102; ver] ++ repeat 0 15 ++ [0;0;0;0] ++ [0;0;0;0] ++ [0;0;0;0]
  ++ [0;0;0;timecnt] ++ [0;0;0;typecnt] ++ [0;0;0;charcnt].

(* a version-2 file: empty v1 block; v2 block with no transitions, one type
   (offset 0, "UTC"); footer  AAA-24:30BBB,M3.2.0,M11.1.0 *)
Definition wide_footer_bytes : list Z :=
  tzif_header 50 0 0 0 ++ tzif_header 50 0 1 4 ++ [0;0;0;0;0;0] ++ [85;84;67;0] ++ [10]
  ++ [65;65;65;45;50;52;58;51;48;66;66;66;44;77;51;46;50;46;48;44;77;49;49;46;49;46;48] ++ [10].

Definition wide_certifies (bs : list Z) : bool :=
  all_bytes bs &&
  match load_bytes bs with
  | OK (Some z) =>
      list_eqb (map tt_off (z_types z)) [0; 88200; 91800]
      && zone_struct_ok z && wfz (abs_zone z) && zone_ok z
  | _ => false
  end.

Lemma wide_certifies_sound bs : wide_certifies bs = true ->
  all_bytes bs = true /\
  exists z, load_bytes bs = OK (Some z) /\
    map tt_off (z_types z) = [0; 88200; 91800] /\
    zone_struct_ok z = true /\ wfz (abs_zone z) = true /\ zone_ok z = true.
Proof.
  intros C. unfold wide_certifies in C. apply andb_true_iff in C. destruct C as [C0 C].
  split; [exact C0|].
  destruct (load_bytes bs) as [[z|]|]; try discriminate C.
  exists z. split; [reflexivity|].
  repeat (apply andb_true_iff in C; destruct C as [C ?]).
  apply list_eqb_eq in C. auto 10.
Qed.

(* the 127-byte file is accepted, two of its types have offsets beyond a day
   (24:30 and 25:30), and it satisfies the certificate *)
Example wide_footer_certified :
  all_bytes wide_footer_bytes = true /\
  exists z, load_bytes wide_footer_bytes = OK (Some z) /\
    map tt_off (z_types z) = [0; 88200; 91800] /\
    zone_struct_ok z = true /\ wfz (abs_zone z) = true /\ zone_ok z = true.
Proof. apply wide_certifies_sound. vm_compute. reflexivity. Qed.

(* ------------------------------------------------------------------ *)
(* wfz: strictly increasing times                                       *)

Lemma times_sorted_increasing (g : transition -> Z) (h : transition -> Z) : forall l,
  times_sorted_l l = true ->
  times_increasing (map (fun tr => mkZT (tr_time tr) (g tr) (h tr)) l) = true.
Proof.
  induction l as [|a l IH]; [reflexivity|]. destruct l as [|b l]; [reflexivity|].
  intros H.
  change (((tr_time a <? tr_time b) && times_sorted_l (b :: l)) = true) in H.
  apply andb_true_iff in H. destruct H as [H1 H2]. specialize (IH H2).
  cbn [map] in IH |- *. cbn [times_increasing zt_time]. cbn [times_increasing] in IH.
  rewrite H1. cbn [andb]. exact IH.
Qed.

Lemma load_times_increasing_lemma : forall bs z,
  load_bytes bs = OK (Some z) -> times_increasing (zz_tr (abs_zone z)) = true.
Proof.
  intros bs z H. pose proof (accept_sorted_lemma _ _ H) as S.
  unfold table_sorted in S. apply andb_true_iff in S. destruct S as [S _].
  unfold abs_zone. cbn [zz_tr].
  exact (times_sorted_increasing (fun tr => off_of z (tr_type tr)) tr_type _ S).
Qed.

Lemma load_wfz_lemma : forall bs z, load_bytes bs = OK (Some z) ->
  gaps_wide (zz_doff (abs_zone z)) (zz_tr (abs_zone z)) = true -> wfz (abs_zone z) = true.
Proof.
  intros bs z H G. unfold wfz. rewrite (load_times_increasing_lemma _ _ H), G. cbn [andb].
  destruct (accept_bounds_lemma _ _ H) as [N _].
  unfold abs_zone. cbn [zz_tr]. destruct (z_trans z); [congruence|reflexivity].
Qed.

(* ------------------------------------------------------------------ *)
(* The certificate                                                      *)

Lemma load_establishes_certificate_lemma : forall bs z, load_bytes bs = OK (Some z) ->
  gaps_wide (zz_doff (abs_zone z)) (zz_tr (abs_zone z)) = true -> zone_ok z = true.
Proof.
  intros bs z H G. rewrite zone_ok_split.
  rewrite (load_establishes_structure_lemma _ _ H), (load_wfz_lemma _ _ H G). reflexivity.
Qed.

(* ------------------------------------------------------------------ *)
(* End to end: on every accepted file BreakTime and MakeTime compute the
   integer-level specification (ZoneZ) - the certificate is discharged by
   the loader proof instead of being assumed or evaluated *)

Lemma accepted_break_refines_lemma : forall bs z h t, load_bytes bs = OK (Some z) ->
  gaps_wide (zz_doff (abs_zone z)) (zz_tr (abs_zone z)) = true -> int64 t ->
  (z_extended z = false \/ (forall l, last_opt (z_trans z) = Some l -> t < tr_time l)) ->
  exists h' dst ab,
    break_time z h t = OK (mkAL (civil_of_seconds (t + zoff (abs_zone z) t)) (zoff (abs_zone z) t) dst ab, h')
    /\ info_of z (zid (abs_zone z) t) = OK (dst, ab).
Proof.
  intros bs z h t H G. apply break_refines_lemma.
  exact (load_establishes_certificate_lemma _ _ H G).
Qed.

Lemma accepted_make_refines_lemma : forall bs z h cs, load_bytes bs = OK (Some z) ->
  gaps_wide (zz_doff (abs_zone z)) (zz_tr (abs_zone z)) = true ->
  valid_fields cs = true -> int64 (fy cs) ->
  (z_extended z = false \/ fy cs <= z_last_year z) ->
  exists h', let c := zmake (abs_zone z) (sec_of cs) in
    make_time z h cs = OK (mkCL (kind_of' (zk c)) (clamp' (zpre c)) (clamp' (ztrans c)) (clamp' (zpost c)), h').
Proof.
  intros bs z h cs H G. apply make_refines_lemma.
  exact (load_establishes_certificate_lemma _ _ H G).
Qed.

Print Assumptions zone_ok_split.
Print Assumptions load_establishes_structure_lemma.
Print Assumptions wide_footer_certified.
Print Assumptions load_times_increasing_lemma.
Print Assumptions load_wfz_lemma.
Print Assumptions load_establishes_certificate_lemma.
Print Assumptions accepted_break_refines_lemma.
Print Assumptions accepted_make_refines_lemma.
