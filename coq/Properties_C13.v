(* Properties_C13.v — C13: concurrent loading is schedule-independent (the
   logic of the loader; data-race freedom of the compiled C++ is observed under
   ThreadSanitizer, not proved). *)
From CCTZ Require Import Base FixedImpl ZoneLoad LoaderSM LoaderProofs.
Local Open Scope Z_scope.

(* all loads of one name, from any threads, in any interleaving, obtain the
   same identity *)
Theorem one_identity_per_name : forall data es t1 t2 n ok1 ok2 id1 id2,
  In (t1, n, ok1, id1) (ls_results (exec data es)) ->
  In (t2, n, ok2, id2) (ls_results (exec data es)) ->
  id1 = id2 /\ ok1 = ok2.
Proof. exact one_identity_per_name_lemma. Qed.
Print Assumptions one_identity_per_name.

(* every value returned under any interleaving equals what a single-threaded
   execution returns: success iff constructing the zone from the name's data
   succeeds (UTC names always succeed); failure yields the UTC identity *)
Theorem schedule_independent : forall data es t n ok id,
  In (t, n, ok, id) (ls_results (exec data es)) ->
  ok = (match FixedOffsetFromName n with Some 0 => true | _ => construct_ok data n end) /\
  (ok = false -> id = utc_id) /\
  (FixedOffsetFromName n = Some 0 -> id = utc_id) /\
  (ok = true -> FixedOffsetFromName n <> Some 0 -> In (id, n) (ls_impls (exec data es))).
Proof. exact schedule_independent_lemma. Qed.
Print Assumptions schedule_independent.

(* the cache only grows, and an identity once returned for a name is the one
   every later load returns *)
Theorem cache_monotone : forall data es1 es2 n id,
  cache_find (ls_cache (exec data es1)) n = Some id ->
  cache_find (ls_cache (exec data (es1 ++ es2))) n = Some id.
Proof. exact cache_monotone_lemma. Qed.
Print Assumptions cache_monotone.
