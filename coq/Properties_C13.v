(* Properties_C13.v — C13: concurrent loading is schedule-independent (the
   logic of the loader; data-race freedom of the compiled C++ is observed under
   ThreadSanitizer, not proved). *)
From CCTZ Require Import Base FixedImpl ZoneLoad LoaderSM LoaderProofs.
Local Open Scope Z_scope.

(* all loads of one name, from any threads, in any interleaving, obtain the
   same identity *)
Theorem one_identity_per_name : forall data es t1 t2 n ok1 ok2 id1 id2,
  In (t1, n, ok1, id1) (ls_results (exec data es)) ->
  In (t2, n, ok2, id2) (ls_results (exec data es)) ->
  id1 = id2 /\ ok1 = ok2.
Proof. exact one_identity_per_name_lemma. Qed.
Print Assumptions one_identity_per_name.

(* every value returned under any interleaving equals what a single-threaded
   execution returns: success iff constructing the zone from the name's data
   succeeds (UTC names always succeed); failure yields the UTC identity *)
Theorem schedule_independent : forall data es t n ok id,
  In (t, n, ok, id) (ls_results (exec data es)) ->
  ok = (match FixedOffsetFromName n with Some 0 => true | _ => construct_ok data n end) /\
  (ok = false -> id = utc_id) /\
  (FixedOffsetFromName n = Some 0 -> id = utc_id) /\
  (ok = true -> FixedOffsetFromName n <> Some 0 -> In (id, n) (ls_impls (exec data es))).
Proof. exact schedule_independent_lemma. Qed.
Print Assumptions schedule_independent.

(* the cache only grows, and an identity once returned for a name is the one
   every later load returns *)
Theorem cache_monotone : forall data es1 es2 n id,
  cache_find (ls_cache (exec data es1)) n = Some id ->
  cache_find (ls_cache (exec data (es1 ++ es2))) n = Some id.
Proof. exact cache_monotone_lemma. Qed.
Print Assumptions cache_monotone.

From CCTZ Require Import FixedImpl ZoneLoad LoaderSM SourceNames SourceCacheProofs.
(* time_zone::Impl::LoadTimeZone AS CLANG READS IT NOW (SourceNames.v): read as a sequential function over an explicit
   cache, with `world k` standing for what other threads did to the map before the k-th lock acquisition and every
   lock/unlock recorded in a trace (the translator refuses the function if time_zone_map is touched outside a lock_guard,
   is thread_local, or is not one process-wide pointer).  The source-derived function IS the S1 | S2 | S3 structure the
   schedule model (LoaderSM.v) assumes: UTC names take no lock; a cache hit answers from the first critical section;
   otherwise the impl is constructed OUTSIDE the lock and the second critical section is exactly LoaderSM.publish
   (insert-if-absent, return the map's entry). *)
Theorem src_load_time_zone_tie : forall (world : nat -> option imap -> option imap) (new_impl : list Z -> nat * bool) m0 tr0 n tz0 c1 c2,
  cache_rep (world 0%nat m0) c1 ->
  cache_rep (world 1%nat (world 0%nat m0)) c2 ->
  fst (new_impl n) <> utc_id ->
  sn_LoadTimeZone world new_impl m0 tr0 n tz0 =
  match FixedOffsetFromName n with
  | Some 0 => OK (true, Some utc_id, m0, tr0)
  | _ =>
    match cache_find c1 n with
    | Some id => OK (negb (Nat.eqb id utc_id), Some id, world 0%nat m0, tr0 ++ [LkLock; LkUnlock])
    | None =>
      let '(r, p, c3) := s3_result c2 n (fst (new_impl n)) (snd (new_impl n)) in
      OK (r, p, Some (imap_of c3), tr0 ++ [LkLock; LkUnlock; LkLock; LkUnlock])
    end
  end.
Proof. exact SourceCacheProofs.sn_LoadTimeZone_tie. Qed.
Print Assumptions src_load_time_zone_tie.
Theorem src_load_time_zone_publish : forall (world : nat -> option imap -> option imap) (new_impl : list Z -> nat * bool) m0 tr0 n tz0 c1 s2 t log,
  cache_rep (world 0%nat m0) c1 ->
  cache_rep (world 1%nat (world 0%nat m0)) (ls_cache s2) ->
  fst (new_impl n) = ls_next s2 -> ls_next s2 <> utc_id ->
  FixedOffsetFromName n <> Some 0 -> cache_find c1 n = None ->
  let s3 := publish s2 t n (snd (new_impl n)) log in
  exists r id,
    sn_LoadTimeZone world new_impl m0 tr0 n tz0
      = OK (r, Some id, Some (imap_of (ls_cache s3)), tr0 ++ [LkLock; LkUnlock; LkLock; LkUnlock])
    /\ ls_results s3 = ls_results s2 ++ [(t, n, r, id)].
Proof. exact SourceCacheProofs.sn_LoadTimeZone_publish. Qed.
Print Assumptions src_load_time_zone_publish.
Theorem src_load_time_zone_serial : forall (data : name -> option (list Z)) (new_impl : list Z -> nat * bool) m0 tr0 n tz0 s t,
  (forall k, get_thr (ls_thr s) t <> Some (TInFactory k)) ->
  cache_rep m0 (ls_cache s) ->
  fst (new_impl n) = ls_next s -> ls_next s <> utc_id ->
  snd (new_impl n) = construct_ok data n ->
  let s' := step data (step data s (Start t n)) (Release t) in
  exists r id m' tr',
    sn_LoadTimeZone (fun _ m => m) new_impl m0 tr0 n tz0 = OK (r, Some id, m', tr')
    /\ cache_rep m' (ls_cache s') /\ ls_results s' = ls_results s ++ [(t, n, r, id)].
Proof. exact SourceCacheProofs.sn_LoadTimeZone_serial. Qed.
Print Assumptions src_load_time_zone_serial.
