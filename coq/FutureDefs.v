(* FutureDefs.v — statements' vocabulary for the far-future theorems (C01/C02/C10):
   BreakTime/MakeTime beyond the generated window = the table's answer 400*k
   years earlier, re-dated; and the footer rule as a function of the instant. *)
From CCTZ Require Import Base Cal PosixImpl ZoneLoad ZoneImpl ZoneSpec ZoneZ ZoneRefineDefs.
Local Open Scope Z_scope.

Definition P400 : Z := 146097 * 86400.

(* the rule's state at instant t: the kind (true = DST) of the latest rule
   instant <= t over ALL years, evaluated on the calendar (ZoneSpec.rule_start /
   rule_end); candidates come from the civil year of t and its neighbours *)
Definition rule_state (r : rule) (t : Z) : option bool :=
  match latest_le (rule_candidates r (year_of_instant t)) (t - 3 * 366 * 86400) t with
  | Some (_, b) => Some b
  | None => None
  end.
