(* WholeDomain.v - the EXECUTABLE domain of the end-to-end theorems c01_whole / c02_whole / c03_whole / c06_whole
   (C01Whole.v, C02Whole.v), kept apart from the proofs so that the extracted driver can evaluate it on every zone
   the correspondence runs use (evidence: how many zones lie inside the theorems' hypotheses) even when a proof breaks.
   All definitions were moved here unchanged from RuleProofs.v (rule_gen'), C01Whole.v and C02Whole.v. *)
From CCTZ Require Import Base SrcConstants Cal CivilImpl PosixImpl PosixSpec ZoneLoad ZoneSpec.
Local Open Scope Z_scope.

Fixpoint rule_gen' (r : rule) (std_ti dst_ti : Z) (last_time : Z) (Y : Z) (n : nat) : list (Z * Z) :=
  match n with
  | O => []
  | S k =>
      let a := (rule_start r Y, dst_ti) in
      let b := (rule_end r Y, std_ti) in
      let '(ta, tb) := if fst a <? fst b then (a, b) else (b, a) in
      (if last_time <? fst tb then (if last_time <? fst ta then [ta; tb] else [tb]) else [])
      ++ rule_gen' r std_ti dst_ti last_time (Y + 1) k
  end.

(* ---- the domain of c01_whole beyond wf_ast ---- *)

(* F9 (known finding): a DST-rule footer behind a last transition before 1970 (or none) *)
Definition not_f9 (a : ast) : bool :=
  match footer_kind_of a with
  | FRule _ => match rev (a_times a) with lt :: _ => 0 <=? lt | [] => false end
  | _ => true
  end.

(* (R1, the former clause no_dup_info, is no longer needed: EquivTransitions compares the
   abbreviation text, so two types with the same designation are equivalent whatever their
   abbreviation indices - see equiv_same_info and r1_duplicate_designation_now_accepted.) *)

(* R4: the 8-bit index space of GetTransitionType *)
Definition index_space_ok (h : header) (a : ast) : bool :=
  match a_footer a with
  | [] => true
  | f => match posix_spec f with
         | Some p => (h_typecnt h <=? 254) && (h_charcnt h + Z.of_nat (length (std_abbr p)) + 1 <=? 255)
         | None => true
         end
  end.

(* R2: the footer's offsets are above -24h like the file's (the seam of two days is then enough) *)
Definition footer_offsets_ok (a : ast) : bool :=
  match footer_kind_of a with
  | FRule r => (-86400 <? fst (fst (r_std r))) && (-86400 <? fst (fst (r_dst r)))
  | _ => true
  end.

(* R3: every rule instant of year Y lies inside UTC year Y, a day clear of both New Years *)
Definition rule_tame_y (r : rule) (Y : Z) : bool :=
  (86400 * days_from_civil Y 1 1 + 86400 <=? rule_start r Y) &&
  (rule_start r Y + 86400 <=? 86400 * days_from_civil (Y + 1) 1 1) &&
  (86400 * days_from_civil Y 1 1 + 86400 <=? rule_end r Y) &&
  (rule_end r Y + 86400 <=? 86400 * days_from_civil (Y + 1) 1 1).
Definition rule_tame (a : ast) : bool :=
  match footer_kind_of a with
  | FRule r => forallb (rule_tame_y r) (zrange 2000 400)
  | _ => true
  end.

Definition c01_domain (h : header) (a : ast) : bool :=
  not_f9 a && index_space_ok h a && footer_offsets_ok a && rule_tame a.

Definition file_pairs (a : ast) : list (Z * Z) := combine (a_times a) (a_idx a).

Definition bb_pairs (a : ast) : list (Z * Z) :=
  match a_times a with
  | [] => [(big_bang, 0)]
  | t0 :: _ => if 0 <=? t0 then [(big_bang, 0)] else []
  end.

(* ---- c02_whole: the upper half of the day bound, for the footer's two offsets ---- *)
Definition footer_below_day (a : ast) : bool :=
  match footer_kind_of a with
  | FRule r => (fst (fst (r_std r)) <? 86400) && (fst (fst (r_dst r)) <? 86400)
  | _ => true
  end.

(* the instants of the loaded table, from the AST alone: the big-bang entry, the file's transitions, the
   rule instants of the 402 generated years that lie after the last one (or the 2^31-1 sentinel) *)
Definition gen_times (a : ast) : list Z :=
  match footer_kind_of a, last_info_year (szone_of a) with
  | FRule r, Some (lt, y0) => map fst (rule_gen' r 0 0 lt y0 402)
  | _, _ => []
  end.
Definition table_times (a : ast) : list Z :=
  let base := map fst (bb_pairs a ++ file_pairs a) ++ gen_times a in
  base ++ match last_opt base with
          | Some t => if t <? 0 then [src_second_half_sentinel] else []
          | None => []
          end.
(* C02's side condition in the specification's terms: consecutive instants of that list are farther apart
   than the sum of the offset changes at them (ZoneSpec.gaps_ok, the clause wf_ast applies to a_times) *)
Definition table_gaps_ok (a : ast) : bool := gaps_ok (szone_of a) (table_times a).

(* everything the four end-to-end theorems ask of a parsed file *)
Definition whole_domain (h : header) (a : ast) : bool :=
  wf_ast h a && c01_domain h a && footer_below_day a && table_gaps_ok a.
