(* PosixProofs.v — C16: the transcription of src/time_zone_posix.cc
   (PosixImpl.v) accepts exactly the grammar of PosixSpec.v and yields the
   same fields; c_str truncation; every accepted result is fully determined. *)
From CCTZ Require Import Base SrcConstants PosixImpl PosixSpec.
Require Import Lia ZifyBool.
Local Open Scope Z_scope.

(* ------------------------------------------------------------------ *)
(* c_str                                                               *)

Lemma c_str_nul_free s : nul_free (c_str s) = true.
Proof.
  unfold nul_free. induction s as [|c r IH]; [reflexivity|].
  cbn [c_str]. destruct (c =? 0) eqn:E; [reflexivity|].
  cbn [forallb]. rewrite E, IH. reflexivity.
Qed.

Lemma c_str_id s : nul_free s = true -> c_str s = s.
Proof.
  unfold nul_free. induction s as [|c r IH]; [reflexivity|].
  cbn [c_str forallb]. destruct (c =? 0); cbn [negb andb]; [discriminate|].
  intros H. rewrite IH by exact H. reflexivity.
Qed.

Lemma c_str_idem s : c_str (c_str s) = c_str s.
Proof. apply c_str_id, c_str_nul_free. Qed.

(* ------------------------------------------------------------------ *)
(* Literal head patterns `k :: r` turned into boolean tests            *)

Ltac head_tac :=
  intros A p; intros;
  destruct p as [|c r]; [reflexivity|];
  destruct c as [|q|q]; try reflexivity;
  do 7 (try (destruct q as [q|q|]; try reflexivity)).

Lemma m44 : forall A (p : list Z) (f : list Z -> A) (g : A),
  match p with 44 :: r => f r | _ => g end =
  match p with [] => g | c :: r => if c =? 44 then f r else g end.
Proof. head_tac. Qed.

Lemma m47 : forall A (p : list Z) (f : list Z -> A) (g : A),
  match p with 47 :: r => f r | _ => g end =
  match p with [] => g | c :: r => if c =? 47 then f r else g end.
Proof. head_tac. Qed.

Lemma m46 : forall A (p : list Z) (f : list Z -> A) (g : A),
  match p with 46 :: r => f r | _ => g end =
  match p with [] => g | c :: r => if c =? 46 then f r else g end.
Proof. head_tac. Qed.

Lemma m58 : forall A (p : list Z) (f : list Z -> A) (g : A),
  match p with 58 :: r => f r | _ => g end =
  match p with [] => g | c :: r => if c =? 58 then f r else g end.
Proof. head_tac. Qed.

Lemma m60 : forall A (p : list Z) (f : list Z -> A) (g : A),
  match p with 60 :: r => f r | _ => g end =
  match p with [] => g | c :: r => if c =? 60 then f r else g end.
Proof. head_tac. Qed.

Lemma m43_45 : forall A (p : list Z) (f1 f2 : list Z -> A) (g : A),
  match p with 43 :: r => f1 r | 45 :: r => f2 r | _ => g end =
  match p with [] => g | c :: r => if c =? 43 then f1 r else if c =? 45 then f2 r else g end.
Proof. head_tac. Qed.

Lemma m77_74 : forall A (p : list Z) (f1 f2 : list Z -> A) (g : A),
  match p with 77 :: r => f1 r | 74 :: r => f2 r | _ => g end =
  match p with [] => g | c :: r => if c =? 77 then f1 r else if c =? 74 then f2 r else g end.
Proof. head_tac. Qed.

Lemma m74_77 : forall A (p : list Z) (f1 f2 : list Z -> A) (g : A),
  match p with 74 :: r => f1 r | 77 :: r => f2 r | _ => g end =
  match p with [] => g | c :: r => if c =? 74 then f1 r else if c =? 77 then f2 r else g end.
Proof. head_tac. Qed.

(* ------------------------------------------------------------------ *)
(* ParseInt                                                            *)

Local Notation dstep := (fun a c : Z => a * 10 + (c - 48)).

Lemma fold_digits_ge p : forall v, 0 <= v ->
  v <= fold_left dstep (fst (take_digits p)) v.
Proof.
  induction p as [|c r IH]; intros v Hv; cbn [take_digits].
  - cbn. lia.
  - destruct (is_digit c) eqn:D; [|cbn; lia].
    destruct (take_digits r) as [ds rest] eqn:T. cbn [fst snd fold_left] in *.
    unfold is_digit in D.
    specialize (IH (v * 10 + (c - 48))). lia.
Qed.

Lemma int_loop_spec p : forall v n, 0 <= v ->
  match posix_int_loop p v n with
  | Some (v', r', n') =>
      v' = fold_left dstep (fst (take_digits p)) v /\
      r' = snd (take_digits p) /\
      n' = (n + length (fst (take_digits p)))%nat
  | None => 214748364 < fold_left dstep (fst (take_digits p)) v
  end.
Proof.
  induction p as [|c r IH]; intros v n Hv.
  - cbn. repeat split. lia.
  - cbn [posix_int_loop take_digits]. rewrite strchr_digits.
    destruct (is_digit c) eqn:D.
    + pose proof (fold_digits_ge r (v * 10 + (c - 48))) as G.
      specialize (IH (v * 10 + (c - 48)) (S n)).
      destruct (take_digits r) as [ds rest] eqn:T. cbn [fst snd fold_left length] in *.
      assert (Hd : 0 <= c - 48 <= 9) by (unfold is_digit in D; lia).
      destruct (10 <=? c - 48) eqn:E1; [lia|].
      change (Z.quot kMaxInt 10) with 214748364.
      destruct (214748364 <? v) eqn:E2; [lia|].
      destruct (kMaxInt - (c - 48) <? v * 10) eqn:E3; [unfold kMaxInt in E3; lia|].
      specialize (IH ltac:(lia)).
      destruct (posix_int_loop r (v * 10 + (c - 48)) (S n)) as [[[v' r'] n']|].
      * destruct IH as (-> & -> & ->). repeat split. lia.
      * exact IH.
    + destruct (c =? 0); [cbn [Z.leb Z.compare Pos.compare Pos.compare_cont]|];
        cbn [fst snd fold_left length]; repeat split; lia.
Qed.

Lemma parse_int_gen p lo lo' hi :
  hi <= 214748364 ->
  (forall v, 0 <= v -> (v <? lo) = (v <? lo')) ->
  posix_parse_int p lo hi = g_num p lo' hi.
Proof.
  intros Hhi Hlo. unfold posix_parse_int, g_num, digits_value.
  pose proof (int_loop_spec p 0 0 ltac:(lia)) as L.
  pose proof (fold_digits_ge p 0 ltac:(lia)) as G.
  destruct (take_digits p) as [ds rest]. cbn [fst snd] in *.
  destruct (posix_int_loop p 0 0) as [[[v r] n]|].
  - destruct L as (-> & -> & ->).
    destruct ds as [|d ds]; [reflexivity|].
    set (V := fold_left dstep (d :: ds) 0) in *.
    cbn [length Nat.add Nat.eqb orb].
    specialize (Hlo V G).
    destruct (V <? lo) eqn:E1; destruct (hi <? V) eqn:E2;
      destruct (lo' <=? V) eqn:E3; destruct (V <=? hi) eqn:E4;
      cbn [orb andb]; try reflexivity; lia.
  - destruct ds as [|d ds]; [cbn in L; lia|].
    set (V := fold_left dstep (d :: ds) 0) in *.
    destruct (V <=? hi) eqn:E4; [lia|].
    rewrite andb_false_r. reflexivity.
Qed.

Lemma parse_int_nonneg p lo hi :
  0 <= lo -> hi <= 214748364 -> posix_parse_int p lo hi = g_num p lo hi.
Proof. intros. apply parse_int_gen; auto. Qed.

Lemma parse_int_neg p lo hi :
  lo <= 0 -> hi <= 214748364 -> posix_parse_int p lo hi = g_num p 0 hi.
Proof. intros. apply parse_int_gen; auto. intros v Hv. lia. Qed.

(* ------------------------------------------------------------------ *)
(* ParseAbbr                                                           *)

Lemma abbr_bracket_eq p : forall acc,
  abbr_bracket p acc =
  match take_until_gt p with
  | Some (a, rest) => Some (rev acc ++ a, rest)
  | None => None
  end.
Proof.
  induction p as [|c r IH]; intros acc; cbn [abbr_bracket take_until_gt]; [reflexivity|].
  destruct (c =? 62).
  - rewrite app_nil_r. reflexivity.
  - rewrite IH. destruct (take_until_gt r) as [[a rest]|]; [|reflexivity].
    cbn [rev]. rewrite <- app_assoc. reflexivity.
Qed.

Lemma abbr_stop_char c : abbr_stop c = negb (abbr_char c).
Proof.
  unfold abbr_stop, abbr_char. rewrite negb_involutive.
  destruct (c =? 45), (c =? 43), (c =? 44), (is_digit c); reflexivity.
Qed.

Lemma abbr_plain_eq p : forall acc,
  abbr_plain p acc =
  let '(a, rest) := take_while abbr_char p in (rev acc ++ a, rest).
Proof.
  induction p as [|c r IH]; intros acc; cbn [abbr_plain take_while].
  - rewrite app_nil_r. reflexivity.
  - rewrite abbr_stop_char. destruct (abbr_char c); cbn [negb].
    + rewrite IH. destruct (take_while abbr_char r) as [a rest].
      cbn [rev]. rewrite <- app_assoc. reflexivity.
    + rewrite app_nil_r. reflexivity.
Qed.

Lemma abbr_eq p : posix_parse_abbr p = g_abbr p.
Proof.
  assert (D : (let '(a, rest) := abbr_plain p [] in
               if Nat.ltb (length a) 3 then None else Some (a, rest)) =
              (let '(a, rest) := take_while abbr_char p in
               if 3 <=? Z.of_nat (length a) then Some (a, rest) else None)).
  { rewrite abbr_plain_eq. destruct (take_while abbr_char p) as [a rest].
    cbn [rev app].
    destruct (Nat.ltb (length a) 3) eqn:E1; destruct (3 <=? Z.of_nat (length a)) eqn:E2;
      try reflexivity.
    - apply Nat.ltb_lt in E1. lia.
    - apply Nat.ltb_ge in E1. lia. }
  unfold posix_parse_abbr, g_abbr. rewrite !m60.
  destruct p as [|c r]; [exact D|].
  destruct (c =? 60); [|exact D].
  rewrite abbr_bracket_eq. destruct (take_until_gt r) as [[a rest]|]; reflexivity.
Qed.

(* ------------------------------------------------------------------ *)
(* ParseOffset                                                         *)

Lemma off_tail_eq p1 lo hi sg : lo <= 0 -> hi <= 214748364 ->
  match posix_parse_int p1 lo hi with
  | None => None
  | Some (hours, p2) =>
      match p2 with
      | 58 :: r2 =>
          match posix_parse_int r2 0 59 with
          | None => None
          | Some (minutes, p3) =>
              match p3 with
              | 58 :: r3 =>
                  match posix_parse_int r3 0 59 with
                  | None => None
                  | Some (seconds, p4) =>
                      Some (sg * ((((hours * 60) + minutes) * 60) + seconds), p4)
                  end
              | _ => Some (sg * ((((hours * 60) + minutes) * 60) + 0), p3)
              end
          end
      | _ => Some (sg * ((((hours * 60) + 0) * 60) + 0), p2)
      end
  end =
  match g_num p1 0 hi with
  | None => None
  | Some (hh, s2) =>
      match s2 with
      | 58 :: r2 =>
          match g_num r2 0 59 with
          | None => None
          | Some (mm, s3) =>
              match s3 with
              | 58 :: r3 =>
                  match g_num r3 0 59 with
                  | None => None
                  | Some (ss, s4) => Some (sg * (hh * 3600 + mm * 60 + ss), s4)
                  end
              | _ => Some (sg * (hh * 3600 + mm * 60), s3)
              end
          end
      | _ => Some (sg * (hh * 3600), s2)
      end
  end.
Proof.
  intros Hlo Hhi. rewrite parse_int_neg by assumption.
  destruct (g_num p1 0 hi) as [[hh s2]|]; [|reflexivity].
  rewrite !m58.
  assert (E0 : sg * ((hh * 60 + 0) * 60 + 0) = sg * (hh * 3600)) by ring.
  destruct s2 as [|c2 r2]; [rewrite E0; reflexivity|].
  destruct (c2 =? 58); [|rewrite E0; reflexivity].
  rewrite parse_int_nonneg by lia.
  destruct (g_num r2 0 59) as [[mm s3]|]; [|reflexivity].
  rewrite !m58.
  assert (E1 : sg * ((hh * 60 + mm) * 60 + 0) = sg * (hh * 3600 + mm * 60)) by ring.
  destruct s3 as [|c3 r3]; [rewrite E1; reflexivity|].
  destruct (c3 =? 58); [|rewrite E1; reflexivity].
  rewrite parse_int_nonneg by lia.
  destruct (g_num r3 0 59) as [[ss s4]|]; [|reflexivity].
  assert (E2 : sg * ((hh * 60 + mm) * 60 + ss) = sg * (hh * 3600 + mm * 60 + ss)) by ring.
  rewrite E2. reflexivity.
Qed.

Lemma offset_eq p lo hi sign : lo <= 0 -> hi <= 214748364 ->
  posix_parse_offset (Some p) lo hi sign = g_hms p hi sign.
Proof.
  intros Hlo Hhi. unfold posix_parse_offset, g_hms. rewrite !m43_45.
  destruct p as [|c r]; [apply off_tail_eq; assumption|].
  destruct (c =? 43); [apply off_tail_eq; assumption|].
  destruct (c =? 45); apply off_tail_eq; assumption.
Qed.

(* ------------------------------------------------------------------ *)
(* ParseDateTime                                                       *)

Lemma date_eq p : posix_parse_date p = g_date p.
Proof.
  unfold posix_parse_date, g_date.
  change (nthZ src_posix_J_range 0) with 1.
  change (nthZ src_posix_J_range 1) with 365.
  change (nthZ src_posix_N_range 0) with 0.
  change (nthZ src_posix_N_range 1) with 365.
  rewrite m77_74, m74_77.
  assert (N : forall q,
    match posix_parse_int q 0 365 with Some (day, r1) => Some (DN day, r1) | None => None end =
    match g_num q 0 365 with Some (n, rest) => Some (DN n, rest) | None => None end).
  { intros q. rewrite parse_int_nonneg by lia. reflexivity. }
  destruct p as [|c r]; [apply N|].
  destruct (c =? 77) eqn:E77; destruct (c =? 74) eqn:E74; try lia.
  - (* M *)
    rewrite parse_int_nonneg by lia.
    destruct (g_num r 1 12) as [[m l]|]; [|reflexivity].
    rewrite !m46. destruct l as [|c1 r1]; [reflexivity|].
    destruct (c1 =? 46); [|reflexivity].
    rewrite parse_int_nonneg by lia.
    destruct (g_num r1 1 5) as [[w l2]|]; [|reflexivity].
    rewrite !m46. destruct l2 as [|c2 r2]; [reflexivity|].
    destruct (c2 =? 46); [|reflexivity].
    rewrite parse_int_nonneg by lia. reflexivity.
  - (* J *)
    rewrite parse_int_nonneg by lia. reflexivity.
  - apply N.
Qed.

Lemma datetime_eq p : posix_parse_datetime (Some p) = g_rule p.
Proof.
  unfold posix_parse_datetime, g_rule. cbv iota.
  rewrite !m44. destruct p as [|c r]; [reflexivity|].
  destruct (c =? 44); [|reflexivity].
  rewrite date_eq. destruct (g_date r) as [[d s1]|]; [|reflexivity].
  cbv zeta. rewrite !m47.
  change src_posix_default_time with 7200.
  destruct s1 as [|c1 r1]; [reflexivity|].
  destruct (c1 =? 47); [|reflexivity].
  change (nthZ src_posix_time_hours 0) with (-167).
  change (nthZ src_posix_time_hours 1) with 167.
  rewrite offset_eq by lia.
  destruct (g_hms r1 167 1) as [[t s2]|]; reflexivity.
Qed.

(* ------------------------------------------------------------------ *)
(* ParsePosixSpec                                                      *)

Definition spec_off (so : Z) (s3 : list Z) : option (Z * list Z) :=
  match s3 with
  | 44 :: _ => Some (so + 3600, s3)
  | _ => g_hms s3 24 (-1)
  end.

Definition spec_body (s : list Z) : option posix_tz :=
  match g_abbr s with
  | None => None
  | Some (sa, s1) =>
    match g_hms s1 24 (-1) with
    | None => None
    | Some (so, s2) =>
      match s2 with
      | [] => Some (mkPTZ sa (Some so) [] None pt_unset pt_unset)
      | _ =>
        match g_abbr s2 with
        | None => None
        | Some (da, s3) =>
          match spec_off so s3 with
          | None => None
          | Some (dof, s4) =>
            match g_rule s4 with
            | None => None
            | Some (r1, s5) =>
              match g_rule s5 with
              | None => None
              | Some (r2, s6) =>
                match s6 with
                | [] => Some (mkPTZ sa (Some so) da (Some dof) r1 r2)
                | _ => None
                end
              end
            end
          end
        end
      end
    end
  end.

Lemma posix_spec_unf s :
  posix_spec s = if deref s =? 58 then None else spec_body s.
Proof.
  unfold posix_spec. rewrite m58.
  destruct s as [|c r]; reflexivity.
Qed.

Lemma off_choice so s3 :
  (if deref s3 =? 44 then Some (so + 3600, s3)
   else posix_parse_offset (Some s3) 0 24 (-1)) = spec_off so s3.
Proof.
  unfold spec_off. rewrite m44.
  destruct s3 as [|c r]; cbn [deref].
  - change (0 =? 44) with false. cbv iota. apply offset_eq; lia.
  - destruct (c =? 44); [reflexivity|]. apply offset_eq; lia.
Qed.

Lemma gen_eq s : ParsePosixSpec s = posix_spec (c_str s).
Proof.
  unfold ParsePosixSpec, ParsePosixSpec_gen.
  generalize (c_str s) as p. intros p. cbv zeta.
  rewrite posix_spec_unf.
  destruct (deref p =? 58); [reflexivity|].
  unfold spec_body.
  change (nthZ src_posix_offset_hours 0) with 0.
  change (nthZ src_posix_offset_hours 1) with 24.
  change src_posix_default_dst_delta with 3600.
  rewrite abbr_eq.
  destruct (g_abbr p) as [[sa s1]|]; [|reflexivity].
  rewrite offset_eq by lia.
  destruct (g_hms s1 24 (-1)) as [[so s2]|]; [|reflexivity].
  destruct s2 as [|c2 r2]; [reflexivity|].
  cbv iota. generalize (c2 :: r2) as s2. intros s2.
  rewrite abbr_eq.
  destruct (g_abbr s2) as [[da s3]|]; [|reflexivity].
  rewrite off_choice.
  destruct (spec_off so s3) as [[dof s4]|]; [|reflexivity].
  rewrite datetime_eq.
  destruct (g_rule s4) as [[t1 s5]|]; [|reflexivity].
  rewrite datetime_eq.
  destruct (g_rule s5) as [[t2 s6]|]; reflexivity.
Qed.

Lemma posix_iff_lemma : forall s, nul_free s = true -> ParsePosixSpec s = posix_spec s.
Proof.
  intros s H. rewrite gen_eq. rewrite c_str_id by exact H. reflexivity.
Qed.

Lemma posix_cstr_lemma : forall s,
  ParsePosixSpec s = ParsePosixSpec (c_str s) /\ nul_free (c_str s) = true.
Proof.
  intros s. split; [|apply c_str_nul_free].
  rewrite !gen_eq. rewrite c_str_idem. reflexivity.
Qed.

(* ------------------------------------------------------------------ *)
(* Determinedness                                                      *)

Lemma g_rule_det s t r : g_rule s = Some (t, r) -> pt_determined t = true.
Proof.
  unfold g_rule. rewrite m44.
  destruct s as [|c s']; [discriminate|].
  destruct (c =? 44); [|discriminate].
  destruct (g_date s') as [[d s1]|]; [|discriminate].
  rewrite m47.
  destruct s1 as [|c1 r1].
  - intros H. inversion H. reflexivity.
  - destruct (c1 =? 47).
    + destruct (g_hms r1 167 1) as [[t' s2]|]; [|discriminate].
      intros H. inversion H. reflexivity.
    + intros H. inversion H. reflexivity.
Qed.

Lemma posix_spec_det p z : posix_spec p = Some z -> ptz_determined z = true.
Proof.
  rewrite posix_spec_unf.
  destruct (deref p =? 58); [discriminate|].
  unfold spec_body.
  destruct (g_abbr p) as [[sa s1]|]; [|discriminate].
  destruct (g_hms s1 24 (-1)) as [[so s2]|]; [|discriminate].
  destruct s2 as [|c2 r2].
  - intros H. inversion H. reflexivity.
  - destruct (g_abbr (c2 :: r2)) as [[da s3]|]; [|discriminate].
    destruct (spec_off so s3) as [[dof s4]|]; [|discriminate].
    destruct (g_rule s4) as [[r1 s5]|] eqn:R1; [|discriminate].
    destruct (g_rule s5) as [[r2' s6]|] eqn:R2; [|discriminate].
    destruct s6; [|discriminate].
    intros H. inversion H.
    apply g_rule_det in R1. apply g_rule_det in R2.
    unfold ptz_determined. cbn [std_offset dst_abbr dst_offset dst_start dst_end].
    destruct da; [reflexivity|]. rewrite R1, R2. reflexivity.
Qed.

Lemma posix_determined_lemma : forall s r,
  ParsePosixSpec s = Some r -> ptz_determined r = true.
Proof.
  intros s r H. rewrite gen_eq in H. exact (posix_spec_det _ _ H).
Qed.
