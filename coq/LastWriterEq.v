(* LastWriterEq.v - the executable side condition the driver evaluates IS the one the round-trip theorem uses *)
From CCTZ Require Import Base FmtSpec LastWriter FmtRTScan FmtRoundTrip.
Lemma lw_e0f_ok_eq l : lw_e0f_ok l = e0f_ok l.
Proof. induction l as [|a l IH]; [reflexivity|]. destruct a as [c| |k|r|r]; cbn [lw_e0f_ok e0f_ok]; try exact IH.
  destruct k; try exact IH. destruct l as [|b r]; [reflexivity|]. destruct b; try exact IH. rewrite IH. reflexivity. Qed.
Theorem last_writer_ok_x_eq : forall fmt off year, last_writer_ok_x fmt off year = last_writer_ok fmt off year.
Proof.
  intros fmt off year. unfold last_writer_ok_x, last_writer_ok. cbv zeta.
  generalize (lex fmt). intros l. rewrite lw_e0f_ok_eq. reflexivity.
Qed.
Theorem no_other_x_eq : forall fmt, no_other_x fmt = no_other fmt.
Proof. intros fmt. unfold no_other_x, no_other. reflexivity. Qed.
Theorem has_percent_s_x_eq : forall fmt, has_percent_s_x fmt = has_percent_s fmt.
Proof. intros fmt. unfold has_percent_s_x, has_percent_s. generalize (lex fmt). intros l. reflexivity. Qed.
Print Assumptions last_writer_ok_x_eq.
