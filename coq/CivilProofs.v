From CCTZ Require Export CivilNorm CivilDiff.
