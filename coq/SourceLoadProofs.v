(* SourceLoadProofs.v - tie between the source-derived LOADER functions (SourceLoad.v, regenerated from clang's
   AST of src/time_zone_info.cc on every run) and the hand-written model of ZoneLoad.v. *)
From CCTZ Require Import Base SrcConstants Cal CivilImpl PosixImpl ZoneLoad ZoneImpl SourceZone SourceLoad.
From CCTZ Require SourceDecode SourceDecodeProofs Source64 Source64Proofs Source64InfoProofs LoadSafe SourceZoneProofs FinishZone LoadCert.
Require Import Lia ZifyBool.
Local Open Scope Z_scope.
Local Ltac Zify.zify_post_hook ::= idtac.

Lemma u64_small x : 0 <= x < 2 ^ 64 -> u64 x = x.
Proof. intros H. unfold u64. apply Z.mod_small. lia. Qed.
Lemma u8_small x : 0 <= x < 2 ^ 8 -> u8 x = x.
Proof. intros H. unfold u8. apply Z.mod_small. lia. Qed.

(* ------------------------------------------------------------------ *)
(* Header::Build                                                       *)

Lemma decode32_range bs : SourceDecodeProofs.bytes_ok bs -> length bs = 4%nat -> - 2 ^ 31 <= decode32 bs < 2 ^ 31.
Proof.
  intros B L. destruct bs as [|a [|b [|c [|d [|e r]]]]]; try discriminate.
  inversion B as [|? ? Ha B1]; subst. inversion B1 as [|? ? Hb B2]; subst.
  inversion B2 as [|? ? Hc B3]; subst. inversion B3 as [|? ? Hd _]; subst.
  unfold decode32, decode_be. cbn [fold_left].
  destruct (Z.leb_spec ((((0 * 256 + a) * 256 + b) * 256 + c) * 256 + d) 2147483647); lia.
Qed.

Lemma Forall_firstn {A} (P : A -> Prop) n : forall l, Forall P l -> Forall P (firstn n l).
Proof. induction n as [|n IH]; intros [|x l] H; cbn [firstn]; auto. inversion H; subst. constructor; auto. Qed.
Lemma Forall_skipn {A} (P : A -> Prop) n : forall l, Forall P l -> Forall P (skipn n l).
Proof. induction n as [|n IH]; intros [|x l] H; cbn [skipn]; auto. inversion H; subst. auto. Qed.

Lemma field32 tzh off fuel : SourceDecodeProofs.bytes_ok tzh -> length tzh = 44%nat -> 0 <= off <= 40 -> (5 <= fuel)%nat ->
  (do _ <- span_ok tzh off 4 ;; SourceDecode.sd_Decode32 fuel tzh off) = OK (decode32 (sub_bytes tzh (Z.to_nat off) 4)) /\
  - 2 ^ 31 <= decode32 (sub_bytes tzh (Z.to_nat off) 4) < 2 ^ 31.
Proof.
  intros B L O F. split.
  - unfold span_ok. replace ((0 <=? off) && (off + 4 <=? Z.of_nat (length tzh))) with true by lia. cbn [bind].
    rewrite (SourceDecodeProofs.sd_Decode32_tie fuel tzh off B ltac:(lia) ltac:(unfold SourcePosix.blen; lia) F). reflexivity.
  - apply decode32_range.
    + unfold sub_bytes. apply Forall_firstn, Forall_skipn. exact B.
    + unfold sub_bytes. rewrite firstn_length, skipn_length. lia.
Qed.

Lemma bind_assoc2 {A B} (g : res unit) (e : res A) (k : A -> res B) :
  (do _ <- g ;; do x <- e ;; k x) = (do x <- (do _ <- g ;; e) ;; k x).
Proof. destruct g; reflexivity. Qed.

Definition header_fields_ok (h : header) : Prop :=
  0 <= h_timecnt h < 2 ^ 31 /\ 0 <= h_typecnt h < 2 ^ 31 /\ 0 <= h_charcnt h < 2 ^ 31 /\
  0 <= h_leapcnt h < 2 ^ 31 /\ 0 <= h_isstdcnt h < 2 ^ 31 /\ 0 <= h_isutcnt h < 2 ^ 31.

(* Build: [h] is the Header object on entry (members possibly unset).  Its members are overwritten one by one; on
   `return false` the members assigned so far keep their new values, which the model does not track. *)
Theorem sl_Build_tie h tzh fuel :
  SourceDecodeProofs.bytes_ok tzh -> length tzh = 44%nat -> (5 <= fuel)%nat ->
  match header_build tzh with
  | Some h' => sl_Build fuel h tzh = OK (true, oh_of h') /\ header_fields_ok h'
  | None => exists h', sl_Build fuel h tzh = OK (false, h')
  end.
Proof.
  intros B L F. unfold header_build, sl_Build.
  destruct (field32 tzh 32 fuel B L ltac:(lia) F) as [E1 R1]. destruct (field32 tzh 36 fuel B L ltac:(lia) F) as [E2 R2].
  destruct (field32 tzh 40 fuel B L ltac:(lia) F) as [E3 R3]. destruct (field32 tzh 28 fuel B L ltac:(lia) F) as [E4 R4].
  destruct (field32 tzh 24 fuel B L ltac:(lia) F) as [E5 R5]. destruct (field32 tzh 20 fuel B L ltac:(lia) F) as [E6 R6].
  change (Z.to_nat 32) with 32%nat in *. change (Z.to_nat 36) with 36%nat in *. change (Z.to_nat 40) with 40%nat in *.
  change (Z.to_nat 28) with 28%nat in *. change (Z.to_nat 24) with 24%nat in *. change (Z.to_nat 20) with 20%nat in *.
  set (timecnt := decode32 (sub_bytes tzh 32 4)) in *. set (typecnt := decode32 (sub_bytes tzh 36 4)) in *.
  set (charcnt := decode32 (sub_bytes tzh 40 4)) in *. set (leap := decode32 (sub_bytes tzh 28 4)) in *.
  set (isstd := decode32 (sub_bytes tzh 24 4)) in *. set (isut := decode32 (sub_bytes tzh 20 4)) in *.
  cbv zeta.
  rewrite bind_assoc2, E1. cbn [bind get_opt]. destruct (Z.ltb_spec timecnt 0); cbn [orb]; [eexists; reflexivity|].
  rewrite bind_assoc2, E2. cbn [bind get_opt]. destruct (Z.ltb_spec typecnt 0); cbn [orb]; [eexists; reflexivity|].
  rewrite bind_assoc2, E3. cbn [bind get_opt]. destruct (Z.ltb_spec charcnt 0); cbn [orb]; [eexists; reflexivity|].
  rewrite bind_assoc2, E4. cbn [bind get_opt]. destruct (Z.ltb_spec leap 0); cbn [orb]; [eexists; reflexivity|].
  rewrite bind_assoc2, E5. cbn [bind get_opt]. destruct (Z.ltb_spec isstd 0); cbn [orb]; [eexists; reflexivity|].
  rewrite bind_assoc2, E6. cbn [bind get_opt]. destruct (Z.ltb_spec isut 0); cbn [orb]; [eexists; reflexivity|].
  rewrite !u64_small by lia. split; [reflexivity|]. unfold header_fields_ok. cbn. lia.
Qed.

(* ------------------------------------------------------------------ *)
(* Header::DataLength                                                  *)

Theorem sl_DataLength_tie h tl : header_fields_ok h -> 0 <= tl <= 8 ->
  sl_DataLength (oh_of h) tl = OK (data_length h tl).
Proof.
  intros (H1 & H2 & H3 & H4 & H5 & H6) T. unfold sl_DataLength, data_length, oh_of.
  cbn [oh_timecnt oh_typecnt oh_charcnt oh_leapcnt oh_isstdcnt oh_isutcnt get_opt bind].
  set (a := h_timecnt h) in *. set (b := h_typecnt h) in *. set (c := h_charcnt h) in *.
  set (d := h_leapcnt h) in *. set (e := h_isstdcnt h) in *. set (f := h_isutcnt h) in *.
  assert (0 <= (tl + 1) * a <= 9 * 2 ^ 31) by nia. assert (0 <= (tl + 4) * d <= 12 * 2 ^ 31) by nia.
  cbv zeta. rewrite (u64_small (tl + 1)) by lia. rewrite (u64_small (tl + 4)) by lia.
  rewrite (u64_small ((tl + 1) * a)) by lia. rewrite (u64_small (6 * b)) by lia. rewrite (u64_small (1 * c)) by lia.
  rewrite (u64_small ((tl + 4) * d)) by lia. rewrite (u64_small (1 * e)) by lia. rewrite (u64_small (1 * f)) by lia.
  set (p := (tl + 1) * a) in *. set (q := (tl + 4) * d) in *.
  rewrite (u64_small (0 + p)) by lia. rewrite (u64_small (0 + p + 6 * b)) by lia.
  rewrite (u64_small (0 + p + 6 * b + 1 * c)) by lia. rewrite (u64_small (0 + p + 6 * b + 1 * c + q)) by lia.
  rewrite (u64_small (0 + p + 6 * b + 1 * c + q + 1 * e)) by lia.
  rewrite (u64_small (0 + p + 6 * b + 1 * c + q + 1 * e + 1 * f)) by lia. f_equal. lia.
Qed.

(* ------------------------------------------------------------------ *)
(* GetTransitionType                                                   *)

Lemma gtt_loop types abbrs off isdst abbr : Z.of_nat (length types) < 2 ^ 64 ->
  forall suf pre ai r fuel, types = pre ++ suf -> (length suf < fuel)%nat ->
  gtt_scan suf abbrs off isdst abbr (Z.of_nat (length pre)) ai = OK r ->
  sl_GetTransitionType_loop1 fuel types abbrs off isdst abbr (Z.of_nat (length pre)) ai = OK r.
Proof.
  intros Sz. induction suf as [|ty rest IH]; intros pre ai r fuel E F H; (destruct fuel as [|fuel]; [cbn [length] in F; lia|]).
  - cbn [gtt_scan] in H. cbn [sl_GetTransitionType_loop1]. rewrite app_nil_r in E. subst pre.
    unfold vec_size. rewrite Z.eqb_refl. cbn [negb]. exact H.
  - cbn [gtt_scan] in H. cbn [sl_GetTransitionType_loop1].
    assert (L : length types = (length pre + S (length rest))%nat) by (rewrite E, app_length; reflexivity).
    unfold vec_size. replace (Z.of_nat (length pre) =? Z.of_nat (length types)) with false by lia. cbn [negb].
    assert (N : nth_res types (Z.of_nat (length pre)) = OK ty).
    { unfold nth_res. replace (Z.of_nat (length pre) <? 0) with false by lia. rewrite Nat2Z.id, E, nth_error_app2 by lia.
      rewrite Nat.sub_diag. reflexivity. }
    rewrite N. cbn [bind].
    apply bind_ok in H as (ab & A & H). rewrite A. cbn [bind].
    assert (NEXT : gtt_scan rest abbrs off isdst abbr (Z.of_nat (length pre) + 1) (if list_eqb ab abbr then tt_abbr ty else ai) = OK r ->
      sl_GetTransitionType_loop1 fuel types abbrs off isdst abbr (u64 (Z.of_nat (length pre) + 1)) (if list_eqb ab abbr then tt_abbr ty else ai) = OK r).
    { intros H1. rewrite u64_small by lia.
      replace (Z.of_nat (length pre) + 1) with (Z.of_nat (length (pre ++ [ty]))) in * by (rewrite app_length; cbn [length]; lia).
      apply IH; [rewrite <- app_assoc; exact E|cbn [length] in F; lia|exact H1]. }
    destruct (list_eqb ab abbr); cbn [bind].
    + destruct (tt_off ty =? off); cbn [andb] in H |- *; [|apply NEXT; exact H].
      destruct (tt_isdst ty), isdst; cbn [b2z Bool.eqb andb Z.eqb] in H |- *; try (apply NEXT; exact H);
        (destruct (tt_abbr ty =? tt_abbr ty); [exact H|apply NEXT; exact H]).
    + destruct (tt_off ty =? off); cbn [andb] in H |- *; [|apply NEXT; exact H].
      destruct (tt_isdst ty), isdst; cbn [b2z Bool.eqb andb Z.eqb] in H |- *; try (apply NEXT; exact H);
        (destruct (ai =? tt_abbr ty); [exact H|apply NEXT; exact H]).
Qed.

Lemma gtt_scan_nonneg abbrs off isdst abbr : forall suf ti ai ti' ai',
  Forall (fun ty => 0 <= tt_abbr ty) suf -> 0 <= ai -> 0 <= ti ->
  gtt_scan suf abbrs off isdst abbr ti ai = OK (ti', ai') -> 0 <= ai' /\ 0 <= ti'.
Proof.
  induction suf as [|ty rest IH]; intros ti ai ti' ai' F A T H; cbn [gtt_scan] in H.
  - inversion H; subst. auto.
  - inversion F as [|? ? Fy Fr]; subst. apply bind_ok in H as (ab & _ & H).
    set (ai1 := if list_eqb ab abbr then tt_abbr ty else ai) in *.
    assert (0 <= ai1) by (unfold ai1; destruct (list_eqb ab abbr); lia).
    destruct ((tt_off ty =? off) && Bool.eqb (tt_isdst ty) isdst && (ai1 =? tt_abbr ty)).
    + inversion H; subst. auto.
    + apply (IH (ti + 1) ai1); auto. lia.
Qed.

Lemma nth_res_last {A} (l : list A) x : nth_res (l ++ [x]) (Z.of_nat (length l)) = OK x.
Proof.
  unfold nth_res. replace (Z.of_nat (length l) <? 0) with false by lia.
  rewrite Nat2Z.id, nth_error_app2 by lia. rewrite Nat.sub_diag. reflexivity.
Qed.

Lemma vec_set_last {A} (l : list A) x y : vec_set (l ++ [x]) (Z.of_nat (length l)) y = OK (l ++ [y]).
Proof.
  unfold vec_set, vec_size. rewrite app_length. cbn [length].
  replace ((0 <=? Z.of_nat (length l)) && (Z.of_nat (length l) <? Z.of_nat (length l + 1))) with true by lia.
  rewrite Nat2Z.id. rewrite firstn_app, Nat.sub_diag, firstn_all. cbn [firstn]. rewrite app_nil_r.
  rewrite skipn_app. rewrite (skipn_all2 l) by lia.
  replace (S (length l) - length l)%nat with 1%nat by lia. reflexivity.
Qed.

(* GetTransitionType.  The object on entry is (mkZone trans types dflt abbrs future ext ly); [idx] is *index on
   entry.  Hypotheses are C++ types: utc_offset is stored in an int_least32_t, abbr_index members are
   uint_least8_t, transition_types_.size() is a size_t. *)
Theorem sl_GetTransitionType_tie trans types dflt abbrs future ext ly off isdst abbr idx fuel :
  int32 off -> Forall (fun ty => 0 <= tt_abbr ty) types ->
  Z.of_nat (length types) < 2 ^ 64 -> (length types < fuel)%nat ->
  match get_transition_type types abbrs off isdst abbr with
  | OK None =>
      sl_GetTransitionType fuel (mkZone trans types dflt abbrs future ext ly) off isdst abbr idx
      = OK (false, mkZone trans types dflt abbrs future ext ly, idx)
  | OK (Some (types', abbrs', ti)) =>
      sl_GetTransitionType fuel (mkZone trans types dflt abbrs future ext ly) off isdst abbr idx
      = OK (true, mkZone trans types' dflt abbrs' future ext ly, Some ti)
  | Err _ => True
  end.
Proof.
  intros I32 Fa Sz Hf. unfold get_transition_type.
  destruct (gtt_scan types abbrs off isdst abbr 0 (Z.of_nat (length abbrs))) as [[ti ai]|] eqn:G; cbn [bind]; [|exact I].
  destruct (gtt_scan_nonneg abbrs off isdst abbr types 0 (Z.of_nat (length abbrs)) ti ai Fa ltac:(lia) ltac:(lia) G) as [Pa Pt].
  pose proof (gtt_loop types abbrs off isdst abbr Sz types [] (Z.of_nat (length abbrs)) (ti, ai) fuel eq_refl Hf G) as L.
  cbn [length] in L. change (Z.of_nat 0) with 0 in L.
  unfold sl_GetTransitionType. cbn [z_trans z_types z_default z_abbrs z_future z_extended z_last_year]. cbv zeta.
  unfold vec_size. rewrite L. cbn [bind].
  destruct ((255 <? ti) || (255 <? ai)) eqn:C; [reflexivity|].
  destruct (ti =? Z.of_nat (length types)) eqn:T.
  - unfold narrow32. rewrite chk32_in by exact I32. cbn [bind].
    rewrite nth_res_last. cbn [bind]. rewrite vec_set_last. cbn [bind].
    rewrite nth_res_last. cbn [bind]. rewrite vec_set_last. cbn [bind].
    destruct (ai =? Z.of_nat (length abbrs)); cbn [bind];
      rewrite nth_res_last; cbn [bind]; rewrite vec_set_last; cbn [bind];
      rewrite !u8_small by lia; cbn [tt_off tt_cmax tt_cmin tt_isdst tt_abbr]; [|reflexivity].
    change (repeat 0 (Z.to_nat 1)) with [0]. rewrite <- app_assoc. reflexivity.
  - cbn [bind]. rewrite u8_small by lia. reflexivity.
Qed.

(* ------------------------------------------------------------------ *)
(* ExtendTransitions                                                   *)

Import LoadSafe Source64InfoProofs.

Lemma ext_loop p so dof std_ti dst_ti last_time limit trans :
  pt_ok (dst_start p) -> pt_ok (dst_end p) -> std_offset p = Some so -> dst_offset p = Some dof ->
  forall fuel fuel' st st' dt stt, (fuel <= fuel')%nat -> 0 <= es_jan1_wd st <= 6 ->
  extend_loop fuel (dst_start p) (dst_end p) so dof std_ti dst_ti last_time limit st = OK st' ->
  exists dt' stt',
    sl_ExtendTransitions_loop1 fuel' (Some p) last_time limit (trans ++ es_acc st) (es_year st) (es_leap st)
      (es_jan1_time st) (es_jan1_wd st) (mkTr dt dst_ti epoch epoch) (mkTr stt std_ti epoch epoch)
    = OK (trans ++ es_acc st', es_year st', es_leap st', es_jan1_time st', es_jan1_wd st',
          mkTr dt' dst_ti epoch epoch, mkTr stt' std_ti epoch epoch).
Proof.
  intros Ps Pe Hso Hdof.
  induction fuel as [|fuel IH]; intros fuel' st st' dt stt Hf Hw H; cbn [extend_loop] in H; [discriminate|].
  destruct fuel' as [|fuel']; [lia|]. cbn [sl_ExtendTransitions_loop1]. cbn [get_opt bind].
  destruct st as [year leap jan1 wd acc]. cbn [es_year es_leap es_jan1_time es_jan1_wd es_acc] in *.
  apply bind_ok in H as (dto & D1 & H). rewrite (s64_TransOffset_tie leap wd (dst_start p) dto Ps ltac:(lia) D1). cbn [bind].
  apply bind_ok in H as (sto & D2 & H). rewrite (s64_TransOffset_tie leap wd (dst_end p) sto Pe ltac:(lia) D2). cbn [bind].
  apply bind_ok in H as (d1 & D3 & H). rewrite D3. cbn [bind]. rewrite Hso. cbn [get_opt bind].
  apply bind_ok in H as (dst_time & D4 & H). rewrite D4. cbn [bind].
  apply bind_ok in H as (s1 & D5 & H). rewrite D5. cbn [bind]. rewrite Hdof. cbn [get_opt bind].
  apply bind_ok in H as (std_time & D6 & H). rewrite D6. cbn [bind tr_time tr_type tr_cs tr_pcs].
  set (dst := mkTr dst_time dst_ti epoch epoch) in *. set (std := mkTr std_time std_ti epoch epoch) in *.
  set (acc1 := if last_time <? tr_time (snd (if dst_time <? std_time then (dst, std) else (std, dst)))
               then (if last_time <? tr_time (fst (if dst_time <? std_time then (dst, std) else (std, dst)))
                     then acc ++ [fst (if dst_time <? std_time then (dst, std) else (std, dst))] else acc)
                    ++ [snd (if dst_time <? std_time then (dst, std) else (std, dst))]
               else acc).
  assert (HS : (if last_time <? tr_time (if dst_time <? std_time then std else dst)
                then do transitions_ <- (if last_time <? tr_time (if dst_time <? std_time then dst else std)
                                         then OK ((trans ++ acc) ++ [if dst_time <? std_time then dst else std])
                                         else OK (trans ++ acc)) ;;
                     OK (transitions_ ++ [if dst_time <? std_time then std else dst])
                else OK (trans ++ acc)) = OK (trans ++ acc1)).
  { unfold acc1. destruct (dst_time <? std_time); cbn [fst snd];
      repeat match goal with |- context [if ?c then _ else _] => destruct c end; cbn [bind]; rewrite <- ?app_assoc; reflexivity. }
  assert (H' : (if year =? limit then OK (mkES year leap jan1 wd acc1)
                else do spy <- nth_res [365 * src_kSecsPerDay; 366 * src_kSecsPerDay] (b2z leap) ;;
                     do j' <- add64 jan1 spy ;;
                     do dpy <- nth_res src_kDaysPerYear (b2z leap) ;;
                     do y1 <- add64 year 1 ;;
                     extend_loop fuel (dst_start p) (dst_end p) so dof std_ti dst_ti last_time limit
                       (mkES y1 (negb leap && is_leap_year64 y1) j' (Z.rem (wd + dpy) 7) acc1)) = OK st').
  { unfold acc1. destruct (dst_time <? std_time); exact H. }
  clear H. clearbody acc1. rewrite HS. cbn [bind].
  destruct (year =? limit).
  { inversion H'; subst st'. cbn [es_year es_leap es_jan1_time es_jan1_wd es_acc]. eexists _, _. reflexivity. }
  apply bind_ok in H' as (spy & S1 & H'). change [365 * src_kSecsPerDay; 366 * src_kSecsPerDay] with [31536000; 31622400] in S1.
  rewrite S1. cbn [bind].
  apply bind_ok in H' as (j' & S2 & H'). rewrite S2. cbn [bind].
  apply bind_ok in H' as (dpy & S3 & H'). change src_kDaysPerYear with [365; 366] in S3. rewrite S3. cbn [bind].
  apply bind_ok in H' as (y1 & S4 & H'). 
  assert (Dp : dpy = 365 \/ dpy = 366) by (destruct leap; cbn in S3; inversion S3; auto).
  unfold add32. rewrite chk32_in by (unfold int32, min32, max32; lia). cbn [bind].
  rewrite S4. cbn [bind].
  replace (if negb leap then do t51 <- Source64.s64_IsLeap y1 ;; OK t51 else OK false)
    with (OK (A:=bool) (negb leap && is_leap_year64 y1)) by (destruct leap; reflexivity).
  cbn [bind].
  assert (Hw' : 0 <= Z.rem (wd + dpy) 7 <= 6) by (pose proof (Z.rem_bound_pos (wd + dpy) 7 ltac:(lia) ltac:(lia)); lia).
  exact (IH fuel' (mkES y1 (negb leap && is_leap_year64 y1) j' (Z.rem (wd + dpy) 7) acc1) st' dst_time std_time ltac:(lia) Hw' H').
Qed.

(* get_weekday(jan1): both sides depend on the year only through year % 400, so a finite sweep decides it *)
Definition resZ_eqb (a b : res Z) : bool :=
  match a, b with OK x, OK y => x =? y | _, _ => false end.
Lemma resZ_eqb_eq a b : resZ_eqb a b = true -> a = b /\ exists w, a = OK w.
Proof. destruct a as [x|], b as [y|]; cbn; try discriminate. intros H. apply Z.eqb_eq in H. subst. eauto. Qed.

Lemma jan1_weekday y : exists w, get_weekday64 (mkF y 1 1 0 0 0) = OK w /\ Source64.s64_get_weekday (mkF y 1 1 0 0 0) = OK w.
Proof.
  assert (S : forallb (fun r => resZ_eqb (get_weekday64 (mkF r 1 1 0 0 0)) (Source64.s64_get_weekday (mkF r 1 1 0 0 0)))
                      (zrange (-399) 799) = true) by (vm_compute; reflexivity).
  rewrite forallb_forall in S.
  pose proof (Z.rem_bound_abs y 400 ltac:(lia)) as B.
  assert (In (Z.rem y 400) (zrange (-399) 799)) as I by (apply zrange_In; lia).
  specialize (S _ I). apply resZ_eqb_eq in S as [E [w W]].
  assert (R : Z.rem (Z.rem y 400) 400 = Z.rem y 400).
  { apply Z.rem_small_iff; [lia|]. rewrite Z.abs_lt in *. lia. }
  exists w. unfold get_weekday64, Source64.s64_get_weekday in *. cbn [fy fm fd] in *. rewrite R in *. rewrite <- E. split; exact W.
Qed.

Lemma gtt_result types abbrs off isdst abbr types' abbrs' ti :
  Forall (fun ty => 0 <= tt_abbr ty) types ->
  get_transition_type types abbrs off isdst abbr = OK (Some (types', abbrs', ti)) ->
  Forall (fun ty => 0 <= tt_abbr ty) types' /\ (length types' <= length types + 1)%nat.
Proof.
  intros Fa H. unfold get_transition_type in H.
  destruct (gtt_scan types abbrs off isdst abbr 0 (Z.of_nat (length abbrs))) as [[t a]|] eqn:G; cbn [bind] in H; [|discriminate].
  destruct (gtt_scan_nonneg abbrs off isdst abbr types 0 (Z.of_nat (length abbrs)) t a Fa ltac:(lia) ltac:(lia) G) as [Pa Pt].
  destruct ((255 <? t) || (255 <? a)); [discriminate|].
  destruct (t =? Z.of_nat (length types)); inversion H; subst.
  - split; [|rewrite app_length; cbn [length]; lia]. apply Forall_app. split; [exact Fa|]. constructor; [exact Pa|constructor].
  - split; [exact Fa|lia].
Qed.

Lemma weekday_range f w : get_weekday64 f = OK w -> 0 <= w <= 6.
Proof.
  unfold get_weekday64.
  destruct (if fm f <? 0 then None else nth_error src_k_weekday_offsets (Z.to_nat (fm f))) as [o|]; [|discriminate].
  match goal with |- match ?e with _ => _ end = _ -> _ => destruct e as [x|] eqn:E end; [|discriminate].
  intros H. inversion H; subst x. clear H.
  match type of E with (if ?c then _ else _) = _ => destruct c end; [discriminate|].
  apply nth_error_In in E. unfold src_k_weekday_by_mon_off in E. cbn [In] in E.
  repeat (destruct E as [E|E]; [lia|]). contradiction.
Qed.

Lemma jan1_construct y : construct64 0 y 1 1 0 0 0 = OK (mkF y 1 1 0 0 0).
Proof. reflexivity. Qed.

Definition ext_result (dflt : Z) (future : list Z) (ly0 : Z)
  (r : list transition * list ttype * list Z * bool * Z) : zone :=
  let '(tr, ty, ab, e, ly) := r in mkZone tr ty dflt ab future e (if e then ly else ly0).

(* ExtendTransitions.  The object on entry is (mkZone trans types dflt abbrs future ext0 ly0).  Hypotheses are C++
   types only (abbr_index members are uint_least8_t, sizes are size_t) plus enough fuel.  last_year_ is left
   untouched when the table is not extended (the model reports 0 there). *)
Theorem sl_ExtendTransitions_tie trans types dflt abbrs future ext0 ly0 fuel :
  Forall (fun ty => 0 <= tt_abbr ty) types ->
  Z.of_nat (length types) + 1 < 2 ^ 64 -> (length types + 1 < fuel)%nat -> (403 <= fuel)%nat ->
  match extend_transitions trans types abbrs future with
  | OK None => exists z', sl_ExtendTransitions fuel (mkZone trans types dflt abbrs future ext0 ly0) = OK (false, z')
  | OK (Some r) => sl_ExtendTransitions fuel (mkZone trans types dflt abbrs future ext0 ly0) = OK (true, ext_result dflt future ly0 r)
  | Err _ => True
  end.
Proof.
  intros Fa Sz Hf Hf2. unfold extend_transitions, sl_ExtendTransitions.
  cbn [z_trans z_types z_default z_abbrs z_future z_extended z_last_year]. cbv zeta.
  destruct future as [|c0 fut0]; [reflexivity|]. set (future := c0 :: fut0) in *.
  change (vec_empty future) with false. cbv iota.
  destruct (ParsePosixSpec future) as [p|] eqn:PP; [|eexists; reflexivity].
  cbv iota. cbn [negb get_opt bind].
  pose proof (parse_ok _ _ PP) as (so & Hso & Rso & Rest).
  rewrite Hso. cbn [get_opt bind].
  pose proof (sl_GetTransitionType_tie trans types dflt abbrs future false ly0 so false (std_abbr p) None fuel
                ltac:(unfold int32, min32, max32; lia) Fa ltac:(lia) ltac:(lia)) as G1.
  destruct (get_transition_type types abbrs so false (std_abbr p)) as [[[[types1 abbrs1] std_ti]|]|] eqn:R1; cbn [bind]; [| |exact I].
  2:{ rewrite G1. cbn [bind]. eexists; reflexivity. }
  rewrite G1. cbn [bind z_trans z_types z_default z_abbrs z_future z_extended z_last_year negb].
  destruct (gtt_result _ _ _ _ _ _ _ _ Fa R1) as [Fa1 Ln1].
  destruct (last_opt trans) as [last|] eqn:La; cbn [bind]; [|exact I].
  assert (VB : vec_back trans = OK last) by (unfold vec_back; rewrite La; reflexivity).
  rewrite VB.
  pose proof (parse_ok _ _ PP) as POK.
  destruct (dst_abbr p) as [|d0 dr] eqn:DA.
  { cbn [vec_empty bind get_opt]. rewrite SourceZoneProofs.sz_EquivTransitions_tie. cbn [z_abbrs z_types].
    destruct (equiv_transitions abbrs1 types1 (tr_type last) std_ti) as [e|]; cbn [bind]; [|exact I].
    destruct e; [reflexivity|eexists; reflexivity]. }
  change (vec_empty (d0 :: dr)) with false. cbv iota.
  destruct Rest as [E|(dof & Hdof & Rdof & Ps & Pe)]; [discriminate|].
  rewrite Hdof. cbn [get_opt bind].
  pose proof (sl_GetTransitionType_tie trans types1 dflt abbrs1 future false ly0 dof true (d0 :: dr) None fuel
                ltac:(unfold int32, min32, max32; lia) Fa1 ltac:(lia) ltac:(lia)) as G2.
  destruct (get_transition_type types1 abbrs1 dof true (d0 :: dr)) as [[[[types2 abbrs2] dst_ti]|]|] eqn:R2; cbn [bind]; [| |exact I].
  2:{ rewrite G2. cbn [bind]. eexists; reflexivity. }
  rewrite G2. cbn [bind z_trans z_types z_default z_abbrs z_future z_extended z_last_year negb].
  destruct (all_year_dst p) as [ay|] eqn:AY; cbn [bind]; [|exact I].
  rewrite (s64_AllYearDST_tie p ay POK ltac:(rewrite DA; discriminate) AY). cbn [bind].
  destruct ay.
  { rewrite ?VB. cbn [bind get_opt]. rewrite SourceZoneProofs.sz_EquivTransitions_tie. cbn [z_abbrs z_types].
    destruct (equiv_transitions abbrs2 types2 (tr_type last) dst_ti) as [e|]; cbn [bind]; [|exact I].
    destruct e; [reflexivity|eexists; reflexivity]. }
  rewrite ?VB. cbn [bind].
  destruct (nth_res types2 (tr_type last)) as [last_tt|] eqn:LT; cbn [bind]; [|exact I].
  rewrite SourceZoneProofs.sz_LocalTime_tt_tie. cbn [z_abbrs].
  destruct (local_time_tt abbrs2 (tr_time last) last_tt) as [al|] eqn:AL; cbn [bind]; [|exact I].
  set (ly := fy (al_cs al)) in *.
  rewrite s64_IsLeap_tie. cbn [bind]. rewrite jan1_construct. cbn [bind].
  change (mkF 1970 1 1 0 0 0) with epoch.
  destruct (difference64 0 (mkF ly 1 1 0 0 0) epoch) as [jan1_time|] eqn:JT; cbn [bind]; [|exact I].
  destruct (jan1_weekday ly) as (w & W1 & W2). rewrite W1, W2. cbn [bind].
  rewrite (s64_ToPosixWeekday_tie w (weekday_range _ _ W1)). cbn [bind get_opt].
  change src_extend_years with 401.
  destruct (add64 ly 401) as [limit|] eqn:LM; cbn [bind]; [|exact I].
  destruct (extend_loop 403 (dst_start p) (dst_end p) so dof std_ti dst_ti (tr_time last) limit
              (mkES ly (is_leap_year64 ly) jan1_time (to_posix_weekday w) [])) as [st|] eqn:EL; cbn [bind]; [|exact I].
  assert (Hw : 0 <= to_posix_weekday w <= 6).
  { pose proof (weekday_range _ _ W1). unfold to_posix_weekday. destruct (w =? 6) eqn:E6; lia. }
  destruct (ext_loop p so dof std_ti dst_ti (tr_time last) limit trans Ps Pe Hso Hdof 403%nat fuel (mkES ly (is_leap_year64 ly) jan1_time (to_posix_weekday w) []) st 0 0 Hf2 Hw EL) as (dt' & stt' & LP).
  cbn [es_year es_leap es_jan1_time es_jan1_wd es_acc] in LP. rewrite app_nil_r in LP.
  rewrite LP. cbn [bind]. reflexivity.
Qed.


(* ================================================================== *)
(* Load: the general tie                                               *)

Import SourceDecodeProofs.

Lemma nth_res_mid {A} (a b : list A) x : nth_res (a ++ x :: b) (Z.of_nat (length a)) = OK x.
Proof.
  unfold nth_res. replace (Z.of_nat (length a) <? 0) with false by lia.
  rewrite Nat2Z.id, nth_error_app2 by lia. rewrite Nat.sub_diag. reflexivity.
Qed.

Lemma vec_set_mid {A} (a b : list A) x y : vec_set (a ++ x :: b) (Z.of_nat (length a)) y = OK (a ++ y :: b).
Proof.
  unfold vec_set, vec_size. rewrite app_length. cbn [length].
  replace ((0 <=? Z.of_nat (length a)) && (Z.of_nat (length a) <? Z.of_nat (length a + S (length b)))) with true by lia.
  rewrite Nat2Z.id. rewrite firstn_app, Nat.sub_diag, firstn_all. cbn [firstn]. rewrite app_nil_r.
  rewrite skipn_app. rewrite (skipn_all2 a) by lia.
  replace (S (length a) - length a)%nat with 1%nat by lia. reflexivity.
Qed.

Lemma nth_res_mid' {A} (a b : list A) x k : length a = k -> nth_res (a ++ x :: b) (Z.of_nat k) = OK x.
Proof. intros <-. apply nth_res_mid. Qed.
Lemma vec_set_mid' {A} (a b : list A) x y k : length a = k -> vec_set (a ++ x :: b) (Z.of_nat k) y = OK (a ++ y :: b).
Proof. intros <-. apply vec_set_mid. Qed.

Lemma nth_res_app1 {A} (a b : list A) i : 0 <= i < Z.of_nat (length a) -> nth_res (a ++ b) i = nth_res a i.
Proof.
  intros H. unfold nth_res. destruct (i <? 0); [reflexivity|]. rewrite nth_error_app1 by lia. reflexivity.
Qed.

Lemma chunks_length n k bs : length (chunks n k bs) = n.
Proof. revert bs. induction n as [|n IH]; intros bs; cbn [chunks length]; [reflexivity|]. rewrite IH. reflexivity. Qed.

Lemma skipn_add {A} (a b : nat) : forall l : list A, skipn a (skipn b l) = skipn (b + a) l.
Proof. induction b as [|b IH]; intros [|x l]; cbn [skipn Nat.add]; auto. destruct a; reflexivity. Qed.

Lemma chunks_nth n k : forall bs i, (i < n)%nat -> nth_error (chunks n k bs) i = Some (firstn k (skipn (i * k) bs)).
Proof.
  induction n as [|n IH]; intros bs i H; [lia|]. cbn [chunks]. destruct i as [|i]; cbn [nth_error Nat.mul skipn]; [reflexivity|].
  rewrite IH by lia. rewrite skipn_add. reflexivity.
Qed.

Lemma firstn_S_nth {A} (l : list A) k x : nth_error l k = Some x -> firstn (S k) l = firstn k l ++ [x].
Proof.
  revert l. induction k as [|k IH]; intros [|y l] H; cbn [nth_error] in H; try discriminate.
  - inversion H; subst. reflexivity.
  - cbn [firstn app]. f_equal. apply IH. exact H.
Qed.

Lemma strictly_increasing_snoc : forall l x, strictly_increasing (l ++ [x]) =
  strictly_increasing l && match last_opt l with Some y => y <? x | None => true end.
Proof.
  induction l as [|a l IH]; intros x; [reflexivity|].
  destruct l as [|b l].
  - cbn [app strictly_increasing]. unfold last_opt. cbn [rev app]. rewrite andb_true_r. reflexivity.
  - change ((a :: b :: l) ++ [x]) with (a :: (b :: l) ++ [x]). 
    change (strictly_increasing (a :: (b :: l) ++ [x])) with ((a <? b) && strictly_increasing ((b :: l) ++ [x])).
    rewrite IH. change (strictly_increasing (a :: b :: l)) with ((a <? b) && strictly_increasing (b :: l)).
    rewrite <- andb_assoc. f_equal. f_equal.
    unfold last_opt. cbn [rev]. destruct (rev l ++ [b]) eqn:E; [destruct (rev l); discriminate|]. reflexivity.
Qed.

Definition dtr : transition := mkTr 0 0 (mkF 1970 1 1 0 0 0) (mkF 1970 1 1 0 0 0).
Definition dtt : ttype := mkTT 0 (mkF 1970 1 1 0 0 0) (mkF 1970 1 1 0 0 0) false 0.
Definition mk_time (t : Z) : transition := mkTr t 0 epoch epoch.
Definition dec (tl : Z) : list Z -> Z := if tl =? 4 then decode32 else decode64.

Lemma span_ok_in buf p n : 0 <= p -> p + n <= Z.of_nat (length buf) -> span_ok buf p n = OK tt.
Proof. intros. unfold span_ok. replace ((0 <=? p) && (p + n <=? Z.of_nat (length buf))) with true by lia. reflexivity. Qed.

Lemma cadd_in buf p k : 0 <= p -> 0 <= p + k <= Z.of_nat (length buf) -> cadd buf p k = OK (p + k).
Proof. intros. unfold cadd. replace ((0 <=? p) && (0 <=? p + k) && (p + k <=? Z.of_nat (length buf))) with true by lia. reflexivity. Qed.

Lemma decode_at tl tbuf bp fuel : tl = 4 \/ tl = 8 -> bytes_ok tbuf -> 0 <= bp -> bp + tl <= Z.of_nat (length tbuf) -> (9 <= fuel)%nat ->
  (if tl =? 4 then (do _ <- span_ok tbuf bp 4 ;; do t33 <- SourceDecode.sd_Decode32 fuel tbuf bp ;; OK t33)
   else (do _ <- span_ok tbuf bp 8 ;; do t34 <- SourceDecode.sd_Decode64 fuel tbuf bp ;; OK t34))
  = OK (dec tl (firstn (Z.to_nat tl) (skipn (Z.to_nat bp) tbuf))).
Proof.
  intros [-> | ->] B P L F; unfold dec; cbn [Z.eqb Pos.eqb].
  - rewrite span_ok_in by lia. cbn [bind].
    rewrite (sd_Decode32_tie fuel tbuf bp B P ltac:(unfold SourcePosix.blen; lia) ltac:(lia)). reflexivity.
  - rewrite span_ok_in by lia. cbn [bind].
    rewrite (sd_Decode64_tie fuel tbuf bp B P ltac:(unfold SourcePosix.blen; lia) ltac:(lia)). reflexivity.
Qed.

Lemma last_opt_snoc {A} (l : list A) x : last_opt (l ++ [x]) = Some x.
Proof. unfold last_opt. rewrite rev_app_distr. reflexivity. Qed.

Lemma nth_error_last_firstn {A} (l : list A) k x : nth_error l k = Some x -> last_opt (firstn (S k) l) = Some x.
Proof. intros H. rewrite (firstn_S_nth l k x H). apply last_opt_snoc. Qed.

Definition times_ok (l : list Z) : bool := strictly_increasing l && forallb time_in_range l.

Lemma si_firstn : forall l j, strictly_increasing l = true -> strictly_increasing (firstn j l) = true.
Proof.
  induction l as [|a l IH]; intros j H; destruct j as [|j]; try reflexivity.
  destruct l as [|b l'].
  - destruct j; reflexivity.
  - change (strictly_increasing (a :: b :: l')) with ((a <? b) && strictly_increasing (b :: l')) in H.
    apply andb_prop in H as [H1 H2]. destruct j as [|j']; [reflexivity|].
    change (firstn (S (S j')) (a :: b :: l')) with (a :: b :: firstn j' l').
    change (strictly_increasing (a :: b :: firstn j' l')) with ((a <? b) && strictly_increasing (b :: firstn j' l')).
    rewrite H1. exact (IH (S j') H2).
Qed.

Lemma forallb_firstn {A} (f : A -> bool) : forall l j, forallb f l = true -> forallb f (firstn j l) = true.
Proof.
  induction l as [|a l IH]; intros j H; destruct j as [|j]; try reflexivity.
  cbn [firstn forallb] in *. apply andb_prop in H as [H1 H2]. rewrite H1. exact (IH j H2).
Qed.

Lemma times_ok_prefix l j : times_ok l = true -> times_ok (firstn j l) = true.
Proof.
  unfold times_ok. intros H. apply andb_prop in H as [H1 H2]. rewrite (si_firstn _ _ H1), (forallb_firstn _ _ _ H2). reflexivity.
Qed.

Lemma big_bang_val' : big_bang = -576460752303423488.
Proof. reflexivity. Qed.

Section Loop1.
  Variables (types : list ttype) (dflt : Z) (abbrs fut : list Z) (ext : bool) (ly : Z) (ver zp : list Z) (hdr : oheader).
  Variables (tl : Z) (tbuf : list Z) (n : nat).
  Hypothesis Htl : tl = 4 \/ tl = 8.
  Hypothesis HB : bytes_ok tbuf.
  Hypothesis Hlen : Z.of_nat n * tl <= Z.of_nat (length tbuf).
  Hypothesis Hn : Z.of_nat n < 2 ^ 31.
  Hypothesis Hh : oh_timecnt hdr = Some (Z.of_nat n).
  Let times := map (dec tl) (chunks n (Z.to_nat tl) tbuf).

  Lemma loop1_run : forall d k fuel, (k + d = n)%nat -> (d + 10 <= fuel)%nat ->
    times_ok (firstn k times) = true ->
    (times_ok times = true ->
       sl_Load_loop1 fuel types dflt abbrs fut ext ly ver zp hdr tl tbuf
         (map mk_time (firstn k times) ++ repeat dtr d) (Z.of_nat k * tl) (Z.of_nat k)
       = OK (None, (map mk_time times, Z.of_nat n * tl, Z.of_nat n))) /\
    (times_ok times = false ->
       exists z' v' zp' st, sl_Load_loop1 fuel types dflt abbrs fut ext ly ver zp hdr tl tbuf
         (map mk_time (firstn k times) ++ repeat dtr d) (Z.of_nat k * tl) (Z.of_nat k)
       = OK (Some (false, z', v', zp'), st)).
  Proof.
    assert (Lt : length times = n) by (unfold times; rewrite map_length, chunks_length; reflexivity).
    induction d as [|d IH]; intros k fuel Hk Hf Pk; (destruct fuel as [|fuel]; [lia|]); cbn [sl_Load_loop1]; rewrite Hh; cbn [get_opt bind].
    - assert (k = n) by lia. subst k. rewrite Z.eqb_refl. cbn [negb repeat]. rewrite app_nil_r.
      rewrite <- Lt, firstn_all in *. split; [intros _; rewrite Lt; reflexivity|]. intros H. congruence.
    - replace (Z.of_nat k =? Z.of_nat n) with false by lia. cbn [negb].
      assert (Hc : nth_error (chunks n (Z.to_nat tl) tbuf) k = Some (firstn (Z.to_nat tl) (skipn (k * Z.to_nat tl) tbuf)))
        by (apply chunks_nth; lia).
      set (t := dec tl (firstn (Z.to_nat tl) (skipn (k * Z.to_nat tl) tbuf))).
      assert (Ht : nth_error times k = Some t) by (unfold times; rewrite nth_error_map, Hc; reflexivity).
      assert (tlpos : 0 < tl) by lia.
      rewrite (decode_at tl tbuf (Z.of_nat k * tl) fuel Htl HB ltac:(nia) ltac:(nia) ltac:(lia)). cbn [bind].
      replace (Z.to_nat (Z.of_nat k * tl)) with (k * Z.to_nat tl)%nat by nia. fold t.
      assert (Lp : length (map mk_time (firstn k times)) = k) by (rewrite map_length, firstn_length; lia).
      cbn [repeat].
      rewrite (nth_res_mid' _ _ _ _ Lp). cbn [bind]. rewrite (vec_set_mid' _ _ _ _ _ Lp). cbn [bind].
      change (mkTr t (tr_type dtr) (tr_cs dtr) (tr_pcs dtr)) with (mk_time t).
      rewrite cadd_in by nia. cbn [bind].
      rewrite (nth_res_mid' _ _ _ _ Lp). cbn [bind tr_time mk_time].
      assert (F1 : firstn (S k) times = firstn k times ++ [t]) by (apply firstn_S_nth; exact Ht).
      assert (TK : times_ok (firstn (S k) times) = times_ok (firstn k times) && time_in_range t &&
                   match last_opt (firstn k times) with Some y => y <? t | None => true end).
      { unfold times_ok. rewrite F1, strictly_increasing_snoc, forallb_app. cbn [forallb]. rewrite andb_true_r.
        destruct (strictly_increasing (firstn k times)), (forallb time_in_range (firstn k times)), (time_in_range t);
          cbn [andb]; try reflexivity; destruct (last_opt (firstn k times)) as [y|]; try destruct (y <? t); reflexivity. }
      assert (BAD : times_ok (firstn (S k) times) = false -> times_ok times = true -> False).
      { intros Hbad Hg. rewrite (times_ok_prefix _ (S k) Hg) in Hbad. discriminate. }
      destruct ((t <? -576460752303423488)) eqn:R1; cbn [bind].
      { assert (time_in_range t = false) by (unfold time_in_range; rewrite big_bang_val'; lia).
        assert (Hbad : times_ok (firstn (S k) times) = false) by (rewrite TK, H, andb_false_r; reflexivity).
        split; [intros Hg; destruct (BAD Hbad Hg)|]. intros _. do 4 eexists. reflexivity. }
      destruct (576460752303423488 <? t) eqn:R2.
      { assert (time_in_range t = false) by (unfold time_in_range; change (2 ^ 59) with 576460752303423488; lia).
        assert (Hbad : times_ok (firstn (S k) times) = false) by (rewrite TK, H, andb_false_r; reflexivity).
        split; [intros Hg; destruct (BAD Hbad Hg)|]. intros _. do 4 eexists. reflexivity. }
      assert (Rg : time_in_range t = true) by (unfold time_in_range; rewrite big_bang_val'; change (2 ^ 59) with 576460752303423488; lia).
      assert (NEXT : times_ok (firstn (S k) times) = true ->
        (times_ok times = true ->
         sl_Load_loop1 fuel types dflt abbrs fut ext ly ver zp hdr tl tbuf
           (map mk_time (firstn k times) ++ mk_time t :: repeat dtr d) (Z.of_nat k * tl + tl) (u64 (Z.of_nat k + 1))
         = OK (None, (map mk_time times, Z.of_nat n * tl, Z.of_nat n))) /\
        (times_ok times = false ->
         exists z' v' zp' st, sl_Load_loop1 fuel types dflt abbrs fut ext ly ver zp hdr tl tbuf
           (map mk_time (firstn k times) ++ mk_time t :: repeat dtr d) (Z.of_nat k * tl + tl) (u64 (Z.of_nat k + 1))
         = OK (Some (false, z', v', zp'), st))).
      { intros Pk'. rewrite u64_small by lia.
        replace (Z.of_nat k + 1) with (Z.of_nat (S k)) by lia. replace (Z.of_nat k * tl + tl) with (Z.of_nat (S k) * tl) by lia.
        replace (map mk_time (firstn k times) ++ mk_time t :: repeat dtr d) with (map mk_time (firstn (S k) times) ++ repeat dtr d)
          by (rewrite F1, map_app, <- app_assoc; reflexivity).
        apply IH; [lia|lia|exact Pk']. }
      destruct k as [|k'].
      + change (Z.of_nat 0 =? 0) with true. cbn [negb]. apply NEXT. rewrite TK, Pk, Rg. reflexivity.
      + replace (Z.of_nat (S k') =? 0) with false by lia. cbn [negb].
        rewrite (u64_small (Z.of_nat (S k') - 1)) by lia.
        destruct (nth_error times k') as [y|] eqn:Ey; [|apply nth_error_None in Ey; lia].
        assert (Ly : last_opt (firstn (S k') times) = Some y) by (apply nth_error_last_firstn; exact Ey).
        assert (N1 : nth_res (map mk_time (firstn (S k') times) ++ mk_time t :: repeat dtr d) (Z.of_nat (S k') - 1) = OK (mk_time y)).
        { rewrite nth_res_app1 by lia. unfold nth_res. replace (Z.of_nat (S k') - 1 <? 0) with false by lia.
          replace (Z.to_nat (Z.of_nat (S k') - 1)) with k' by lia. rewrite nth_error_map.
          rewrite (firstn_S_nth times k' y Ey). rewrite nth_error_app2 by (rewrite firstn_length; lia).
          rewrite firstn_length. replace (k' - Nat.min k' (length times))%nat with 0%nat by lia. reflexivity. }
        rewrite N1. cbn [bind]. unfold sz_ByUnixTime. cbn [tr_time mk_time].
        destruct (y <? t) eqn:O; cbn [negb].
        * apply NEXT. rewrite TK, Pk, Rg, Ly, O. reflexivity.
        * assert (Hbad : times_ok (firstn (S (S k')) times) = false) by (rewrite TK, Ly, O, andb_false_r; reflexivity).
          split; [intros Hg; destruct (BAD Hbad Hg)|]. intros _. do 4 eexists. reflexivity.
  Qed.
End Loop1.

Lemma skipn_nth {A} (l : list A) k x : nth_error l k = Some x -> skipn k l = x :: skipn (S k) l.
Proof.
  revert l. induction k as [|k IH]; intros [|y l] H; cbn [nth_error] in H; try discriminate.
  - inversion H; subst. reflexivity.
  - cbn [skipn]. apply IH. exact H.
Qed.

Lemma combine_firstn_S {A B} (l1 : list A) (l2 : list B) k x y :
  nth_error l1 k = Some x -> nth_error l2 k = Some y ->
  combine (firstn (S k) l1) (firstn (S k) l2) = combine (firstn k l1) (firstn k l2) ++ [(x, y)].
Proof.
  revert l1 l2. induction k as [|k IH]; intros [|a l1] [|b l2] H1 H2; cbn [nth_error] in *; try discriminate.
  - inversion H1; inversion H2; subst. reflexivity.
  - cbn [firstn combine app]. f_equal. apply IH; assumption.
Qed.

Definition mk2 (p : Z * Z) : transition := let '(t, i) := p in mkTr t i epoch epoch.

Section Loop2.
  Variables (types : list ttype) (dflt : Z) (abbrs fut : list Z) (ext : bool) (ly : Z) (ver zp : list Z) (hdr : oheader).
  Variables (tbuf : list Z) (n : nat) (m base : Z) (times : list Z).
  Hypothesis HB : bytes_ok tbuf.
  Hypothesis Hbase : 0 <= base.
  Hypothesis Hlen : base + Z.of_nat n <= Z.of_nat (length tbuf).
  Hypothesis Hn : Z.of_nat n < 2 ^ 31.
  Hypothesis Hh : oh_timecnt hdr = Some (Z.of_nat n).
  Hypothesis Hm : oh_typecnt hdr = Some m.
  Hypothesis Lt : length times = n.
  Let idxs := firstn n (skipn (Z.to_nat base) tbuf).

  Lemma idxs_length : length idxs = n.
  Proof. unfold idxs. rewrite firstn_length, skipn_length. lia. Qed.

  Lemma idxs_nth k : (k < n)%nat -> nth_error idxs k = Some (nth (Z.to_nat (base + Z.of_nat k)) tbuf 0).
  Proof.
    intros H. unfold idxs.
    assert (E : nth_error (firstn n (skipn (Z.to_nat base) tbuf)) k = nth_error (skipn (Z.to_nat base) tbuf) k).
    { clear -H. revert k H. generalize (skipn (Z.to_nat base) tbuf). induction n as [|n' IH]; intros l k H; [lia|].
      destruct l as [|x l]; [destruct k; reflexivity|]. destruct k as [|k]; [reflexivity|]. cbn [firstn nth_error]. apply IH. lia. }
    rewrite E, SourceZoneProofs.nth_skipn. replace (Z.to_nat (base + Z.of_nat k)) with (Z.to_nat base + k)%nat by lia.
    apply nth_error_nth'. lia.
  Qed.

  Lemma loop2_run : forall d k fuel, (k + d = n)%nat -> (d + 10 <= fuel)%nat ->
    forallb (fun i => i <? m) (firstn k idxs) = true ->
    (forallb (fun i => i <? m) idxs = true ->
       sl_Load_loop2 fuel types dflt abbrs fut ext ly ver zp hdr tbuf
         (map mk2 (combine (firstn k times) (firstn k idxs)) ++ map mk_time (skipn k times))
         (base + Z.of_nat k) (existsb (fun i => i =? 0) (firstn k idxs)) (Z.of_nat k)
       = OK (None, (map mk2 (combine times idxs), base + Z.of_nat n, existsb (fun i => i =? 0) idxs, Z.of_nat n))) /\
    (forallb (fun i => i <? m) idxs = false ->
       exists z' v' zp' st, sl_Load_loop2 fuel types dflt abbrs fut ext ly ver zp hdr tbuf
         (map mk2 (combine (firstn k times) (firstn k idxs)) ++ map mk_time (skipn k times))
         (base + Z.of_nat k) (existsb (fun i => i =? 0) (firstn k idxs)) (Z.of_nat k)
       = OK (Some (false, z', v', zp'), st)).
  Proof.
    pose proof idxs_length as Li.
    induction d as [|d IH]; intros k fuel Hk Hf Pk; (destruct fuel as [|fuel]; [lia|]); cbn [sl_Load_loop2]; rewrite Hh; cbn [get_opt bind].
    - assert (k = n) by lia. subst k. rewrite Z.eqb_refl. cbn [negb].
      assert (E1 : firstn n times = times) by (rewrite <- Lt; apply firstn_all).
      assert (E2 : skipn n times = []) by (rewrite <- Lt; apply skipn_all).
      assert (E3 : firstn n idxs = idxs) by (rewrite <- Li; apply firstn_all).
      rewrite E1, E2, E3 in *. cbn [map]. rewrite app_nil_r.
      split; [intros _; reflexivity|]. intros H. congruence.
    - replace (Z.of_nat k =? Z.of_nat n) with false by lia. cbn [negb].
      destruct (nth_error times k) as [t|] eqn:Et; [|apply nth_error_None in Et; lia].
      set (ix := nth (Z.to_nat (base + Z.of_nat k)) tbuf 0).
      assert (Ei : nth_error idxs k = Some ix) by (apply idxs_nth; lia).
      rewrite cadd_in by lia. cbn [bind]. rewrite span_ok_in by lia. cbn [bind].
      rewrite (sd_Decode8_tie fuel tbuf (base + Z.of_nat k) HB ltac:(unfold SourcePosix.blen; lia)). cbn [bind]. fold ix.
      rewrite (skipn_nth times k t Et). cbn [map].
      assert (Lp : length (map mk2 (combine (firstn k times) (firstn k idxs))) = k).
      { rewrite map_length, combine_length, !firstn_length. lia. }
      rewrite (nth_res_mid' _ _ _ _ Lp). cbn [bind]. rewrite (vec_set_mid' _ _ _ _ _ Lp). cbn [bind].
      rewrite (nth_res_mid' _ _ _ _ Lp). cbn [bind tr_time tr_type tr_cs tr_pcs mk_time]. rewrite Hm. cbn [get_opt bind].
      assert (F1 : firstn (S k) idxs = firstn k idxs ++ [ix]) by (apply firstn_S_nth; exact Ei).
      destruct (m <=? ix) eqn:C.
      + assert (Hbad : forallb (fun i => i <? m) (firstn (S k) idxs) = false).
        { rewrite F1, forallb_app. cbn [forallb]. replace (ix <? m) with false by lia. rewrite andb_false_r. reflexivity. }
        split; [|intros _; do 4 eexists; reflexivity].
        intros Hg. rewrite (forallb_firstn _ _ (S k) Hg) in Hbad. discriminate.
      + rewrite u64_small by lia.
        replace (Z.of_nat k + 1) with (Z.of_nat (S k)) by lia. replace (base + Z.of_nat k + 1) with (base + Z.of_nat (S k)) by lia.
        replace (if ix =? 0 then OK true else OK (existsb (fun i : Z => i =? 0) (firstn k idxs)))
          with (OK (A:=bool) (existsb (fun i : Z => i =? 0) (firstn (S k) idxs))).
        2:{ rewrite F1, existsb_app. cbn [existsb]. rewrite orb_false_r. destruct (ix =? 0); [rewrite orb_true_r|rewrite orb_false_r]; reflexivity. }
        cbn [bind].
        replace (map mk2 (combine (firstn k times) (firstn k idxs)) ++ mkTr t ix epoch epoch :: map mk_time (skipn (S k) times))
          with (map mk2 (combine (firstn (S k) times) (firstn (S k) idxs)) ++ map mk_time (skipn (S k) times)).
        2:{ rewrite (combine_firstn_S times idxs k t ix Et Ei), map_app, <- app_assoc. reflexivity. }
        apply IH; [lia|lia|]. rewrite F1, forallb_app, Pk. cbn [forallb]. replace (ix <? m) with true by lia. reflexivity.
  Qed.
End Loop2.

Definition mkty (c : list Z) : ttype := mkTT (decode32 (firstn 4 c)) epoch epoch (negb (nthZ c 4 =? 0)) (nthZ c 5).

Lemma nth_firstn_lt {A} (l : list A) n i d : (i < n)%nat -> nth i (firstn n l) d = nth i l d.
Proof.
  revert l i. induction n as [|n IH]; intros l i H; [lia|]. destruct l as [|x l]; [destruct i; reflexivity|].
  destruct i as [|i]; [reflexivity|]. cbn [firstn nth]. apply IH. lia.
Qed.

Lemma nth_skipn_add {A} (l : list A) b i d : nth i (skipn b l) d = nth (b + i) l d.
Proof. revert l. induction b as [|b IH]; intros [|x l]; cbn [skipn Nat.add nth]; auto. destruct i; reflexivity. Qed.

Lemma firstn_firstn_min {A} (l : list A) a b : (a <= b)%nat -> firstn a (firstn b l) = firstn a l.
Proof.
  revert l b. induction a as [|a IH]; intros l b H; [reflexivity|]. destruct b as [|b]; [lia|].
  destruct l as [|x l]; [reflexivity|]. cbn [firstn]. f_equal. apply IH. lia.
Qed.

Section Loop3.
  Variables (trans : list transition) (dflt : Z) (abbrs fut : list Z) (ext : bool) (ly : Z) (ver zp : list Z) (hdr : oheader).
  Variables (tbuf : list Z) (m : nat) (cc base : Z).
  Hypothesis HB : bytes_ok tbuf.
  Hypothesis Hbase : 0 <= base.
  Hypothesis Hlen : base + 6 * Z.of_nat m <= Z.of_nat (length tbuf).
  Hypothesis Hmr : Z.of_nat m < 2 ^ 31.
  Hypothesis Hm : oh_typecnt hdr = Some (Z.of_nat m).
  Hypothesis Hc : oh_charcnt hdr = Some cc.
  Let types0 := map mkty (chunks m 6 (skipn (Z.to_nat base) tbuf)).
  Let tyok (ty : ttype) : bool := (tt_off ty <? src_kSecsPerDay) && (- src_kSecsPerDay <? tt_off ty) && (tt_abbr ty <? cc).

  Lemma loop3_run : forall d k fuel, (k + d = m)%nat -> (d + 10 <= fuel)%nat ->
    forallb tyok (firstn k types0) = true ->
    (forallb tyok types0 = true ->
       sl_Load_loop3 fuel trans dflt abbrs fut ext ly ver zp hdr tbuf
         (firstn k types0 ++ repeat dtt d) (base + 6 * Z.of_nat k) (Z.of_nat k)
       = OK (None, (types0, base + 6 * Z.of_nat m, Z.of_nat m))) /\
    (forallb tyok types0 = false ->
       exists z' v' zp' st, sl_Load_loop3 fuel trans dflt abbrs fut ext ly ver zp hdr tbuf
         (firstn k types0 ++ repeat dtt d) (base + 6 * Z.of_nat k) (Z.of_nat k)
       = OK (Some (false, z', v', zp'), st)).
  Proof.
    assert (Lt : length types0 = m) by (unfold types0; rewrite map_length, chunks_length; reflexivity).
    induction d as [|d IH]; intros k fuel Hk Hf Pk; (destruct fuel as [|fuel]; [lia|]); cbn [sl_Load_loop3]; rewrite Hm; cbn [get_opt bind].
    - assert (k = m) by lia. subst k. rewrite Z.eqb_refl. cbn [negb repeat]. rewrite app_nil_r.
      assert (E1 : firstn m types0 = types0) by (rewrite <- Lt; apply firstn_all). rewrite E1 in *.
      split; [intros _; reflexivity|]. intros H. congruence.
    - replace (Z.of_nat k =? Z.of_nat m) with false by lia. cbn [negb].
      set (bp := base + 6 * Z.of_nat k).
      set (c := firstn 6 (skipn (k * 6) (skipn (Z.to_nat base) tbuf))).
      assert (Hch : nth_error (chunks m 6 (skipn (Z.to_nat base) tbuf)) k = Some c) by (apply chunks_nth; lia).
      assert (Ety : nth_error types0 k = Some (mkty c)) by (unfold types0; rewrite nth_error_map, Hch; reflexivity).
      assert (Ec : c = firstn 6 (skipn (Z.to_nat bp) tbuf)).
      { unfold c, bp. rewrite skipn_add. f_equal. f_equal. lia. }
      assert (Lsk : (6 <= length (skipn (Z.to_nat bp) tbuf))%nat) by (rewrite skipn_length; unfold bp; lia).
      rewrite span_ok_in by (unfold bp; lia). cbn [bind].
      rewrite (sd_Decode32_tie fuel tbuf bp HB ltac:(unfold bp; lia) ltac:(unfold SourcePosix.blen, bp; lia) ltac:(lia)). cbn [bind].
      assert (E4 : firstn 4 (skipn (Z.to_nat bp) tbuf) = firstn 4 c) by (rewrite Ec, firstn_firstn_min by lia; reflexivity).
      rewrite E4.
      assert (R32 : - 2 ^ 31 <= decode32 (firstn 4 c) < 2 ^ 31).
      { apply decode32_range; [rewrite <- E4; apply Forall_firstn, Forall_skipn; exact HB|rewrite <- E4, firstn_length; lia]. }
      unfold narrow32. rewrite chk32_in by (unfold int32, min32, max32; lia). cbn [bind repeat].
      assert (Lp : length (firstn k types0) = k) by (rewrite firstn_length; lia).
      rewrite ?(nth_res_mid' _ _ _ _ Lp). cbn [bind]. rewrite (vec_set_mid' _ _ _ _ _ Lp). cbn [bind].
      rewrite ?(nth_res_mid' _ _ _ _ Lp). cbn [bind tt_off tt_cmax tt_cmin tt_isdst tt_abbr dtt].
      set (off := decode32 (firstn 4 c)) in *.
      assert (F1 : firstn (S k) types0 = firstn k types0 ++ [mkty c]) by (apply firstn_S_nth; exact Ety).
      assert (N4 : nth (Z.to_nat (bp + 4)) tbuf 0 = nthZ c 4).
      { unfold nthZ. rewrite Ec, nth_firstn_lt by lia. rewrite nth_skipn_add. f_equal. lia. }
      assert (N5 : nth (Z.to_nat (bp + 4 + 1)) tbuf 0 = nthZ c 5).
      { unfold nthZ. rewrite Ec, nth_firstn_lt by lia. rewrite nth_skipn_add. f_equal. lia. }
      assert (BADK : forallb tyok (firstn (S k) types0) = false -> forallb tyok types0 = true -> False).
      { intros Hb Hg. rewrite (forallb_firstn _ _ (S k) Hg) in Hb. discriminate. }
      assert (TK : forallb tyok (firstn (S k) types0) = tyok (mkty c)).
      { rewrite F1, forallb_app, Pk. cbn [forallb]. rewrite andb_true_r. reflexivity. }
      change (- src_kSecsPerDay) with (-86400) in tyok. change src_kSecsPerDay with 86400 in tyok.
      destruct (86400 <=? off) eqn:C1; cbn [bind].
      { assert (Hb : forallb tyok (firstn (S k) types0) = false).
        { rewrite TK. unfold tyok, mkty. cbn [tt_off]. fold off. replace (off <? 86400) with false by lia. reflexivity. }
        split; [intros Hg; destruct (BADK Hb Hg)|intros _; do 4 eexists; reflexivity]. }
      destruct (off <=? -86400) eqn:C2.
      { assert (Hb : forallb tyok (firstn (S k) types0) = false).
        { rewrite TK. unfold tyok, mkty. cbn [tt_off]. fold off. replace (-86400 <? off) with false by lia. destruct (off <? 86400); reflexivity. }
        split; [intros Hg; destruct (BADK Hb Hg)|intros _; do 4 eexists; reflexivity]. }
      rewrite cadd_in by (unfold bp; lia). cbn [bind]. rewrite cadd_in by (unfold bp; lia). cbn [bind].
      rewrite span_ok_in by (unfold bp; lia). cbn [bind].
      rewrite (sd_Decode8_tie fuel tbuf (bp + 4) HB ltac:(unfold SourcePosix.blen, bp; lia)). cbn [bind]. rewrite N4.
      rewrite ?(nth_res_mid' _ _ _ _ Lp). cbn [bind]. rewrite (vec_set_mid' _ _ _ _ _ Lp). cbn [bind tt_off tt_cmax tt_cmin tt_isdst tt_abbr].
      rewrite cadd_in by (unfold bp; lia). cbn [bind]. rewrite span_ok_in by (unfold bp; lia). cbn [bind].
      rewrite (sd_Decode8_tie fuel tbuf (bp + 4 + 1) HB ltac:(unfold SourcePosix.blen, bp; lia)). cbn [bind]. rewrite N5.
      rewrite ?(nth_res_mid' _ _ _ _ Lp). cbn [bind]. rewrite (vec_set_mid' _ _ _ _ _ Lp). cbn [bind tt_off tt_cmax tt_cmin tt_isdst tt_abbr].
      rewrite ?(nth_res_mid' _ _ _ _ Lp). cbn [bind tt_abbr]. rewrite Hc. cbn [get_opt bind].
      change (mkTT off (mkF 1970 1 1 0 0 0) (mkF 1970 1 1 0 0 0) (negb (nthZ c 4 =? 0)) (nthZ c 5)) with (mkty c).
      destruct (cc <=? nthZ c 5) eqn:C3.
      { assert (Hb : forallb tyok (firstn (S k) types0) = false).
        { rewrite TK. unfold tyok, mkty. cbn [tt_off tt_abbr]. replace (nthZ c 5 <? cc) with false by lia. apply andb_false_r. }
        split; [intros Hg; destruct (BADK Hb Hg)|intros _; do 4 eexists; reflexivity]. }
      rewrite u64_small by lia.
      replace (Z.of_nat k + 1) with (Z.of_nat (S k)) by lia. replace (bp + 4 + 1 + 1) with (base + 6 * Z.of_nat (S k)) by (unfold bp; lia).
      replace (firstn k types0 ++ mkty c :: repeat dtt d) with (firstn (S k) types0 ++ repeat dtt d) by (rewrite F1, <- app_assoc; reflexivity).
      apply IH; [lia|lia|]. rewrite TK. unfold tyok, mkty. cbn [tt_off tt_abbr]. fold off.
      replace (off <? 86400) with true by lia. replace (-86400 <? off) with true by lia. replace (nthZ c 5 <? cc) with true by lia. reflexivity.
  Qed.
End Loop3.

(* ---- the default-type search ---- *)
Lemma loop4_run types : forall f fuel index r, (f <= fuel)%nat -> 0 <= index < 2 ^ 64 ->
  dflt_down f types index = OK r -> sl_Load_loop4 fuel types index = OK r.
Proof.
  induction f as [|f IH]; intros fuel index r Hf Hi H; cbn [dflt_down] in H; [discriminate|].
  destruct fuel as [|fuel]; [lia|]. cbn [sl_Load_loop4].
  destruct (index =? 0) eqn:E; cbn [negb bind]; [exact H|].
  destruct (nth_res types index) as [ty|]; cbn [bind] in H |- *; [|discriminate].
  destruct (tt_isdst ty); [|exact H].
  rewrite u64_small by lia. replace (index + -1) with (index - 1) by lia. apply IH; [lia|lia|exact H].
Qed.

Lemma nth_res_lt {A} (l : list A) i x : nth_res l i = OK x -> 0 <= i < Z.of_nat (length l).
Proof.
  unfold nth_res. destruct (Z.ltb_spec i 0); [discriminate|]. destruct (nth_error l (Z.to_nat i)) eqn:E; [|discriminate].
  intros _. assert (Z.to_nat i < length l)%nat by (apply nth_error_Some; congruence). lia.
Qed.

Lemma loop5_run types hdr m : oh_typecnt hdr = Some m -> Z.of_nat (length types) < 2 ^ 63 ->
  forall f fuel index r, (f <= fuel)%nat -> 0 <= index ->
  dflt_up f types m index = OK r -> sl_Load_loop5 fuel types hdr index = OK r.
Proof.
  intros Hm Sz. induction f as [|f IH]; intros fuel index r Hf Hi H; cbn [dflt_up] in H; [discriminate|].
  destruct fuel as [|fuel]; [lia|]. cbn [sl_Load_loop5]. rewrite Hm. cbn [get_opt bind].
  destruct (index =? m) eqn:E; cbn [negb bind]; [exact H|].
  destruct (nth_res types index) as [ty|] eqn:N; cbn [bind] in H |- *; [|discriminate].
  apply nth_res_lt in N.
  destruct (tt_isdst ty); [|exact H].
  rewrite u64_small by lia. apply IH; [lia|lia|exact H].
Qed.

(* ---- the footer ---- *)
Definition get_char_src (zp : list Z) : res Z :=
  let t120 := firstn (Z.to_nat 1) zp in
  let ch := (match t120 with c_ :: _ => Some c_ | [] => (None : option Z) end) in
  (if vec_size t120 =? 1 then (do t121 <- get_opt ch ;; OK t121) else OK (-1)).

Lemma get_char_cons x r : get_char_src (x :: r) = OK x.
Proof. reflexivity. Qed.
Lemma get_char_nil : get_char_src [] = OK (-1).
Proof. reflexivity. Qed.

Definition cur_char (s : list Z) : Z := match s with [] => -1 | x :: _ => x end.

Lemma loop6_run tr ty dflt abbrs ext ly ver : forall s acc fuel, bytes_ok s -> (length s + 2 <= fuel)%nat ->
  match footer_scan s acc with
  | Some res => exists zp', sl_Load_loop6 fuel tr ty dflt abbrs ext ly ver (rev acc) (tl s) (cur_char s) = OK (None, (res, zp', 10))
  | None => exists z' v' zp' st, sl_Load_loop6 fuel tr ty dflt abbrs ext ly ver (rev acc) (tl s) (cur_char s) = OK (Some (false, z', v', zp'), st)
  end.
Proof.
  induction s as [|c s IH]; intros acc fuel B Hf; (destruct fuel as [|fuel]; [cbn [length] in Hf; lia|]); cbn [footer_scan sl_Load_loop6 cur_char tl].
  - change (-1 =? 10) with false. change (-1 =? -1) with true. cbn [negb]. do 4 eexists. reflexivity.
  - inversion B as [|? ? Bc Bs]; subst.
    destruct (c =? 10) eqn:E; cbn [negb].
    + apply Z.eqb_eq in E. subst c. eexists. reflexivity.
    + replace (c =? -1) with false by lia.
      rewrite u8_small by lia.
      change (rev acc ++ [c]) with (rev (c :: acc)).
      cbn [length] in Hf. specialize (IH (c :: acc) fuel Bs ltac:(lia)).
      destruct s as [|d s'].
      * cbn [firstn skipn Z.to_nat Pos.to_nat Pos.iter_op Nat.add vec_size length Z.of_nat Z.eqb get_opt bind]. exact IH.
      * cbn [firstn skipn Z.to_nat Pos.to_nat Pos.iter_op Nat.add vec_size length Z.of_nat Z.eqb Pos.of_succ_nat Pos.eqb get_opt bind]. exact IH.
Qed.

(* ---- civil_max / civil_min ---- *)
Lemma local_time_tt_fields abbrs t ty ty' : tt_off ty = tt_off ty' -> tt_isdst ty = tt_isdst ty' -> tt_abbr ty = tt_abbr ty' ->
  local_time_tt abbrs t ty = local_time_tt abbrs t ty'.
Proof. intros A B C. unfold local_time_tt. rewrite A, B, C. reflexivity. Qed.

Lemma loop8_run tr dflt abbrs fut ext ly : forall todo done r fuel, (length todo < fuel)%nat ->
  set_civil_limits abbrs todo = OK r ->
  sl_Load_loop8 fuel tr dflt abbrs fut ext ly (done ++ todo) (Z.of_nat (length done)) = OK (done ++ r).
Proof.
  induction todo as [|ty rest IH]; intros done r fuel Hf H; (destruct fuel as [|fuel]; [cbn [length] in Hf; lia|]);
    cbn [set_civil_limits sl_Load_loop8] in *; unfold vec_size.
  - inversion H; subst. rewrite app_nil_r, Z.ltb_irrefl. reflexivity.
  - rewrite app_length. cbn [length]. replace (Z.of_nat (length done) <? Z.of_nat (length done + S (length rest))) with true by lia.
    rewrite nth_res_mid. cbn [bind]. rewrite SourceZoneProofs.sz_LocalTime_tt_tie. cbn [z_abbrs].
    apply bind_ok in H as (mx & M1 & H). change (local_time_tt abbrs 9223372036854775807 ty) with (local_time_tt abbrs max64 ty). rewrite M1. cbn [bind]. rewrite vec_set_mid. cbn [bind]. rewrite nth_res_mid. cbn [bind].
    rewrite SourceZoneProofs.sz_LocalTime_tt_tie. cbn [z_abbrs].
    apply bind_ok in H as (mn & M2 & H).
    match goal with |- context [local_time_tt abbrs ?t ?ty'] =>
      replace (local_time_tt abbrs t ty') with (local_time_tt abbrs min64 ty) by (apply local_time_tt_fields; reflexivity) end.
    rewrite M2. cbn [bind]. rewrite vec_set_mid. cbn [bind tt_off tt_cmax tt_cmin tt_isdst tt_abbr].
    apply bind_ok in H as (r' & R & H). inversion H; subst r. clear H.
    replace (Z.of_nat (length done) + 1) with (Z.of_nat (length (done ++ [mkTT (tt_off ty) (al_cs mx) (al_cs mn) (tt_isdst ty) (tt_abbr ty)])))
      by (rewrite app_length; cbn [length]; lia).
    specialize (IH (done ++ [mkTT (tt_off ty) (al_cs mx) (al_cs mn) (tt_isdst ty) (tt_abbr ty)]) r' fuel ltac:(cbn [length] in Hf; lia) R).
    rewrite <- !app_assoc in IH. cbn [app] in IH. exact IH.
Qed.

(* ---- the civil-second pass ---- *)
Definition prev_of (acc : list transition) : option (fields * Z) :=
  match acc with [] => None | x :: _ => Some (tr_cs x, tr_time x) end.

Lemma loop7_run types dflt abbrs fut ext ly ver zp : forall todo acc ttpv p fuel r,
  Z.of_nat (length acc + length todo) < 2 ^ 63 ->
  ptr_rd types p = OK ttpv -> (length todo < fuel)%nat ->
  civil_pass abbrs types ttpv (prev_of acc) todo acc = OK r ->
  match r with
  | Some l' => exists p' i', sl_Load_loop7 fuel types dflt abbrs fut ext ly ver zp (rev acc ++ todo) p (Z.of_nat (length acc)) = OK (None, (l', p', i'))
  | None => exists z' v' zp' st, sl_Load_loop7 fuel types dflt abbrs fut ext ly ver zp (rev acc ++ todo) p (Z.of_nat (length acc)) = OK (Some (false, z', v', zp'), st)
  end.
Proof.
  induction todo as [|tr rest IH]; intros acc ttpv p fuel r Sz Hp Hf H; (destruct fuel as [|fuel]; [cbn [length] in Hf; lia|]);
    cbn [civil_pass sl_Load_loop7] in *; unfold vec_size.
  - inversion H; subst r. rewrite app_nil_r, rev_length, Z.eqb_refl. cbn [negb]. do 2 eexists. reflexivity.
  - cbn [length] in Sz, Hf.
    assert (Lr : length (rev acc) = length acc) by apply rev_length.
    rewrite app_length, Lr. cbn [length].
    replace (Z.of_nat (length acc) =? Z.of_nat (length acc + S (length rest))) with false by lia. cbn [negb].
    rewrite (nth_res_mid' _ _ _ _ Lr). cbn [bind]. rewrite Hp. cbn [bind].
    rewrite SourceZoneProofs.sz_LocalTime_tt_tie. cbn [z_abbrs].
    apply bind_ok in H as (a & A1 & H). rewrite A1. cbn [bind].
    apply bind_ok in H as (pcs & A2 & H). rewrite A2. cbn [bind].
    rewrite (vec_set_mid' _ _ _ _ _ Lr). cbn [bind]. rewrite (nth_res_mid' _ _ _ _ Lr). cbn [bind tr_time tr_type tr_cs tr_pcs].
    apply bind_ok in H as (ttp' & A3 & H). pose proof (nth_res_lt _ _ _ A3) as Rt.
    unfold vec_addr. rewrite A3. cbn [bind].
    assert (Hp' : ptr_rd types (tr_type tr) = OK ttp') by (unfold ptr_rd; replace (tr_type tr <? 0) with false by lia; exact A3).
    rewrite Hp'. cbn [bind]. rewrite SourceZoneProofs.sz_LocalTime_tt_tie. cbn [z_abbrs].
    apply bind_ok in H as (b & A4 & H). rewrite A4. cbn [bind].
    rewrite (vec_set_mid' _ _ _ _ _ Lr). cbn [bind tr_time tr_type tr_cs tr_pcs].
    set (tr' := mkTr (tr_time tr) (tr_type tr) (al_cs b) pcs) in *.
    assert (NEXT : civil_pass abbrs types ttp' (Some (al_cs b, tr_time tr)) rest (tr' :: acc) = OK r ->
      match r with
      | Some l' => exists p' i', sl_Load_loop7 fuel types dflt abbrs fut ext ly ver zp (rev acc ++ tr' :: rest) (tr_type tr) (u64 (Z.of_nat (length acc) + 1)) = OK (None, (l', p', i'))
      | None => exists z' v' zp' st, sl_Load_loop7 fuel types dflt abbrs fut ext ly ver zp (rev acc ++ tr' :: rest) (tr_type tr) (u64 (Z.of_nat (length acc) + 1)) = OK (Some (false, z', v', zp'), st)
      end).
    { intros H1. rewrite u64_small by lia.
      replace (Z.of_nat (length acc) + 1) with (Z.of_nat (length (tr' :: acc))) by (cbn [length]; lia).
      replace (rev acc ++ tr' :: rest) with (rev (tr' :: acc) ++ rest) by (cbn [rev]; rewrite <- app_assoc; reflexivity).
      apply (IH (tr' :: acc) ttp' (tr_type tr) fuel r); [cbn [length]; lia|exact Hp'|lia|exact H1]. }
    destruct acc as [|x acc'].
    + cbn [length prev_of] in *. change (Z.of_nat 0 =? 0) with true. cbn [negb]. apply NEXT. exact H.
    + cbn [prev_of] in H. cbn [length] in *.
      replace (Z.of_nat (S (length acc')) =? 0) with false by lia. cbn [negb].
      rewrite (u64_small (Z.of_nat (S (length acc')) - 1)) by lia.
      assert (N1 : nth_res (rev (x :: acc') ++ tr' :: rest) (Z.of_nat (S (length acc')) - 1) = OK x).
      { cbn [rev]. rewrite <- app_assoc. cbn [app].
        replace (Z.of_nat (S (length acc')) - 1) with (Z.of_nat (length (rev acc'))) by (rewrite rev_length; lia). apply nth_res_mid. }
      rewrite N1. cbn [bind]. rewrite (nth_res_mid' _ _ _ _ Lr). cbn [bind].
      unfold sz_ByCivilTime, sz_ByUnixTime. cbn [tr_cs tr_time tr'].
      destruct (lt64 (tr_cs x) (al_cs b)); cbn [negb] in H |- *.
      2:{ inversion H; subst r. do 4 eexists. reflexivity. }
      destruct (tr_time x <? tr_time tr); cbn [negb] in H |- *.
      2:{ inversion H; subst r. do 4 eexists. reflexivity. }
      apply NEXT. exact H.
Qed.

(* ---- the model, cut at the point where the (second) header has been accepted ---- *)
Definition load_tail (trans0 : list transition) (types0 : list ttype) (dflt : Z) (abbrs future : list Z) : res (option zone) :=
            let trans1 :=
              match trans0 with
              | [] => [mkTr big_bang dflt epoch epoch]
              | tr :: _ => if 0 <=? tr_time tr then mkTr big_bang dflt epoch epoch :: trans0 else trans0
              end in
            do ext <- extend_transitions trans1 types0 abbrs future ;;
            match ext with
            | None => OK None
            | Some (trans2, types1, abbrs1, extended, last_year) =>
              do last <- match last_opt trans2 with Some x => OK x | None => Err OOB end ;;
              let trans3 :=
                if tr_time last <? 0 then trans2 ++ [mkTr src_second_half_sentinel (tr_type last) epoch epoch]
                else trans2 in
              do dtt <- nth_res types1 dflt ;;
              do cp <- civil_pass abbrs1 types1 dtt None trans3 [] ;;
              match cp with
              | None => OK None
              | Some trans4 =>
                do types2 <- set_civil_limits abbrs1 types1 ;;
                OK (Some (mkZone trans4 types2 dflt abbrs1 future extended last_year))
              end
            end.

Definition load_rest (hdr : header) (time_len version : Z) (src4 : list Z) : res (option zone) :=
        if h_typecnt hdr =? 0 then OK None
        else if negb (h_leapcnt hdr =? 0) then OK None
        else if negb (h_isstdcnt hdr =? 0) && negb (h_isstdcnt hdr =? h_typecnt hdr) then OK None
        else if negb (h_isutcnt hdr =? 0) && negb (h_isutcnt hdr =? h_typecnt hdr) then OK None
        else
        match read_n (data_length hdr time_len) src4 with
        | None => OK None
        | Some (tbuf, src5) =>
          let timecnt := Z.to_nat (h_timecnt hdr) in
          let typecnt := Z.to_nat (h_typecnt hdr) in
          let tl := Z.to_nat time_len in
          let times := map (if time_len =? 4 then decode32 else decode64) (chunks timecnt tl tbuf) in
          if negb (strictly_increasing times) || negb (forallb time_in_range times) then OK None else
          let bp1 := skipn (timecnt * tl) tbuf in
          let idxs := firstn timecnt bp1 in
          if negb (forallb (fun i => i <? h_typecnt hdr) idxs) then OK None else
          let seen_type_0 := existsb (fun i => i =? 0) idxs in
          let bp2 := skipn timecnt bp1 in
          let raw_types := chunks typecnt 6 bp2 in
          let types0 := map (fun c => mkTT (decode32 (firstn 4 c)) epoch epoch (negb (nthZ c 4 =? 0)) (nthZ c 5)) raw_types in
          if negb (forallb (fun ty => (tt_off ty <? src_kSecsPerDay) && (- src_kSecsPerDay <? tt_off ty)
                                      && (tt_abbr ty <? h_charcnt hdr)) types0)
          then OK None else
          do dflt <-
            (if seen_type_0 && negb (h_timecnt hdr =? 0) then
               do t0 <- nth_res types0 0 ;;
               do i1 <- (if tt_isdst t0 then dflt_down 257 types0 (nthZ idxs 0) else OK 0) ;;
               do i2 <- dflt_up (S (length types0)) types0 (h_typecnt hdr) i1 ;;
               OK (if negb (i2 =? h_typecnt hdr) && (i2 <=? 255) then i2 else 0)
             else OK 0) ;;
          let bp3 := skipn (typecnt * 6) bp2 in
          let abbrs := firstn (Z.to_nat (h_charcnt hdr)) bp3 in
          let footer : option (list Z) :=
            if negb (version =? 0) then footer_read src5 else Some [] in
          match footer with
          | None => OK None
          | Some future =>
            load_tail (map (fun '(t, i) => mkTr t i epoch epoch) (combine times idxs)) types0 dflt abbrs future
          end
        end.

Lemma load_bytes_unfold src : load_bytes src =
  match read_n 44 src with
  | None => OK None
  | Some (tzh1, src1) =>
    if negb (magic_ok tzh1) then OK None else
    match header_build tzh1 with
    | None => OK None
    | Some hdr1 =>
      let step2 : option (header * Z * Z * list Z) :=
        if negb (version_of tzh1 =? 0) then
          let src2 := skip_z (data_length hdr1 4) src1 in
          match read_n 44 src2 with
          | None => None
          | Some (tzh2, src3) =>
              if negb (magic_ok tzh2) then None
              else if version_of tzh2 =? 0 then None
              else match header_build tzh2 with
                   | None => None
                   | Some hdr2 => Some (hdr2, 8, version_of tzh2, src3)
                   end
          end
        else Some (hdr1, 4, 0, src1) in
      match step2 with
      | None => OK None
      | Some (hdr, time_len, version, src4) => load_rest hdr time_len version src4
      end
    end
  end.
Proof. reflexivity. Qed.

Definition load_result (ly0 : Z) (z : zone) : zone :=
  mkZone (z_trans z) (z_types z) (z_default z) (z_abbrs z) (z_future z) (z_extended z) (if z_extended z then z_last_year z else ly0).

Definition agree (ly0 : Z) (M : res (option zone)) (S : res (bool * zone * list Z * list Z)) : Prop :=
  match M with
  | OK (Some z) => exists ver' rest, S = OK (true, load_result ly0 z, ver', rest)
  | OK None => exists z' ver' rest, S = OK (false, z', ver', rest)
  | Err _ => True
  end.

Lemma agree_none ly0 z' v r : agree ly0 (OK None) (OK (false, z', v, r)).
Proof. do 3 eexists. reflexivity. Qed.

Lemma extend_loop_len ps pe so dof sti dti lt lim : forall f st st',
  extend_loop f ps pe so dof sti dti lt lim st = OK st' -> (length (es_acc st') <= length (es_acc st) + 2 * f)%nat.
Proof.
  induction f as [|f IH]; intros st st' H; cbn [extend_loop] in H; [discriminate|].
  apply bind_ok in H as (a & _ & H). apply bind_ok in H as (b & _ & H). apply bind_ok in H as (c & _ & H).
  apply bind_ok in H as (dst_time & _ & H). apply bind_ok in H as (e & _ & H). apply bind_ok in H as (std_time & _ & H).
  set (acc1 := let '(ta, tb) := if dst_time <? std_time then (mkTr dst_time dti epoch epoch, mkTr std_time sti epoch epoch)
                                 else (mkTr std_time sti epoch epoch, mkTr dst_time dti epoch epoch) in
               if lt <? tr_time tb then (if lt <? tr_time ta then es_acc st ++ [ta] else es_acc st) ++ [tb] else es_acc st).
  assert (LA : (length acc1 <= length (es_acc st) + 2)%nat).
  { unfold acc1. destruct (dst_time <? std_time); cbn [tr_time];
      repeat match goal with |- context [if ?c then _ else _] => destruct c end; rewrite ?app_length; cbn [length]; lia. }
  assert (H' : (if es_year st =? lim then OK (mkES (es_year st) (es_leap st) (es_jan1_time st) (es_jan1_wd st) acc1)
                else do spy <- nth_res [365 * src_kSecsPerDay; 366 * src_kSecsPerDay] (b2z (es_leap st)) ;;
                     do j' <- add64 (es_jan1_time st) spy ;;
                     do dpy <- nth_res src_kDaysPerYear (b2z (es_leap st)) ;;
                     do y1 <- add64 (es_year st) 1 ;;
                     extend_loop f ps pe so dof sti dti lt lim
                       (mkES y1 (negb (es_leap st) && is_leap_year64 y1) j' (Z.rem (es_jan1_wd st + dpy) 7) acc1)) = OK st').
  { unfold acc1. destruct (dst_time <? std_time); exact H. }
  clear H. clearbody acc1. destruct (es_year st =? lim).
  - inversion H'; subst st'. cbn [es_acc]. lia.
  - apply bind_ok in H' as (spy & _ & H'). apply bind_ok in H' as (j' & _ & H'). apply bind_ok in H' as (dpy & _ & H').
    apply bind_ok in H' as (y1 & _ & H'). apply IH in H'. cbn [es_acc] in H'. lia.
Qed.

Lemma extend_len trans types abbrs future tr2 ty1 ab1 e ly :
  extend_transitions trans types abbrs future = OK (Some (tr2, ty1, ab1, e, ly)) -> (length tr2 <= length trans + 806)%nat.
Proof.
  unfold extend_transitions. destruct future as [|c f]; [intros H; inversion H; subst; lia|].
  destruct (ParsePosixSpec (c :: f)) as [p|]; [|discriminate].
  intros H. apply bind_ok in H as (so & _ & H). apply bind_ok in H as (r1 & _ & H).
  destruct r1 as [[[t1 a1] s1]|]; [|discriminate].
  apply bind_ok in H as (last & _ & H).
  destruct (dst_abbr p).
  { apply bind_ok in H as (ev & _ & H). destruct ev; inversion H; subst; lia. }
  apply bind_ok in H as (dof & _ & H). apply bind_ok in H as (r2 & _ & H).
  destruct r2 as [[[t2 a2] s2]|]; [|discriminate].
  apply bind_ok in H as (ay & _ & H). destruct ay.
  { apply bind_ok in H as (ev & _ & H). destruct ev; inversion H; subst; lia. }
  apply bind_ok in H as (ltt & _ & H). apply bind_ok in H as (al & _ & H). apply bind_ok in H as (j1 & _ & H).
  apply bind_ok in H as (jt & _ & H). apply bind_ok in H as (wd & _ & H). apply bind_ok in H as (lim & _ & H).
  apply bind_ok in H as (st & L & H). apply extend_loop_len in L. cbn [es_acc length] in L.
  inversion H; subst. rewrite app_length. lia.
Qed.

Lemma read_n_spec n src : 0 <= n ->
  read_n n src = if Z.of_nat (length (firstn (Z.to_nat n) src)) =? n then Some (firstn (Z.to_nat n) src, skipn (Z.to_nat n) src) else None.
Proof.
  intros Hn. unfold read_n. rewrite firstn_length.
  destruct (Z.ltb_spec (Z.of_nat (length src)) n).
  - replace (Z.of_nat (Nat.min (Z.to_nat n) (length src)) =? n) with false by lia. reflexivity.
  - replace (Z.of_nat (Nat.min (Z.to_nat n) (length src)) =? n) with true by lia. reflexivity.
Qed.

Lemma bytes_firstn n s : bytes_ok s -> bytes_ok (firstn n s).
Proof. apply Forall_firstn. Qed.
Lemma bytes_skipn n s : bytes_ok s -> bytes_ok (skipn n s).
Proof. apply Forall_skipn. Qed.
Lemma bytes_skip_z n s : bytes_ok s -> bytes_ok (skip_z n s).
Proof. intros B. unfold skip_z. destruct (Z.of_nat (length s) <=? n); [constructor|apply Forall_skipn; exact B]. Qed.
Lemma skip_z_length n s : (length (skip_z n s) <= length s)%nat.
Proof. unfold skip_z. destruct (Z.of_nat (length s) <=? n); cbn [length]; [lia|rewrite skipn_length; lia]. Qed.

Lemma bind_assoc {A B C} (e : res A) (f : A -> res B) (g : B -> res C) :
  bind (bind e f) g = bind e (fun x => bind (f x) g).
Proof. destruct e; reflexivity. Qed.

Lemma extend_types_len trans types abbrs future tr2 ty1 ab1 e ly :
  Forall (fun ty => 0 <= tt_abbr ty) types ->
  extend_transitions trans types abbrs future = OK (Some (tr2, ty1, ab1, e, ly)) -> (length ty1 <= length types + 2)%nat.
Proof.
  intros Fa. unfold extend_transitions. destruct future as [|c f]; [intros H; inversion H; subst; lia|].
  destruct (ParsePosixSpec (c :: f)) as [p|]; [|discriminate].
  intros H. apply bind_ok in H as (so & _ & H). apply bind_ok in H as (r1 & G1 & H).
  destruct r1 as [[[t1 a1] s1]|]; [|discriminate].
  destruct (gtt_result _ _ _ _ _ _ _ _ Fa G1) as [Fa1 Ln1].
  apply bind_ok in H as (last & _ & H).
  destruct (dst_abbr p).
  { apply bind_ok in H as (ev & _ & H). destruct ev; inversion H; subst; lia. }
  apply bind_ok in H as (dof & _ & H). apply bind_ok in H as (r2 & G2 & H).
  destruct r2 as [[[t2 a2] s2]|]; [|discriminate].
  destruct (gtt_result _ _ _ _ _ _ _ _ Fa1 G2) as [Fa2 Ln2].
  apply bind_ok in H as (ay & _ & H). destruct ay.
  { apply bind_ok in H as (ev & _ & H). destruct ev; inversion H; subst; lia. }
  apply bind_ok in H as (ltt & _ & H). apply bind_ok in H as (al & _ & H). apply bind_ok in H as (j1 & _ & H).
  apply bind_ok in H as (jt & _ & H). apply bind_ok in H as (wd & _ & H). apply bind_ok in H as (lim & _ & H).
  apply bind_ok in H as (st & L & H). inversion H; subst. lia.
Qed.

Lemma sl_Load_k2_tie fuel trans0 types0 dflt abbrs e0 ly0 ver tzh hdr tl len tbuf bp seen future zp zver :
  Forall (fun ty => 0 <= tt_abbr ty) types0 ->
  Z.of_nat (length types0) + 1 < 2 ^ 64 -> (length types0 + 3 < fuel)%nat -> (403 <= fuel)%nat ->
  Z.of_nat (length trans0) < 2 ^ 62 -> (length trans0 + 900 <= fuel)%nat ->
  agree ly0 (load_tail trans0 types0 dflt abbrs future)
            (sl_Load_k2 fuel trans0 types0 dflt abbrs e0 ly0 ver tzh hdr tl len tbuf bp seen future zp zver).
Proof.
  intros Fa Sz Hf Hf2 Szt Hft. unfold load_tail, sl_Load_k2.
  set (ver1 := if vec_empty ver then zver else ver).
  replace (if vec_empty ver then OK zver else OK ver) with (OK (A:=list Z) ver1) by (unfold ver1; destruct (vec_empty ver); reflexivity).
  cbn [bind].
  set (trans1 := match trans0 with
                 | [] => [mkTr big_bang dflt epoch epoch]
                 | tr :: _ => if 0 <=? tr_time tr then mkTr big_bang dflt epoch epoch :: trans0 else trans0
                 end).
  assert (E1 : (do t125 <- (if vec_empty trans0 then OK true else (do t124 <- vec_front trans0 ;; OK (0 <=? tr_time t124))) ;;
                if t125 then
                  (do t126 <- nth_res (dtr :: trans0) 0 ;;
                   do t127 <- vec_set (dtr :: trans0) 0 (mkTr (-576460752303423488) (tr_type t126) (tr_cs t126) (tr_pcs t126)) ;;
                   do t128 <- nth_res t127 0 ;;
                   do t129 <- vec_set t127 0 (mkTr (tr_time t128) dflt (tr_cs t128) (tr_pcs t128)) ;; OK t129)
                else OK trans0) = OK trans1).
  { unfold trans1. destruct trans0 as [|x r]; [reflexivity|]. cbn [vec_empty vec_front bind].
    destruct (0 <=? tr_time x); reflexivity. }
  assert (L1 : (length trans1 <= length trans0 + 1)%nat).
  { unfold trans1. destruct trans0 as [|x r]; cbn [length]; [lia|]. destruct (0 <=? tr_time x); cbn [length]; lia. }
  clearbody trans1.
  rewrite <- bind_assoc.
  match goal with |- agree _ _ (bind ?e _) => change e with
    (do t125 <- (if vec_empty trans0 then OK true else (do t124 <- vec_front trans0 ;; OK (0 <=? tr_time t124))) ;;
     if t125 then
       (do t126 <- nth_res (dtr :: trans0) 0 ;;
        do t127 <- vec_set (dtr :: trans0) 0 (mkTr (-576460752303423488) (tr_type t126) (tr_cs t126) (tr_pcs t126)) ;;
        do t128 <- nth_res t127 0 ;;
        do t129 <- vec_set t127 0 (mkTr (tr_time t128) dflt (tr_cs t128) (tr_pcs t128)) ;; OK t129)
     else OK trans0) end.
  rewrite E1. cbn [bind].
  pose proof (sl_ExtendTransitions_tie trans1 types0 dflt abbrs future e0 ly0 fuel Fa Sz ltac:(lia) Hf2) as ET.
  destruct (extend_transitions trans1 types0 abbrs future) as [[[[[[trans2 types1] abbrs1] ext] lyr]|]|] eqn:EX; cbn [bind]; [| |exact I].
  2:{ destruct ET as [z' ET]. rewrite ET. cbn [bind negb]. apply agree_none. }
  rewrite ET. cbn [bind negb ext_result z_trans z_types z_default z_abbrs z_future z_extended z_last_year].
  pose proof (extend_len _ _ _ _ _ _ _ _ _ EX) as L2.
  destruct (last_opt trans2) as [last|] eqn:La; cbn [bind]; [|exact I].
  unfold vec_back. rewrite La. cbn [bind].
  set (trans3 := if tr_time last <? 0 then trans2 ++ [mkTr src_second_half_sentinel (tr_type last) epoch epoch] else trans2).
  assert (E3 : (if tr_time last <? 0 then
                  (do t134 <- nth_res (trans2 ++ [dtr]) (vec_size trans2) ;;
                   do t135 <- vec_set (trans2 ++ [dtr]) (vec_size trans2) (mkTr 2147483647 (tr_type t134) (tr_cs t134) (tr_pcs t134)) ;;
                   do t136 <- nth_res t135 (vec_size trans2) ;;
                   do t137 <- vec_set t135 (vec_size trans2) (mkTr (tr_time t136) (tr_type last) (tr_cs t136) (tr_pcs t136)) ;; OK t137)
                else OK trans2) = OK trans3).
  { unfold trans3, vec_size. destruct (tr_time last <? 0); [|reflexivity].
    rewrite nth_res_last. cbn [bind]. rewrite vec_set_last. cbn [bind]. rewrite nth_res_last. cbn [bind]. rewrite vec_set_last. reflexivity. }
  assert (L3 : (length trans3 <= length trans2 + 1)%nat).
  { unfold trans3. destruct (tr_time last <? 0); rewrite ?app_length; cbn [length]; lia. }
  clearbody trans3.
  match goal with |- agree _ _ (bind ?e _) => change e with
    (if tr_time last <? 0 then
       (do t134 <- nth_res (trans2 ++ [dtr]) (vec_size trans2) ;;
        do t135 <- vec_set (trans2 ++ [dtr]) (vec_size trans2) (mkTr 2147483647 (tr_type t134) (tr_cs t134) (tr_pcs t134)) ;;
        do t136 <- nth_res t135 (vec_size trans2) ;;
        do t137 <- vec_set t135 (vec_size trans2) (mkTr (tr_time t136) (tr_type last) (tr_cs t136) (tr_pcs t136)) ;; OK t137)
     else OK trans2) end.
  rewrite E3. cbn [bind].
  unfold vec_addr.
  destruct (nth_res types1 dflt) as [dttv|] eqn:DT; cbn [bind]; [|exact I].
  pose proof (nth_res_lt _ _ _ DT) as Rd.
  assert (Hp : ptr_rd types1 dflt = OK dttv) by (unfold ptr_rd; replace (dflt <? 0) with false by lia; exact DT).
  destruct (civil_pass abbrs1 types1 dttv None trans3 []) as [cp|] eqn:CP; cbn [bind]; [|exact I].
  pose proof (loop7_run types1 dflt abbrs1 future ext (if ext then lyr else ly0) ver1 zp trans3 [] dttv dflt fuel cp
                ltac:(cbn [length]; lia) Hp ltac:(lia) CP) as L7.
  cbn [rev app length] in L7. change (Z.of_nat 0) with 0 in L7.
  destruct cp as [trans4|].
  2:{ destruct L7 as (z' & v' & zp' & [[s1 s2] s3] & L7). rewrite L7. cbn [bind]. apply agree_none. }
  destruct L7 as (p' & i' & L7). rewrite L7. cbn [bind].
  destruct (set_civil_limits abbrs1 types1) as [types2|] eqn:SC; cbn [bind]; [|exact I].
  pose proof (extend_types_len _ _ _ _ _ _ _ _ _ Fa EX) as Lty.
  pose proof (loop8_run trans4 dflt abbrs1 future ext (if ext then lyr else ly0) types1 [] types2 fuel ltac:(lia) SC) as L8.
  cbn [app length] in L8. change (Z.of_nat 0) with 0 in L8. rewrite L8. cbn [bind].
  do 2 eexists. reflexivity.
Qed.

Lemma bytes_nth l i : bytes_ok l -> 0 <= nth i l 0 <= 255.
Proof.
  intros B. destruct (nth_error l i) as [x|] eqn:E.
  - rewrite (nth_error_nth _ _ 0 E). unfold bytes_ok in B. rewrite Forall_forall in B. apply B. eapply nth_error_In; eauto.
  - rewrite nth_overflow by (apply nth_error_None; exact E). lia.
Qed.

Lemma dflt_down_nonneg types : forall f index r, 0 <= index -> dflt_down f types index = OK r -> 0 <= r.
Proof.
  induction f as [|f IH]; intros index r Hi H; cbn [dflt_down] in H; [discriminate|].
  destruct (index =? 0) eqn:E; [inversion H; lia|].
  destruct (nth_res types index) as [ty|]; cbn [bind] in H; [|discriminate].
  destruct (tt_isdst ty); [apply (IH (index - 1) r); [lia|exact H]|inversion H; lia].
Qed.

Lemma dflt_up_ge types m : forall f index r, dflt_up f types m index = OK r -> index <= r.
Proof.
  induction f as [|f IH]; intros index r H; cbn [dflt_up] in H; [discriminate|].
  destruct (index =? m); [inversion H; lia|].
  destruct (nth_res types index) as [ty|]; cbn [bind] in H; [|discriminate].
  destruct (tt_isdst ty); [apply IH in H; lia|inversion H; lia].
Qed.

Lemma footer_read_cons c r : footer_read (c :: r) = if c =? 10 then footer_scan r [] else None.
Proof.
  destruct (Z.eqb_spec c 10) as [->|N]; [reflexivity|].
  unfold footer_read. destruct c as [|p|p]; try reflexivity.
  destruct p as [p|p|]; try reflexivity. destruct p as [p|p|]; try reflexivity.
  destruct p as [p|p|]; try reflexivity. destruct p as [p|p|]; try reflexivity. contradiction.
Qed.

Lemma chunks_bytes n k bs : bytes_ok bs -> Forall bytes_ok (chunks n k bs).
Proof.
  revert bs. induction n as [|n IH]; intros bs B; cbn [chunks]; constructor.
  - apply bytes_firstn; exact B.
  - apply IH. apply bytes_skipn; exact B.
Qed.

Lemma firstn_nil' {A} n : firstn n (@nil A) = [].
Proof. destruct n; reflexivity. Qed.

Lemma sl_Load_k1_tie fuel d0 a0 f0 e0 ly0 ver src4 tzhb hdr tl zver :
  header_fields_ok hdr -> tl = 4 \/ tl = 8 -> bytes_ok src4 -> length tzhb = 44%nat ->
  Z.of_nat (length src4) < 2 ^ 62 -> (length src4 + 1300 <= fuel)%nat ->
  agree ly0 (load_rest hdr tl (version_of tzhb) src4)
            (sl_Load_k1 fuel [] [] d0 a0 f0 e0 ly0 ver src4 (Some tzhb) (oh_of hdr) tl zver).
Proof.
  intros HF Htl HB Lz Sz Hf. pose proof HF as (H1 & H2 & H3 & H4 & H5 & H6).
  unfold load_rest, sl_Load_k1, oh_of.
  cbn [oh_timecnt oh_typecnt oh_charcnt oh_leapcnt oh_isstdcnt oh_isutcnt get_opt bind].
  fold (oh_of hdr).
  destruct (h_typecnt hdr =? 0) eqn:C1; [apply agree_none|].
  destruct (h_leapcnt hdr =? 0) eqn:C2; cbn [negb]; [|apply agree_none].
  destruct (negb (h_isstdcnt hdr =? 0) && negb (h_isstdcnt hdr =? h_typecnt hdr)) eqn:C3.
  { replace (if negb (h_isstdcnt hdr =? 0) then OK (negb (h_isstdcnt hdr =? h_typecnt hdr)) else OK false) with (OK (A:=bool) true)
      by (destruct (h_isstdcnt hdr =? 0); cbn [negb andb] in C3 |- *; [discriminate|rewrite C3; reflexivity]).
    cbn [bind]. apply agree_none. }
  replace (if negb (h_isstdcnt hdr =? 0) then OK (negb (h_isstdcnt hdr =? h_typecnt hdr)) else OK false) with (OK (A:=bool) false)
    by (destruct (h_isstdcnt hdr =? 0); cbn [negb andb] in C3 |- *; [reflexivity|rewrite C3; reflexivity]).
  cbn [bind].
  destruct (negb (h_isutcnt hdr =? 0) && negb (h_isutcnt hdr =? h_typecnt hdr)) eqn:C4.
  { replace (if negb (h_isutcnt hdr =? 0) then OK (negb (h_isutcnt hdr =? h_typecnt hdr)) else OK false) with (OK (A:=bool) true)
      by (destruct (h_isutcnt hdr =? 0); cbn [negb andb] in C4 |- *; [discriminate|rewrite C4; reflexivity]).
    cbn [bind]. apply agree_none. }
  replace (if negb (h_isutcnt hdr =? 0) then OK (negb (h_isutcnt hdr =? h_typecnt hdr)) else OK false) with (OK (A:=bool) false)
    by (destruct (h_isutcnt hdr =? 0); cbn [negb andb] in C4 |- *; [reflexivity|rewrite C4; reflexivity]).
  cbn [bind].
  rewrite (sl_DataLength_tie hdr tl HF ltac:(lia)). cbn [bind].
  set (DL := data_length hdr tl).
  assert (DLpos : 0 <= DL) by (unfold DL, data_length; nia).
  rewrite (read_n_spec DL src4 DLpos). unfold vec_size.
  set (tbuf := firstn (Z.to_nat DL) src4). set (src5 := skipn (Z.to_nat DL) src4).
  rewrite span_ok_in by (rewrite ?repeat_length; lia).
  cbn [bind].
  destruct (Z.of_nat (length tbuf) =? DL) eqn:LT; cbn [negb]; [|apply agree_none].
  assert (Ltb : Z.of_nat (length tbuf) = DL) by lia.
  assert (E0 : tbuf ++ skipn (length tbuf) (repeat 0 (Z.to_nat DL)) = tbuf).
  { rewrite skipn_all2 by (rewrite repeat_length; lia). apply app_nil_r. }
  rewrite E0. clear E0.
  assert (Bt : bytes_ok tbuf) by (apply bytes_firstn; exact HB).
  assert (B5 : bytes_ok src5) by (apply bytes_skipn; exact HB).
  assert (L5 : (length src5 <= length src4)%nat) by (unfold src5; rewrite skipn_length; lia).
  assert (Ltn : (length tbuf <= length src4)%nat) by (unfold tbuf; rewrite firstn_length; lia).
  set (n := Z.to_nat (h_timecnt hdr)). set (m := Z.to_nat (h_typecnt hdr)). set (cc := h_charcnt hdr).
  assert (En : h_timecnt hdr = Z.of_nat n) by lia. assert (Em : h_typecnt hdr = Z.of_nat m) by lia.
  assert (DLv : DL = (tl + 1) * Z.of_nat n + 6 * Z.of_nat m + cc + h_isstdcnt hdr + h_isutcnt hdr).
  { unfold DL, data_length. rewrite <- En, <- Em. fold cc. replace (h_leapcnt hdr) with 0 by lia. lia. }
  unfold vec_resize. rewrite !firstn_nil'. cbn [app length]. rewrite !Nat.sub_0_r. fold n. fold m.
  change (if tl =? 4 then decode32 else decode64) with (dec tl).
  set (times := map (dec tl) (chunks n (Z.to_nat tl) tbuf)).
  assert (tlpos : 0 < tl) by lia.
  set (base := Z.of_nat n * tl).
  assert (Eb : (n * Z.to_nat tl)%nat = Z.to_nat base) by (unfold base; nia).
  rewrite Eb. rewrite skipn_add.
  set (base3 := base + Z.of_nat n).
  assert (Eb3 : (Z.to_nat base + n)%nat = Z.to_nat base3) by (unfold base3, base; nia).
  rewrite Eb3.
  set (idxs := firstn n (skipn (Z.to_nat base) tbuf)).
  change (fun c : list Z => mkTT (decode32 (firstn 4 c)) epoch epoch (negb (nthZ c 4 =? 0)) (nthZ c 5)) with mkty.
  set (types0 := map mkty (chunks m 6 (skipn (Z.to_nat base3) tbuf))).
  assert (Lti : length times = n) by (unfold times; rewrite map_length, chunks_length; reflexivity).
  assert (Lty : length types0 = m) by (unfold types0; rewrite map_length, chunks_length; reflexivity).
  (* ---- loop 1 ---- *)
  destruct (loop1_run [] d0 a0 f0 e0 ly0 ver src5 (oh_of hdr) tl tbuf n Htl Bt ltac:(unfold base in *; nia) ltac:(lia)
              ltac:(unfold oh_of; cbn [oh_timecnt]; f_equal; lia) n 0%nat fuel ltac:(lia) ltac:(lia) eq_refl) as [G1 B1].
  fold times in G1, B1. cbn [firstn map app] in G1, B1. change (Z.of_nat 0 * tl) with 0 in *. change (Z.of_nat 0) with 0 in *.
  change (mkTr 0 0 (mkF 1970 1 1 0 0 0) (mkF 1970 1 1 0 0 0)) with dtr.
  replace (negb (strictly_increasing times) || negb (forallb time_in_range times)) with (negb (times_ok times))
    by (unfold times_ok; destruct (strictly_increasing times), (forallb time_in_range times); reflexivity).
  destruct (times_ok times) eqn:TO; cbn [negb].
  2:{ destruct (B1 eq_refl) as (z' & v' & zp' & [[s1 s2] s3] & E). rewrite E. cbn [bind]. apply agree_none. }
  rewrite (G1 eq_refl). cbn [bind]. clear G1 B1.
  (* ---- loop 2 ---- *)
  destruct (loop2_run [] d0 a0 f0 e0 ly0 ver src5 (oh_of hdr) tbuf n (h_typecnt hdr) base times Bt ltac:(unfold base; nia)
              ltac:(unfold base in *; nia) ltac:(lia) ltac:(unfold oh_of; cbn [oh_timecnt]; f_equal; lia)
              ltac:(reflexivity) Lti n 0%nat fuel ltac:(lia) ltac:(lia) eq_refl) as [G2 B2].
  fold idxs in G2, B2. cbn [firstn combine map app skipn existsb] in G2, B2.
  replace (base + Z.of_nat 0) with base in * by lia. change (Z.of_nat 0) with 0 in *.
  replace (Z.of_nat n * tl) with base by reflexivity.
  destruct (forallb (fun i : Z => i <? h_typecnt hdr) idxs) eqn:IO; cbn [negb].
  2:{ destruct (B2 eq_refl) as (z' & v' & zp' & [[[s1 s2] s3] s4] & E). rewrite E. cbn [bind]. apply agree_none. }
  rewrite (G2 eq_refl). cbn [bind]. clear G2 B2.
  (* ---- loop 3 ---- *)
  destruct (loop3_run (map mk2 (combine times idxs)) d0 a0 f0 e0 ly0 ver src5 (oh_of hdr) tbuf m cc base3 Bt ltac:(unfold base3, base; nia)
              ltac:(unfold base3, base in *; nia) ltac:(lia) ltac:(unfold oh_of; cbn [oh_typecnt]; f_equal; lia)
              ltac:(reflexivity) m 0%nat fuel ltac:(lia) ltac:(lia) eq_refl) as [G3 B3].
  fold types0 in G3, B3. cbn [firstn app] in G3, B3. replace (base3 + 6 * Z.of_nat 0) with base3 in * by lia. change (Z.of_nat 0) with 0 in *.
  change (mkTT 0 (mkF 1970 1 1 0 0 0) (mkF 1970 1 1 0 0 0) false 0) with dtt.
  replace (base + Z.of_nat n) with base3 by reflexivity.
  match goal with |- context [forallb ?f types0] => destruct (forallb f types0) eqn:TYO end; cbn [negb].
  2:{ destruct (B3 eq_refl) as (z' & v' & zp' & [[s1 s2] s3] & E). rewrite E. cbn [bind]. apply agree_none. }
  rewrite (G3 eq_refl). cbn [bind]. clear G3 B3.
  assert (Bi : bytes_ok idxs) by (unfold idxs; apply bytes_firstn, bytes_skipn; exact Bt).
  assert (Li : length idxs = n).
  { unfold idxs. rewrite firstn_length, skipn_length. unfold base in *. nia. }
  assert (Fa : Forall (fun ty => 0 <= tt_abbr ty) types0).
  { unfold types0. apply Forall_forall. intros ty Hin. apply in_map_iff in Hin as (c & <- & Hc).
    pose proof (chunks_bytes m 6 _ (bytes_skipn (Z.to_nat base3) _ Bt)) as CB. rewrite Forall_forall in CB.
    unfold mkty, nthZ. cbn [tt_abbr]. apply (bytes_nth c 5 (CB c Hc)). }
  assert (Eab : csub tbuf (base3 + 6 * Z.of_nat m) cc = OK (firstn (Z.to_nat cc) (skipn (m * 6) (skipn (Z.to_nat base3) tbuf)))).
  { unfold csub. replace ((0 <=? base3 + 6 * Z.of_nat m) && (0 <=? cc) && (base3 + 6 * Z.of_nat m + cc <=? Z.of_nat (length tbuf))) with true
      by (unfold base3, base, cc in *; nia).
    rewrite skipn_add. do 3 f_equal. unfold base3, base. nia. }
  set (abbrs := firstn (Z.to_nat cc) (skipn (m * 6) (skipn (Z.to_nat base3) tbuf))) in *.
  set (trans0 := map mk2 (combine times idxs)).
  change (map (fun '(t, i) => mkTr t i epoch epoch) (combine times idxs)) with trans0.
  assert (Ltr : (length trans0 <= n)%nat) by (unfold trans0; rewrite map_length, combine_length; lia).
  assert (N0 : (0 < n)%nat -> exists t0 ts, trans0 = mkTr t0 (nthZ idxs 0) epoch epoch :: ts).
  { intros Hn0. unfold trans0. destruct times as [|t ts]; [cbn [length] in Lti; lia|]. destruct idxs as [|i0 is]; [cbn [length] in Li; lia|].
    cbn [combine map mk2 nthZ nth]. eauto. }
  clearbody trans0 times. clear TO Lti.
  (* ---- the default type ---- *)
  set (MD := if existsb (fun i : Z => i =? 0) idxs && negb (h_timecnt hdr =? 0)
             then do t0 <- nth_res types0 0 ;;
                  do i1 <- (if tt_isdst t0 then dflt_down 257 types0 (nthZ idxs 0) else OK 0) ;;
                  do i2 <- dflt_up (S (length types0)) types0 (h_typecnt hdr) i1 ;;
                  OK (if negb (i2 =? h_typecnt hdr) && (i2 <=? 255) then i2 else 0)
             else OK 0).
  rewrite <- bind_assoc.
  match goal with |- agree _ _ (bind ?e _) => set (SD := e) end.
  assert (DT : forall dflt, MD = OK dflt -> SD = OK dflt).
  { intros dflt. unfold MD, SD. destruct (existsb (fun i : Z => i =? 0) idxs); cbn [andb bind]; [|intros H; exact H].
    destruct (h_timecnt hdr =? 0) eqn:TZ; cbn [negb bind]; [intros H; exact H|].
    destruct (nth_res types0 0) as [t0|]; cbn [bind]; [|discriminate].
    destruct (N0 ltac:(lia)) as (tm0 & ts & ->).
    change (nth_res (mkTr tm0 (nthZ idxs 0) epoch epoch :: ts) 0) with (OK (mkTr tm0 (nthZ idxs 0) epoch epoch)). cbn [bind tr_type].
    pose proof (bytes_nth idxs 0 Bi) as R0. fold (nthZ idxs 0) in R0.
    intros H. apply bind_ok in H as (i1 & I1 & H). apply bind_ok in H as (i2 & I2 & H).
    assert (S1 : (if tt_isdst t0 then do index <- sl_Load_loop4 fuel types0 (nthZ idxs 0) ;; OK index else OK 0) = OK i1).
    { destruct (tt_isdst t0); [|exact I1]. rewrite (loop4_run types0 257 fuel (nthZ idxs 0) i1 ltac:(lia) ltac:(lia) I1). reflexivity. }
    rewrite S1. cbn [bind].
    assert (P1 : 0 <= i1) by (destruct (tt_isdst t0); [apply (dflt_down_nonneg types0 257 (nthZ idxs 0) i1 ltac:(lia) I1)|inversion I1; lia]).
    rewrite (loop5_run types0 (oh_of hdr) (h_typecnt hdr) eq_refl ltac:(lia) (S (length types0)) fuel i1 i2 ltac:(lia) P1 I2). cbn [bind].
    pose proof (dflt_up_ge _ _ _ _ _ I2) as P2.
    destruct (negb (i2 =? h_typecnt hdr) && (i2 <=? 255)) eqn:CD; cbn [bind]; [|exact H].
    rewrite u8_small by lia. exact H. }
  destruct MD as [dflt|]; cbn [bind]; [|exact I].
  rewrite (DT dflt eq_refl). cbn [bind]. clear DT SD.
  rewrite Eab. cbn [bind].
  rewrite cadd_in by (unfold base3, base, cc in *; nia). cbn [bind].
  replace (h_leapcnt hdr) with 0 by lia. rewrite Z.mul_0_r. change (u64 0) with 0.
  rewrite cadd_in by (unfold base3, base, cc in *; nia). cbn [bind].
  rewrite (u64_small (1 * h_isstdcnt hdr)) by lia. rewrite cadd_in by (unfold base3, base, cc in *; nia). cbn [bind].
  rewrite (u64_small (1 * h_isutcnt hdr)) by lia. rewrite cadd_in by (unfold base3, base, cc in *; nia). cbn [bind].
  rewrite cadd_in by lia. cbn [bind].
  replace (base3 + 6 * Z.of_nat m + cc + 0 + 1 * h_isstdcnt hdr + 1 * h_isutcnt hdr =? 0 + Z.of_nat (length tbuf)) with true
    by (unfold base3, base, cc in *; nia).
  unfold byte_at. rewrite Lz. cbn [Z.add Z.leb Z.ltb Z.compare Pos.compare Pos.compare_cont andb Z.of_nat Pos.of_succ_nat Pos.succ bind].
  change (nth (Z.to_nat 4) tzhb 0) with (version_of tzhb).
  assert (K2 : forall future zp,
     agree ly0 (load_tail trans0 types0 dflt abbrs future)
       (sl_Load_k2 fuel trans0 types0 dflt abbrs e0 ly0 ver (Some tzhb) (oh_of hdr) tl DL tbuf
          (base3 + 6 * Z.of_nat m + cc + 0 + 1 * h_isstdcnt hdr + 1 * h_isutcnt hdr) (existsb (fun i : Z => i =? 0) idxs) future zp zver)).
  { intros future zp. apply sl_Load_k2_tie; try assumption; unfold base3, base, cc in *; try nia. }
  destruct (version_of tzhb =? 0) eqn:V0; cbn [negb].
  { apply K2. }
  destruct src5 as [|c0 r].
  { change (Z.to_nat 1) with 1%nat. cbn [firstn skipn length Z.of_nat Z.eqb get_opt bind footer_read negb]. apply agree_none. }
  rewrite footer_read_cons.
  change (firstn (Z.to_nat 1) (c0 :: r)) with [c0]. change (skipn (Z.to_nat 1) (c0 :: r)) with r. cbn [length Z.of_nat Pos.of_succ_nat Z.eqb Pos.eqb get_opt bind].
  destruct (c0 =? 10) eqn:C10; cbn [negb]; [|apply agree_none].
  inversion B5 as [|? ? Bc0 Br]; subst.
  pose proof (loop6_run trans0 types0 dflt abbrs e0 ly0 ver r [] fuel Br ltac:(cbn [length] in L5; lia)) as L6.
  cbn [rev] in L6.
  assert (GC : (if Z.of_nat (length (firstn (Z.to_nat 1) r)) =? 1
                then do t118 <- get_opt (match firstn (Z.to_nat 1) r with c_ :: _ => Some c_ | [] => None end) ;; OK t118
                else OK (-1)) = OK (cur_char r)) by (destruct r; reflexivity).
  rewrite GC. cbn [bind]. replace (skipn (Z.to_nat 1) r) with (List.tl r) by (destruct r; reflexivity).
  destruct (footer_scan r []) as [future|].
  - destruct L6 as (zp' & L6). rewrite L6. cbn [bind]. apply K2.
  - destruct L6 as (z' & v' & zp' & [[s1 s2] s3] & L6). rewrite L6. cbn [bind]. apply agree_none.
Qed.

(* Load(ZoneInfoSource ptr) on a fresh object (empty transitions_ / transition_types_; the other members arbitrary).
   [bs] is what the source will deliver, [ver] is version_ on entry, [zver] is zip->Version().  Hypotheses: the bytes
   are bytes, the input is shorter than 2^62, enough fuel. *)
Theorem sl_Load_tie bs ver zver d0 a0 f0 e0 ly0 fuel :
  bytes_ok bs -> Z.of_nat (length bs) < 2 ^ 62 -> (length bs + 1300 <= fuel)%nat ->
  agree ly0 (load_bytes bs) (sl_Load fuel (mkZone [] [] d0 a0 f0 e0 ly0) ver bs zver).
Proof.
  intros HB Sz Hf. rewrite load_bytes_unfold. unfold sl_Load.
  cbn [z_trans z_types z_default z_abbrs z_future z_extended z_last_year].
  rewrite (read_n_spec 44 bs ltac:(lia)). change (Z.to_nat 44) with 44%nat. unfold vec_size.
  set (tzh1 := firstn 44 bs). set (src1 := skipn 44 bs).
  destruct (Z.of_nat (length tzh1) =? 44) eqn:L1; cbn [negb]; [|apply agree_none].
  cbn [get_opt bind].
  assert (Lt1 : length tzh1 = 44%nat) by lia.
  assert (B1 : bytes_ok tzh1) by (apply bytes_firstn; exact HB).
  assert (Bs1 : bytes_ok src1) by (apply bytes_skipn; exact HB).
  assert (Ls1 : (length src1 <= length bs)%nat) by (unfold src1; rewrite skipn_length; lia).
  unfold csub. rewrite Lt1. cbn [Z.leb Z.add Z.of_nat andb Z.compare Pos.compare Pos.compare_cont Pos.of_succ_nat Pos.succ bind Z.to_nat skipn].
  change (Pos.to_nat 4) with 4%nat. fold (magic_ok tzh1).
  destruct (magic_ok tzh1); cbn [negb]; [|apply agree_none].
  pose proof (sl_Build_tie oh_unset tzh1 fuel B1 Lt1 ltac:(lia)) as BT.
  destruct (header_build tzh1) as [hdr1|]; [|destruct BT as [h' BT]; rewrite BT; cbn [bind negb]; apply agree_none].
  destruct BT as [BT HF1]. rewrite BT. cbn [bind negb].
  unfold byte_at. rewrite Lt1. cbn [Z.add Z.leb Z.ltb Z.compare Pos.compare Pos.compare_cont andb Z.of_nat Pos.of_succ_nat Pos.succ bind].
  change (nth (Z.to_nat 4) tzh1 0) with (version_of tzh1).
  destruct (version_of tzh1 =? 0) eqn:V1; cbn [negb].
  { (* version 1 data *)
    pose proof (sl_Load_k1_tie fuel d0 a0 f0 e0 ly0 ver src1 tzh1 hdr1 4 zver HF1 (or_introl eq_refl) Bs1 Lt1 ltac:(lia) ltac:(lia)) as K.
    apply Z.eqb_eq in V1. rewrite V1 in K. exact K. }
  rewrite (sl_DataLength_tie hdr1 4 HF1 ltac:(lia)). cbn [bind]. change (0 =? 0) with true. cbn [negb].
  set (src2 := skip_z (data_length hdr1 4) src1).
  assert (Bs2 : bytes_ok src2) by (apply bytes_skip_z; exact Bs1).
  assert (Ls2 : (length src2 <= length bs)%nat) by (pose proof (skip_z_length (data_length hdr1 4) src1); unfold src2; lia).
  rewrite (read_n_spec 44 src2 ltac:(lia)). change (Z.to_nat 44) with 44%nat.
  set (tzh2 := firstn 44 src2). set (src3 := skipn 44 src2).
  destruct (Z.of_nat (length tzh2) =? 44) eqn:L2; cbn [negb]; [|apply agree_none].
  cbn [get_opt bind].
  assert (Lt2 : length tzh2 = 44%nat) by lia.
  assert (B2 : bytes_ok tzh2) by (apply bytes_firstn; exact Bs2).
  assert (Bs3 : bytes_ok src3) by (apply bytes_skipn; exact Bs2).
  assert (Ls3 : (length src3 <= length bs)%nat) by (unfold src3; rewrite skipn_length; lia).
  rewrite Lt2. cbn [Z.leb Z.add Z.of_nat andb Z.compare Pos.compare Pos.compare_cont Pos.of_succ_nat Pos.succ bind Z.to_nat skipn].
  change (Pos.to_nat 4) with 4%nat. fold (magic_ok tzh2).
  destruct (magic_ok tzh2); cbn [negb]; [|apply agree_none].
  cbn [Z.ltb Z.compare Pos.compare Pos.compare_cont andb bind].
  change (nth 4 tzh2 0) with (version_of tzh2) || change (nth (Z.to_nat 4) tzh2 0) with (version_of tzh2).
  destruct (version_of tzh2 =? 0) eqn:V2; [apply agree_none|].
  pose proof (sl_Build_tie (oh_of hdr1) tzh2 fuel B2 Lt2 ltac:(lia)) as BT2.
  destruct (header_build tzh2) as [hdr2|]; [|destruct BT2 as [h' BT2]; rewrite BT2; cbn [bind negb]; apply agree_none].
  destruct BT2 as [BT2 HF2]. rewrite BT2. cbn [bind negb].
  exact (sl_Load_k1_tie fuel d0 a0 f0 e0 ly0 ver src3 tzh2 hdr2 8 zver HF2 (or_intror eq_refl) Bs3 Lt2 ltac:(lia) ltac:(lia)).
Qed.

(* the two directions spelled out *)
Corollary sl_Load_accepts bs z ver zver d0 a0 f0 e0 ly0 fuel :
  bytes_ok bs -> Z.of_nat (length bs) < 2 ^ 62 -> (length bs + 1300 <= fuel)%nat ->
  load_bytes bs = OK (Some z) ->
  exists ver' rest, sl_Load fuel (mkZone [] [] d0 a0 f0 e0 ly0) ver bs zver = OK (true, load_result ly0 z, ver', rest).
Proof. intros B S F H. pose proof (sl_Load_tie bs ver zver d0 a0 f0 e0 ly0 fuel B S F) as A. rewrite H in A. exact A. Qed.

Corollary sl_Load_rejects bs ver zver d0 a0 f0 e0 ly0 fuel :
  bytes_ok bs -> Z.of_nat (length bs) < 2 ^ 62 -> (length bs + 1300 <= fuel)%nat ->
  load_bytes bs = OK None ->
  exists z' ver' rest, sl_Load fuel (mkZone [] [] d0 a0 f0 e0 ly0) ver bs zver = OK (false, z', ver', rest).
Proof. intros B S F H. pose proof (sl_Load_tie bs ver zver d0 a0 f0 e0 ly0 fuel B S F) as A. rewrite H in A. exact A. Qed.

(* ------------------------------------------------------------------ *)
(* Non-vacuity of sl_Load_tie, and an independent check BY COMPUTATION: the source-derived Load and the hand-written
   load_bytes agree on the accepted EST5EDT file of FinishZone.v (805 transitions after extension; the whole input
   is consumed), on the wide-footer file of LoadCert.v, and on truncations of the former (rejected headers, short
   data, missing footer).  The object on entry is a fresh TimeZoneInfo. *)
Definition fresh_zone : zone := mkZone [] [] 0 [] [] false 0.
Definition tr_eqb (a b : transition) : bool :=
  (tr_time a =? tr_time b) && (tr_type a =? tr_type b) && fields_eqb (tr_cs a) (tr_cs b) && fields_eqb (tr_pcs a) (tr_pcs b).
Definition tt_eqb (a b : ttype) : bool :=
  (tt_off a =? tt_off b) && fields_eqb (tt_cmax a) (tt_cmax b) && fields_eqb (tt_cmin a) (tt_cmin b)
  && Bool.eqb (tt_isdst a) (tt_isdst b) && (tt_abbr a =? tt_abbr b).
Fixpoint list_eqb_by {A} (f : A -> A -> bool) (a b : list A) : bool :=
  match a, b with [], [] => true | x :: a', y :: b' => f x y && list_eqb_by f a' b' | _, _ => false end.
Definition zone_eqb (z z' : zone) : bool :=
  list_eqb_by tr_eqb (z_trans z) (z_trans z') && list_eqb_by tt_eqb (z_types z) (z_types z')
  && (z_default z =? z_default z') && list_eqb (z_abbrs z) (z_abbrs z') && list_eqb (z_future z) (z_future z')
  && Bool.eqb (z_extended z) (z_extended z') && (z_last_year z =? z_last_year z').
Definition load_agrees (bs : list Z) : bool :=
  match load_bytes bs, sl_Load 3000 fresh_zone [] bs [] with
  | OK (Some z), OK (true, z', _, _) => zone_eqb z z'
  | OK None, OK (false, _, _, _) => true
  | _, _ => false
  end.

Lemma bytes_ok_b s : all_bytes s = true -> bytes_ok s.
Proof.
  unfold all_bytes, bytes_ok. intros H. apply Forall_forall. intros x Hx. rewrite forallb_forall in H. specialize (H x Hx).
  unfold is_byte in H. lia.
Qed.

Example sl_Load_examples :
  load_agrees FinishZone.est_bytes = true /\ load_agrees LoadCert.wide_footer_bytes = true /\
  bytes_ok FinishZone.est_bytes /\ (length FinishZone.est_bytes + 1300 <= 3000)%nat /\
  (match sl_Load 3000 fresh_zone [] FinishZone.est_bytes [] with OK (true, _, _, []) => true | _ => false end) = true /\
  (match load_bytes FinishZone.est_bytes with OK (Some z) => (805 =? Z.of_nat (length (z_trans z))) && z_extended z | _ => false end) = true /\
  forallb (fun n => load_agrees (firstn n FinishZone.est_bytes)) [0; 10; 43; 44; 45; 60; 88; 100; 120; 130; 140; 150; 151; 152]%nat = true /\
  map (fun n => match load_bytes (firstn n FinishZone.est_bytes) with OK (Some _) => 1 | OK None => 0 | Err _ => -1 end) [43; 88; 150; 152]%nat = [0; 0; 1; 1].
Proof.
  split; [vm_compute; reflexivity|]. split; [vm_compute; reflexivity|].
  split; [apply bytes_ok_b; vm_compute; reflexivity|].
  split; [vm_compute; lia|]. vm_compute. repeat split; reflexivity.
Qed.

Print Assumptions sl_Build_tie.
Print Assumptions sl_DataLength_tie.
Print Assumptions sl_GetTransitionType_tie.
Print Assumptions sl_ExtendTransitions_tie.
Print Assumptions sl_Load_tie.
Print Assumptions sl_Load_accepts.
Print Assumptions sl_Load_rejects.
