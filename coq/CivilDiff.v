(* CivilDiff.v — proofs about the civil-time difference / ordering code of
   CivilImpl.v (civil_time_detail.h:256-315): scale_add, ymd_ord,
   day_difference, difference(tag,...), operator< / operator==.
   Delivers ord_inverse_lemma, difference_refines_lemma, order_agrees_lemma,
   lt_iff_difference_negative_lemma for Properties_C05.v. *)
From CCTZ Require Import Base Cal SrcConstants CivilImpl CalProofs.
Require Import Lia ZifyBool.
Local Open Scope Z_scope.
Ltac Zify.zify_post_hook ::= Z.to_euclidean_division_equations.

Ltac i64 := unfold int64, min64, max64 in *; lia.
Ltac step64 := rewrite chk64_in by i64; cbn [bind].

Lemma vf_iff f :
  valid_fields f = true <->
  valid_date (fy f) (fm f) (fd f) = true /\
  0 <= fhh f <= 23 /\ 0 <= fmm f <= 59 /\ 0 <= fss f <= 59.
Proof.
  unfold valid_fields. destruct (valid_date (fy f) (fm f) (fd f)); lia.
Qed.

(* ------------------------------------------------------------------ *)
(* scale_add                                                           *)

Lemma scale_add64_ok v f a :
  (f = 12 \/ f = 24 \/ f = 60) -> - f < a < f -> int64 (v * f + a) ->
  scale_add64 v f a = OK (v * f + a).
Proof.
  intros Hf Ha Ht. unfold scale_add64, add64, sub64, mul64.
  destruct (Z.ltb_spec v 0);
    destruct Hf as [-> | [-> | ->]]; repeat step64; f_equal; lia.
Qed.

(* ------------------------------------------------------------------ *)
(* ymd_ord on the only arguments it is ever called with: y = yy % 400   *)

Definition ymd_lo : Z := -865259.
Definition ymd_hi : Z := -573432.

Definition ymd_ok (y m d : Z) : bool :=
  match ymd_ord64 y m d with
  | OK v => (v =? days_from_civil y m d) && (ymd_lo <=? v) && (v <=? ymd_hi)
  | Err _ => false
  end.

Lemma ymd_sweep :
  forallb (fun y => forallb (fun m => forallb (fun d => ymd_ok y m d)
     (zrange 1 31)) (zrange 1 12)) (zrange (-399) 799) = true.
Proof. vm_compute. reflexivity. Qed.

Lemma ymd_ord_small y m d :
  -399 <= y <= 399 -> 1 <= m <= 12 -> 1 <= d <= 31 ->
  ymd_ord64 y m d = OK (days_from_civil y m d) /\
  ymd_lo <= days_from_civil y m d <= ymd_hi.
Proof.
  intros Hy Hm Hd. pose proof ymd_sweep as S.
  rewrite forallb_forall in S.
  assert (Iy : In y (zrange (-399) 799)) by (apply zrange_In; lia).
  specialize (S y Iy). cbv beta in S. rewrite forallb_forall in S.
  assert (Im : In m (zrange 1 12)) by (apply zrange_In; lia).
  specialize (S m Im). cbv beta in S. rewrite forallb_forall in S.
  assert (Id : In d (zrange 1 31)) by (apply zrange_In; lia).
  specialize (S d Id). cbv beta in S. unfold ymd_ok in S.
  destruct (ymd_ord64 y m d) as [v|e]; [|discriminate].
  assert (v = days_from_civil y m d /\ ymd_lo <= v <= ymd_hi) as [-> B] by lia.
  split; [reflexivity | exact B].
Qed.

(* ------------------------------------------------------------------ *)
(* day_difference                                                      *)

Lemma valid_date_bounds y m d :
  valid_date y m d = true -> 1 <= m <= 12 /\ 1 <= d <= 31.
Proof.
  unfold valid_date, days_in_month. intros H.
  destruct (m =? 2); [destruct (is_leap y)|destruct ((m =? 4) || (m =? 6) || (m =? 9) || (m =? 11))]; lia.
Qed.

Lemma day_difference64_ok y1 m1 d1 y2 m2 d2 :
  valid_date y1 m1 d1 = true -> valid_date y2 m2 d2 = true ->
  int64 y1 -> int64 y2 ->
  int64 (days_from_civil y1 m1 d1 - days_from_civil y2 m2 d2) ->
  day_difference64 y1 m1 d1 y2 m2 d2 =
  OK (days_from_civil y1 m1 d1 - days_from_civil y2 m2 d2).
Proof.
  intros V1 V2 I1 I2 IT.
  destruct (valid_date_bounds _ _ _ V1) as [Hm1 Hd1].
  destruct (valid_date_bounds _ _ _ V2) as [Hm2 Hd2].
  assert (E1 : y1 = 400 * Z.quot y1 400 + Z.rem y1 400 /\
               -399 <= Z.rem y1 400 <= 399 /\
               (0 <= y1 -> 0 <= 400 * Z.quot y1 400 <= y1) /\
               (y1 <= 0 -> y1 <= 400 * Z.quot y1 400 <= 0)) by lia.
  assert (E2 : y2 = 400 * Z.quot y2 400 + Z.rem y2 400 /\
               -399 <= Z.rem y2 400 <= 399 /\
               (0 <= y2 -> 0 <= 400 * Z.quot y2 400 <= y2) /\
               (y2 <= 0 -> y2 <= 400 * Z.quot y2 400 <= 0)) by lia.
  unfold day_difference64. cbv zeta.
  set (a := Z.rem y1 400) in *. set (q1 := Z.quot y1 400) in *.
  set (b := Z.rem y2 400) in *. set (q2 := Z.quot y2 400) in *.
  clearbody a q1 b q2.
  destruct E1 as (E1 & Ba & P1 & N1). destruct E2 as (E2 & Bb & P2 & N2).
  destruct (ymd_ord_small a m1 d1 Ba Hm1 Hd1) as [Oa Ra].
  destruct (ymd_ord_small b m2 d2 Bb Hm2 Hd2) as [Ob Rb].
  pose proof (dfc_period a m1 d1 q1) as T1.
  pose proof (dfc_period b m2 d2 q2) as T2.
  replace (a + 400 * q1) with y1 in T1 by lia.
  replace (b + 400 * q2) with y2 in T2 by lia.
  rewrite Oa, Ob.
  set (A := days_from_civil a m1 d1) in *.
  set (B := days_from_civil b m2 d2) in *.
  set (D1 := days_from_civil y1 m1 d1) in *.
  set (D2 := days_from_civil y2 m2 d2) in *.
  clearbody A B D1 D2. clear Oa Ob V1 V2.
  unfold ymd_lo, ymd_hi in *.
  unfold sub64, add64, mul64.
  step64. step64. step64. step64.
  destruct ((0 <? y1 - a - (y2 - b)) && (A - B <? 0)) eqn:C1.
  - step64. step64.
    match goal with |- context [Z.quot ?x 400] =>
      replace (Z.quot x 400) with (q1 - q2 - 2) by lia end.
    step64. step64. f_equal. lia.
  - destruct ((y1 - a - (y2 - b) <? 0) && (0 <? A - B)) eqn:C2.
    + step64. step64.
      match goal with |- context [Z.quot ?x 400] =>
        replace (Z.quot x 400) with (q1 - q2 + 2) by lia end.
      step64. step64. f_equal. lia.
    + cbn [bind].
      match goal with |- context [Z.quot ?x 400] =>
        replace (Z.quot x 400) with (q1 - q2) by lia end.
      step64. step64. f_equal. lia.
Qed.

(* ------------------------------------------------------------------ *)
(* the difference chain; each level ignores the lower fields           *)

Definition ddays (f1 f2 : fields) : Z :=
  days_from_civil (fy f1) (fm f1) (fd f1) - days_from_civil (fy f2) (fm f2) (fd f2).

Lemma diff_day64_ok f1 f2 :
  valid_fields f1 = true -> valid_fields f2 = true ->
  int64 (fy f1) -> int64 (fy f2) -> int64 (ddays f1 f2) ->
  diff_day64 f1 f2 = OK (ddays f1 f2).
Proof.
  intros V1 V2 I1 I2 IT. apply vf_iff in V1, V2.
  unfold diff_day64. apply day_difference64_ok; tauto.
Qed.

Lemma diff_hour64_ok f1 f2 :
  valid_fields f1 = true -> valid_fields f2 = true ->
  int64 (fy f1) -> int64 (fy f2) ->
  int64 (ddays f1 f2 * 24 + (fhh f1 - fhh f2)) ->
  diff_hour64 f1 f2 = OK (ddays f1 f2 * 24 + (fhh f1 - fhh f2)).
Proof.
  intros V1 V2 I1 I2 IT.
  pose proof (proj1 (vf_iff _) V1) as W1.
  pose proof (proj1 (vf_iff _) V2) as W2.
  unfold diff_hour64. rewrite diff_day64_ok by (auto; i64). cbn [bind].
  apply scale_add64_ok; [auto | lia | exact IT].
Qed.

Lemma diff_minute64_ok f1 f2 :
  valid_fields f1 = true -> valid_fields f2 = true ->
  int64 (fy f1) -> int64 (fy f2) ->
  int64 ((ddays f1 f2 * 24 + (fhh f1 - fhh f2)) * 60 + (fmm f1 - fmm f2)) ->
  diff_minute64 f1 f2 = OK ((ddays f1 f2 * 24 + (fhh f1 - fhh f2)) * 60 + (fmm f1 - fmm f2)).
Proof.
  intros V1 V2 I1 I2 IT.
  pose proof (proj1 (vf_iff _) V1) as W1.
  pose proof (proj1 (vf_iff _) V2) as W2.
  unfold diff_minute64. rewrite diff_hour64_ok by (auto; i64). cbn [bind].
  apply scale_add64_ok; [auto | lia | exact IT].
Qed.

Lemma diff_second64_ok f1 f2 :
  valid_fields f1 = true -> valid_fields f2 = true ->
  int64 (fy f1) -> int64 (fy f2) ->
  int64 (((ddays f1 f2 * 24 + (fhh f1 - fhh f2)) * 60 + (fmm f1 - fmm f2)) * 60 + (fss f1 - fss f2)) ->
  diff_second64 f1 f2 =
  OK (((ddays f1 f2 * 24 + (fhh f1 - fhh f2)) * 60 + (fmm f1 - fmm f2)) * 60 + (fss f1 - fss f2)).
Proof.
  intros V1 V2 I1 I2 IT.
  pose proof (proj1 (vf_iff _) V1) as W1.
  pose proof (proj1 (vf_iff _) V2) as W2.
  unfold diff_second64. rewrite diff_minute64_ok by (auto; i64). cbn [bind].
  apply scale_add64_ok; [auto | lia | exact IT].
Qed.

(* ------------------------------------------------------------------ *)
(* ordinals of aligned values                                          *)

Lemma sec_of_expand f :
  sec_of f = ((days_from_civil (fy f) (fm f) (fd f) * 24 + fhh f) * 60 + fmm f) * 60 + fss f.
Proof. unfold sec_of. lia. Qed.

Lemma ord1_eq f : fss f = 0 ->
  sec_of f / 60 = (days_from_civil (fy f) (fm f) (fd f) * 24 + fhh f) * 60 + fmm f.
Proof. intros H. rewrite sec_of_expand, H. lia. Qed.

Lemma ord2_eq f : fmm f = 0 -> fss f = 0 ->
  sec_of f / 3600 = days_from_civil (fy f) (fm f) (fd f) * 24 + fhh f.
Proof. intros H1 H2. rewrite sec_of_expand, H1, H2. lia. Qed.

Lemma ord3_eq f : fhh f = 0 -> fmm f = 0 -> fss f = 0 ->
  sec_of f = days_from_civil (fy f) (fm f) (fd f) * 86400.
Proof. intros H0 H1 H2. rewrite sec_of_expand, H0, H1, H2. lia. Qed.

Lemma aligned1 f : align_spec 1 f = f -> fss f = 0.
Proof. intros H. pose proof (f_equal fss H) as E. cbn in E. lia. Qed.
Lemma aligned2 f : align_spec 2 f = f -> fmm f = 0 /\ fss f = 0.
Proof.
  intros H. pose proof (f_equal fss H) as E. pose proof (f_equal fmm H) as E'.
  cbn in E, E'. lia.
Qed.
Lemma aligned3 f : align_spec 3 f = f -> fhh f = 0 /\ fmm f = 0 /\ fss f = 0.
Proof.
  intros H. pose proof (f_equal fss H) as E. pose proof (f_equal fmm H) as E'.
  pose proof (f_equal fhh H) as E''. cbn in E, E', E''. lia.
Qed.
Lemma aligned4 f : align_spec 4 f = f -> fd f = 1 /\ fhh f = 0 /\ fmm f = 0 /\ fss f = 0.
Proof.
  intros H. pose proof (f_equal fss H) as E. pose proof (f_equal fmm H) as E'.
  pose proof (f_equal fhh H) as E''. pose proof (f_equal fd H) as E3.
  cbn in E, E', E'', E3. lia.
Qed.
Lemma aligned5 f : align_spec 5 f = f ->
  fm f = 1 /\ fd f = 1 /\ fhh f = 0 /\ fmm f = 0 /\ fss f = 0.
Proof.
  intros H. pose proof (f_equal fss H) as E. pose proof (f_equal fmm H) as E'.
  pose proof (f_equal fhh H) as E''. pose proof (f_equal fd H) as E3.
  pose proof (f_equal fm H) as E4.
  cbn in E, E', E'', E3, E4. lia.
Qed.

(* ------------------------------------------------------------------ *)
(* difference_refines                                                  *)

Lemma difference_refines_lemma : forall tag f1 f2, (tag <= 5)%nat ->
  valid_fields f1 = true -> valid_fields f2 = true ->
  align_spec tag f1 = f1 -> align_spec tag f2 = f2 ->
  int64 (fy f1) -> int64 (fy f2) ->
  int64 (ord_spec tag f1 - ord_spec tag f2) ->
  difference64 tag f1 f2 = OK (ord_spec tag f1 - ord_spec tag f2).
Proof.
  intros tag f1 f2 Ht V1 V2 A1 A2 I1 I2 IT.
  destruct tag as [|[|[|[|[|[|tag]]]]]]; [| | | | | |lia];
    cbn [ord_spec difference64] in *.
  - (* second *)
    assert (E : sec_of f1 - sec_of f2 =
      ((ddays f1 f2 * 24 + (fhh f1 - fhh f2)) * 60 + (fmm f1 - fmm f2)) * 60 + (fss f1 - fss f2))
      by (rewrite !sec_of_expand; unfold ddays; lia).
    rewrite E in *. apply diff_second64_ok; assumption.
  - (* minute *)
    apply aligned1 in A1, A2.
    assert (E : sec_of f1 / 60 - sec_of f2 / 60 =
      (ddays f1 f2 * 24 + (fhh f1 - fhh f2)) * 60 + (fmm f1 - fmm f2))
      by (rewrite !ord1_eq by assumption; unfold ddays; lia).
    rewrite E in *. apply diff_minute64_ok; assumption.
  - (* hour *)
    apply aligned2 in A1, A2. destruct A1, A2.
    assert (E : sec_of f1 / 3600 - sec_of f2 / 3600 =
      ddays f1 f2 * 24 + (fhh f1 - fhh f2))
      by (rewrite !ord2_eq by assumption; unfold ddays; lia).
    rewrite E in *. apply diff_hour64_ok; assumption.
  - (* day *)
    apply diff_day64_ok; assumption.
  - (* month *)
    apply vf_iff in V1, V2.
    destruct V1 as [V1 _], V2 as [V2 _].
    apply valid_date_bounds in V1, V2.
    unfold diff_month64, diff_year64, sub64.
    step64.
    replace (12 * fy f1 + (fm f1 - 1) - (12 * fy f2 + (fm f2 - 1)))
      with ((fy f1 - fy f2) * 12 + (fm f1 - fm f2)) in * by lia.
    apply scale_add64_ok; [auto | lia | exact IT].
  - (* year *)
    unfold diff_year64, sub64. step64. reflexivity.
Qed.

(* ------------------------------------------------------------------ *)
(* order                                                               *)

Lemma order_agrees_lemma : forall a b, valid_fields a = true -> valid_fields b = true ->
  lt64 a b = (sec_of a <? sec_of b) /\ eq64 a b = (sec_of a =? sec_of b).
Proof.
  intros a b Va Vb. unfold lt64, eq64.
  split; [apply fields_ltb_sec | apply fields_eqb_sec]; assumption.
Qed.

Lemma lt_iff_difference_negative_lemma : forall tag a b, (tag <= 5)%nat ->
  valid_fields a = true -> valid_fields b = true ->
  align_spec tag a = a -> align_spec tag b = b ->
  (lt64 a b = true <-> ord_spec tag a - ord_spec tag b < 0).
Proof.
  intros tag a b Ht Va Vb Aa Ab.
  destruct (order_agrees_lemma a b Va Vb) as [L _]. rewrite L, Z.ltb_lt.
  destruct tag as [|[|[|[|[|[|tag]]]]]]; [| | | | | |lia]; cbn [ord_spec].
  - lia.
  - apply aligned1 in Aa, Ab. rewrite !ord1_eq by assumption.
    rewrite !sec_of_expand, Aa, Ab. lia.
  - apply aligned2 in Aa, Ab. destruct Aa as [Aa1 Aa2], Ab as [Ab1 Ab2].
    rewrite !ord2_eq by assumption.
    rewrite !sec_of_expand, Aa1, Aa2, Ab1, Ab2. lia.
  - apply aligned3 in Aa, Ab. destruct Aa as (? & ? & ?), Ab as (? & ? & ?).
    rewrite !ord3_eq by assumption. lia.
  - rewrite <- Z.ltb_lt, <- L. unfold lt64, fields_ltb.
    apply aligned4 in Aa, Ab.
    apply vf_iff in Va, Vb.
    destruct Va as [Va _], Vb as [Vb _].
    apply valid_date_bounds in Va, Vb. lia.
  - rewrite <- Z.ltb_lt, <- L. unfold lt64, fields_ltb.
    apply aligned5 in Aa, Ab. lia.
Qed.

(* ------------------------------------------------------------------ *)
(* ord / of_ord                                                        *)

Lemma cos_fields s :
  fhh (civil_of_seconds s) = s mod 86400 / 3600 /\
  fmm (civil_of_seconds s) = (s mod 86400) mod 3600 / 60 /\
  fss (civil_of_seconds s) = (s mod 86400) mod 60.
Proof.
  unfold civil_of_seconds. destruct (civil_of_days (s / 86400)) as [[y m] d].
  simpl. auto.
Qed.

Lemma fields_eta f : mkF (fy f) (fm f) (fd f) (fhh f) (fmm f) (fss f) = f.
Proof. destruct f; reflexivity. Qed.

Lemma valid_month_first y m : 1 <= m <= 12 -> valid_date y m 1 = true.
Proof.
  intros H. unfold valid_date, days_in_month.
  destruct (m =? 2); [destruct (is_leap y)|destruct ((m =? 4) || (m =? 6) || (m =? 9) || (m =? 11))]; lia.
Qed.

Lemma ord_inverse_lemma : forall tag, (tag <= 5)%nat ->
  (forall n, ord_spec tag (of_ord_spec tag n) = n /\
             valid_fields (of_ord_spec tag n) = true /\
             align_spec tag (of_ord_spec tag n) = of_ord_spec tag n) /\
  (forall f, valid_fields f = true -> align_spec tag f = f ->
             of_ord_spec tag (ord_spec tag f) = f).
Proof.
  intros tag Ht.
  destruct tag as [|[|[|[|[|[|tag]]]]]]; [| | | | | |lia];
    cbn [ord_spec of_ord_spec align_spec]; split.
  - intros n. split; [apply sec_of_cos|]. split; [apply valid_cos | reflexivity].
  - intros f V _. apply cos_sec_of; exact V.
  - (* minute *)
    intros n. rewrite sec_of_cos. split; [lia|]. split; [apply valid_cos|].
    destruct (cos_fields (n * 60)) as (_ & _ & E).
    replace 0 with (fss (civil_of_seconds (n * 60))) at 1 by (rewrite E; lia).
    apply fields_eta.
  - intros f V A. apply aligned1 in A.
    replace (sec_of f / 60 * 60) with (sec_of f)
      by (rewrite ord1_eq by assumption; rewrite sec_of_expand, A; lia).
    apply cos_sec_of; exact V.
  - (* hour *)
    intros n. rewrite sec_of_cos. split; [lia|]. split; [apply valid_cos|].
    destruct (cos_fields (n * 3600)) as (_ & E' & E).
    replace 0 with (fss (civil_of_seconds (n * 3600))) at 2 by (rewrite E; lia).
    replace 0 with (fmm (civil_of_seconds (n * 3600))) at 1 by (rewrite E'; lia).
    apply fields_eta.
  - intros f V A. apply aligned2 in A. destruct A as [A1 A2].
    replace (sec_of f / 3600 * 3600) with (sec_of f)
      by (rewrite ord2_eq by assumption; rewrite sec_of_expand, A1, A2; lia).
    apply cos_sec_of; exact V.
  - (* day *)
    intros n.
    destruct (cos_fields (n * 86400)) as (E'' & E' & E).
    assert (H0 : fhh (civil_of_seconds (n * 86400)) = 0) by (rewrite E''; lia).
    assert (H1 : fmm (civil_of_seconds (n * 86400)) = 0) by (rewrite E'; lia).
    assert (H2 : fss (civil_of_seconds (n * 86400)) = 0) by (rewrite E; lia).
    pose proof (sec_of_cos (n * 86400)) as S.
    rewrite (ord3_eq _ H0 H1 H2) in S.
    split; [lia|]. split; [apply valid_cos|].
    rewrite <- H0 at 1. rewrite <- H1 at 1. rewrite <- H2 at 1.
    apply fields_eta.
  - intros f V A. apply aligned3 in A. destruct A as (A0 & A1 & A2).
    rewrite <- (ord3_eq _ A0 A1 A2). apply cos_sec_of; exact V.
  - (* month *)
    intros n. cbn [fy fm fd fhh fmm fss]. split; [lia|]. split; [|reflexivity].
    unfold valid_fields; cbn [fy fm fd fhh fmm fss].
    rewrite valid_month_first by lia. reflexivity.
  - intros f V A. apply aligned4 in A. destruct A as (A3 & A0 & A1 & A2).
    apply vf_iff in V. destruct V as [V _].
    apply valid_date_bounds in V.
    transitivity (mkF (fy f) (fm f) (fd f) (fhh f) (fmm f) (fss f)); [|apply fields_eta].
    rewrite A3, A0, A1, A2. f_equal; lia.
  - (* year *)
    intros n. cbn [fy fm fd fhh fmm fss]. split; [reflexivity|]. split; [|reflexivity].
    unfold valid_fields; cbn [fy fm fd fhh fmm fss].
    rewrite valid_month_first by lia. reflexivity.
  - intros f V A. apply aligned5 in A. destruct A as (A4 & A3 & A0 & A1 & A2).
    transitivity (mkF (fy f) (fm f) (fd f) (fhh f) (fmm f) (fss f)); [|apply fields_eta].
    rewrite A4, A3, A0, A1, A2. reflexivity.
Qed.
