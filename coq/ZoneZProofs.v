(* ZoneZProofs.v — proofs of the zone properties stated in Properties_C02/C03/C06/C11
   at the integer level (ZoneZ.v), by induction over the transition list. *)
From CCTZ Require Import Base ZoneZ.
Require Import Lia ZifyBool.
Local Open Scope Z_scope.

(* ================================================================== *)
(* Generic "first index whose key exceeds v" and index-sortedness       *)

Section Upper.
Variable key : ztr -> Z.

Fixpoint upperG (l : list ztr) (v : Z) : nat :=
  match l with
  | [] => O
  | tr :: r => if v <? key tr then O else S (upperG r v)
  end.

Definition sortedK (l : list ztr) : Prop :=
  forall i j a b, (i < j)%nat -> nth_error l i = Some a -> nth_error l j = Some b -> key a < key b.

Lemma sortedK_tail x r : sortedK (x :: r) -> sortedK r.
Proof. intros H i j a b Hij Ha Hb. apply (H (S i) (S j)); simpl; auto; lia. Qed.

Lemma upperG_le l v : (upperG l v <= length l)%nat.
Proof. induction l as [|x r IH]; simpl; [lia|]. destruct (v <? key x); simpl; lia. Qed.

Lemma upperG_char l v : sortedK l -> forall i a, nth_error l i = Some a ->
  ((i < upperG l v)%nat <-> key a <= v).
Proof.
  induction l as [|x r IH]; intros HS i a Hi.
  - destruct i; discriminate.
  - cbn [upperG]. destruct i as [|i]; simpl in Hi.
    + inversion Hi; subst. destruct (Z.ltb_spec v (key a)); split; intros; lia.
    + destruct (Z.ltb_spec v (key x)).
      * assert (key x < key a) by (apply (HS O (S i)); simpl; auto; lia). split; intros; lia.
      * rewrite <- (IH (sortedK_tail _ _ HS) i a Hi). lia.
Qed.

Lemma upperG_eq l v m : sortedK l -> (m <= length l)%nat ->
  (forall j a, m = S j -> nth_error l j = Some a -> key a <= v) ->
  (forall a, nth_error l m = Some a -> v < key a) -> upperG l v = m.
Proof.
  intros HS Hm Hlo Hhi.
  pose proof (upperG_le l v) as Hu.
  destruct (Nat.lt_trichotomy (upperG l v) m) as [Hlt|[Heq|Hgt]]; auto; exfalso.
  - destruct m as [|j]; [lia|].
    destruct (nth_error l j) as [a|] eqn:Ej.
    2:{ apply nth_error_None in Ej. lia. }
    specialize (Hlo j a eq_refl Ej).
    destruct (nth_error l (upperG l v)) as [b|] eqn:Eu.
    2:{ apply nth_error_None in Eu. lia. }
    pose proof (upperG_char l v HS _ _ Eu) as Hc.
    assert (key b <= key a).
    { destruct (Nat.eq_dec (upperG l v) j) as [e|ne].
      - rewrite e in Eu. assert (a = b) by congruence. subst. lia.
      - assert (key b < key a) by (apply (HS (upperG l v) j); auto; lia). lia. }
    lia.
  - destruct (nth_error l m) as [a|] eqn:Em.
    2:{ apply nth_error_None in Em. lia. }
    specialize (Hhi a eq_refl). apply (upperG_char l v HS) in Em. lia.
Qed.

Lemma sortedK_adj l :
  (forall i a b, nth_error l i = Some a -> nth_error l (S i) = Some b -> key a < key b) -> sortedK l.
Proof.
  intros H i j. induction j as [|j IH]; intros a b Hij Ha Hb; [lia|].
  destruct (nth_error l j) as [c|] eqn:Ej.
  2:{ apply nth_error_None in Ej.
      assert (nth_error l (S j) = None) by (apply nth_error_None; lia). congruence. }
  pose proof (H j c b Ej Hb).
  destruct (Nat.eq_dec i j) as [e|ne].
  - subst i. assert (a = c) by congruence. subst. auto.
  - assert (key a < key c) by (apply IH; auto; lia). lia.
Qed.

Lemma sortedK_le l i j a b : sortedK l -> (i <= j)%nat ->
  nth_error l i = Some a -> nth_error l j = Some b -> key a <= key b.
Proof.
  intros HS Hij Ha Hb. destruct (Nat.eq_dec i j) as [e|ne].
  - subst. assert (a = b) by congruence. subst. lia.
  - assert (key a < key b) by (apply (HS i j); auto; lia). lia.
Qed.
End Upper.

Lemma upper_idx_G l t : upper_idx l t = upperG zt_time l t.
Proof. reflexivity. Qed.
Lemma upper_civil_G l L : upper_civil l L = upperG at_ l L.
Proof. reflexivity. Qed.
Lemma upper_idx_le l t : (upper_idx l t <= length l)%nat.
Proof. rewrite upper_idx_G. apply upperG_le. Qed.

Lemma upper_civil_le l L : (upper_civil l L <= length l)%nat.
Proof. exact (upperG_le at_ l L). Qed.
Lemma upper_idx_char l t : sortedK zt_time l -> forall i a, nth_error l i = Some a ->
  ((i < upper_idx l t)%nat <-> zt_time a <= t).
Proof. exact (upperG_char zt_time l t). Qed.
Lemma upper_civil_char l L : sortedK at_ l -> forall i a, nth_error l i = Some a ->
  ((i < upper_civil l L)%nat <-> at_ a <= L).
Proof. exact (upperG_char at_ l L). Qed.
Lemma upper_idx_eq l t m : sortedK zt_time l -> (m <= length l)%nat ->
  (forall j a, m = S j -> nth_error l j = Some a -> zt_time a <= t) ->
  (forall a, nth_error l m = Some a -> t < zt_time a) -> upper_idx l t = m.
Proof. exact (upperG_eq zt_time l t m). Qed.

Lemma nth_some_lt {A} (l : list A) i a : nth_error l i = Some a -> (i < length l)%nat.
Proof. intros H. apply nth_error_Some. congruence. Qed.
Lemma nth_lt_some {A} (l : list A) i : (i < length l)%nat -> exists a, nth_error l i = Some a.
Proof. intros H. destruct (nth_error l i) eqn:E; eauto. apply nth_error_None in E. lia. Qed.

(* ================================================================== *)
(* unfolding lemmas and adjacent facts from the boolean certificates    *)

Lemma ti_cons2 x y r :
  times_increasing (x :: y :: r) = (zt_time x <? zt_time y) && times_increasing (y :: r).
Proof. reflexivity. Qed.
Lemma gw_cons2 po x y r :
  gaps_wide po (x :: y :: r) =
  (Z.abs (zt_off x - po) + Z.abs (zt_off y - zt_off x) <? zt_time y - zt_time x)
  && gaps_wide (zt_off x) (y :: r).
Proof. reflexivity. Qed.

Lemma ti_adj l : times_increasing l = true -> forall i a b,
  nth_error l i = Some a -> nth_error l (S i) = Some b -> zt_time a < zt_time b.
Proof.
  induction l as [|x r IH]; intros H i a b Ha Hb.
  - destruct i; discriminate.
  - destruct r as [|y r'].
    + simpl in Hb. destruct i; discriminate.
    + rewrite ti_cons2 in H. apply andb_true_iff in H. destruct H as [H1 H2].
      apply Z.ltb_lt in H1.
      destruct i as [|i].
      * simpl in Ha, Hb. inversion Ha; inversion Hb; subst. lia.
      * apply (IH H2 i); auto.
Qed.

Lemma ti_sorted l : times_increasing l = true -> sortedK zt_time l.
Proof. intros H. apply sortedK_adj. apply ti_adj; auto. Qed.

(* offset in force just before index k (list-level off_before) *)
Definition ob (po : Z) (l : list ztr) (k : nat) : Z :=
  match k with
  | O => po
  | S j => match nth_error l j with Some p => zt_off p | None => po end
  end.

Lemma ob_cons po x r j : (j <= length r)%nat -> ob po (x :: r) (S j) = ob (zt_off x) r j.
Proof.
  intros H. destruct j as [|j]; simpl; auto.
  destruct (nth_error r j) eqn:E; auto. apply nth_error_None in E. lia.
Qed.

Lemma ob_S po l j a : nth_error l j = Some a -> ob po l (S j) = zt_off a.
Proof. intros H. unfold ob. rewrite H. reflexivity. Qed.

Definition gapP (po : Z) (l : list ztr) : Prop :=
  forall i a b, nth_error l i = Some a -> nth_error l (S i) = Some b ->
  Z.abs (zt_off a - ob po l i) + Z.abs (zt_off b - zt_off a) < zt_time b - zt_time a.

Lemma gw_adj l : forall po, gaps_wide po l = true -> gapP po l.
Proof.
  induction l as [|x r IH]; intros po H i a b Ha Hb.
  - destruct i; discriminate.
  - destruct r as [|y r'].
    + simpl in Hb. destruct i; discriminate.
    + rewrite gw_cons2 in H. apply andb_true_iff in H. destruct H as [H1 H2].
      apply Z.ltb_lt in H1.
      destruct i as [|i].
      * simpl in Ha, Hb. inversion Ha; inversion Hb; subst. simpl. lia.
      * rewrite ob_cons.
        -- apply (IH _ H2 i); auto.
        -- simpl in Ha. apply nth_some_lt in Ha. lia.
Qed.

Lemma at_sorted po l : sortedK zt_time l -> gapP po l -> sortedK at_ l.
Proof.
  intros HT HG. apply sortedK_adj. intros i a b Ha Hb.
  pose proof (HG i a b Ha Hb). unfold at_. lia.
Qed.

Definition WF (po : Z) (l : list ztr) : Prop :=
  sortedK zt_time l /\ sortedK at_ l /\ gapP po l /\ l <> [].

Lemma wfz_WF l po did : wfz (mkZZ l po did) = true -> WF po l.
Proof.
  unfold wfz. simpl. rewrite !andb_true_iff. intros [[H1 H2] H3].
  pose proof (ti_sorted l H1). pose proof (gw_adj l po H2).
  repeat split; auto.
  - eapply at_sorted; eauto.
  - intro; subst; discriminate.
Qed.

(* ================================================================== *)
(* C03: BreakTime's index search = the spec                             *)

Lemma zbreak_list l : forall po pid t,
  match upper_idx l t with
  | O => (po, pid)
  | S k => match nth_error l k with Some tr => (zt_off tr, zt_id tr) | None => (po, pid) end
  end = (zoff_list l po t, zid_list l pid t).
Proof.
  induction l as [|x r IH]; intros po pid t; cbn [upper_idx zoff_list zid_list]; auto.
  destruct (Z.leb_spec (zt_time x) t), (Z.ltb_spec t (zt_time x)); try lia; auto.
  rewrite <- (IH (zt_off x) (zt_id x) t).
  destruct (upper_idx r t) as [|k] eqn:E; cbn [nth_error]; auto.
  destruct (nth_error r k) eqn:En; auto.
  apply nth_error_None in En. pose proof (upper_idx_le r t). lia.
Qed.

Lemma zbreak_spec_lemma : forall z t, times_increasing (zz_tr z) = true ->
  zbreak z t = (zoff z t, zid z t).
Proof. intros [l po pid] t _. unfold zbreak, zoff, zid. simpl. apply zbreak_list. Qed.

Lemma zoff_ob l : forall po t, zoff_list l po t = ob po l (upper_idx l t).
Proof.
  induction l as [|x r IH]; intros po t; cbn [upper_idx zoff_list]; auto.
  destruct (Z.leb_spec (zt_time x) t), (Z.ltb_spec t (zt_time x)); try lia; auto.
  rewrite IH. symmetry. apply ob_cons. apply upper_idx_le.
Qed.

(* ================================================================== *)
(* segments: the offset as a function of the index                      *)

Definition inseg (l : list ztr) (m : nat) (t : Z) : Prop :=
  (m <= length l)%nat /\
  (forall j a, m = S j -> nth_error l j = Some a -> zt_time a <= t) /\
  (forall a, nth_error l m = Some a -> t < zt_time a).

Lemma f_seg po l m t : sortedK zt_time l -> inseg l m t -> zoff_list l po t = ob po l m.
Proof.
  intros HS [H1 [H2 H3]]. rewrite zoff_ob.
  f_equal. apply upper_idx_eq; auto.
Qed.

Lemma f_upper po l : sortedK zt_time l -> gapP po l -> forall i a t,
  nth_error l i = Some a -> t < zt_time a -> t + zoff_list l po t <= pre_ (ob po l i) a.
Proof.
  intros HS HG. induction i as [|i IH]; intros a t Ha Ht.
  - rewrite (f_seg po l O t HS).
    + unfold pre_, ob. lia.
    + split; [lia|]. split.
      * intros j a0 Hj. discriminate.
      * intros a0 Ha0. assert (a0 = a) by congruence. subst. auto.
  - destruct (nth_lt_some l i) as [b Hb]. { apply nth_some_lt in Ha. lia. }
    pose proof (HG i b a Hb Ha) as Hgap.
    rewrite (ob_S po l i b Hb).
    destruct (Z.lt_ge_cases t (zt_time b)) as [Hlt|Hge].
    + pose proof (IH b t Hb Hlt) as Hi. unfold pre_ in *. lia.
    + rewrite (f_seg po l (S i) t HS).
      * rewrite (ob_S po l i b Hb). unfold pre_. lia.
      * split; [apply nth_some_lt in Ha; lia|]. split.
        -- intros j a0 Hj Ha0. inversion Hj; subst j. assert (a0 = b) by congruence. subst. auto.
        -- intros a0 Ha0. assert (a0 = a) by congruence. subst. auto.
Qed.

Lemma f_lower po l : sortedK zt_time l -> sortedK at_ l -> forall i a t,
  nth_error l i = Some a -> zt_time a <= t -> at_ a <= t + zoff_list l po t.
Proof.
  intros HS HA i a t Ha Ht.
  rewrite zoff_ob. 
  pose proof (upper_idx_le l t) as Hle.
  assert (Hi : (i < upper_idx l t)%nat).
  { apply (upper_idx_char l t HS i a Ha). auto. }
  destruct (upper_idx l t) as [|u] eqn:Eu; [lia|].
  destruct (nth_lt_some l u) as [b Hb]; [lia|].
  rewrite (ob_S po l u b Hb).
  assert (zt_time b <= t).
  { apply (upper_idx_char l t HS u b Hb). rewrite Eu. lia. }
  assert (at_ a <= at_ b) by (apply (sortedK_le at_ l i u); auto; lia).
  unfold at_ in *. lia.
Qed.

Lemma zoff_at_trans po l m a : sortedK zt_time l -> nth_error l m = Some a ->
  zoff_list l po (zt_time a - 1) = ob po l m /\ zoff_list l po (zt_time a) = zt_off a.
Proof.
  intros HS Ha. pose proof (nth_some_lt _ _ _ Ha) as Hm. split.
  - apply f_seg; auto. split; [lia|]. split.
    + intros j a0 Hj Ha0. subst m.
      assert (zt_time a0 < zt_time a) by (apply (HS j (S j)); auto; lia). lia.
    + intros a0 Ha0. assert (a0 = a) by congruence. subst. lia.
  - rewrite (f_seg po l (S m)); auto.
    + apply ob_S; auto.
    + split; [lia|]. split.
      * intros j a0 Hj Ha0. inversion Hj; subst j. assert (a0 = a) by congruence. subst. lia.
      * intros b Hb. apply (HS m (S m)); auto; lia.
Qed.

(* position of an instant relative to segment m *)
Lemma f_tri l m t : (m <= length l)%nat ->
  (exists j a, m = S j /\ nth_error l j = Some a /\ t < zt_time a) \/
  inseg l m t \/
  (exists a, nth_error l m = Some a /\ zt_time a <= t).
Proof.
  intros Hm.
  assert (Hlo : (exists j a, m = S j /\ nth_error l j = Some a /\ t < zt_time a) \/
                (forall j a, m = S j -> nth_error l j = Some a -> zt_time a <= t)).
  { destruct m as [|j].
    - right. intros; discriminate.
    - destruct (nth_lt_some l j) as [a Ha]; [lia|].
      destruct (Z.lt_ge_cases t (zt_time a)).
      + left. exists j, a. auto.
      + right. intros j0 a0 Hj Ha0. inversion Hj; subst j0. assert (a0 = a) by congruence. subst. auto. }
  destruct Hlo as [Hlo|Hlo]; [left; auto|right].
  destruct (nth_error l m) as [a|] eqn:Ea.
  - destruct (Z.lt_ge_cases t (zt_time a)).
    + left. split; auto. split; auto. intros a0 Ha0. assert (a0 = a) by congruence. subst. auto.
    + right. exists a. auto.
  - left. split; auto. split; auto. intros a0 Ha0. congruence.
Qed.

(* ================================================================== *)
(* MakeTime at list level and its case description                      *)

Definition zmakeL (po : Z) (l : list ztr) (L : Z) : zcl :=
  let n := length l in
  let k := upper_civil l L in
  match k with
  | O =>
      match l with
      | [] => zunique (L - po)
      | tr :: _ =>
          if L <=? pre_ po tr then zunique (L - po)
          else zskipped po tr L
      end
  | S j =>
      match nth_error l j with
      | None => zunique (L - po)
      | Some trp =>
          if Nat.eqb k n then
            if pre_ (ob po l j) trp <? L then zunique (zt_time trp + (L - at_ trp))
            else zrepeated (ob po l j) trp L
          else
            match nth_error l k with
            | None => zunique (L - po)
            | Some tr =>
                if pre_ (zt_off trp) tr <? L then zskipped (zt_off trp) tr L
                else if L <=? pre_ (ob po l j) trp then zrepeated (ob po l j) trp L
                else zunique (zt_time trp + (L - at_ trp))
            end
      end
  end.

Lemma zmake_zmakeL l po did L : zmake (mkZZ l po did) L = zmakeL po l L.
Proof. reflexivity. Qed.

Lemma zunique_eq a b : a = b -> zunique a = zunique b.
Proof. intros; subst; auto. Qed.

Definition caseU po l L m : Prop :=
  zmakeL po l L = zunique (L - ob po l m) /\ (m <= length l)%nat /\
  (forall j a, m = S j -> nth_error l j = Some a -> at_ a <= L /\ pre_ (ob po l j) a < L) /\
  (forall a, nth_error l m = Some a -> L < at_ a /\ L <= pre_ (ob po l m) a).
Definition caseS po l L m : Prop :=
  exists a, nth_error l m = Some a /\ zmakeL po l L = zskipped (ob po l m) a L /\
            pre_ (ob po l m) a < L < at_ a.
Definition caseR po l L m : Prop :=
  exists a, nth_error l m = Some a /\ zmakeL po l L = zrepeated (ob po l m) a L /\
            at_ a <= L <= pre_ (ob po l m) a /\
            (forall b, nth_error l (S m) = Some b -> L < at_ b /\ L <= pre_ (zt_off a) b).

Lemma zmake_cases po l L : l <> [] -> sortedK at_ l ->
  exists m, caseU po l L m \/ caseS po l L m \/ caseR po l L m.
Proof.
  intros Hne HA.
  pose proof (upper_civil_le l L) as Hk.
  assert (Hlt : forall a, nth_error l (upper_civil l L) = Some a -> L < at_ a).
  { intros a Ha. pose proof (upper_civil_char l L HA _ _ Ha) as H. lia. }
  assert (Hge : forall j a, (j < upper_civil l L)%nat -> nth_error l j = Some a -> at_ a <= L).
  { intros j a Hj Ha. apply (upper_civil_char l L HA _ _ Ha). auto. }
  unfold caseU, caseS, caseR, zmakeL.
  destruct (upper_civil l L) as [|j] eqn:Ek.
  - destruct l as [|tr r]; [congruence|].
    specialize (Hlt tr eq_refl).
    exists O. destruct (Z.leb_spec L (pre_ po tr)).
    + left. split; [reflexivity|]. split; [simpl; lia|]. split.
      * intros; discriminate.
      * intros a Ha. inversion Ha; subst. simpl. auto.
    + right; left. exists tr. split; [reflexivity|]. split; [reflexivity|]. simpl. lia.
  - destruct (nth_lt_some l j) as [trp Hp]; [lia|]. rewrite Hp.
    pose proof (Hge j trp (Nat.lt_succ_diag_r j) Hp) as Hpge.
    destruct (Nat.eqb_spec (S j) (length l)) as [En|En].
    + destruct (Z.ltb_spec (pre_ (ob po l j) trp) L).
      * exists (S j). left. split.
        { rewrite (ob_S po l j trp Hp). apply zunique_eq. unfold at_. lia. }
        split; [lia|]. split.
        -- intros j0 a Hj Ha. inversion Hj; subst j0. assert (a = trp) by congruence. subst. auto.
        -- intros a Ha. apply nth_some_lt in Ha. lia.
      * exists j. right; right. exists trp. split; auto. split; auto. split; [lia|].
        intros b Hb. apply nth_some_lt in Hb. lia.
    + destruct (nth_lt_some l (S j)) as [tr Htr]; [lia|]. rewrite Htr.
      pose proof (Hlt tr Htr) as Htlt.
      destruct (Z.ltb_spec (pre_ (zt_off trp) tr) L).
      * exists (S j). right; left. exists tr. rewrite (ob_S po l j trp Hp).
        repeat split; auto; lia.
      * destruct (Z.leb_spec L (pre_ (ob po l j) trp)).
        -- exists j. right; right. exists trp. split; auto. split; auto. split; [lia|].
           intros b Hb. assert (b = tr) by congruence. subst. auto.
        -- exists (S j). left. rewrite (ob_S po l j trp Hp). split.
           { apply zunique_eq. unfold at_. lia. }
           split; [lia|]. split.
           ++ intros j0 a Hj Ha. inversion Hj; subst j0. assert (a = trp) by congruence. subst. auto.
           ++ intros a Ha. assert (a = tr) by congruence. subst. auto.
Qed.

(* ================================================================== *)
(* semantic content of each case                                        *)

Lemma caseU_inseg po l L m : caseU po l L m -> inseg l m (L - ob po l m).
Proof.
  intros [_ [Hm [Hlo Hhi]]]. split; auto. split.
  - intros j a Hj Ha. destruct (Hlo j a Hj Ha) as [H1 _]. subst m.
    rewrite (ob_S po l j a Ha). unfold at_ in H1. lia.
  - intros a Ha. destruct (Hhi a Ha) as [_ H2]. unfold pre_ in H2. lia.
Qed.

Lemma specU po l L m : WF po l -> caseU po l L m ->
  let c := L - ob po l m in
  c + zoff_list l po c = L /\
  (forall t, t + zoff_list l po t = L -> t = c) /\
  (forall t, t < c -> t + zoff_list l po t < L).
Proof.
  intros [HT [HA [HG Hne]]] HU c.
  pose proof (caseU_inseg po l L m HU) as Hin.
  destruct HU as [_ [Hm [Hlo Hhi]]].
  assert (Hc : zoff_list l po c = ob po l m) by (apply f_seg; auto).
  split; [rewrite Hc; unfold c; lia|].
  split.
  - intros t Ht.
    destruct (f_tri l m t Hm) as [[j [a [Hj [Ha Hlt]]]]|[Hseg|[a [Ha Hge]]]].
    + pose proof (f_upper po l HT HG j a t Ha Hlt). destruct (Hlo j a Hj Ha). lia.
    + rewrite (f_seg po l m t HT Hseg) in Ht. unfold c. lia.
    + pose proof (f_lower po l HT HA m a t Ha Hge). destruct (Hhi a Ha). lia.
  - intros t Ht.
    destruct (f_tri l m t Hm) as [[j [a [Hj [Ha Hlt]]]]|[Hseg|[a [Ha Hge]]]].
    + pose proof (f_upper po l HT HG j a t Ha Hlt). destruct (Hlo j a Hj Ha). lia.
    + rewrite (f_seg po l m t HT Hseg). unfold c in Ht. lia.
    + destruct Hin as [_ [_ Hin3]]. specialize (Hin3 a Ha). unfold c in Ht. lia.
Qed.

Lemma specS po l L m a : WF po l -> nth_error l m = Some a ->
  pre_ (ob po l m) a < L < at_ a ->
  (forall t, t + zoff_list l po t <> L) /\
  zoff_list l po (zt_time a - 1) = ob po l m /\ zoff_list l po (zt_time a) = zt_off a /\
  (forall t, t < zt_time a -> t + zoff_list l po t < L).
Proof.
  intros [HT [HA [HG Hne]]] Ha HL.
  destruct (zoff_at_trans po l m a HT Ha) as [Z1 Z2].
  assert (Hbelow : forall t, t < zt_time a -> t + zoff_list l po t < L).
  { intros t Ht. pose proof (f_upper po l HT HG m a t Ha Ht). lia. }
  split; [|auto].
  intros t. destruct (Z.lt_ge_cases t (zt_time a)) as [Hlt|Hge].
  - specialize (Hbelow t Hlt). lia.
  - pose proof (f_lower po l HT HA m a t Ha Hge). lia.
Qed.

Lemma specR po l L m a : WF po l -> nth_error l m = Some a ->
  at_ a <= L <= pre_ (ob po l m) a ->
  (forall b, nth_error l (S m) = Some b -> L < at_ b /\ L <= pre_ (zt_off a) b) ->
  let c1 := L - ob po l m in let c2 := L - zt_off a in
  c1 + zoff_list l po c1 = L /\ c2 + zoff_list l po c2 = L /\
  (forall t, t + zoff_list l po t = L -> t = c1 \/ t = c2) /\
  zoff_list l po (zt_time a - 1) = ob po l m /\ zoff_list l po (zt_time a) = zt_off a /\
  (forall t, t < c1 -> t + zoff_list l po t < L).
Proof.
  intros [HT [HA [HG Hne]]] Ha HL Hb c1 c2.
  destruct (zoff_at_trans po l m a HT Ha) as [Z1 Z2].
  pose proof (nth_some_lt _ _ _ Ha) as Hm.
  assert (Hprev : forall j a0, m = S j -> nth_error l j = Some a0 ->
            ob po l m = zt_off a0 /\ at_ a0 <= L /\ pre_ (ob po l j) a0 < L).
  { intros j a0 Hj Ha0. subst m. rewrite (ob_S po l j a0 Ha0).
    pose proof (HG j a0 a Ha0 Ha). unfold at_, pre_ in *. lia. }
  assert (Hin1 : inseg l m c1).
  { split; [lia|]. split.
    - intros j a0 Hj Ha0. destruct (Hprev j a0 Hj Ha0) as [E [H1 _]].
      unfold c1. rewrite E. unfold at_ in H1. lia.
    - intros a0 Ha0. assert (a0 = a) by congruence. subst. unfold c1, pre_ in *. lia. }
  assert (Hin2 : inseg l (S m) c2).
  { split; [lia|]. split.
    - intros j a0 Hj Ha0. inversion Hj; subst j. assert (a0 = a) by congruence. subst.
      unfold c2, at_ in *. lia.
    - intros b Hb0. destruct (Hb b Hb0) as [_ H2]. unfold c2, pre_ in *. lia. }
  assert (E1 : zoff_list l po c1 = ob po l m) by (apply f_seg; auto).
  assert (E2 : zoff_list l po c2 = zt_off a).
  { rewrite (f_seg po l (S m) c2 HT Hin2). apply ob_S; auto. }
  split; [rewrite E1; unfold c1; lia|].
  split; [rewrite E2; unfold c2; lia|].
  split; [|split; [auto|split; [auto|]]].
  - intros t Ht.
    destruct (f_tri l m t) as [[j [a0 [Hj [Ha0 Hlt]]]]|[Hseg|[a0 [Ha0 Hge]]]]; [lia| | |].
    + pose proof (f_upper po l HT HG j a0 t Ha0 Hlt). destruct (Hprev j a0 Hj Ha0) as [_ [_ H3]]. lia.
    + left. rewrite (f_seg po l m t HT Hseg) in Ht. unfold c1. lia.
    + assert (a0 = a) by congruence. subst a0.
      destruct (f_tri l (S m) t) as [[j [a0 [Hj [Ha0' Hlt]]]]|[Hseg|[b [Hb0 Hgeb]]]]; [lia| | |].
      * inversion Hj; subst j. assert (a0 = a) by congruence. subst. lia.
      * right. rewrite (f_seg po l (S m) t HT Hseg), (ob_S po l m a Ha) in Ht. unfold c2. lia.
      * pose proof (f_lower po l HT HA (S m) b t Hb0 Hgeb). destruct (Hb b Hb0). lia.
  - intros t Ht.
    destruct (f_tri l m t) as [[j [a0 [Hj [Ha0 Hlt]]]]|[Hseg|[a0 [Ha0 Hge]]]]; [lia| | |].
    + pose proof (f_upper po l HT HG j a0 t Ha0 Hlt). destruct (Hprev j a0 Hj Ha0) as [_ [_ H3]]. lia.
    + rewrite (f_seg po l m t HT Hseg). unfold c1 in Ht. lia.
    + assert (a0 = a) by congruence. subst a0. unfold c1, pre_ in *. lia.
Qed.

(* ================================================================== *)
(* C02                                                                  *)

Lemma zmake_spec_lemma : forall z L, wfz z = true ->
  let c := zmake z L in
  match zk c with
  | ZU => zpre c = ztrans c /\ ztrans c = zpost c /\ displays z (zpre c) L /\
          (forall t, displays z t L -> t = zpre c)
  | ZS => (forall t, ~ displays z t L) /\
          zoff z (ztrans c - 1) <> zoff z (ztrans c) /\
          zpre c = L - zoff z (ztrans c - 1) /\ zpost c = L - zoff z (ztrans c) /\
          zpre c >= ztrans c /\ ztrans c > zpost c
  | ZR => displays z (zpre c) L /\ displays z (zpost c) L /\ zpre c <> zpost c /\
          (forall t, displays z t L -> t = zpre c \/ t = zpost c) /\
          zoff z (ztrans c - 1) <> zoff z (ztrans c) /\
          zpre c = L - zoff z (ztrans c - 1) /\ zpost c = L - zoff z (ztrans c) /\
          zpre c < ztrans c /\ ztrans c <= zpost c
  end.
Proof.
  intros [l po did] L Hwf. apply wfz_WF in Hwf.
  cbv zeta. rewrite zmake_zmakeL. unfold displays, zoff. cbn [zz_tr zz_doff].
  assert (Hne : l <> []) by (destruct Hwf as [_ [_ [_ H]]]; exact H).
  assert (HA : sortedK at_ l) by (destruct Hwf as [_ [H _]]; exact H).
  destruct (zmake_cases po l L Hne HA) as [m [HU|[HS|HR]]].
  - destruct (specU po l L m Hwf HU) as [S1 [S2 S3]]. destruct HU as [E _]. rewrite E.
    unfold zunique. cbn [zk zpre ztrans zpost].
    split; [reflexivity|]. split; [reflexivity|]. split; [exact S1|exact S2].
  - destruct HS as [a [Ha [E HL]]]. rewrite E.
    destruct (specS po l L m a Hwf Ha HL) as [S1 [S2 [S3 S4]]].
    unfold zskipped. cbn [zk zpre ztrans zpost]. rewrite S2, S3.
    unfold pre_, at_ in *.
    split; [exact S1|]. repeat split; lia.
  - destruct HR as [a [Ha [E [HL Hb]]]]. rewrite E.
    destruct (specR po l L m a Hwf Ha HL Hb) as [S1 [S2 [S3 [S4 [S5 S6]]]]].
    unfold zrepeated. cbn [zk zpre ztrans zpost]. rewrite S4, S5.
    assert (E1 : zt_time a - 1 - (pre_ (ob po l m) a - L) = L - ob po l m) by (unfold pre_; lia).
    assert (E2 : zt_time a + (L - at_ a) = L - zt_off a) by (unfold at_; lia).
    rewrite E1, E2.
    split; [exact S1|]. split; [exact S2|].
    unfold pre_, at_ in *.
    split; [lia|]. split; [exact S3|]. repeat split; lia.
Qed.

Lemma zmake_kind_iff_lemma : forall z L, wfz z = true ->
  (zk (zmake z L) = ZS <-> forall t, ~ displays z t L) /\
  (zk (zmake z L) = ZU <-> exists t, displays z t L /\ forall t', displays z t' L -> t' = t) /\
  (zk (zmake z L) = ZR <-> exists t1 t2, t1 <> t2 /\ displays z t1 L /\ displays z t2 L).
Proof.
  intros z L Hwf. pose proof (zmake_spec_lemma z L Hwf) as S. cbv zeta in S.
  destruct (zk (zmake z L)).
  - destruct S as [_ [_ [S1 S2]]].
    split; [|split].
    + split; [discriminate|]. intros H. exfalso. exact (H _ S1).
    + split; [|reflexivity]. intros _. exists (zpre (zmake z L)). auto.
    + split; [discriminate|]. intros [t1 [t2 [Hne [H1 H2]]]].
      apply S2 in H1. apply S2 in H2. congruence.
  - destruct S as [S1 _].
    split; [|split].
    + split; auto.
    + split; [discriminate|]. intros [t [H _]]. exfalso. exact (S1 _ H).
    + split; [discriminate|]. intros [t1 [t2 [_ [H _]]]]. exfalso. exact (S1 _ H).
  - destruct S as [S1 [S2 [S3 _]]].
    split; [|split].
    + split; [discriminate|]. intros H. exfalso. exact (H _ S1).
    + split; [discriminate|]. intros [t [_ H]].
      pose proof (H _ S1). pose proof (H _ S2). congruence.
    + split; [|reflexivity]. intros _. exists (zpre (zmake z L)), (zpost (zmake z L)). auto.
Qed.

(* ================================================================== *)
(* C03 corollaries                                                      *)

Lemma zroundtrip_lemma : forall z t, wfz z = true ->
  let c := zmake z (t + zoff z t) in
  (zk c = ZU /\ zpre c = t) \/ (zk c = ZR /\ (zpre c = t \/ zpost c = t)).
Proof.
  intros z t Hwf. cbv zeta.
  pose proof (zmake_spec_lemma z (t + zoff z t) Hwf) as S. cbv zeta in S.
  assert (D : displays z t (t + zoff z t)) by reflexivity.
  destruct (zk (zmake z (t + zoff z t))).
  - left. split; auto. destruct S as [_ [_ [_ S2]]]. symmetry. auto.
  - destruct S as [S1 _]. exfalso. exact (S1 _ D).
  - right. split; auto. destruct S as [_ [_ [_ [S4 _]]]]. destruct (S4 _ D); auto.
Qed.

Lemma zdisplays_back_lemma : forall z L, wfz z = true ->
  let c := zmake z L in
  zk c <> ZS -> displays z (zpre c) L /\ displays z (zpost c) L.
Proof.
  intros z L Hwf. cbv zeta.
  pose proof (zmake_spec_lemma z L Hwf) as S. cbv zeta in S.
  destruct (zk (zmake z L)); intros Hk.
  - destruct S as [S1 [S2 [S3 _]]]. split; auto. rewrite <- S2, <- S1. auto.
  - congruence.
  - destruct S as [S1 [S2 _]]. auto.
Qed.

(* ================================================================== *)
(* C06                                                                  *)

Lemma zconvert_char z L : wfz z = true ->
  zconvert z L + zoff z (zconvert z L) >= L /\
  (forall t, t < zconvert z L -> t + zoff z t < L).
Proof.
  destruct z as [l po did]. intros Hwf. apply wfz_WF in Hwf.
  unfold zconvert. cbv zeta. rewrite zmake_zmakeL. unfold zoff. cbn [zz_tr zz_doff].
  assert (Hne : l <> []) by (destruct Hwf as [_ [_ [_ H]]]; exact H).
  assert (HA : sortedK at_ l) by (destruct Hwf as [_ [H _]]; exact H).
  destruct (zmake_cases po l L Hne HA) as [m [HU|[HS|HR]]].
  - destruct (specU po l L m Hwf HU) as [S1 [S2 S3]]. destruct HU as [E _]. rewrite E.
    unfold zunique. cbn [zk zpre ztrans zpost]. split; [lia|exact S3].
  - destruct HS as [a [Ha [E HL]]]. rewrite E.
    destruct (specS po l L m a Hwf Ha HL) as [S1 [S2 [S3 S4]]].
    unfold zskipped. cbn [zk zpre ztrans zpost]. rewrite S3.
    split; [unfold at_ in HL; lia|exact S4].
  - destruct HR as [a [Ha [E [HL Hb]]]]. rewrite E.
    destruct (specR po l L m a Hwf Ha HL Hb) as [S1 [S2 [S3 [S4 [S5 S6]]]]].
    unfold zrepeated. cbn [zk zpre ztrans zpost].
    assert (E1 : zt_time a - 1 - (pre_ (ob po l m) a - L) = L - ob po l m) by (unfold pre_; lia).
    rewrite E1. split; [lia|exact S6].
Qed.

Lemma zconvert_mono_lemma : forall z L1 L2, wfz z = true -> L1 < L2 -> zconvert z L1 <= zconvert z L2.
Proof.
  intros z L1 L2 Hwf HL.
  destruct (zconvert_char z L1 Hwf) as [_ B1].
  destruct (zconvert_char z L2 Hwf) as [A2 _].
  destruct (Z.le_gt_cases (zconvert z L1) (zconvert z L2)) as [H|H]; auto.
  specialize (B1 (zconvert z L2)). lia.
Qed.

Lemma zconvert_clamped_mono_lemma : forall z L1 L2 lo hi, wfz z = true -> lo <= hi -> L1 < L2 ->
  Z.max lo (Z.min hi (zconvert z L1)) <= Z.max lo (Z.min hi (zconvert z L2)).
Proof.
  intros z L1 L2 lo hi Hwf Hlh HL.
  pose proof (zconvert_mono_lemma z L1 L2 Hwf HL). lia.
Qed.

(* ================================================================== *)
(* C11: next / prev                                                     *)

Lemma ti_tail x r : times_increasing (x :: r) = true -> times_increasing r = true.
Proof. destruct r as [|y r']; auto. rewrite ti_cons2, andb_true_iff. tauto. Qed.

Lemma ti_head_lt x r : times_increasing (x :: r) = true ->
  forall y, In y r -> zt_time x < zt_time y.
Proof.
  intros H y Hy. apply In_nth_error in Hy. destruct Hy as [n Hn].
  apply (ti_sorted _ H O (S n)); simpl; auto. lia.
Qed.

Lemma upper_idx_0 r t : (forall y, In y r -> t < zt_time y) -> upper_idx r t = O.
Proof.
  destruct r as [|y r']; simpl; auto. intros H.
  specialize (H y (or_introl eq_refl)). destruct (Z.ltb_spec t (zt_time y)); auto. lia.
Qed.

Lemma zid_list_before r c t : (forall y, In y r -> t < zt_time y) -> zid_list r c t = c.
Proof.
  destruct r as [|y r']; simpl; auto. intros H.
  specialize (H y (or_introl eq_refl)). destruct (Z.leb_spec (zt_time y) t); auto. lia.
Qed.

Section NP.
Variable eqv : Z -> Z -> bool.

Lemma zchanges_In l : forall did y, In y (zchanges eqv l did) -> In y l.
Proof.
  induction l as [|x r IH]; intros did y H; simpl in *; auto.
  destruct (eqv did (zt_id x)).
  - right. eapply IH; eauto.
  - destruct H as [H|H]; auto. right. eapply IH; eauto.
Qed.

Lemma znext_scan_shift x l did : forall fuel k,
  znext_scan eqv (x :: l) did (S k) fuel = znext_scan eqv l (zt_id x) k fuel.
Proof.
  induction fuel as [|f IH]; intros k; cbn [znext_scan]; auto.
  cbn [nth_error].
  destruct (nth_error l k) as [tr|] eqn:Ek; auto.
  assert (Hp : match nth_error (x :: l) k with Some p => zt_id p | None => did end =
               match k with O => zt_id x | S j => match nth_error l j with Some p => zt_id p | None => zt_id x end end).
  { destruct k as [|j]; cbn [nth_error]; auto.
    destruct (nth_lt_some l j) as [p Hp]. { apply nth_some_lt in Ek. lia. }
    rewrite Hp. reflexivity. }
  rewrite Hp. rewrite IH. reflexivity.
Qed.

Lemma znext_scan_spec l : forall did t fuel, times_increasing l = true -> (length l < fuel)%nat ->
  znext_scan eqv l did (upper_idx l t) fuel =
  match filter (fun tr => t <? zt_time tr) (zchanges eqv l did) with x :: _ => Some x | [] => None end.
Proof.
  induction l as [|x r IH]; intros did t fuel HT Hf.
  - destruct fuel; reflexivity.
  - destruct fuel as [|f]; [simpl in Hf; lia|].
    cbn [upper_idx zchanges].
    destruct (Z.ltb_spec t (zt_time x)) as [Hlt|Hge].
    + cbn [znext_scan nth_error].
      destruct (eqv did (zt_id x)) eqn:Ee.
      * rewrite znext_scan_shift.
        rewrite <- (IH (zt_id x) t f (ti_tail _ _ HT)); [|simpl in Hf; lia].
        rewrite upper_idx_0; auto.
        intros y Hy. pose proof (ti_head_lt x r HT y Hy). lia.
      * cbn [filter]. destruct (Z.ltb_spec t (zt_time x)); [reflexivity|lia].
    + rewrite znext_scan_shift.
      rewrite (IH (zt_id x) t (S f) (ti_tail _ _ HT)); [|simpl in Hf; lia].
      destruct (eqv did (zt_id x)); auto.
      cbn [filter]. destruct (Z.ltb_spec t (zt_time x)); [lia|reflexivity].
Qed.

Lemma znext_spec_lemma : forall z t, times_increasing (zz_tr z) = true ->
  znext eqv z t =
  match filter (fun tr => t <? zt_time tr) (zchanges eqv (zz_tr z) (zz_did z)) with
  | x :: _ => Some x | [] => None end.
Proof. intros z t H. unfold znext. apply znext_scan_spec; auto. Qed.

Lemma znext_chain_lemma : forall z t, times_increasing (zz_tr z) = true ->
  (znext eqv z t = None <->
   match filter (fun tr => t <? zt_time tr) (zchanges eqv (zz_tr z) (zz_did z)) with
   | x :: _ => Some x | [] => None end = None) /\
  (forall tr, znext eqv z t = Some tr -> t < zt_time tr /\ In tr (zchanges eqv (zz_tr z) (zz_did z))).
Proof.
  intros z t H. rewrite (znext_spec_lemma z t H). split; [tauto|].
  intros tr Htr.
  destruct (filter (fun tr => t <? zt_time tr) (zchanges eqv (zz_tr z) (zz_did z))) as [|y ys] eqn:E;
    [discriminate|].
  inversion Htr; subst y.
  assert (Hin : In tr (filter (fun tr => t <? zt_time tr) (zchanges eqv (zz_tr z) (zz_did z))))
    by (rewrite E; left; reflexivity).
  apply filter_In in Hin. destruct Hin as [H1 H2]. apply Z.ltb_lt in H2. auto.
Qed.

(* ---- prev ---- *)
Lemma lower_idx_le l t : (lower_idx l t <= length l)%nat.
Proof. induction l as [|x r IH]; simpl; [lia|]. destruct (zt_time x <? t); simpl; lia. Qed.

Lemma zprev_scan_shift x l did : forall k, (k <= length l)%nat ->
  zprev_scan eqv (x :: l) did (S k) =
  match zprev_scan eqv l (zt_id x) k with
  | Some y => Some y
  | None => if eqv did (zt_id x) then None else Some x
  end.
Proof.
  induction k as [|j IH]; intros Hk.
  - cbn [zprev_scan nth_error]. destruct (eqv did (zt_id x)); reflexivity.
  - change (zprev_scan eqv (x :: l) did (S (S j))) with
      (match nth_error (x :: l) (S j) with
       | None => None
       | Some cur =>
         let prev_id := match nth_error (x :: l) j with Some p => zt_id p | None => did end in
         if eqv prev_id (zt_id cur) then zprev_scan eqv (x :: l) did (S j) else Some cur
       end).
    cbn [nth_error]. cbn [zprev_scan].
    destruct (nth_lt_some l j) as [cur Hc]; [lia|]. rewrite Hc. cbv zeta.
    assert (Hp : match nth_error (x :: l) j with Some p => zt_id p | None => did end =
                 match j with O => zt_id x | S i => match nth_error l i with Some p => zt_id p | None => zt_id x end end).
    { destruct j as [|i]; cbn [nth_error]; auto.
      destruct (nth_lt_some l i) as [p Hp]; [lia|]. rewrite Hp. reflexivity. }
    rewrite Hp.
    destruct (eqv _ (zt_id cur)); auto.
    apply IH. lia.
Qed.

Lemma last_filter_cons (p : ztr -> bool) a l :
  match rev (filter p (a :: l)) with x :: _ => Some x | [] => None end =
  match match rev (filter p l) with x :: _ => Some x | [] => None end with
  | Some y => Some y
  | None => if p a then Some a else None
  end.
Proof.
  cbn [filter]. destruct (p a).
  - cbn [rev]. destruct (rev (filter p l)); reflexivity.
  - destruct (rev (filter p l)); reflexivity.
Qed.

Lemma filter_none {A} (p : A -> bool) l : (forall y, In y l -> p y = false) -> filter p l = [].
Proof.
  induction l as [|x r IH]; intros H; simpl; auto.
  rewrite (H x (or_introl eq_refl)). apply IH. intros y Hy. apply H. right; auto.
Qed.

Lemma zprev_scan_spec l : forall did t, times_increasing l = true ->
  zprev_scan eqv l did (lower_idx l t) =
  match rev (filter (fun tr => zt_time tr <? t) (zchanges eqv l did)) with x :: _ => Some x | [] => None end.
Proof.
  induction l as [|x r IH]; intros did t HT.
  - reflexivity.
  - cbn [lower_idx].
    destruct (Z.ltb_spec (zt_time x) t) as [Hlt|Hge].
    + rewrite zprev_scan_shift by apply lower_idx_le.
      rewrite (IH (zt_id x) t (ti_tail _ _ HT)).
      cbn [zchanges]. destruct (eqv did (zt_id x)).
      * destruct (rev _); reflexivity.
      * rewrite last_filter_cons.
        destruct (Z.ltb_spec (zt_time x) t); [reflexivity|lia].
    + cbn [zprev_scan]. rewrite filter_none; [reflexivity|].
      intros y Hy. apply zchanges_In in Hy.
      assert (zt_time x <= zt_time y).
      { destruct Hy as [Hy|Hy]; [subst; lia|]. pose proof (ti_head_lt x r HT y Hy). lia. }
      apply Z.ltb_ge. lia.
Qed.

Lemma zprev_spec_lemma : forall z t, times_increasing (zz_tr z) = true ->
  zprev eqv z t =
  match rev (filter (fun tr => zt_time tr <? t) (zchanges eqv (zz_tr z) (zz_did z))) with
  | x :: _ => Some x | [] => None end.
Proof. intros z t H. unfold zprev. apply zprev_scan_spec; auto. Qed.

(* ---- lookup vs changes ---- *)
Lemma zid_const_list l : forall did t1 t2,
  (forall a, eqv a a = true) -> (forall a b c, eqv a b = true -> eqv b c = true -> eqv a c = true) ->
  times_increasing l = true -> t1 <= t2 ->
  (forall tr, In tr (zchanges eqv l did) -> ~ (t1 < zt_time tr <= t2)) ->
  eqv (zid_list l did t1) (zid_list l did t2) = true.
Proof.
  intros did t1 t2 Hr Htr. revert did.
  induction l as [|x r IH]; intros did HT Ht Hno; cbn [zid_list]; auto.
  assert (Hno' : forall tr, In tr (zchanges eqv r (zt_id x)) -> ~ (t1 < zt_time tr <= t2)).
  { intros tr Hin. apply Hno. cbn [zchanges]. destruct (eqv did (zt_id x)); [auto|right; auto]. }
  pose proof (IH (zt_id x) (ti_tail _ _ HT) Ht Hno') as IHx.
  destruct (Z.leb_spec (zt_time x) t1) as [H1|H1].
  - destruct (Z.leb_spec (zt_time x) t2); [|lia]. exact IHx.
  - destruct (Z.leb_spec (zt_time x) t2) as [H2|H2]; [|apply Hr].
    destruct (eqv did (zt_id x)) eqn:Ee.
    + rewrite (zid_list_before r (zt_id x) t1) in IHx.
      * eapply Htr; eauto.
      * intros y Hy. pose proof (ti_head_lt x r HT y Hy). lia.
    + exfalso. apply (Hno x); [|lia]. cbn [zchanges]. rewrite Ee. left; reflexivity.
Qed.

Lemma zlookup_const_between_lemma : forall z t1 t2,
  (forall a, eqv a a = true) -> (forall a b c, eqv a b = true -> eqv b c = true -> eqv a c = true) ->
  times_increasing (zz_tr z) = true -> t1 <= t2 ->
  (forall tr, In tr (zchanges eqv (zz_tr z) (zz_did z)) -> ~ (t1 < zt_time tr <= t2)) ->
  eqv (zid z t1) (zid z t2) = true.
Proof. intros z t1 t2 Hr Htr HT Ht Hno. unfold zid. apply zid_const_list; auto. Qed.

Lemma zid_differs_list l : forall did tr, times_increasing l = true ->
  In tr (zchanges eqv l did) ->
  eqv (zid_list l did (zt_time tr - 1)) (zid_list l did (zt_time tr)) = false.
Proof.
  induction l as [|x r IH]; intros did tr HT Hin; cbn [zchanges] in Hin; [destruct Hin|].
  cbn [zid_list].
  assert (Hrec : In tr (zchanges eqv r (zt_id x)) ->
    eqv (if zt_time x <=? zt_time tr - 1 then zid_list r (zt_id x) (zt_time tr - 1) else did)
        (if zt_time x <=? zt_time tr then zid_list r (zt_id x) (zt_time tr) else did) = false).
  { intros Hin'. pose proof (zchanges_In _ _ _ Hin') as Hr.
    pose proof (ti_head_lt x r HT tr Hr).
    destruct (Z.leb_spec (zt_time x) (zt_time tr - 1)); [|lia].
    destruct (Z.leb_spec (zt_time x) (zt_time tr)); [|lia].
    apply IH; auto. apply (ti_tail _ _ HT). }
  destruct (eqv did (zt_id x)) eqn:Ee; auto.
  destruct Hin as [Hx|Hin']; auto. subst tr.
  destruct (Z.leb_spec (zt_time x) (zt_time x - 1)); [lia|].
  destruct (Z.leb_spec (zt_time x) (zt_time x)); [|lia].
  rewrite zid_list_before; auto.
  intros y Hy. apply (ti_head_lt x r HT y Hy).
Qed.

Lemma zlookup_differs_across_lemma : forall z tr,
  times_increasing (zz_tr z) = true ->
  In tr (zchanges eqv (zz_tr z) (zz_did z)) ->
  eqv (zid z (zt_time tr - 1)) (zid z (zt_time tr)) = false.
Proof. intros z tr HT Hin. unfold zid. apply zid_differs_list; auto. Qed.

End NP.

(* Status: all twelve lemmas requested for C02/C03/C06/C11 are proved above
   (zbreak_spec_lemma, zmake_spec_lemma, zmake_kind_iff_lemma, zroundtrip_lemma,
   zdisplays_back_lemma, zconvert_mono_lemma, zconvert_clamped_mono_lemma,
   znext_spec_lemma, zprev_spec_lemma, zlookup_const_between_lemma,
   zlookup_differs_across_lemma, znext_chain_lemma); nothing is left unproved. *)
