(* Source64Proofs.v - the checked 64-bit reading of the CURRENT source (Source64.v,
   regenerated from clang's AST on every run) refines the hand-written checked model
   (CivilImpl.v): whenever the hand-written model returns OK r, the source-derived
   function returns OK r.  Hence every theorem "f64 args = OK spec" transfers to the
   source-derived function.  The only hypotheses are the C++ parameter types. *)
From CCTZ Require Import Base SrcConstants Cal CivilImpl Source64.
Require Import Lia ZifyBool.
Local Open Scope Z_scope.
Ltac Zify.zify_post_hook ::= Z.to_euclidean_division_equations.

Definition s64_fuel : nat := 64.

(* representation invariant of the C++ struct `fields` (year int64, the other members int_fast8_t) *)
Definition fields_repr (f : fields) : Prop :=
  int64 (fy f) /\ -128 <= fm f <= 127 /\ -128 <= fd f <= 127 /\ -128 <= fhh f <= 127 /\
  -128 <= fmm f <= 127 /\ -128 <= fss f <= 127.

(* ------------------------------------------------------------------ *)
(* Small helpers                                                        *)

Lemma narrow8_in z : -128 <= z <= 127 -> narrow8 z = OK z.
Proof. intros H. apply narrow8_ok. auto. Qed.

Lemma tbl_get_ok l i j k :
  i = j -> (if j <? 0 then None else nth_error l (Z.to_nat j)) = Some k -> tbl_get l i = OK k.
Proof.
  intros -> H. destruct (j <? 0) eqn:E; [discriminate|].
  assert (Hn : (Z.to_nat j < length l)%nat) by (apply nth_error_Some; congruence).
  unfold tbl_get.
  assert (Hb : ((0 <=? j) && (j <? Z.of_nat (length l))) = true) by lia.
  rewrite Hb. f_equal. apply nth_error_nth. assumption.
Qed.

Lemma tbl_in (l : list Z) j k : (if j <? 0 then None else nth_error l (Z.to_nat j)) = Some k -> In k l.
Proof. destruct (j <? 0); [discriminate|]. apply nth_error_In. Qed.

Lemma in_range l lo hi k :
  forallb (fun x => (lo <=? x) && (x <=? hi)) l = true -> In k l -> lo <= k <= hi.
Proof. intros H Hin. rewrite forallb_forall in H. specialize (H _ Hin). lia. Qed.

Lemma b2z_range b : 0 <= CivilImpl.b2z b <= 1.
Proof. destruct b; simpl; lia. Qed.

(* ------------------------------------------------------------------ *)
(* Tactics                                                              *)

(* both files define b2z; make the spelling uniform *)
Ltac nb := change Source64.b2z with CivilImpl.b2z in *.

(* forward inversion of "hand = OK r": every bound variable becomes the exact value,
   every check becomes a range fact, every test a boolean equation *)
Ltac inv1 :=
  match goal with
  | H : bind _ _ = OK _ |- _ =>
      apply bind_ok in H;
      let a := fresh "v" in let Ha := fresh "Hv" in destruct H as [a [Ha H]]; cbv beta in H
  | H : add64 _ _ = OK _ |- _ => unfold add64 in H
  | H : sub64 _ _ = OK _ |- _ => unfold sub64 in H
  | H : mul64 _ _ = OK _ |- _ => unfold mul64 in H
  | H : neg64 _ = OK _ |- _ => unfold neg64 in H
  | H : chk64 _ = OK _ |- _ => apply chk64_ok in H; destruct H as [? ?]; subst
  | H : narrow8 _ = OK _ |- _ => apply narrow8_ok in H; destruct H as [? ?]; subst
  | H : OK _ = OK _ |- _ => inversion H; clear H; subst
  | H : Err _ = OK _ |- _ => discriminate H
  | H : (if ?b then _ else _) = OK _ |- _ => destruct b eqn:?
  | H : match ?v with pair _ _ => _ end = OK _ |- _ => destruct v
  end.
Ltac inv := repeat inv1.

Ltac b2z_facts :=
  repeat match goal with
  | |- context [CivilImpl.b2z ?b] =>
      lazymatch goal with
      | _ : 0 <= CivilImpl.b2z b <= 1 |- _ => fail
      | _ => pose proof (b2z_range b)
      end
  end.
Ltac rng :=
  first [ assumption
        | b2z_facts; unfold int64, int32, min64, max64, min32, max32 in *; lia ].

Ltac head_of t :=
  match t with
  | bind ?r _ => head_of r
  | _ => t
  end.

(* calls of source-derived functions already tied: extended below as lemmas become available *)
Ltac go_call h := fail.

(* one step of symbolic execution of the source-derived side *)
Ltac go1 :=
  match goal with
  | |- ?lhs = _ =>
      let h := head_of lhs in
      match h with
      | OK _ => first [ reflexivity | progress cbn [bind] ]
      | chk64 ?z => rewrite (chk64_in z) by rng; cbn [bind]
      | chk32 ?z => rewrite (chk32_in z) by rng; cbn [bind]
      | narrow8 ?z => rewrite (narrow8_in z) by rng; cbn [bind]
      | add64 _ _ => unfold add64
      | sub64 _ _ => unfold sub64
      | mul64 _ _ => unfold mul64
      | neg64 _ => unfold neg64
      | add32 _ _ => unfold add32
      | sub32 _ _ => unfold sub32
      | mul32 _ _ => unfold mul32
      | narrow32 _ => unfold narrow32
      | s64_is_leap_year ?y => change (s64_is_leap_year y) with (OK (is_leap_year64 y)); cbn [bind]
      | (if ?b then _ else _) =>
          first [ match goal with
                  | E : b = true |- _ => rewrite E
                  | E : b = false |- _ => rewrite E
                  end; cbn [bind]
                | let E := fresh "E" in destruct b eqn:E; rewrite ?E in *; cbn [bind] ]
      | match ?v with pair _ _ => _ end => destruct v; cbn [bind]
      | _ => go_call h
      end
  end.
Ltac go := repeat go1.

(* ------------------------------------------------------------------ *)
(* Leaf functions                                                       *)

Lemma s64_is_leap_year_tie y : s64_is_leap_year y = OK (is_leap_year64 y).
Proof. reflexivity. Qed.

Lemma year_index64_range y m r : year_index64 y m = OK r -> 0 <= r < 400.
Proof.
  unfold year_index64. intros H. inv.
  match goal with |- context [Z.rem ?t 400] => set (q := Z.rem t 400); assert (-400 < q < 400) by (subst q; lia); clearbody q end.
  destruct (q <? 0) eqn:E; lia.
Qed.

Lemma s64_year_index_tie y m r : year_index64 y m = OK r -> s64_year_index y m = OK r.
Proof.
  unfold year_index64, s64_year_index. intros H. nb. inv. go.
Qed.

Lemma s64_days_per_century_tie yi : 0 <= yi < 400 -> s64_days_per_century yi = OK (days_per_century64 yi).
Proof.
  intros _. unfold s64_days_per_century, days_per_century64, src_days_per_century_base. nb.
  destruct ((yi =? 0) || (300 <? yi)); reflexivity.
Qed.

Lemma s64_days_per_4years_tie yi : 0 <= yi < 400 -> s64_days_per_4years yi = OK (days_per_4years64 yi).
Proof.
  intros Hy. unfold s64_days_per_4years, days_per_4years64, src_days_per_4years_base. nb.
  destruct ((yi =? 0) || (300 <? yi)) eqn:E; cbn [orb bind].
  - reflexivity.
  - go.
Qed.

Lemma days_per_century64_range yi : 36524 <= days_per_century64 yi <= 36525.
Proof. unfold days_per_century64, src_days_per_century_base. pose proof (b2z_range ((yi =? 0) || (300 <? yi))). lia. Qed.

Lemma days_per_4years64_range yi : 1460 <= days_per_4years64 yi <= 1461.
Proof.
  unfold days_per_4years64, src_days_per_4years_base.
  pose proof (b2z_range ((yi =? 0) || (300 <? yi) || (Z.rem (yi - 1) 100 <? 96))). lia.
Qed.

Lemma s64_days_per_year_tie y m r : days_per_year64 y m = OK r -> s64_days_per_year y m = OK r.
Proof.
  unfold days_per_year64, s64_days_per_year. intros H. nb. inv. go.
Qed.

Lemma s64_days_per_month_tie y m r : days_per_month64 y m = OK r -> s64_days_per_month y m = OK r.
Proof.
  unfold days_per_month64, s64_days_per_month, src_k_days_per_month. intros H. nb. cbv zeta.
  match type of H with match ?o with _ => _ end = _ => destruct o as [k|] eqn:Ek end; [|discriminate].
  inv.
  rewrite (tbl_get_ok _ m m k eq_refl Ek). cbn [bind].
  assert (Hk : -1 <= k <= 31) by (apply tbl_in in Ek; revert Ek; apply in_range; vm_compute; reflexivity).
  destruct (m =? 2); cbn [andb]; go.
Qed.

(* ------------------------------------------------------------------ *)
(* The four loops of n_day: same iterations, the source-derived ones on a shared fuel *)

Lemma loop1_tie f : forall d ey yi r, 0 <= yi < 400 -> century_loop f d ey yi = OK r ->
  (forall F, (f <= F)%nat -> s64_n_day_loop1 F d ey yi = OK r) /\ 0 <= snd r < 400.
Proof.
  induction f as [|f IH]; intros d ey yi r Hy H; [discriminate|].
  cbn [century_loop] in H. cbv zeta in H. inv.
  - split; [|simpl; lia]. intros F HF. destruct F as [|F]; [lia|]. cbn [s64_n_day_loop1].
    rewrite s64_days_per_century_tie by assumption. cbn [bind]. go.
  - apply IH in H; [|destruct (400 <=? yi + 100) eqn:?; lia]. destruct H as [HA HB]. split; [|assumption].
    intros F HF. destruct F as [|F]; [lia|]. cbn [s64_n_day_loop1].
    rewrite s64_days_per_century_tie by assumption. cbn [bind]. go; apply HA; lia.
Qed.

Lemma loop2_tie f : forall d ey yi r, 0 <= yi < 400 -> years4_loop f d ey yi = OK r ->
  (forall F, (f <= F)%nat -> s64_n_day_loop2 F d ey yi = OK r) /\ 0 <= snd r < 400.
Proof.
  induction f as [|f IH]; intros d ey yi r Hy H; [discriminate|].
  cbn [years4_loop] in H. cbv zeta in H. inv.
  - split; [|simpl; lia]. intros F HF. destruct F as [|F]; [lia|]. cbn [s64_n_day_loop2].
    rewrite s64_days_per_4years_tie by assumption. cbn [bind]. go.
  - apply IH in H; [|destruct (400 <=? yi + 4) eqn:?; lia]. destruct H as [HA HB]. split; [|assumption].
    intros F HF. destruct F as [|F]; [lia|]. cbn [s64_n_day_loop2].
    rewrite s64_days_per_4years_tie by assumption. cbn [bind]. go; apply HA; lia.
Qed.

Lemma loop3_tie f : forall d ey m r, year_loop f d ey m = OK r ->
  forall F, (f <= F)%nat -> s64_n_day_loop3 F m d ey = OK r.
Proof.
  induction f as [|f IH]; intros d ey m r H F HF; [discriminate|].
  destruct F as [|F]; [lia|].
  cbn [year_loop] in H. cbn [s64_n_day_loop3].
  apply bind_ok in H. destruct H as [n [Hn H]].
  rewrite (s64_days_per_year_tie _ _ _ Hn). cbn [bind]. inv.
  - go.
  - go. apply IH; [assumption|lia].
Qed.

Lemma loop4_tie f : forall d ey m r, month_loop f d ey m = OK r ->
  forall F, (f <= F)%nat ->
  s64_n_day_loop4 F m d ey = OK (snd r, fst (fst r), snd (fst r)).
Proof.
  induction f as [|f IH]; intros d ey m r H F HF; [discriminate|].
  destruct F as [|F]; [lia|].
  cbn [month_loop] in H. cbn [s64_n_day_loop4].
  apply bind_ok in H. destruct H as [n [Hn H]].
  rewrite (s64_days_per_month_tie _ _ _ Hn). cbn [bind]. inv.
  - go.
  - go. apply IH; [assumption|lia].
  - go. apply IH; [assumption|lia].
Qed.

(* ------------------------------------------------------------------ *)
(* n_day .. n_sec                                                       *)

Ltac yi_rng := first [ assumption | eapply year_index64_range; eassumption ].
Ltac fuel_le := unfold s64_fuel, fuel_century, fuel_4years, fuel_year, fuel_month; lia.

Ltac go_call h ::=
  match h with
  | s64_days_per_year ?y ?m => erewrite (s64_days_per_year_tie y m) by eassumption; cbn [bind]
  | s64_days_per_month ?y ?m => erewrite (s64_days_per_month_tie y m) by eassumption; cbn [bind]
  | s64_year_index ?y ?m => erewrite (s64_year_index_tie y m) by eassumption; cbn [bind]
  | s64_n_day_loop1 ?F ?d ?ey ?yi =>
      match goal with
      | Hl : century_loop _ d ey yi = OK _ |- _ =>
          let HA := fresh "HA" in let HB := fresh "HB" in let Hy := fresh "Hy" in
          assert (Hy : 0 <= yi < 400) by yi_rng;
          destruct (loop1_tie _ _ _ _ _ Hy Hl) as [HA HB];
          cbn [snd] in HB; rewrite (HA F) by fuel_le; cbn [bind]
      end
  | s64_n_day_loop2 ?F ?d ?ey ?yi =>
      match goal with
      | Hl : years4_loop _ d ey yi = OK _ |- _ =>
          let HA := fresh "HA" in let HB := fresh "HB" in let Hy := fresh "Hy" in
          assert (Hy : 0 <= yi < 400) by yi_rng;
          destruct (loop2_tie _ _ _ _ _ Hy Hl) as [HA HB];
          cbn [snd] in HB; rewrite (HA F) by fuel_le; cbn [bind]
      end
  | s64_n_day_loop3 ?F ?m ?d ?ey =>
      match goal with
      | Hl : year_loop _ d ey m = OK _ |- _ =>
          rewrite (loop3_tie _ _ _ _ _ Hl F) by fuel_le; cbn [bind]
      end
  | s64_n_day_loop4 ?F ?m ?d ?ey =>
      match goal with
      | Hl : month_loop _ d ey m = OK _ |- _ =>
          rewrite (loop4_tie _ _ _ _ _ Hl F) by fuel_le; cbn [bind fst snd]
      end
  end.

Lemma s64_n_day_tie y m d cd hh mm ss r :
  n_day64 y m d cd hh mm ss = OK r -> s64_n_day s64_fuel y m d cd hh mm ss = OK r.
Proof.
  unfold n_day64, s64_n_day. intros H. cbv zeta in *. inv; go.
Qed.

Lemma s64_n_mon_tie y m d cd hh mm ss r :
  n_mon64 y m d cd hh mm ss = OK r -> s64_n_mon s64_fuel y m d cd hh mm ss = OK r.
Proof.
  unfold n_mon64, s64_n_mon. intros H. cbv zeta in *. inv; go; apply s64_n_day_tie; assumption.
Qed.

Lemma s64_n_hour_tie y m d cd hh mm ss r :
  n_hour64 y m d cd hh mm ss = OK r -> s64_n_hour s64_fuel y m d cd hh mm ss = OK r.
Proof.
  unfold n_hour64, s64_n_hour. intros H. cbv zeta in *. inv; go; apply s64_n_mon_tie; assumption.
Qed.

Lemma s64_n_min_tie y m d hh ch mm ss r :
  n_min64 y m d hh ch mm ss = OK r -> s64_n_min s64_fuel y m d hh ch mm ss = OK r.
Proof.
  unfold n_min64, s64_n_min. intros H. cbv zeta in *. inv; go; apply s64_n_hour_tie; assumption.
Qed.

Lemma s64_n_sec_tie y m d hh mm ss r :
  n_sec64 y m d hh mm ss = OK r -> s64_n_sec s64_fuel y m d hh mm ss = OK r.
Proof.
  unfold n_sec64, s64_n_sec. intros H. cbv zeta in *.
  destruct ((0 <=? ss) && (ss <? 60)) eqn:Es.
  - rewrite (narrow8_in ss) by lia. cbn [bind].
    destruct ((0 <=? mm) && (mm <? 60)) eqn:Em.
    + rewrite (narrow8_in mm) by lia. cbn [bind].
      destruct ((0 <=? hh) && (hh <? 24)) eqn:Eh.
      * rewrite (narrow8_in hh) by lia. cbn [bind].
        destruct ((1 <=? d) && (d <=? 28) && (1 <=? m) && (m <=? 12)) eqn:Ed.
        -- rewrite (narrow8_in d) by lia. rewrite (narrow8_in m) by lia. cbn [bind]. assumption.
        -- apply s64_n_mon_tie; assumption.
      * apply s64_n_hour_tie; assumption.
    + apply s64_n_min_tie; assumption.
  - inv; go; apply s64_n_min_tie; assumption.
Qed.

(* ------------------------------------------------------------------ *)
(* step                                                                 *)

Lemma s64_step_second_tie f n r : fields_repr f -> step64 0 f n = OK r -> s64_step_second s64_fuel f n = OK r.
Proof.
  intros _. unfold step64, s64_step_second. intros H. inv; go. apply s64_n_sec_tie; assumption.
Qed.

Lemma s64_step_minute_tie f n r : fields_repr f -> step64 1 f n = OK r -> s64_step_minute s64_fuel f n = OK r.
Proof.
  intros _. unfold step64, s64_step_minute. intros H. inv; go. apply s64_n_min_tie; assumption.
Qed.

Lemma s64_step_hour_tie f n r : fields_repr f -> step64 2 f n = OK r -> s64_step_hour s64_fuel f n = OK r.
Proof.
  intros _. unfold step64, s64_step_hour. intros H. inv; go. apply s64_n_hour_tie; assumption.
Qed.

Lemma s64_step_day_tie f n r : fields_repr f -> step64 3 f n = OK r -> s64_step_day s64_fuel f n = OK r.
Proof.
  intros _. unfold step64, s64_step_day. intros H. apply s64_n_day_tie; assumption.
Qed.

Lemma s64_step_month_tie f n r : fields_repr f -> step64 4 f n = OK r -> s64_step_month s64_fuel f n = OK r.
Proof.
  intros _. unfold step64, s64_step_month. intros H. inv; go. apply s64_n_mon_tie; assumption.
Qed.

Lemma s64_step_year_tie f n r : fields_repr f -> step64 5 f n = OK r -> s64_step_year f n = OK r.
Proof.
  intros _. unfold step64, s64_step_year. intros H. inv; go.
Qed.

(* ------------------------------------------------------------------ *)
(* scale_add / ymd_ord / day_difference / difference                    *)

Lemma s64_scale_add_tie v f a r : scale_add64 v f a = OK r -> s64_scale_add v f a = OK r.
Proof.
  unfold scale_add64, s64_scale_add. intros H. inv; go.
Qed.

(* m : month_t, d : day_t (int_fast8_t): the 32-bit `int` arithmetic of doy cannot overflow *)
Lemma s64_ymd_ord_tie y m d r :
  -128 <= m <= 127 -> -128 <= d <= 127 -> ymd_ord64 y m d = OK r -> s64_ymd_ord y m d = OK r.
Proof.
  intros Hm Hd. unfold ymd_ord64, s64_ymd_ord.
  destruct (2 <? m) eqn:E2; intros H; cbv beta iota zeta in *; inv; go.
Qed.

(* the type hypotheses are needed: the hand model computes doy in Z *)
Example s64_ymd_ord_needs_types :
  is_ok (ymd_ord64 2000 2147483648 0) = true /\ s64_ymd_ord 2000 2147483648 0 = Err Overflow.
Proof. vm_compute. split; reflexivity. Qed.

Lemma s64_day_difference_tie y1 m1 d1 y2 m2 d2 r :
  -128 <= m1 <= 127 -> -128 <= d1 <= 127 -> -128 <= m2 <= 127 -> -128 <= d2 <= 127 ->
  day_difference64 y1 m1 d1 y2 m2 d2 = OK r -> s64_day_difference y1 m1 d1 y2 m2 d2 = OK r.
Proof.
  intros Hm1 Hd1 Hm2 Hd2. unfold day_difference64, s64_day_difference. intros H. cbv zeta in *.
  inv;
  repeat match goal with
  | Ha : ymd_ord64 ?a ?b ?c = OK _ |- _ =>
      rewrite (s64_ymd_ord_tie a b c _ ltac:(assumption) ltac:(assumption) Ha)
  end; go.
Qed.

Lemma s64_difference_year_tie f1 f2 r :
  fields_repr f1 -> fields_repr f2 -> difference64 5 f1 f2 = OK r -> s64_difference_year f1 f2 = OK r.
Proof.
  intros _ _. unfold difference64, diff_year64, s64_difference_year. intros H. inv; go.
Qed.

Lemma s64_difference_month_tie f1 f2 r :
  fields_repr f1 -> fields_repr f2 -> difference64 4 f1 f2 = OK r -> s64_difference_month f1 f2 = OK r.
Proof.
  intros R1 R2. unfold difference64, diff_month64, s64_difference_month. intros H.
  apply bind_ok in H. destruct H as [v [Hv H]].
  rewrite (s64_difference_year_tie f1 f2 v R1 R2 Hv). cbn [bind].
  unfold fields_repr in *. go. apply s64_scale_add_tie; assumption.
Qed.

Lemma s64_difference_day_tie f1 f2 r :
  fields_repr f1 -> fields_repr f2 -> difference64 3 f1 f2 = OK r -> s64_difference_day f1 f2 = OK r.
Proof.
  intros R1 R2. unfold difference64, diff_day64, s64_difference_day. unfold fields_repr in *.
  apply s64_day_difference_tie; tauto.
Qed.

Lemma s64_difference_hour_tie f1 f2 r :
  fields_repr f1 -> fields_repr f2 -> difference64 2 f1 f2 = OK r -> s64_difference_hour f1 f2 = OK r.
Proof.
  intros R1 R2. unfold difference64, diff_hour64, s64_difference_hour. intros H.
  apply bind_ok in H. destruct H as [v [Hv H]].
  rewrite (s64_difference_day_tie f1 f2 v R1 R2 Hv). cbn [bind].
  unfold fields_repr in *. go. apply s64_scale_add_tie; assumption.
Qed.

Lemma s64_difference_minute_tie f1 f2 r :
  fields_repr f1 -> fields_repr f2 -> difference64 1 f1 f2 = OK r -> s64_difference_minute f1 f2 = OK r.
Proof.
  intros R1 R2. unfold difference64, diff_minute64, s64_difference_minute. intros H.
  apply bind_ok in H. destruct H as [v [Hv H]].
  rewrite (s64_difference_hour_tie f1 f2 v R1 R2 Hv). cbn [bind].
  unfold fields_repr in *. go. apply s64_scale_add_tie; assumption.
Qed.

Lemma s64_difference_second_tie f1 f2 r :
  fields_repr f1 -> fields_repr f2 -> difference64 0 f1 f2 = OK r -> s64_difference_second f1 f2 = OK r.
Proof.
  intros R1 R2. unfold difference64, diff_second64, s64_difference_second. intros H.
  apply bind_ok in H. destruct H as [v [Hv H]].
  rewrite (s64_difference_minute_tie f1 f2 v R1 R2 Hv). cbn [bind].
  unfold fields_repr in *. go. apply s64_scale_add_tie; assumption.
Qed.

(* ------------------------------------------------------------------ *)
(* align                                                                *)

Lemma s64_align_second_tie f : s64_align_second f = OK (align64 0 f).
Proof. reflexivity. Qed.
Lemma s64_align_minute_tie f : s64_align_minute f = OK (align64 1 f).
Proof. reflexivity. Qed.
Lemma s64_align_hour_tie f : s64_align_hour f = OK (align64 2 f).
Proof. reflexivity. Qed.
Lemma s64_align_day_tie f : s64_align_day f = OK (align64 3 f).
Proof. reflexivity. Qed.
Lemma s64_align_month_tie f : s64_align_month f = OK (align64 4 f).
Proof. reflexivity. Qed.
Lemma s64_align_year_tie f : s64_align_year f = OK (align64 5 f).
Proof. reflexivity. Qed.

(* ------------------------------------------------------------------ *)
(* get_weekday / get_yearday                                            *)

Lemma s64_get_yearday_tie f r : fields_repr f -> get_yearday64 f = OK r -> s64_get_yearday f = OK r.
Proof.
  intros R. unfold get_yearday64, s64_get_yearday, src_k_month_offsets. intros H. nb. cbv zeta in *.
  match type of H with match ?o with _ => _ end = _ => destruct o as [k|] eqn:Ek end; [|discriminate].
  inv.
  assert (Hk : -1 <= k <= 334) by (apply tbl_in in Ek; revert Ek; apply in_range; vm_compute; reflexivity).
  unfold fields_repr in R.
  destruct (2 <? fm f); cbn [andb]; go;
    rewrite (tbl_get_ok _ (fm f) (fm f) k eq_refl Ek); cbn [bind]; go.
Qed.

Lemma s64_get_weekday_tie f r : fields_repr f -> get_weekday64 f = OK r -> s64_get_weekday f = OK r.
Proof.
  intros R. unfold get_weekday64, s64_get_weekday, src_k_weekday_offsets, src_k_weekday_by_mon_off.
  intros H. nb. cbv zeta in *.
  match type of H with match ?o with _ => _ end = _ => destruct o as [off|] eqn:Eo end; [|discriminate].
  match type of H with match ?o with _ => _ end = _ => destruct o as [w|] eqn:Ew end; [|discriminate].
  inv.
  assert (Hoff : -1 <= off <= 6) by (apply tbl_in in Eo; revert Eo; apply in_range; vm_compute; reflexivity).
  unfold fields_repr in R.
  go.
  rewrite (tbl_get_ok _ (fm f) (fm f) off eq_refl Eo). cbn [bind].
  go.
  match goal with
  | |- context [tbl_get ?l ?i] =>
      match type of Ew with
      | (if ?j <? 0 then _ else _) = Some ?x =>
          rewrite (tbl_get_ok l i j x); [ | f_equal; f_equal; ring | exact Ew ]
      end
  end.
  reflexivity.
Qed.

Print Assumptions s64_n_sec_tie.
Print Assumptions s64_difference_second_tie.
