(* Properties_C11.v — C11: next/prev_transition enumerate exactly the real changes. *)
From CCTZ Require Import Base ZoneZ ZoneZProofs C11Defs.
Local Open Scope Z_scope.

Theorem znext_spec : forall eqv z t, times_increasing (zz_tr z) = true ->
  znext eqv z t = first_after (zchanges eqv (zz_tr z) (zz_did z)) t.
Proof. exact znext_spec_lemma. Qed.
Print Assumptions znext_spec.

Theorem zprev_spec : forall eqv z t, times_increasing (zz_tr z) = true ->
  zprev eqv z t = last_before (zchanges eqv (zz_tr z) (zz_did z)) t.
Proof. exact zprev_spec_lemma. Qed.
Print Assumptions zprev_spec.

(* lookup is constant (up to type equivalence) on any interval without a
   reported change, and differs across each reported change *)
Theorem zlookup_const_between : forall eqv z t1 t2,
  (forall a, eqv a a = true) -> (forall a b c, eqv a b = true -> eqv b c = true -> eqv a c = true) ->
  times_increasing (zz_tr z) = true -> t1 <= t2 ->
  (forall tr, In tr (zchanges eqv (zz_tr z) (zz_did z)) -> ~ (t1 < zt_time tr <= t2)) ->
  eqv (zid z t1) (zid z t2) = true.
Proof. exact zlookup_const_between_lemma. Qed.
Print Assumptions zlookup_const_between.

Theorem zlookup_differs_across : forall eqv z tr,
  times_increasing (zz_tr z) = true ->
  In tr (zchanges eqv (zz_tr z) (zz_did z)) ->
  eqv (zid z (zt_time tr - 1)) (zid z (zt_time tr)) = false.
Proof. exact zlookup_differs_across_lemma. Qed.
Print Assumptions zlookup_differs_across.

(* the chains: next from below everything enumerates zchanges in order *)
Theorem znext_chain : forall eqv z t, times_increasing (zz_tr z) = true ->
  (znext eqv z t = None <-> first_after (zchanges eqv (zz_tr z) (zz_did z)) t = None) /\
  (forall tr, znext eqv z t = Some tr -> t < zt_time tr /\ In tr (zchanges eqv (zz_tr z) (zz_did z))).
Proof. exact znext_chain_lemma. Qed.
Print Assumptions znext_chain.

From CCTZ Require Import Base Cal ZoneLoad ZoneImpl ZoneRefineDefs ZoneRefine NextPrevRefine.

(* IMPLEMENTATION LEVEL: NextTransition / PrevTransition (checked int64, civil fields) never err on a
   certified zone and return exactly the first real change after t / the last one before t, reported
   as (one past the last civil second shown before it, the civil second shown at it).  bb_consistent:
   a leading entry at -2^59 is the no-op sentinel of pre-2018 zic (its type equivalent to the default) *)
Theorem c11_next_refines : forall z t, zone_ok z = true -> int64 t ->
  bb_consistent z = true ->
  next_transition z t =
    OK (option_map (report z)
          (first_after (zchanges (eqv_types z) (zz_tr (abs_zone z)) (zz_did (abs_zone z))) t)).
Proof. exact next_transition_real_changes. Qed.
Print Assumptions c11_next_refines.

Theorem c11_prev_refines : forall z t, zone_ok z = true -> int64 t ->
  bb_consistent z = true ->
  prev_transition z t =
    OK (option_map (report z)
          (last_before (zchanges (eqv_types z) (zz_tr (abs_zone z)) (zz_did (abs_zone z))) t)).
Proof. exact prev_transition_real_changes. Qed.
Print Assumptions c11_prev_refines.

Theorem c11_next_refines_searched : forall z t, zone_ok z = true -> int64 t ->
  next_transition z t =
    OK (match znext (eqv_types z) (searched z) t with
        | None => None
        | Some tr => Some (civil_of_seconds (prev_local z tr + 1),
                           civil_of_seconds (zt_time tr + zt_off tr))
        end).
Proof. exact next_refines_lemma. Qed.
Print Assumptions c11_next_refines_searched.

Theorem c11_prev_refines_searched : forall z t, zone_ok z = true -> int64 t ->
  prev_transition z t =
    OK (match zprev (eqv_types z) (searched z) t with
        | None => None
        | Some tr => Some (civil_of_seconds (prev_local z tr + 1),
                           civil_of_seconds (zt_time tr + zt_off tr))
        end).
Proof. exact prev_refines_lemma. Qed.
Print Assumptions c11_prev_refines_searched.


(* After the C11 fix, EquivTransitions (eqv_types) is exactly observational equality: two types
   are equivalent iff they designate the same offset, DST flag and abbreviation TEXT, whatever
   their abbreviation indices. *)
Theorem c11_equivalence_is_observable : forall z a b,
  zone_ok z = true -> idx_ok z a = true -> idx_ok z b = true ->
  (eqv_types z a b = true <-> off_of z a = off_of z b /\ info_of z a = info_of z b).
Proof. exact eqv_types_iff_same_info. Qed.
Print Assumptions c11_equivalence_is_observable.
