(* Properties_C11.v — C11: next/prev_transition enumerate exactly the real changes. *)
From CCTZ Require Import Base ZoneZ ZoneZProofs.
Local Open Scope Z_scope.

Definition first_after (l : list ztr) (t : Z) : option ztr :=
  match filter (fun tr => t <? zt_time tr) l with x :: _ => Some x | [] => None end.
Definition last_before (l : list ztr) (t : Z) : option ztr :=
  match rev (filter (fun tr => zt_time tr <? t) l) with x :: _ => Some x | [] => None end.

Theorem znext_spec : forall eqv z t, times_increasing (zz_tr z) = true ->
  znext eqv z t = first_after (zchanges eqv (zz_tr z) (zz_did z)) t.
Proof. exact znext_spec_lemma. Qed.
Print Assumptions znext_spec.

Theorem zprev_spec : forall eqv z t, times_increasing (zz_tr z) = true ->
  zprev eqv z t = last_before (zchanges eqv (zz_tr z) (zz_did z)) t.
Proof. exact zprev_spec_lemma. Qed.
Print Assumptions zprev_spec.

(* lookup is constant (up to type equivalence) on any interval without a
   reported change, and differs across each reported change *)
Theorem zlookup_const_between : forall eqv z t1 t2,
  (forall a, eqv a a = true) -> (forall a b c, eqv a b = true -> eqv b c = true -> eqv a c = true) ->
  times_increasing (zz_tr z) = true -> t1 <= t2 ->
  (forall tr, In tr (zchanges eqv (zz_tr z) (zz_did z)) -> ~ (t1 < zt_time tr <= t2)) ->
  eqv (zid z t1) (zid z t2) = true.
Proof. exact zlookup_const_between_lemma. Qed.
Print Assumptions zlookup_const_between.

Theorem zlookup_differs_across : forall eqv z tr,
  times_increasing (zz_tr z) = true ->
  In tr (zchanges eqv (zz_tr z) (zz_did z)) ->
  eqv (zid z (zt_time tr - 1)) (zid z (zt_time tr)) = false.
Proof. exact zlookup_differs_across_lemma. Qed.
Print Assumptions zlookup_differs_across.

(* the chains: next from below everything enumerates zchanges in order *)
Theorem znext_chain : forall eqv z t, times_increasing (zz_tr z) = true ->
  (znext eqv z t = None <-> first_after (zchanges eqv (zz_tr z) (zz_did z)) t = None) /\
  (forall tr, znext eqv z t = Some tr -> t < zt_time tr /\ In tr (zchanges eqv (zz_tr z) (zz_did z))).
Proof. exact znext_chain_lemma. Qed.
Print Assumptions znext_chain.
