(* History.v — the text of /repo *before* each "fix:" commit, kept so that the
   witnesses that motivated the fixes stay machine-checked (`_refuted` theorems).
   Nothing else depends on this file. *)
From CCTZ Require Import Base Cal SrcConstants CivilImpl FixedImpl.
Local Open Scope Z_scope.

(* ---- F1 (C04): n_mon before the fix did `y += m / 12` and then `y -= 1`. *)
Definition n_mon64_prefix (y m d cd hh mm ss : Z) : res fields :=
  do '(y1, m1) <-
     (if negb (m =? 12) then
        do y' <- add64 y (Z.quot m 12) ;;
        let m' := Z.rem m 12 in
        if m' <=? 0 then (do y'' <- sub64 y' 1 ;; do mm2 <- add64 m' 12 ;; OK (y'', mm2))
        else OK (y', m')
      else OK (y, m)) ;;
  do m8 <- narrow8 m1 ;;
  n_day64 y1 m8 d cd hh mm ss.

(* civil_month(INT64_MAX - 1, 24): the carried year (MAX, December) fits, the
   normalised year fits, yet the pre-fix code overflowed. *)
Theorem n_mon_overflow_refuted :
  exists y m,
    int64 y /\ int64 m /\ int64 (carry_year y m) /\
    int64 (fy (norm_spec y m 1 0 0 0)) /\
    n_mon64_prefix y m 1 0 0 0 0 = Err Overflow /\
    n_mon64 y m 1 0 0 0 0 = OK (norm_spec y m 1 0 0 0).
Proof.
  exists (max64 - 1), 24. unfold int64. vm_compute. repeat split; congruence.
Qed.

(* ---- F2 (C15): Parse02d before the fix took strchr(kDigits, '\0') as 10. *)
Definition fixed_parse02d_prefix (c1 c2 : Z) : Z :=
  match strchr kDigits c1 with
  | Some v => match strchr kDigits c2 with Some w => v * 10 + w | None => -1 end
  | None => -1
  end.

(* "Fixed/UTC+0\0:00:00": not of the documented shape, yet pre-fix Parse02d
   returned 0*10+10 = 10 hours. *)
Theorem fromname_nul_refuted :
  fixed_parse02d_prefix 48 0 = 10 /\
  FixedOffsetFromName (kFixedZonePrefix ++ [43; 48; 0; 58; 48; 48; 58; 48; 48]) = None /\
  fixed_from_spec (kFixedZonePrefix ++ [43; 48; 0; 58; 48; 48; 58; 48; 48]) = None.
Proof. vm_compute. repeat split; reflexivity. Qed.
