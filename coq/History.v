(* History.v — the text of /repo *before* each "fix:" commit, kept so that the
   witnesses that motivated the fixes stay machine-checked (`_refuted` theorems).
   Nothing else depends on this file. *)
From CCTZ Require Import Base Cal SrcConstants CivilImpl FixedImpl PosixImpl ZoneLoad.
From CCTZ Require Import ZoneImpl ZoneRefineDefs FormatImpl ParseImpl.
Local Open Scope Z_scope.

(* ---- F1 (C04): n_mon before the fix did `y += m / 12` and then `y -= 1`. *)
Definition n_mon64_prefix (y m d cd hh mm ss : Z) : res fields :=
  do '(y1, m1) <-
     (if negb (m =? 12) then
        do y' <- add64 y (Z.quot m 12) ;;
        let m' := Z.rem m 12 in
        if m' <=? 0 then (do y'' <- sub64 y' 1 ;; do mm2 <- add64 m' 12 ;; OK (y'', mm2))
        else OK (y', m')
      else OK (y, m)) ;;
  do m8 <- narrow8 m1 ;;
  n_day64 y1 m8 d cd hh mm ss.

(* civil_month(INT64_MAX - 1, 24): the carried year (MAX, December) fits, the
   normalised year fits, yet the pre-fix code overflowed. *)
Theorem n_mon_overflow_refuted :
  exists y m,
    int64 y /\ int64 m /\ int64 (carry_year y m) /\
    int64 (fy (norm_spec y m 1 0 0 0)) /\
    n_mon64_prefix y m 1 0 0 0 0 = Err Overflow /\
    n_mon64 y m 1 0 0 0 0 = OK (norm_spec y m 1 0 0 0).
Proof.
  exists (max64 - 1), 24. unfold int64. vm_compute. repeat split; congruence.
Qed.

(* ---- F2 (C15): Parse02d before the fix took strchr(kDigits, '\0') as 10. *)
Definition fixed_parse02d_prefix (c1 c2 : Z) : Z :=
  match strchr kDigits c1 with
  | Some v => match strchr kDigits c2 with Some w => v * 10 + w | None => -1 end
  | None => -1
  end.

(* "Fixed/UTC+0\0:00:00": not of the documented shape, yet pre-fix Parse02d
   returned 0*10+10 = 10 hours. *)
Theorem fromname_nul_refuted :
  fixed_parse02d_prefix 48 0 = 10 /\
  FixedOffsetFromName (kFixedZonePrefix ++ [43; 48; 0; 58; 48; 48; 58; 48; 48]) = None /\
  fixed_from_spec (kFixedZonePrefix ++ [43; 48; 0; 58; 48; 48; 58; 48; 48]) = None.
Proof. vm_compute. repeat split; reflexivity. Qed.

(* ---- F3 (C16, C12): ParseDateTime before the fix succeeded without writing
   res->date (a) when the ",date" part was missing and (b) when an Mm.w.d date
   was cut short. *)
Definition posix_parse_date_prefix (p : list Z) : option (option pdate * list Z) :=
  match p with
  | 77 :: r =>
      match posix_parse_int r 1 12 with
      | None => None
      | Some (month, p1) =>
          match p1 with
          | 46 :: r1 =>
              match posix_parse_int r1 1 5 with
              | None => None
              | Some (week, p2) =>
                  match p2 with
                  | 46 :: r2 =>
                      match posix_parse_int r2 0 6 with
                      | None => None
                      | Some (weekday, r3) => Some (Some (DM month week weekday), r3)
                      end
                  | _ => Some (None, p2)          (* date left unset, p non-null *)
                  end
              end
          | _ => Some (None, p1)                  (* date left unset, p non-null *)
          end
      end
  | _ =>
      match posix_parse_date p with
      | Some (d, r) => Some (Some d, r)
      | None => None
      end
  end.

Definition posix_parse_datetime_prefix (p : option (list Z)) : option (ptrans * list Z) :=
  match p with
  | None => None
  | Some p0 =>
      let r :=
        match p0 with
        | 44 :: r0 => posix_parse_date_prefix r0
        | _ => Some (None, p0)                    (* no ',': date skipped, p unchanged *)
        end in
      match r with
      | None => None
      | Some (date, p1) =>
          match p1 with
          | 47 :: r1 =>
              match posix_parse_offset (Some r1) (-167) 167 1 with
              | None => None
              | Some (off, p2) => Some (mkPT date (Some off), p2)
              end
          | _ => Some (mkPT date (Some 7200), p1)
          end
      end
  end.

Definition ParsePosixSpec_prefix := ParsePosixSpec_gen posix_parse_datetime_prefix.

Definition date_unset (r : option posix_tz) : bool :=
  match r with
  | Some z => match pt_date (dst_start z), pt_date (dst_end z) with
              | Some _, Some _ => false | _, _ => true end
  | None => false
  end.

(* "STD5DST,M3.2.0", "STD5DST/1" and "EST5EDT,M3,M11.1.0": accepted pre-fix with
   a date the consumer reads left unset; rejected post-fix. *)
Theorem posix_dropped_rule_refuted :
  let s1 := [83;84;68;53;68;83;84;44;77;51;46;50;46;48] in
  let s2 := [83;84;68;53;68;83;84;47;49] in
  let s3 := [69;83;84;53;69;68;84;44;77;51;44;77;49;49;46;49;46;48] in
  date_unset (ParsePosixSpec_prefix s1) = true /\ ParsePosixSpec s1 = None /\
  date_unset (ParsePosixSpec_prefix s2) = true /\ ParsePosixSpec s2 = None /\
  date_unset (ParsePosixSpec_prefix s3) = true /\ ParsePosixSpec s3 = None.
Proof. vm_compute. repeat split; reflexivity. Qed.

(* ---- F10 (C12): before the fix the default-type search used an 8-bit index
   compared against typecnt (a 31-bit header count): with more than 256 types,
   the first 256 of them DST, it wrapped from 255 to 0 and never terminated. *)
Fixpoint dflt_up_u8 (fuel : nat) (types : list ttype) (typecnt index : Z) : res Z :=
  match fuel with
  | O => Err Fuel
  | S f =>
      if index =? typecnt then OK index else
      do ty <- nth_res types index ;;
      if tt_isdst ty then dflt_up_u8 f types typecnt ((index + 1) mod 256) else OK index
  end.

Definition dst_type : ttype := mkTT 3600 epoch epoch true 0.

Lemma nth_res_repeat (n : nat) (i : Z) : 0 <= i < Z.of_nat n -> nth_res (repeat dst_type n) i = OK dst_type.
Proof.
  intros Hi. unfold nth_res. destruct (i <? 0) eqn:E; [lia|].
  assert (H : nth_error (repeat dst_type n) (Z.to_nat i) = Some dst_type).
  { assert (Hlt : (Z.to_nat i < n)%nat) by lia.
    revert Hlt. generalize (Z.to_nat i). clear. intros k. revert k.
    induction n as [|n IH]; intros k Hk; [lia|]. destruct k; simpl; [reflexivity|]. apply IH. lia. }
  rewrite H. reflexivity.
Qed.

(* for EVERY amount of fuel the pre-fix search on 300 DST types is still running *)
Theorem default_type_search_diverges_refuted :
  forall fuel i, 0 <= i < 256 -> dflt_up_u8 fuel (repeat dst_type 300) 300 i = Err Fuel.
Proof.
  induction fuel as [|f IH]; intros i Hi; [reflexivity|].
  cbn [dflt_up_u8]. destruct (i =? 300) eqn:E; [lia|].
  rewrite nth_res_repeat by lia. cbn [bind dst_type tt_isdst].
  apply IH. apply Z.mod_pos_bound. lia.
Qed.

(* ... while the post-fix search terminates on the same data *)
Example default_type_search_fixed :
  dflt_up 301 (repeat dst_type 300) 300 0 = OK 300.
Proof. vm_compute. reflexivity. Qed.

(* ---- F11 (C11): EquivTransitions before the fix compared the abbr_index of
   the two transition types, not the abbreviation they designate.  A TZif
   file may store one abbreviation twice (or let two indices fall on the same
   NUL-terminated tail): the two types then show the same offset, the same
   is_dst and the same abbreviation text, yet were "different", and
   next_transition / prev_transition reported a change that alters nothing. *)
Definition equiv_transitions_prefix (types : list ttype) (i1 i2 : Z) : res bool :=
  if i1 =? i2 then OK true
  else
    do t1 <- nth_res types i1 ;;
    do t2 <- nth_res types i2 ;;
    OK ((tt_off t1 =? tt_off t2) && Bool.eqb (tt_isdst t1) (tt_isdst t2) && (tt_abbr t1 =? tt_abbr t2)).

(* NextTransition with the pre-fix comparison (otherwise ZoneImpl.next_scan /
   next_transition verbatim) *)
Fixpoint next_scan_prefix (fuel : nat) (z : zone) (l : list transition) (k : nat) : res (option transition) :=
  match fuel with
  | O => Err Fuel
  | S f =>
      match nth_error l k with
      | None => OK None
      | Some tr =>
          do prev_ti <- (match k with
                         | O => OK (z_default z)
                         | S k' => match nth_error l k' with Some p => OK (tr_type p) | None => Err OOB end
                         end) ;;
          do e <- equiv_transitions_prefix (z_types z) prev_ti (tr_type tr) ;;
          if e then next_scan_prefix f z l (S k) else OK (Some tr)
      end
  end.

Definition next_transition_prefix (z : zone) (t : Z) : res (option (fields * fields)) :=
  match z_trans z with
  | [] => OK None
  | _ =>
      let '(l, _) := drop_big_bang z in
      do k <- bound_search (fun tr => t <? tr_time tr) l ;;
      do r <- next_scan_prefix (S (length l)) z l k ;;
      match r with
      | None => OK None
      | Some tr => do from <- plus64 0 (tr_pcs tr) 1 ;; OK (Some (from, tr_cs tr))
      end
  end.

(* a 70-byte version-1 file: transitions at 100000000 and 110000000, both to
   type 1; type 0 = (offset 0, dst, abbr_index 3), type 1 = (offset 0, dst,
   abbr_index 1); abbreviation table "B\0\0\0", so both indices give "". *)
Definition dup_abbr_file : list Z :=
  [
   84; 90; 105; 102; 0; 0; 0; 0; 0; 0; 0; 0; 0; 0; 0; 0; 0; 0; 0; 0; 0; 0;
   0; 0; 0; 0; 0; 0; 0; 0; 0; 0; 0; 0; 0; 2; 0; 0; 0; 2; 0; 0; 0; 4;
   5; 245; 225; 0; 6; 142; 119; 128; 1; 1; 0; 0; 0; 0; 1; 3; 0; 0; 0; 0; 1; 1;
   66; 0; 0; 0].

(* The loader accepts the file and the zone satisfies the certificate; its
   default type is 0.  Types 0 and 1 show the same offset and the same
   (is_dst, abbreviation) -- nothing observable distinguishes them -- but the
   pre-fix comparison calls them different, and the pre-fix next_transition(0)
   reports a "transition" whose from and to civil times coincide.  The fixed
   comparison calls them equivalent and reports nothing. *)
Theorem equiv_abbr_index_refuted :
  exists z, load_bytes dup_abbr_file = OK (Some z) /\
    zone_ok z = true /\ z_default z = 0 /\
    equiv_transitions_prefix (z_types z) (z_default z) 1 = OK false /\
    off_of z (z_default z) = off_of z 1 /\
    info_of z (z_default z) = OK (true, []) /\ info_of z 1 = OK (true, []) /\
    equiv_transitions (z_abbrs z) (z_types z) (z_default z) 1 = OK true /\
    (exists c, next_transition_prefix z 0 = OK (Some (c, c))) /\
    next_transition z 0 = OK None.
Proof.
  eexists. split; [vm_compute; reflexivity|].
  vm_compute. repeat split; try reflexivity. eexists; reflexivity.
Qed.

(* ---- F13 - lone offset digit (C07/C09): ParseOffset before the fix kept the value of a minutes (or seconds) group
   that it did NOT consume: ParseInt(ap, 2, 0, 59, &minutes) stores a lone digit in `minutes`, the
   test `bp - ap == 2` fails, dp is not advanced, yet `minutes` still entered *offset. *)
Definition fmt_parse_offset_prefix (dp : list Z) (mode_sep : Z) : option (Z * list Z) :=
  match dp with
  | [] => None
  | first :: d1 =>
      if (first =? 43) || (first =? 45) then
        match parse_int32 d1 2 (rng src_parse_off_hh 0) (rng src_parse_off_hh 1) with
        | Some (hours, ap) =>
            if consumed2 d1 ap then
              let ap' := match ap with c :: r => if negb (mode_sep =? 0) && (c =? mode_sep) then r else ap | [] => ap end in
              let '(minutes, seconds, dpf) :=
                match parse_int32 ap' 2 (rng src_parse_off_mm 0) (rng src_parse_off_mm 1) with
                | Some (mi, bp) =>
                    if consumed2 ap' bp then
                      let bp' := match bp with c :: r => if negb (mode_sep =? 0) && (c =? mode_sep) then r else bp | [] => bp end in
                      match parse_int32 bp' 2 0 59 with
                      | Some (se, cp) => if consumed2 bp' cp then (mi, se, cp) else (mi, se, bp)   (* se kept *)
                      | None => (mi, 0, bp)
                      end
                    else (mi, 0, ap)                                                             (* mi kept *)
                | None => (0, 0, ap)
                end in
              let off := ((hours * 60 + minutes) * 60) + seconds in
              Some (if first =? 45 then - off else off, dpf)
            else None
        | None => None
        end
      else if (first =? 90) || (first =? 122) then Some (0, d1)
      else None
  end.

(* "-12:3" with separator ':' : only "-12" is consumed (the rest is ":3") but the pre-fix offset is
   -(12*60+3)*60 = -43380; the fixed function returns -12*3600 = -43200 with the same rest. *)
Lemma parseoffset_lone_digit_refuted :
  exists dp sep v rest,
    fmt_parse_offset_prefix dp sep = Some (v, rest) /\
    dp = [45; 49; 50; 58; 51] /\ sep = 58 /\ rest = [58; 51] /\ v = -43380 /\
    fmt_parse_offset dp sep = Some (-43200, rest).
Proof.
  exists [45; 49; 50; 58; 51], 58, (-43380), [58; 51]. vm_compute. repeat split; reflexivity.
Qed.

(* the same for a lone seconds digit: "+01:02:3" consumes "+01:02", pre-fix value 3723, fixed 3720 *)
Lemma parseoffset_lone_second_digit_refuted :
  fmt_parse_offset_prefix [43; 48; 49; 58; 48; 50; 58; 51] 58 = Some (3723, [58; 51]) /\
  fmt_parse_offset [43; 48; 49; 58; 48; 50; 58; 51] 58 = Some (3720, [58; 51]).
Proof. vm_compute. split; reflexivity. Qed.
