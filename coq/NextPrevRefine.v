(* NextPrevRefine.v — the implementation-level NextTransition / PrevTransition
   (ZoneImpl.v: pointer walk over the transition table, EquivTransitions with
   checked indices, prev_civil_sec + 1 in checked int64 civil arithmetic)
   compute exactly the integer-level znext / zprev of ZoneZ.v on every zone that
   satisfies the certificate zone_ok (ZoneRefineDefs.v), for every instant.

   The table the C++ walks is NOT always the zone's table: a leading entry at
   (or below) -2^59 is skipped ("BIG_BANG ... is really a sentinel") and the
   entry after it is compared against default_transition_type_, not against the
   type of the skipped entry.  [searched z] is that table.  When the skipped
   entry's type is equivalent to the default type (always the case for the
   sentinel the loader inserts itself) the changes of [searched z] are exactly
   the changes of the zone and the results are the first real change after /
   last real change before t (corollaries *_real_changes).  When a file carries
   its own transition at exactly -2^59 with another type, the implementation
   can miss a real change or report a no-op: see the section "Finding" at the
   end, two files accepted by the loader, zone_ok, evaluated by vm_compute. *)
From CCTZ Require Import Base Cal CivilImpl PosixImpl FixedImpl ZoneLoad ZoneImpl ZoneZ ZoneHist ZoneRefineDefs.
From CCTZ Require Import CalProofs CivilNorm CivilDiff ZoneSelect ZoneZProofs ZoneRefine C11Defs.
Require Import Lia ZifyBool.
Local Open Scope Z_scope.

(* no division in this file *)
Local Ltac Zify.zify_post_hook ::= idtac.

Local Notation cos := civil_of_seconds.

(* ================================================================== *)
(* Definitions                                                          *)

(* the table the C++ searches: abs_zone z without its first transition exactly
   when drop_big_bang drops it.  The id "before the first searched entry" stays
   default_transition_type_ (the code does not adjust it); the offset in force
   before the first searched entry is the dropped entry's (znext / zprev do not
   read it). *)
Definition searched (z : zone) : zz :=
  match z_trans z with
  | t0 :: _ =>
      if tr_time t0 <=? big_bang
      then mkZZ (tl (zz_tr (abs_zone z))) (off_of z (tr_type t0)) (z_default z)
      else abs_zone z
  | [] => abs_zone z
  end.

(* local time of the last second before transition [tr]: the instant before,
   in the offset the (whole) zone has in force at that instant *)
Definition prev_local (z : zone) (tr : ztr) : Z :=
  zt_time tr - 1 + zoff (abs_zone z) (zt_time tr - 1).

(* what civil_transition carries for the selected table entry *)
Definition report (z : zone) (tr : ztr) : fields * fields :=
  (cos (prev_local z tr + 1), cos (zt_time tr + zt_off tr)).

(* the skipped leading entry, if any, is a no-op with respect to the default type *)
Definition bb_consistent (z : zone) : bool :=
  match z_trans z with
  | t0 :: _ => negb (tr_time t0 <=? big_bang) || eqv_types z (z_default z) (tr_type t0)
  | [] => true
  end.

(* ================================================================== *)
(* EquivTransitions                                                     *)

Lemma equiv_ok z a b : zfacts z -> idx_ok z a = true -> idx_ok z b = true ->
  equiv_transitions (z_abbrs z) (z_types z) a b = OK (eqv_types z a b).
Proof.
  intros F Ha Hb. unfold eqv_types, equiv_transitions.
  destruct (a =? b); [reflexivity|].
  destruct (type_facts z a F Ha) as (ta & -> & _ & _ & _ & _ & Aa).
  destruct (type_facts z b F Hb) as (tb & -> & _ & _ & _ & _ & Ab).
  cbn [bind].
  destruct (negb (tt_off ta =? tt_off tb)); [reflexivity|].
  destruct (negb (Bool.eqb (tt_isdst ta) (tt_isdst tb))); [reflexivity|].
  destruct (tt_abbr ta =? tt_abbr tb); [reflexivity|].
  rewrite (cstr_from_ok _ _ Aa), (cstr_from_ok _ _ Ab). reflexivity.
Qed.

Lemma eqv_types_refl z a : eqv_types z a a = true.
Proof. unfold eqv_types, equiv_transitions. rewrite Z.eqb_refl. reflexivity. Qed.

(* what the comparison decides (after the C11 fix, see History.v F11): the same
   index, or two types with the same offset, the same is_dst and the same
   abbreviation TEXT (the same abbr_index, or two indices whose C strings are
   both readable and equal).  No validity assumption on the indices. *)
Definition same_type (z : zone) (a b : Z) : Prop :=
  a = b \/
  exists ta tb, nth_res (z_types z) a = OK ta /\ nth_res (z_types z) b = OK tb /\
    tt_off ta = tt_off tb /\ tt_isdst ta = tt_isdst tb /\
    (tt_abbr ta = tt_abbr tb \/
     exists s, cstr_from (z_abbrs z) (tt_abbr ta) = OK s /\ cstr_from (z_abbrs z) (tt_abbr tb) = OK s).

Lemma eqv_types_char z a b : eqv_types z a b = true <-> same_type z a b.
Proof.
  unfold eqv_types, equiv_transitions, same_type.
  destruct (Z.eqb_spec a b) as [->|Nab]; [tauto|].
  destruct (nth_res (z_types z) a) as [ta|ea] eqn:Ea; cbn [bind].
  2:{ split; [discriminate|]. intros [H|(ta & tb & H & _)]; [contradiction|discriminate]. }
  destruct (nth_res (z_types z) b) as [tb|eb] eqn:Eb; cbn [bind].
  2:{ split; [discriminate|]. intros [H|(ta' & tb' & _ & H & _)]; [contradiction|discriminate]. }
  destruct (Z.eqb_spec (tt_off ta) (tt_off tb)) as [Eo|No]; cbn [negb].
  2:{ split; [discriminate|]. intros [H|(ta' & tb' & H1 & H2 & H3 & _)]; [contradiction|].
      inversion H1; inversion H2; subst. contradiction. }
  destruct (Bool.eqb (tt_isdst ta) (tt_isdst tb)) eqn:Ed; cbn [negb].
  2:{ split; [discriminate|]. intros [H|(ta' & tb' & H1 & H2 & _ & H3 & _)]; [contradiction|].
      inversion H1; inversion H2; subst. rewrite H3, eqb_reflx in Ed. discriminate. }
  apply eqb_prop in Ed.
  destruct (Z.eqb_spec (tt_abbr ta) (tt_abbr tb)) as [Eab|Nab'].
  { split; [|reflexivity]. intros _. right. exists ta, tb. auto 10. }
  destruct (cstr_from (z_abbrs z) (tt_abbr ta)) as [sa|xa] eqn:Ca; cbn [bind].
  2:{ split; [discriminate|].
      intros [H|(ta' & tb' & H1 & H2 & _ & _ & [H3|(s & H3 & _)])]; [contradiction| |];
        inversion H1; inversion H2; subst; [contradiction|congruence]. }
  destruct (cstr_from (z_abbrs z) (tt_abbr tb)) as [sb|xb] eqn:Cb; cbn [bind].
  2:{ split; [discriminate|].
      intros [H|(ta' & tb' & H1 & H2 & _ & _ & [H3|(s & _ & H3)])]; [contradiction| |];
        inversion H1; inversion H2; subst; [contradiction|congruence]. }
  rewrite list_eqb_eq. split.
  - intros ->. right. exists ta, tb. repeat split; auto. right. exists sb. auto.
  - intros [H|(ta' & tb' & H1 & H2 & _ & _ & [H3|(s & H3 & H4)])]; [contradiction| |];
      inversion H1; inversion H2; subst; [contradiction|congruence].
Qed.

Lemma same_type_sym z a b : same_type z a b -> same_type z b a.
Proof.
  intros [->|(ta & tb & H1 & H2 & Ho & Hd & Hab)]; [left; reflexivity|].
  right. exists tb, ta. repeat split; auto.
  destruct Hab as [E|(s & C1 & C2)]; [left; auto|right; exists s; auto].
Qed.

Lemma same_type_trans z a b c : same_type z a b -> same_type z b c -> same_type z a c.
Proof.
  intros [->|(ta & tb & H1 & H2 & Ho & Hd & Hab)]; [auto|].
  intros [<-|(tb' & tc & H3 & H4 & Ho' & Hd' & Hbc)].
  { right. exists ta, tb. auto 10. }
  rewrite H2 in H3. inversion H3; subst tb'. clear H3.
  right. exists ta, tc. repeat split; auto; try congruence.
  destruct Hab as [E|(s & C1 & C2)], Hbc as [E'|(s' & C3 & C4)].
  - left. congruence.
  - right. exists s'. rewrite E. auto.
  - right. exists s. rewrite <- E'. auto.
  - right. exists s. split; [exact C1|]. congruence.
Qed.

(* equivalent first arguments are interchangeable (symmetry + transitivity),
   with no validity assumption on the indices *)
Lemma eqv_types_cong z a b c : eqv_types z a b = true -> eqv_types z a c = eqv_types z b c.
Proof.
  intros H. apply eqv_types_char in H. apply eq_true_iff_eq. rewrite !eqv_types_char.
  split; intros K.
  - eapply same_type_trans; [apply same_type_sym; exact H|exact K].
  - eapply same_type_trans; [exact H|exact K].
Qed.

(* THE fact C11 rests on: on a certified zone two (valid) types are equivalent
   exactly when they show the same observable triple -- the same UTC offset and
   the same (is_dst, abbreviation text).  So a change that alters nothing is
   never reported (it is skipped as equivalent) and every reported change
   (eqv_types = false across it) alters the offset, the DST flag or the
   abbreviation.  False before the fix: History.equiv_abbr_index_refuted. *)
Theorem eqv_types_iff_same_info z a b :
  zone_ok z = true -> idx_ok z a = true -> idx_ok z b = true ->
  (eqv_types z a b = true <-> off_of z a = off_of z b /\ info_of z a = info_of z b).
Proof.
  intros Zok Ha Hb. pose proof (zone_ok_facts z Zok) as F.
  destruct (type_facts z a F Ha) as (ta & Ea & Oa & _ & _ & _ & Aa).
  destruct (type_facts z b F Hb) as (tb & Eb & Ob & _ & _ & _ & Ab).
  unfold info_of. rewrite Ea, Eb, <- Oa, <- Ob. cbn [bind].
  rewrite (cstr_from_ok _ _ Aa), (cstr_from_ok _ _ Ab). cbn [bind].
  rewrite eqv_types_char. unfold same_type. split.
  - intros [E|(ta' & tb' & H1 & H2 & Ho & Hd & Hab)].
    + subst b. rewrite Ea in Eb. inversion Eb; subst tb. auto.
    + rewrite Ea in H1. rewrite Eb in H2. inversion H1; inversion H2; subst ta' tb'.
      split; [exact Ho|]. rewrite Hd.
      destruct Hab as [E|(s & C1 & C2)]; [rewrite E; reflexivity|].
      rewrite (cstr_from_ok _ _ Aa) in C1. rewrite (cstr_from_ok _ _ Ab) in C2. congruence.
  - intros [Ho Hi]. inversion Hi as [[Hd Hs]]. right. exists ta, tb. repeat split; auto.
    right. eexists. split; [apply cstr_from_ok; exact Aa|].
    rewrite Hs. apply cstr_from_ok; exact Ab.
Qed.

Corollary eqv_types_false_iff_info_differs z a b :
  zone_ok z = true -> idx_ok z a = true -> idx_ok z b = true ->
  (eqv_types z a b = false <-> ~ (off_of z a = off_of z b /\ info_of z a = info_of z b)).
Proof.
  intros Zok Ha Hb. rewrite <- (eqv_types_iff_same_info z a b Zok Ha Hb).
  destruct (eqv_types z a b); split; intros H; try reflexivity; try discriminate.
  exfalso. apply H. reflexivity.
Qed.

(* ================================================================== *)
(* The two scans                                                        *)

Lemma next_scan_ok z l : zfacts z ->
  (forall tr, In tr l -> idx_ok z (tr_type tr) = true) ->
  forall fuel k, (0 < fuel)%nat -> (length l < fuel + k)%nat ->
  exists r, next_scan fuel z l k = OK r /\
    znext_scan (eqv_types z) (map (absf z) l) (z_default z) k fuel = option_map (absf z) r /\
    (forall tr, r = Some tr -> In tr l).
Proof.
  intros F Hl. induction fuel as [|f IH]; intros k H0 Hk; [lia|].
  cbn [next_scan znext_scan]. rewrite nth_error_map.
  destruct (nth_error l k) as [tr|] eqn:Ek; cbn [option_map].
  2:{ exists None. repeat split; auto. intros tr H; discriminate. }
  pose proof (nth_some_lt _ _ _ Ek) as Hlt.
  pose proof (Hl tr (nth_error_In _ _ Ek)) as Itr.
  assert (exists pi, idx_ok z pi = true /\
            match k with
            | O => OK (z_default z)
            | S k' => match nth_error l k' with Some p => OK (tr_type p) | None => Err OOB end
            end = OK pi /\
            match k with
            | O => z_default z
            | S j => match nth_error (map (absf z) l) j with Some p => zt_id p | None => z_default z end
            end = pi) as (pi & Ipi & E1 & E2).
  { destruct k as [|k'].
    - exists (z_default z). repeat split. apply zf_dflt; exact F.
    - destruct (nth_lt_some l k' ltac:(lia)) as [p Hp].
      exists (tr_type p). rewrite nth_error_map, Hp. cbn [option_map absf zt_id].
      repeat split. apply Hl. eapply nth_error_In; eauto. }
  rewrite E1, E2. cbn [bind absf zt_id].
  rewrite (equiv_ok z pi (tr_type tr) F Ipi Itr). cbn [bind].
  destruct (eqv_types z pi (tr_type tr)).
  - apply IH; lia.
  - exists (Some tr). repeat split; auto.
    intros tr' H; inversion H; subst. eapply nth_error_In; eauto.
Qed.

Lemma prev_scan_ok z l : zfacts z ->
  (forall tr, In tr l -> idx_ok z (tr_type tr) = true) ->
  forall k, (k <= length l)%nat ->
  exists k', prev_scan z l k = OK k' /\ (k' <= k)%nat /\
    zprev_scan (eqv_types z) (map (absf z) l) (z_default z) k =
      match k' with O => None | S j => nth_error (map (absf z) l) j end.
Proof.
  intros F Hl. induction k as [|j IH]; intros Hk.
  - exists O. repeat split; auto.
  - cbn [prev_scan zprev_scan]. rewrite nth_error_map.
    destruct (nth_lt_some l j ltac:(lia)) as [cur Hc]. rewrite Hc. cbn [option_map bind].
    pose proof (Hl cur (nth_error_In _ _ Hc)) as Icur.
    assert (exists pi, idx_ok z pi = true /\
              match j with
              | O => OK (z_default z)
              | S k'' => match nth_error l k'' with Some p => OK (tr_type p) | None => Err OOB end
              end = OK pi /\
              match j with
              | O => z_default z
              | S i => match nth_error (map (absf z) l) i with Some p => zt_id p | None => z_default z end
              end = pi) as (pi & Ipi & E1 & E2).
    { destruct j as [|i].
      - exists (z_default z). repeat split. apply zf_dflt; exact F.
      - destruct (nth_lt_some l i ltac:(lia)) as [p Hp].
        exists (tr_type p). rewrite nth_error_map, Hp. cbn [option_map absf zt_id].
        repeat split. apply Hl. eapply nth_error_In; eauto. }
    rewrite E1, E2. cbn [bind absf zt_id].
    rewrite (equiv_ok z pi (tr_type cur) F Ipi Icur). cbn [bind].
    destruct (eqv_types z pi (tr_type cur)).
    + destruct (IH ltac:(lia)) as (k' & P1 & P2 & P3).
      exists k'. repeat split; auto.
    + exists (S j). repeat split; auto.
      rewrite nth_error_map, Hc. reflexivity.
Qed.

Lemma pp_lower_idx z t : forall l,
  partition_point (fun tr => negb (tr_time tr <? t)) l = lower_idx (map (absf z) l) t.
Proof.
  induction l as [|a r IH]; [reflexivity|].
  cbn [partition_point map lower_idx absf zt_time].
  destruct (tr_time a <? t); cbn [negb]; [rewrite IH|]; reflexivity.
Qed.

(* ================================================================== *)
(* The searched table                                                   *)

Lemma dbb_facts z : zfacts z ->
  (forall tr, In tr (fst (drop_big_bang z)) -> In tr (z_trans z)) /\
  times_sorted_l (fst (drop_big_bang z)) = true /\
  zz_tr (searched z) = map (absf z) (fst (drop_big_bang z)) /\
  zz_did (searched z) = z_default z.
Proof.
  intros F. pose proof (zf_times_sorted z F) as Hs.
  split; [|split; [apply drop_bb_sorted; exact Hs|]].
  - unfold drop_big_bang. destruct (z_trans z) as [|t0 r]; [auto|].
    destruct (tr_time t0 <=? big_bang); cbn [fst]; auto. intros tr H; right; exact H.
  - unfold searched, drop_big_bang. destruct (z_trans z) as [|t0 r] eqn:E.
    + rewrite abs_zone_eq. unfold absl. rewrite E. split; reflexivity.
    + destruct (tr_time t0 <=? big_bang); cbn [fst].
      * rewrite abs_zone_eq. unfold absl. rewrite E. split; reflexivity.
      * rewrite abs_zone_eq. unfold absl. rewrite E. split; reflexivity.
Qed.

Lemma searched_ti z : zfacts z -> times_increasing (zz_tr (searched z)) = true.
Proof.
  intros F. pose proof (zf_ti z F) as H. unfold searched.
  destruct (z_trans z) as [|t0 r] eqn:E; [rewrite abs_zone_eq; exact H|].
  destruct (tr_time t0 <=? big_bang); [|rewrite abs_zone_eq; exact H].
  rewrite abs_zone_eq. cbn [zz_tr]. unfold absl in *. rewrite E in *. cbn [map tl].
  cbn [map] in H. eapply ti_tail; eauto.
Qed.

Lemma searched_In z tr : In tr (zz_tr (searched z)) -> In tr (zz_tr (abs_zone z)).
Proof.
  unfold searched. destruct (z_trans z) as [|t0 r] eqn:E; [auto|].
  destruct (tr_time t0 <=? big_bang); [|auto].
  cbn [zz_tr]. destruct (zz_tr (abs_zone z)); cbn [tl]; [auto|]. intros H; right; exact H.
Qed.

(* the two civil seconds stored with a table entry, and the +1 step *)
Lemma report_fact z tr : zfacts z -> In tr (z_trans z) ->
  plus64 0 (tr_pcs tr) 1 = OK (cos (prev_local z (absf z tr) + 1)) /\
  tr_cs tr = cos (zt_time (absf z tr) + zt_off (absf z tr)).
Proof.
  intros F Hin. apply In_nth_error in Hin. destruct Hin as [i Hi].
  destruct (tr_facts z i tr F Hi) as (_ & HT & HO & Ccs & Cpcs & Na).
  destruct (zf_wf z F) as (ST & _).
  destruct (zoff_at_trans (doff z) (absl z) i _ ST Na) as [Z1 _]. cbn [absf zt_time] in Z1.
  pose proof (ob_bound z i F) as HB.
  change (2 ^ 59) with 576460752303423488 in HT.
  change (2 ^ 60) with 1152921504606846976 in HT.
  split; [|exact Ccs].
  unfold prev_local. rewrite abs_zone_eq. unfold zoff. cbn [zz_tr zz_doff absf zt_time].
  rewrite Z1, Cpcs. apply plus_cos; unfold int64, min64, max64, SB; lia.
Qed.

(* ================================================================== *)
(* The refinement theorems                                              *)

Lemma next_refines_gen z t : zfacts z ->
  next_transition z t =
    OK (match znext (eqv_types z) (searched z) t with
        | None => None
        | Some tr => Some (cos (prev_local z tr + 1), cos (zt_time tr + zt_off tr))
        end).
Proof.
  intros F.
  destruct (zf_first z F) as (f & r & Hfr & _).
  destruct (dbb_facts z F) as (Hincl & Hs & Htr & Hdid).
  unfold next_transition, znext. rewrite Htr, Hdid, Hfr. clear Htr Hdid.
  destruct (drop_big_bang z) as [l n]. cbn [fst] in *.
  rewrite bound_search_ok by (apply times_sorted_part_ub; exact Hs). cbn [bind].
  rewrite (pp_upper_idx z), map_length.
  assert (Hidx : forall tr, In tr l -> idx_ok z (tr_type tr) = true).
  { intros tr H. apply (zf_trs z F tr). apply Hincl; exact H. }
  destruct (next_scan_ok z l F Hidx (S (length l)) (upper_idx (map (absf z) l) t) ltac:(lia) ltac:(lia))
    as (r0 & Hr & Hz & Hin).
  rewrite Hr, Hz. cbn [bind].
  destruct r0 as [tr|]; cbn [option_map]; [|reflexivity].
  destruct (report_fact z tr F (Hincl _ (Hin _ eq_refl))) as [P C].
  rewrite P. cbn [bind]. rewrite C. reflexivity.
Qed.

Lemma prev_refines_gen z t : zfacts z ->
  prev_transition z t =
    OK (match zprev (eqv_types z) (searched z) t with
        | None => None
        | Some tr => Some (cos (prev_local z tr + 1), cos (zt_time tr + zt_off tr))
        end).
Proof.
  intros F.
  destruct (zf_first z F) as (f & r & Hfr & _).
  destruct (dbb_facts z F) as (Hincl & Hs & Htr & Hdid).
  unfold prev_transition, zprev. rewrite Htr, Hdid, Hfr. clear Htr Hdid.
  destruct (drop_big_bang z) as [l n]. cbn [fst] in *.
  rewrite bound_search_ok by (apply times_sorted_part_lb; exact Hs). cbn [bind].
  rewrite (pp_lower_idx z).
  assert (Hidx : forall tr, In tr l -> idx_ok z (tr_type tr) = true).
  { intros tr H. apply (zf_trs z F tr). apply Hincl; exact H. }
  pose proof (lower_idx_le (map (absf z) l) t) as Hle. rewrite map_length in Hle.
  destruct (prev_scan_ok z l F Hidx (lower_idx (map (absf z) l) t) Hle) as (k' & Hr & Hk & Hz).
  rewrite Hr, Hz. cbn [bind].
  destruct k' as [|j]; [reflexivity|].
  rewrite nth_error_map.
  destruct (nth_lt_some l j ltac:(lia)) as [tr Hn]. rewrite Hn. cbn [option_map bind].
  destruct (report_fact z tr F (Hincl _ (nth_error_In _ _ Hn))) as [P C].
  rewrite P. cbn [bind]. rewrite C. reflexivity.
Qed.

(* no Err for any instant (the int64 hypothesis is in fact not needed: nothing
   is computed from t, it is only compared); None exactly when znext / zprev is
   None; on Some, the entry znext / zprev selects, [to] = the civil second at
   the transition in the new offset, [from] = one second after the last civil
   second in the old offset *)
Lemma next_refines_lemma : forall z t, zone_ok z = true -> int64 t ->
  next_transition z t =
    OK (match znext (eqv_types z) (searched z) t with
        | None => None
        | Some tr => Some (civil_of_seconds (prev_local z tr + 1),
                           civil_of_seconds (zt_time tr + zt_off tr))
        end).
Proof. intros z t Hok _. apply next_refines_gen. apply zone_ok_facts; exact Hok. Qed.

Lemma prev_refines_lemma : forall z t, zone_ok z = true -> int64 t ->
  prev_transition z t =
    OK (match zprev (eqv_types z) (searched z) t with
        | None => None
        | Some tr => Some (civil_of_seconds (prev_local z tr + 1),
                           civil_of_seconds (zt_time tr + zt_off tr))
        end).
Proof. intros z t Hok _. apply prev_refines_gen. apply zone_ok_facts; exact Hok. Qed.

(* the offset stored with a searched entry is the zone's offset at that instant,
   so [report] is a function of the zone function zoff alone *)
Lemma searched_off z tr : zone_ok z = true -> In tr (zz_tr (searched z)) ->
  zt_off tr = zoff (abs_zone z) (zt_time tr) /\
  report z tr = (civil_of_seconds (zt_time tr - 1 + zoff (abs_zone z) (zt_time tr - 1) + 1),
                 civil_of_seconds (zt_time tr + zoff (abs_zone z) (zt_time tr))).
Proof.
  intros Hok Hin. pose proof (zone_ok_facts z Hok) as F.
  apply searched_In in Hin. rewrite abs_zone_eq in Hin. cbn [zz_tr] in Hin.
  apply In_nth_error in Hin. destruct Hin as [i Hi].
  destruct (zf_wf z F) as (ST & _).
  destruct (zoff_at_trans (doff z) (absl z) i _ ST Hi) as [_ Z2].
  assert (zt_off tr = zoff (abs_zone z) (zt_time tr)) as E.
  { rewrite abs_zone_eq. unfold zoff. cbn [zz_tr zz_doff]. symmetry. exact Z2. }
  split; [exact E|]. unfold report, prev_local. rewrite <- E. reflexivity.
Qed.

(* ================================================================== *)
(* Composition with the integer-level specification (C11)               *)

Corollary next_transition_first_after : forall z t, zone_ok z = true -> int64 t ->
  next_transition z t =
    OK (option_map (report z)
          (first_after (zchanges (eqv_types z) (zz_tr (searched z)) (zz_did (searched z))) t)).
Proof.
  intros z t Hok Ht. pose proof (zone_ok_facts z Hok) as F.
  rewrite (next_refines_lemma z t Hok Ht).
  rewrite (znext_spec_lemma (eqv_types z) (searched z) t (searched_ti z F)).
  unfold first_after.
  destruct (filter _ _); reflexivity.
Qed.

Corollary prev_transition_last_before : forall z t, zone_ok z = true -> int64 t ->
  prev_transition z t =
    OK (option_map (report z)
          (last_before (zchanges (eqv_types z) (zz_tr (searched z)) (zz_did (searched z))) t)).
Proof.
  intros z t Hok Ht. pose proof (zone_ok_facts z Hok) as F.
  rewrite (prev_refines_lemma z t Hok Ht).
  rewrite (zprev_spec_lemma (eqv_types z) (searched z) t (searched_ti z F)).
  unfold last_before.
  destruct (rev _); reflexivity.
Qed.

(* starting the change list from an equivalent id gives the same list *)
Lemma zchanges_start z l : forall a b, eqv_types z a b = true ->
  zchanges (eqv_types z) l a = zchanges (eqv_types z) l b.
Proof.
  destruct l as [|x r]; intros a b H; [reflexivity|].
  cbn [zchanges]. rewrite (eqv_types_cong z a b (zt_id x) H). reflexivity.
Qed.

(* with a consistent sentinel the searched table has exactly the zone's changes *)
Lemma changes_searched_full z : bb_consistent z = true ->
  zchanges (eqv_types z) (zz_tr (searched z)) (zz_did (searched z)) =
  zchanges (eqv_types z) (zz_tr (abs_zone z)) (zz_did (abs_zone z)).
Proof.
  unfold bb_consistent, searched. destruct (z_trans z) as [|t0 r] eqn:E; [reflexivity|].
  destruct (tr_time t0 <=? big_bang); [|reflexivity].
  cbn [negb orb]. intros H.
  rewrite abs_zone_eq. cbn [zz_tr zz_did]. unfold absl. rewrite E. cbn [map tl zchanges absf zt_id].
  fold (absf z). rewrite H. apply zchanges_start. exact H.
Qed.

Lemma bb_consistent_same_type z t0 r : z_trans z = t0 :: r -> tr_type t0 = z_default z ->
  bb_consistent z = true.
Proof.
  intros E H. unfold bb_consistent. rewrite E, H, eqv_types_refl. apply orb_true_r.
Qed.

Lemma bb_consistent_no_bb z t0 r : z_trans z = t0 :: r -> big_bang < tr_time t0 ->
  bb_consistent z = true.
Proof.
  intros E H. unfold bb_consistent. rewrite E.
  destruct (Z.leb_spec (tr_time t0) big_bang); [lia|reflexivity].
Qed.

(* the implementation-level results are the first real change after t and the
   last real change before t of the zone itself *)
Corollary next_transition_real_changes : forall z t, zone_ok z = true -> int64 t ->
  bb_consistent z = true ->
  next_transition z t =
    OK (option_map (report z)
          (first_after (zchanges (eqv_types z) (zz_tr (abs_zone z)) (zz_did (abs_zone z))) t)).
Proof.
  intros z t Hok Ht Hb. rewrite (next_transition_first_after z t Hok Ht).
  rewrite (changes_searched_full z Hb). reflexivity.
Qed.

Corollary prev_transition_real_changes : forall z t, zone_ok z = true -> int64 t ->
  bb_consistent z = true ->
  prev_transition z t =
    OK (option_map (report z)
          (last_before (zchanges (eqv_types z) (zz_tr (abs_zone z)) (zz_did (abs_zone z))) t)).
Proof.
  intros z t Hok Ht Hb. rewrite (prev_transition_last_before z t Hok Ht).
  rewrite (changes_searched_full z Hb). reflexivity.
Qed.

(* ================================================================== *)
(* Observation: a file-supplied transition at exactly -2^59 whose type   *)
(* is NOT equivalent to the default type (outside the property's domain: *)
(* the big-bang entry of a well-formed file is a no-op sentinel)          *)

(* Without bb_consistent the implementation does not enumerate the zone's real
   changes.  Two version-2 TZif files, both accepted by the loader and both
   zone_ok:
   - bb_file1: types {0: +0:00, 1: +1:00}, transitions -2^59 -> type 1, 0 -> type 0.
     The offset changes from +1:00 to +0:00 at t = 0 (zoff), znext/zprev on the
     zone report it, NextTransition(-1) and PrevTransition(1) return false:
     the entry at 0 is compared with default_transition_type_ = 0.
   - bb_file2: types {0: +0:00, 1: +1:00, 2: +1:00 (equivalent to 1)},
     transitions -2^59 -> type 1, 0 -> type 2.  Nothing changes at t = 0,
     NextTransition(-1) reports a transition with from = to. *)
Definition be_bytes (n : nat) (v : Z) : list Z :=
  (fix go (n : nat) (v : Z) (acc : list Z) :=
     match n with O => acc | S n' => go n' (v / 256) (v mod 256 :: acc) end) n v [].
Definition tzif_hdr (timecnt typecnt charcnt : Z) : list Z :=
  [84; 90; 105; 102; 50] ++ repeat 0 15 ++ be_bytes 4 0 ++ be_bytes 4 0 ++ be_bytes 4 0
  ++ be_bytes 4 timecnt ++ be_bytes 4 typecnt ++ be_bytes 4 charcnt.
Definition tzif_tt (off dst ab : Z) : list Z := be_bytes 4 off ++ [dst; ab].
Definition tzif_t64 (t : Z) : list Z := be_bytes 8 (if t <? 0 then t + 18446744073709551616 else t).

Definition bb_file1 : list Z :=
  tzif_hdr 0 0 0 ++
  tzif_hdr 2 2 2 ++ tzif_t64 (- 2 ^ 59) ++ tzif_t64 0 ++ [1; 0]
  ++ tzif_tt 0 0 0 ++ tzif_tt 3600 0 0 ++ [65; 0] ++ [10; 10].
Definition bb_file2 : list Z :=
  tzif_hdr 0 0 0 ++
  tzif_hdr 2 3 2 ++ tzif_t64 (- 2 ^ 59) ++ tzif_t64 0 ++ [1; 2]
  ++ tzif_tt 0 0 0 ++ tzif_tt 3600 0 0 ++ tzif_tt 3600 0 0 ++ [65; 0] ++ [10; 10].

Definition c1970 (hh : Z) : fields := mkF 1970 1 1 hh 0 0.

Lemma bigbang_entry_hides_real_change :
  exists z, load_bytes bb_file1 = OK (Some z) /\ zone_ok z = true /\ bb_consistent z = false /\
    zoff (abs_zone z) (-1) = 3600 /\ zoff (abs_zone z) 0 = 0 /\
    znext (eqv_types z) (abs_zone z) (-1) = Some (mkZT 0 0 0) /\
    zprev (eqv_types z) (abs_zone z) 1 = Some (mkZT 0 0 0) /\
    next_transition z (-1) = OK None /\
    prev_transition z 1 = OK None.
Proof.
  destruct (load_bytes bb_file1) as [[z|]|] eqn:E; try (vm_compute in E; discriminate).
  exists z. split; [reflexivity|].
  vm_compute in E. inversion E; subst z. clear E.
  repeat split; vm_compute; reflexivity.
Qed.

Lemma bigbang_entry_reports_noop :
  exists z, load_bytes bb_file2 = OK (Some z) /\ zone_ok z = true /\ bb_consistent z = false /\
    zoff (abs_zone z) (-1) = 3600 /\ zoff (abs_zone z) 0 = 3600 /\
    eqv_types z (zid (abs_zone z) (-1)) (zid (abs_zone z) 0) = true /\
    znext (eqv_types z) (abs_zone z) (-1) = None /\
    next_transition z (-1) = OK (Some (c1970 1, c1970 1)).
Proof.
  destruct (load_bytes bb_file2) as [[z|]|] eqn:E; try (vm_compute in E; discriminate).
  exists z. split; [reflexivity|].
  vm_compute in E. inversion E; subst z. clear E.
  repeat split; vm_compute; reflexivity.
Qed.

Print Assumptions next_refines_lemma.
Print Assumptions prev_refines_lemma.
Print Assumptions next_transition_real_changes.
Print Assumptions prev_transition_real_changes.
Print Assumptions bigbang_entry_hides_real_change.
Print Assumptions bigbang_entry_reports_noop.
