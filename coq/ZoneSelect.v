(* ZoneSelect.v — C14: the transition selected by BreakTime / MakeTime does not
   depend on the search hints, and every std::upper_bound / lower_bound call is
   made on a range partitioned with respect to its predicate. *)
From CCTZ Require Import Base Cal CivilImpl ZoneLoad ZoneImpl ZoneHist.
From Coq Require Import Lia ZifyBool.
Local Open Scope Z_scope.

(* ------------------------------------------------------------------ *)
(* fields_ltb is a strict order (no validity needed)                   *)

Lemma fields_ltb_irrefl a : fields_ltb a a = false.
Proof. unfold fields_ltb. lia. Qed.

Lemma fields_ltb_trans a b c :
  fields_ltb a b = true -> fields_ltb b c = true -> fields_ltb a c = true.
Proof. unfold fields_ltb. lia. Qed.

Lemma lt64_irrefl a : lt64 a a = false.
Proof. apply fields_ltb_irrefl. Qed.
Lemma lt64_trans a b c : lt64 a b = true -> lt64 b c = true -> lt64 a c = true.
Proof. apply fields_ltb_trans. Qed.

(* ------------------------------------------------------------------ *)
(* partition points                                                     *)

Lemma forallb_cons {A} (f : A -> bool) x r : forallb f (x :: r) = f x && forallb f r.
Proof. reflexivity. Qed.

Section Partition.
Context {A : Type} (after : A -> bool).

(* adjacent monotonicity: once [after] holds it keeps holding *)
Fixpoint adj_mono (l : list A) : Prop :=
  match l with
  | a :: ((b :: _) as r) => (after a = true -> after b = true) /\ adj_mono r
  | _ => True
  end.

Lemma adj_mono_tail x r : adj_mono (x :: r) -> adj_mono r.
Proof. destruct r as [|y r]; [intros; exact I|]. intros [_ H]; exact H. Qed.

Lemma adj_mono_all : forall r x, adj_mono (x :: r) -> after x = true -> forallb after (x :: r) = true.
Proof.
  induction r as [|y r IH]; intros x H Hx; rewrite forallb_cons, Hx; cbn [andb].
  - reflexivity.
  - destruct H as [H1 H2]. apply IH; auto.
Qed.

Lemma adj_mono_partitioned l : adj_mono l -> partitioned after l = true.
Proof.
  unfold partitioned. induction l as [|x r IH]; intros H.
  - reflexivity.
  - cbn [partition_point]. destruct (after x) eqn:Hx; cbn [skipn].
    + apply adj_mono_all; auto.
    + apply IH. eapply adj_mono_tail; eauto.
Qed.

Lemma pp_before : forall l i a,
  (i < partition_point after l)%nat -> nth_error l i = Some a -> after a = false.
Proof.
  induction l as [|x r IH]; intros i a Hi Hn; cbn [partition_point] in Hi.
  - lia.
  - destruct (after x) eqn:Hx; [lia|].
    destruct i as [|i]; cbn [nth_error] in Hn.
    + inversion Hn; subst; auto.
    + apply (IH i); auto. lia.
Qed.

Lemma skipn_all_after : forall k l i a,
  forallb after (skipn k l) = true -> (k <= i)%nat -> nth_error l i = Some a -> after a = true.
Proof.
  induction k as [|k IH]; intros l i a H Hi Hn.
  - cbn [skipn] in H. rewrite forallb_forall in H. apply H. eapply nth_error_In; eauto.
  - destruct l as [|x r]. { destruct i; discriminate. }
    destruct i as [|i]; [lia|]. cbn [skipn] in H. cbn [nth_error] in Hn.
    apply (IH r i); auto. lia.
Qed.

Lemma pp_after l i a : partitioned after l = true ->
  (partition_point after l <= i)%nat -> nth_error l i = Some a -> after a = true.
Proof. unfold partitioned. intros H Hi Hn. eapply skipn_all_after; eauto. Qed.

(* a neighbouring (not-after, after) pair pins the partition point *)
Lemma pp_unique l h a b : partitioned after l = true ->
  nth_error l h = Some a -> nth_error l (S h) = Some b ->
  after a = false -> after b = true -> partition_point after l = S h.
Proof.
  intros Hp Ha Hb Fa Tb.
  destruct (lt_dec (S h) (partition_point after l)) as [L|L].
  - rewrite (pp_before _ _ _ L Hb) in Tb. discriminate.
  - destruct (le_dec (partition_point after l) h) as [M|M].
    + rewrite (pp_after _ _ _ Hp M Ha) in Fa. discriminate.
    + lia.
Qed.

Lemma bound_search_ok l : partitioned after l = true ->
  bound_search after l = OK (partition_point after l).
Proof. intros H. unfold bound_search. rewrite H. reflexivity. Qed.

End Partition.

(* the partition point is characterised on both sides *)
Lemma partition_point_spec {A} (after : A -> bool) l : partitioned after l = true ->
  forall i a, nth_error l i = Some a ->
    ((i < partition_point after l)%nat -> after a = false) /\
    ((partition_point after l <= i)%nat -> after a = true).
Proof.
  intros Hp i a Hn. split; intros Hi.
  - eapply pp_before; eauto.
  - eapply pp_after; eauto.
Qed.

Lemma times_sorted_adj (after : transition -> bool) l :
  (forall a b, tr_time a < tr_time b -> after a = true -> after b = true) ->
  times_sorted_l l = true -> adj_mono after l.
Proof.
  intros Hm. induction l as [|a l IH]; [intros; exact I|].
  destruct l as [|b r]; [intros; exact I|].
  intros H.
  change (times_sorted_l (a :: b :: r)) with ((tr_time a <? tr_time b) && times_sorted_l (b :: r)) in H.
  apply andb_true_iff in H. destruct H as [H1 H2]. split.
  - apply Hm. lia.
  - apply IH; exact H2.
Qed.

Lemma civil_sorted_adj (after : transition -> bool) l :
  (forall a b, lt64 (tr_cs a) (tr_cs b) = true -> after a = true -> after b = true) ->
  civil_sorted_l l = true -> adj_mono after l.
Proof.
  intros Hm. induction l as [|a l IH]; [intros; exact I|].
  destruct l as [|b r]; [intros; exact I|].
  intros H.
  change (civil_sorted_l (a :: b :: r)) with (lt64 (tr_cs a) (tr_cs b) && civil_sorted_l (b :: r)) in H.
  apply andb_true_iff in H. destruct H as [H1 H2]. split.
  - apply Hm. exact H1.
  - apply IH; exact H2.
Qed.

Lemma times_sorted_tail a l : times_sorted_l (a :: l) = true -> times_sorted_l l = true.
Proof.
  destruct l as [|b r]; [reflexivity|]. intros H.
  change (times_sorted_l (a :: b :: r)) with ((tr_time a <? tr_time b) && times_sorted_l (b :: r)) in H.
  apply andb_true_iff in H. tauto.
Qed.

(* upper_bound on unix_time *)
Lemma times_sorted_part_ub t l : times_sorted_l l = true ->
  partitioned (fun tr => t <? tr_time tr) l = true.
Proof.
  intros H. apply adj_mono_partitioned. apply times_sorted_adj; auto.
  intros a b Hab Ha. lia.
Qed.

(* lower_bound on unix_time *)
Lemma times_sorted_part_lb t l : times_sorted_l l = true ->
  partitioned (fun tr => negb (tr_time tr <? t)) l = true.
Proof.
  intros H. apply adj_mono_partitioned. apply times_sorted_adj; auto.
  intros a b Hab Ha. lia.
Qed.

(* upper_bound on civil_sec *)
Lemma civil_sorted_part cs l : civil_sorted_l l = true ->
  partitioned (fun tr => lt64 cs (tr_cs tr)) l = true.
Proof.
  intros H. apply adj_mono_partitioned. apply civil_sorted_adj; auto.
  intros a b Hab Ha. eapply lt64_trans; eauto.
Qed.

(* ------------------------------------------------------------------ *)
(* res_fst plumbing                                                     *)

Lemma res_fst_bind_cong {A B : Type} (r1 r2 : res (A * Z)) (F : A * Z -> res (B * Z)) :
  res_fst r1 = res_fst r2 ->
  (forall a h1 h2, res_fst (F (a, h1)) = res_fst (F (a, h2))) ->
  res_fst (bind r1 F) = res_fst (bind r2 F).
Proof.
  intros H HF. destruct r1 as [[a1 h1]|e1], r2 as [[a2 h2]|e2]; cbn in *; try discriminate.
  - inversion H; subst. apply HF.
  - congruence.
Qed.

(* both sides run the same code except for the hint carried in the result *)
Ltac hstep :=
  match goal with
  | |- ?x = ?x => reflexivity
  | |- res_fst (OK _) = res_fst (OK _) => reflexivity
  | |- res_fst (bind ?r _) = res_fst (bind ?r _) => destruct r; cbn [bind]; [|reflexivity]
  | |- res_fst (match ?x with _ => _ end) = res_fst (match ?x with _ => _ end) => destruct x
  end.

Lemma nth_tr_in_range z i : (i < length (z_trans z))%nat ->
  exists a, nth_tr z i = OK a /\ nth_error (z_trans z) i = Some a.
Proof.
  intros H. unfold nth_tr. destruct (nth_error (z_trans z) i) eqn:E.
  - eexists; eauto.
  - apply nth_error_None in E. lia.
Qed.

(* ------------------------------------------------------------------ *)
(* BreakTime                                                            *)

Lemma break_inner_hint z h t : times_sorted_l (z_trans z) = true ->
  res_fst (break_inner z h t) = res_fst (break_inner z 0 t).
Proof.
  intros Hs. unfold break_inner. cbv zeta.
  destruct ((0 <? h) && (h <? Z.of_nat (length (z_trans z)))) eqn:Hh; [|reflexivity].
  assert (Hr : 0 < h < Z.of_nat (length (z_trans z))) by lia.
  destruct (nth_tr_in_range z (Z.to_nat (h - 1))) as [a [Ea Na]]; [lia|].
  destruct (nth_tr_in_range z (Z.to_nat h)) as [b [Eb Nb]]; [lia|].
  rewrite Ea. cbn [bind]. destruct (tr_time a <=? t) eqn:Hat; [|reflexivity].
  rewrite Eb. cbn [bind]. destruct (t <? tr_time b) eqn:Hbt; [|reflexivity].
  cbn [bind].
  replace (Z.to_nat h) with (S (Z.to_nat (h - 1))) in Nb by lia.
  assert (Hpp : partition_point (fun tr => t <? tr_time tr) (z_trans z) = S (Z.to_nat (h - 1))).
  { apply (pp_unique _ _ _ a b);
      [apply times_sorted_part_ub; exact Hs | exact Na | exact Nb | cbv beta; lia | cbv beta; lia]. }
  change ((0 <? 0) && (0 <? Z.of_nat (length (z_trans z)))) with false. cbv iota. cbn [bind].
  rewrite bound_search_ok by (apply times_sorted_part_ub; exact Hs).
  cbn [bind]. rewrite Hpp. rewrite Ea. cbn [bind].
  destruct (local_time_tr z t a); reflexivity.
Qed.

Lemma break_noext_hint z h t : times_sorted_l (z_trans z) = true ->
  res_fst (break_time_noext z h t) = res_fst (break_time_noext z 0 t).
Proof.
  intros Hs. unfold break_time_noext. repeat hstep.
  apply break_inner_hint; exact Hs.
Qed.

Lemma break_time_hint z h t : times_sorted_l (z_trans z) = true ->
  res_fst (break_time z h t) = res_fst (break_time z 0 t).
Proof.
  intros Hs. unfold break_time. repeat hstep.
  - apply res_fst_bind_cong.
    + match goal with |- res_fst (if ?c then _ else _) = _ => destruct c end;
        [reflexivity | apply break_noext_hint; exact Hs].
    + intros; cbv beta iota; repeat hstep.
  - apply break_noext_hint; exact Hs.
Qed.

Lemma hint_irrelevant_break_lemma : forall z h1 h2 t, table_sorted z = true ->
  res_fst (break_time z h1 t) = res_fst (break_time z h2 t).
Proof.
  intros z h1 h2 t Hs. unfold table_sorted in Hs. apply andb_true_iff in Hs. destruct Hs as [Ht _].
  rewrite (break_time_hint z h1 t Ht), (break_time_hint z h2 t Ht). reflexivity.
Qed.

(* ------------------------------------------------------------------ *)
(* MakeTime                                                             *)

Lemma make_find_hint z h cs : civil_sorted_l (z_trans z) = true ->
  res_fst (make_find z h cs) = res_fst (make_find z 0 cs).
Proof.
  intros Hs. unfold make_find. cbv zeta. repeat hstep.
  destruct ((0 <? h) && (h <? Z.of_nat (length (z_trans z)))) eqn:Hh; [|reflexivity].
  assert (Hr : 0 < h < Z.of_nat (length (z_trans z))) by lia.
  destruct (nth_tr_in_range z (Z.to_nat (h - 1))) as [ta [Ea Na]]; [lia|].
  destruct (nth_tr_in_range z (Z.to_nat h)) as [tb [Eb Nb]]; [lia|].
  rewrite Ea. cbn [bind]. destruct (le64 (tr_cs ta) cs) eqn:Hat; [|reflexivity].
  rewrite Eb. cbn [bind]. destruct (lt64 cs (tr_cs tb)) eqn:Hbt; [|reflexivity].
  replace (Z.to_nat h) with (S (Z.to_nat (h - 1))) in Nb by lia.
  unfold le64 in Hat. apply negb_true_iff in Hat.
  assert (Hpp : partition_point (fun tr => lt64 cs (tr_cs tr)) (z_trans z) = S (Z.to_nat (h - 1))).
  { apply (pp_unique _ _ _ ta tb);
      [apply civil_sorted_part; exact Hs | exact Na | exact Nb | exact Hat | exact Hbt]. }
  change ((0 <? 0) && (0 <? Z.of_nat (length (z_trans z)))) with false. cbv iota. cbn [bind].
  rewrite bound_search_ok by (apply civil_sorted_part; exact Hs).
  cbn [bind res_fst]. rewrite Hpp. f_equal. lia.
Qed.

Lemma make_noext_hint z h cs : civil_sorted_l (z_trans z) = true ->
  res_fst (make_time_noext z h cs) = res_fst (make_time_noext z 0 cs).
Proof.
  intros Hs. unfold make_time_noext. cbv zeta.
  apply res_fst_bind_cong; [apply make_find_hint; exact Hs|].
  intros; cbv beta iota; repeat hstep.
Qed.

Lemma time_local_hint z h cs sh : civil_sorted_l (z_trans z) = true ->
  res_fst (time_local z h cs sh) = res_fst (time_local z 0 cs sh).
Proof.
  intros Hs. unfold time_local.
  apply res_fst_bind_cong; [apply make_noext_hint; exact Hs|].
  intros; cbv beta iota zeta; repeat hstep.
Qed.

Lemma make_time_hint z h cs : civil_sorted_l (z_trans z) = true ->
  res_fst (make_time z h cs) = res_fst (make_time z 0 cs).
Proof.
  intros Hs. unfold make_time. cbv zeta. repeat hstep.
  - apply time_local_hint; exact Hs.
  - apply make_noext_hint; exact Hs.
Qed.

Lemma hint_irrelevant_make_lemma : forall z h1 h2 cs, table_sorted z = true ->
  res_fst (make_time z h1 cs) = res_fst (make_time z h2 cs).
Proof.
  intros z h1 h2 cs Hs. unfold table_sorted in Hs. apply andb_true_iff in Hs. destruct Hs as [_ Hc].
  rewrite (make_time_hint z h1 cs Hc), (make_time_hint z h2 cs Hc). reflexivity.
Qed.

(* ------------------------------------------------------------------ *)
(* histories                                                            *)

Lemma history_independent_lemma : forall z st ops, table_sorted z = true ->
  run_ops z st ops = map (fun o => snd (step_op z (0, 0) o)) ops.
Proof.
  intros z st ops Hs. revert st. induction ops as [|o r IH]; intros st; [reflexivity|].
  cbn [run_ops map]. destruct o; cbn [step_op snd fst]; rewrite IH; f_equal; f_equal.
  - apply hint_irrelevant_break_lemma; exact Hs.
  - apply hint_irrelevant_make_lemma; exact Hs.
Qed.

(* ------------------------------------------------------------------ *)
(* Precond can only come out of bound_search                            *)

Definition no_precond {A} (r : res A) : Prop :=
  match r with Err Precond => False | _ => True end.

Lemma no_precond_neq {A} (r : res A) : no_precond r -> r <> Err Precond.
Proof. intros H E. rewrite E in H. exact H. Qed.

Lemma np_OK {A} (a : A) : no_precond (OK a).
Proof. exact I. Qed.
Lemma np_Err {A} e : e <> Precond -> no_precond (@Err A e).
Proof. destruct e; intros H; try exact I. congruence. Qed.
Lemma np_bind {A B} (r : res A) (f : A -> res B) :
  no_precond r -> (forall a, no_precond (f a)) -> no_precond (bind r f).
Proof. intros H1 H2. destruct r as [a|e]; cbn [bind]; [apply H2 | exact H1]. Qed.

Create HintDb np.

Ltac np_step :=
  match goal with
  | |- no_precond (OK _) => apply np_OK
  | |- no_precond (Err _) => apply np_Err; discriminate
  | |- _ => solve [auto with np]
  | |- no_precond (bind _ _) => apply np_bind; [|intros]
  | |- no_precond (match ?x with _ => _ end) => destruct x
  | |- no_precond (let _ := _ in _) => cbv zeta
  end.
Ltac np := repeat np_step.

(* Base *)
Lemma np_chk64 z : no_precond (chk64 z). Proof. unfold chk64; np. Qed.
#[local] Hint Resolve np_chk64 : np.
Lemma np_add64 a b : no_precond (add64 a b). Proof. unfold add64; np. Qed.
Lemma np_sub64 a b : no_precond (sub64 a b). Proof. unfold sub64; np. Qed.
Lemma np_mul64 a b : no_precond (mul64 a b). Proof. unfold mul64; np. Qed.
Lemma np_neg64 a : no_precond (neg64 a). Proof. unfold neg64; np. Qed.
Lemma np_narrow8 a : no_precond (narrow8 a). Proof. unfold narrow8; np. Qed.
#[local] Hint Resolve np_add64 np_sub64 np_mul64 np_neg64 np_narrow8 : np.

(* CivilImpl *)
Lemma np_year_index64 y m : no_precond (year_index64 y m).
Proof. unfold year_index64; np. Qed.
Lemma np_days_per_year64 y m : no_precond (days_per_year64 y m).
Proof. unfold days_per_year64; np. Qed.
Lemma np_days_per_month64 y m : no_precond (days_per_month64 y m).
Proof. unfold days_per_month64; np. Qed.
#[local] Hint Resolve np_year_index64 np_days_per_year64 np_days_per_month64 : np.

Lemma np_century_loop fuel : forall d ey yi, no_precond (century_loop fuel d ey yi).
Proof. induction fuel as [|f IH]; intros; cbn [century_loop]; np. Qed.
Lemma np_years4_loop fuel : forall d ey yi, no_precond (years4_loop fuel d ey yi).
Proof. induction fuel as [|f IH]; intros; cbn [years4_loop]; np. Qed.
Lemma np_year_loop fuel : forall d ey m, no_precond (year_loop fuel d ey m).
Proof. induction fuel as [|f IH]; intros; cbn [year_loop]; np. Qed.
Lemma np_month_loop fuel : forall d ey m, no_precond (month_loop fuel d ey m).
Proof. induction fuel as [|f IH]; intros; cbn [month_loop]; np. Qed.
#[local] Hint Resolve np_century_loop np_years4_loop np_year_loop np_month_loop : np.

Lemma np_n_day64 y m d cd hh mm ss : no_precond (n_day64 y m d cd hh mm ss).
Proof. unfold n_day64; cbv zeta; np. Qed.
#[local] Hint Resolve np_n_day64 : np.
Lemma np_n_mon64 y m d cd hh mm ss : no_precond (n_mon64 y m d cd hh mm ss).
Proof. unfold n_mon64; cbv zeta; np. Qed.
#[local] Hint Resolve np_n_mon64 : np.
Lemma np_n_hour64 y m d cd hh mm ss : no_precond (n_hour64 y m d cd hh mm ss).
Proof. unfold n_hour64; cbv zeta; np. Qed.
#[local] Hint Resolve np_n_hour64 : np.
Lemma np_n_min64 y m d hh ch mm ss : no_precond (n_min64 y m d hh ch mm ss).
Proof. unfold n_min64; cbv zeta; np. Qed.
#[local] Hint Resolve np_n_min64 : np.
Lemma np_n_sec64 y m d hh mm ss : no_precond (n_sec64 y m d hh mm ss).
Proof. unfold n_sec64; cbv zeta; np. Qed.
#[local] Hint Resolve np_n_sec64 : np.
Lemma np_construct64 tag y m d hh mm ss : no_precond (construct64 tag y m d hh mm ss).
Proof. unfold construct64; np. Qed.
#[local] Hint Resolve np_construct64 : np.
Lemma np_step64 tag f n : no_precond (step64 tag f n).
Proof. unfold step64; np. Qed.
#[local] Hint Resolve np_step64 : np.
Lemma np_plus64 tag f n : no_precond (plus64 tag f n).
Proof. unfold plus64; np. Qed.
#[local] Hint Resolve np_plus64 : np.

Lemma np_scale_add64 v f a : no_precond (scale_add64 v f a).
Proof. unfold scale_add64; np. Qed.
Lemma np_ymd_ord64 y m d : no_precond (ymd_ord64 y m d).
Proof. unfold ymd_ord64; cbv zeta; np. Qed.
#[local] Hint Resolve np_scale_add64 np_ymd_ord64 : np.
Lemma np_day_difference64 y1 m1 d1 y2 m2 d2 : no_precond (day_difference64 y1 m1 d1 y2 m2 d2).
Proof. unfold day_difference64; cbv zeta; np. Qed.
#[local] Hint Resolve np_day_difference64 : np.
Lemma np_difference64 tag f1 f2 : no_precond (difference64 tag f1 f2).
Proof.
  unfold difference64, diff_second64, diff_minute64, diff_hour64, diff_day64, diff_month64, diff_year64; np.
Qed.
#[local] Hint Resolve np_difference64 : np.

(* ZoneLoad *)
Lemma np_nth_res {A} (l : list A) i : no_precond (nth_res l i).
Proof. unfold nth_res; np. Qed.
Lemma np_cstr_from s i : no_precond (cstr_from s i).
Proof. unfold cstr_from; np. Qed.
#[local] Hint Resolve np_nth_res np_cstr_from : np.
Lemma np_local_time_tt abbrs t ty : no_precond (local_time_tt abbrs t ty).
Proof. unfold local_time_tt; np. Qed.
Lemma np_local_time_tr z t tr : no_precond (local_time_tr z t tr).
Proof. unfold local_time_tr; np. Qed.
Lemma np_equiv_transitions abbrs types i1 i2 : no_precond (equiv_transitions abbrs types i1 i2).
Proof. unfold equiv_transitions; np. Qed.
#[local] Hint Resolve np_local_time_tt np_local_time_tr np_equiv_transitions : np.

(* ZoneImpl *)
Lemma np_nth_tr z i : no_precond (nth_tr z i).
Proof. unfold nth_tr; np. Qed.
#[local] Hint Resolve np_nth_tr : np.

Lemma np_break_inner z h t : times_sorted_l (z_trans z) = true -> no_precond (break_inner z h t).
Proof.
  intros Hs. unfold break_inner. cbv zeta.
  rewrite bound_search_ok by (apply times_sorted_part_ub; exact Hs). np.
Qed.
#[local] Hint Resolve np_break_inner : np.
Lemma np_break_time_noext z h t : times_sorted_l (z_trans z) = true -> no_precond (break_time_noext z h t).
Proof. intros Hs. unfold break_time_noext. np. Qed.
#[local] Hint Resolve np_break_time_noext : np.
Lemma np_year_shift cs s : no_precond (year_shift cs s).
Proof. unfold year_shift; np. Qed.
#[local] Hint Resolve np_year_shift : np.
Lemma np_break_time z h t : times_sorted_l (z_trans z) = true -> no_precond (break_time z h t).
Proof. intros Hs. unfold break_time. np. Qed.

Lemma np_make_skipped tr cs : no_precond (make_skipped tr cs).
Proof. unfold make_skipped; np. Qed.
Lemma np_make_repeated tr cs : no_precond (make_repeated tr cs).
Proof. unfold make_repeated; np. Qed.
#[local] Hint Resolve np_make_skipped np_make_repeated : np.
Lemma np_make_find z h cs : civil_sorted_l (z_trans z) = true -> no_precond (make_find z h cs).
Proof.
  intros Hs. unfold make_find. cbv zeta.
  rewrite bound_search_ok by (apply civil_sorted_part; exact Hs). np.
Qed.
#[local] Hint Resolve np_make_find : np.
Lemma np_make_time_noext z h cs : civil_sorted_l (z_trans z) = true -> no_precond (make_time_noext z h cs).
Proof. intros Hs. unfold make_time_noext. cbv zeta. np. Qed.
#[local] Hint Resolve np_make_time_noext : np.
Lemma np_time_local z h cs sh : civil_sorted_l (z_trans z) = true -> no_precond (time_local z h cs sh).
Proof. intros Hs. unfold time_local. cbv zeta. np. Qed.
#[local] Hint Resolve np_time_local : np.
Lemma np_make_time z h cs : civil_sorted_l (z_trans z) = true -> no_precond (make_time z h cs).
Proof. intros Hs. unfold make_time. cbv zeta. np. Qed.

Lemma drop_bb_sorted z : times_sorted_l (z_trans z) = true ->
  times_sorted_l (fst (drop_big_bang z)) = true.
Proof.
  unfold drop_big_bang. destruct (z_trans z) as [|t0 r]; intros Hs; [reflexivity|].
  destruct (tr_time t0 <=? big_bang); cbn [fst]; [eapply times_sorted_tail; eauto | exact Hs].
Qed.

Lemma np_next_scan fuel : forall z l k, no_precond (next_scan fuel z l k).
Proof. induction fuel as [|f IH]; intros; cbn [next_scan]; np. Qed.
Lemma np_prev_scan z l k : no_precond (prev_scan z l k).
Proof. induction k as [|k IH]; cbn [prev_scan]; np. Qed.
#[local] Hint Resolve np_next_scan np_prev_scan : np.

Lemma np_next_transition z t : times_sorted_l (z_trans z) = true -> no_precond (next_transition z t).
Proof.
  intros Hs. unfold next_transition. pose proof (drop_bb_sorted z Hs) as Hd.
  destruct (z_trans z); [exact I|].
  revert Hd. destruct (drop_big_bang z) as [lst n]. cbn [fst]. intros Hd.
  rewrite bound_search_ok by (apply times_sorted_part_ub; exact Hd). np.
Qed.

Lemma np_prev_transition z t : times_sorted_l (z_trans z) = true -> no_precond (prev_transition z t).
Proof.
  intros Hs. unfold prev_transition. pose proof (drop_bb_sorted z Hs) as Hd.
  destruct (z_trans z); [exact I|].
  revert Hd. destruct (drop_big_bang z) as [lst n]. cbn [fst]. intros Hd.
  rewrite bound_search_ok by (apply times_sorted_part_lb; exact Hd). np.
Qed.

(* the four bound_search calls, stated directly *)
Lemma searches_partitioned : forall z t cs, table_sorted z = true ->
  bound_search (fun tr => t <? tr_time tr) (z_trans z)
    = OK (partition_point (fun tr => t <? tr_time tr) (z_trans z)) /\
  bound_search (fun tr => lt64 cs (tr_cs tr)) (z_trans z)
    = OK (partition_point (fun tr => lt64 cs (tr_cs tr)) (z_trans z)) /\
  bound_search (fun tr => t <? tr_time tr) (fst (drop_big_bang z))
    = OK (partition_point (fun tr => t <? tr_time tr) (fst (drop_big_bang z))) /\
  bound_search (fun tr => negb (tr_time tr <? t)) (fst (drop_big_bang z))
    = OK (partition_point (fun tr => negb (tr_time tr <? t)) (fst (drop_big_bang z))).
Proof.
  intros z t cs Hs. unfold table_sorted in Hs. apply andb_true_iff in Hs. destruct Hs as [Ht Hc].
  pose proof (drop_bb_sorted z Ht) as Hd.
  repeat split; apply bound_search_ok.
  - apply times_sorted_part_ub; exact Ht.
  - apply civil_sorted_part; exact Hc.
  - apply times_sorted_part_ub; exact Hd.
  - apply times_sorted_part_lb; exact Hd.
Qed.

Lemma searches_meet_precondition_lemma : forall z h t cs, table_sorted z = true ->
  break_time z h t <> Err Precond /\ make_time z h cs <> Err Precond /\
  next_transition z t <> Err Precond /\ prev_transition z t <> Err Precond.
Proof.
  intros z h t cs Hs. unfold table_sorted in Hs. apply andb_true_iff in Hs. destruct Hs as [Ht Hc].
  repeat split; apply no_precond_neq.
  - apply np_break_time; exact Ht.
  - apply np_make_time; exact Hc.
  - apply np_next_transition; exact Ht.
  - apply np_prev_transition; exact Ht.
Qed.
