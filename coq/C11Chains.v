(* C11Chains.v — the remaining clauses of property C11: the CHAINS of
   next_transition from min() and of prev_transition from max() enumerate the
   same finite list (the zone's real changes) in opposite orders and then
   answer false; next_transition(max()) and prev_transition(min()) are false;
   a zone without real changes answers false everywhere.

   Layers:
   1. lists: iterating first_after / last_before over a strictly increasing list;
   2. integer level (ZoneZ): chains of znext / zprev, and zprev_chain (the mirror
      of Properties_C11.znext_chain);
   3. implementation level (ZoneImpl.next_transition / prev_transition, checked
      int64, civil fields), for every zone_ok z with bb_consistent z:
      - next_chain / prev_chain: the instant of each reported change is threaded
        by the integer-level znext / zprev run in parallel;
      - next_chain_client / prev_chain_client: the loop a client can run, exactly
        the one documented in include/cctz/time_zone.h:
            while (tz.next_transition(tp, &trans)) tp = tz.lookup(trans.to).trans;
        (make_time on the reported [to], field cl_trans).  BOTH forms are proved;
        the client form needs one more visible premise, last_year_covers (MakeTime
        on the [to] of the table's last entry must not leave the table branch); an
        accepted file where that premise fails is evaluated at the end
        (accepted_last_year_not_covering: the client chains are still right there);
   4. end cases (no bb_consistent needed), zones without real changes (timecnt = 0
      files, built-in fixed zones), every accepted byte string, examples. *)
From CCTZ Require Import Base Cal CivilImpl PosixImpl FixedImpl ZoneLoad ZoneImpl ZoneZ ZoneHist ZoneRefineDefs.
From CCTZ Require Import CalProofs CivilNorm ZoneZProofs ZoneRefine C11Defs NextPrevRefine LoadCert.
Require Import Lia ZifyBool.
Local Open Scope Z_scope.

Local Ltac Zify.zify_post_hook ::= idtac.

(* ================================================================== *)
(* 1. Lists                                                             *)

Definition after (t : Z) (l : list ztr) : list ztr := filter (fun tr => t <? zt_time tr) l.
Definition before (t : Z) (l : list ztr) : list ztr := filter (fun tr => zt_time tr <? t) l.

Lemma first_after_eq l t : first_after l t = match after t l with x :: _ => Some x | [] => None end.
Proof. reflexivity. Qed.
Lemma last_before_eq l t : last_before l t = match rev (before t l) with x :: _ => Some x | [] => None end.
Proof. reflexivity. Qed.

Lemma filter_all {A} (p : A -> bool) l : (forall y, In y l -> p y = true) -> filter p l = l.
Proof.
  induction l as [|x r IH]; intros H; cbn [filter]; [reflexivity|].
  rewrite (H x (or_introl eq_refl)). f_equal. apply IH. intros y Hy. apply H. right; exact Hy.
Qed.

Lemma ti_cons x r : (forall y, In y r -> zt_time x < zt_time y) -> times_increasing r = true ->
  times_increasing (x :: r) = true.
Proof.
  intros H T. destruct r as [|y r']; [reflexivity|]. rewrite ti_cons2, T, andb_true_r.
  apply Z.ltb_lt. apply H. left; reflexivity.
Qed.

(* iterate first_after: None = out of fuel; Some l = stopped on "no further change" *)
Fixpoint fwd (fuel : nat) (l : list ztr) (t : Z) : option (list ztr) :=
  match fuel with
  | O => None
  | S f => match first_after l t with
           | None => Some []
           | Some tr => option_map (cons tr) (fwd f l (zt_time tr))
           end
  end.
Fixpoint bwd (fuel : nat) (l : list ztr) (t : Z) : option (list ztr) :=
  match fuel with
  | O => None
  | S f => match last_before l t with
           | None => Some []
           | Some tr => option_map (cons tr) (bwd f l (zt_time tr))
           end
  end.

Lemma after_step l : times_increasing l = true -> forall t x F,
  after t l = x :: F -> after (zt_time x) l = F.
Proof.
  induction l as [|a r IH]; intros T t x F H; [discriminate|].
  unfold after in *. cbn [filter] in *.
  pose proof (ti_head_lt a r T) as HL.
  destruct (Z.ltb_spec t (zt_time a)) as [Hlt|Hge].
  - inversion H; subst x. clear H.
    destruct (Z.ltb_spec (zt_time a) (zt_time a)); [lia|].
    rewrite !filter_all; [reflexivity| |].
    + intros y Hy. apply Z.ltb_lt. specialize (HL y Hy). lia.
    + intros y Hy. apply Z.ltb_lt. exact (HL y Hy).
  - assert (Hx : In x (filter (fun tr => t <? zt_time tr) r)) by (rewrite H; left; reflexivity).
    apply filter_In in Hx. destruct Hx as [_ Hx]. apply Z.ltb_lt in Hx.
    destruct (Z.ltb_spec (zt_time x) (zt_time a)); [lia|].
    exact (IH (ti_tail _ _ T) t x F H).
Qed.

Lemma before_step l : times_increasing l = true -> forall t x G,
  before t l = G ++ [x] -> before (zt_time x) l = G.
Proof.
  induction l as [|a r IH]; intros T t x G H.
  - destruct G; discriminate.
  - unfold before in *. cbn [filter] in *.
    pose proof (ti_head_lt a r T) as HL.
    destruct (Z.ltb_spec (zt_time a) t) as [Hlt|Hge].
    + destruct (filter (fun tr => zt_time tr <? t) r) as [|b B] eqn:E.
      * destruct G as [|g G']; [|destruct G'; discriminate].
        inversion H; subst x. clear H.
        destruct (Z.ltb_spec (zt_time a) (zt_time a)); [lia|].
        apply filter_none. intros y Hy. apply Z.ltb_ge. specialize (HL y Hy). lia.
      * destruct G as [|g G'].
        { cbn [app] in H. inversion H. }
        cbn [app] in H. inversion H; subst g. clear H.
        match goal with K : b :: B = G' ++ [x] |- _ => rename K into H end.
        assert (Hx : In x r).
        { assert (In x (filter (fun tr => zt_time tr <? t) r)) as K.
          { rewrite E, H. apply in_or_app. right. left. reflexivity. }
          apply filter_In in K. tauto. }
        specialize (HL x Hx).
        destruct (Z.ltb_spec (zt_time a) (zt_time x)); [|lia].
        f_equal. apply (IH (ti_tail _ _ T) t x G'). rewrite E. exact H.
    + rewrite filter_none in H.
      * destruct G; discriminate.
      * intros y Hy. apply Z.ltb_ge. specialize (HL y Hy). lia.
Qed.

Lemma fwd_spec l : times_increasing l = true -> forall fuel t,
  (length (after t l) < fuel)%nat -> fwd fuel l t = Some (after t l).
Proof.
  intros T. induction fuel as [|f IH]; intros t Hf; [lia|].
  cbn [fwd]. rewrite first_after_eq.
  destruct (after t l) as [|x F] eqn:E; [reflexivity|].
  pose proof (after_step l T t x F E) as S.
  rewrite IH by (rewrite S; cbn [length] in Hf; lia).
  rewrite S. reflexivity.
Qed.

Lemma bwd_spec l : times_increasing l = true -> forall fuel t,
  (length (before t l) < fuel)%nat -> bwd fuel l t = Some (rev (before t l)).
Proof.
  intros T. induction fuel as [|f IH]; intros t Hf; [lia|].
  cbn [bwd]. rewrite last_before_eq.
  destruct (rev (before t l)) as [|x F] eqn:E; [reflexivity|].
  assert (E' : before t l = rev F ++ [x]).
  { rewrite <- (rev_involutive (before t l)), E. reflexivity. }
  pose proof (before_step l T t x (rev F) E') as S.
  rewrite IH.
  - rewrite S, rev_involutive. reflexivity.
  - rewrite S. rewrite E', app_length in Hf. cbn [length] in Hf. lia.
Qed.

(* ================================================================== *)
(* 2. Integer level                                                     *)

Section ZChains.
Variable eqv : Z -> Z -> bool.

Lemma zchanges_ti l : times_increasing l = true -> forall did,
  times_increasing (zchanges eqv l did) = true.
Proof.
  induction l as [|x r IH]; intros T did; [reflexivity|].
  cbn [zchanges]. pose proof (IH (ti_tail _ _ T)) as IH'.
  destruct (eqv did (zt_id x)); [apply IH'|].
  apply ti_cons; [|apply IH'].
  intros y Hy. apply zchanges_In in Hy. exact (ti_head_lt x r T y Hy).
Qed.

Lemma zchanges_length l : forall did, (length (zchanges eqv l did) <= length l)%nat.
Proof.
  induction l as [|x r IH]; intros did; cbn [zchanges length]; [lia|].
  destruct (eqv did (zt_id x)); cbn [length]; specialize (IH (zt_id x)); lia.
Qed.

(* item 3: the mirror of znext_chain *)
Lemma zprev_chain_lemma : forall z t, times_increasing (zz_tr z) = true ->
  (zprev eqv z t = None <-> last_before (zchanges eqv (zz_tr z) (zz_did z)) t = None) /\
  (forall tr, zprev eqv z t = Some tr -> zt_time tr < t /\ In tr (zchanges eqv (zz_tr z) (zz_did z))).
Proof.
  intros z t H. rewrite (zprev_spec_lemma eqv z t H). fold (last_before (zchanges eqv (zz_tr z) (zz_did z)) t).
  split; [tauto|]. intros tr Htr. rewrite last_before_eq in Htr.
  destruct (rev (before t (zchanges eqv (zz_tr z) (zz_did z)))) as [|y ys] eqn:E; [discriminate|].
  inversion Htr; subst y.
  assert (Hin : In tr (before t (zchanges eqv (zz_tr z) (zz_did z)))).
  { apply in_rev. rewrite E. left; reflexivity. }
  apply filter_In in Hin. destruct Hin as [H1 H2]. apply Z.ltb_lt in H2. auto.
Qed.

(* chains of znext / zprev *)
Fixpoint znext_iter (fuel : nat) (z : zz) (t : Z) : option (list ztr) :=
  match fuel with
  | O => None
  | S f => match znext eqv z t with
           | None => Some []
           | Some tr => option_map (cons tr) (znext_iter f z (zt_time tr))
           end
  end.
Fixpoint zprev_iter (fuel : nat) (z : zz) (t : Z) : option (list ztr) :=
  match fuel with
  | O => None
  | S f => match zprev eqv z t with
           | None => Some []
           | Some tr => option_map (cons tr) (zprev_iter f z (zt_time tr))
           end
  end.

Lemma znext_iter_fwd z : times_increasing (zz_tr z) = true -> forall fuel t,
  znext_iter fuel z t = fwd fuel (zchanges eqv (zz_tr z) (zz_did z)) t.
Proof.
  intros T. induction fuel as [|f IH]; intros t; [reflexivity|].
  cbn [znext_iter fwd]. rewrite (znext_spec_lemma eqv z t T).
  fold (first_after (zchanges eqv (zz_tr z) (zz_did z)) t).
  destruct (first_after _ t); [rewrite IH|]; reflexivity.
Qed.

Lemma zprev_iter_bwd z : times_increasing (zz_tr z) = true -> forall fuel t,
  zprev_iter fuel z t = bwd fuel (zchanges eqv (zz_tr z) (zz_did z)) t.
Proof.
  intros T. induction fuel as [|f IH]; intros t; [reflexivity|].
  cbn [zprev_iter bwd]. rewrite (zprev_spec_lemma eqv z t T).
  fold (last_before (zchanges eqv (zz_tr z) (zz_did z)) t).
  destruct (last_before _ t); [rewrite IH|]; reflexivity.
Qed.

(* from below every transition the chain of znext lists all the real changes, in
   order, and then stops; from above every transition the chain of zprev lists the
   same changes in the opposite order *)
Theorem znext_iter_all : forall z lo fuel, times_increasing (zz_tr z) = true ->
  (forall tr, In tr (zz_tr z) -> lo < zt_time tr) -> (length (zz_tr z) < fuel)%nat ->
  znext_iter fuel z lo = Some (zchanges eqv (zz_tr z) (zz_did z)).
Proof.
  intros z lo fuel T Hlo Hf. rewrite (znext_iter_fwd z T).
  assert (E : after lo (zchanges eqv (zz_tr z) (zz_did z)) = zchanges eqv (zz_tr z) (zz_did z)).
  { apply filter_all. intros y Hy. apply Z.ltb_lt. apply Hlo. eapply zchanges_In; eauto. }
  rewrite fwd_spec; [rewrite E; reflexivity|apply zchanges_ti; exact T|].
  rewrite E. pose proof (zchanges_length (zz_tr z) (zz_did z)). lia.
Qed.

Theorem zprev_iter_all : forall z hi fuel, times_increasing (zz_tr z) = true ->
  (forall tr, In tr (zz_tr z) -> zt_time tr < hi) -> (length (zz_tr z) < fuel)%nat ->
  zprev_iter fuel z hi = Some (rev (zchanges eqv (zz_tr z) (zz_did z))).
Proof.
  intros z hi fuel T Hhi Hf. rewrite (zprev_iter_bwd z T).
  assert (E : before hi (zchanges eqv (zz_tr z) (zz_did z)) = zchanges eqv (zz_tr z) (zz_did z)).
  { apply filter_all. intros y Hy. apply Z.ltb_lt. apply Hhi. eapply zchanges_In; eauto. }
  rewrite bwd_spec; [rewrite E; reflexivity|apply zchanges_ti; exact T|].
  rewrite E. pose proof (zchanges_length (zz_tr z) (zz_did z)). lia.
Qed.
End ZChains.

Theorem zprev_chain : forall eqv z t, times_increasing (zz_tr z) = true ->
  (zprev eqv z t = None <-> last_before (zchanges eqv (zz_tr z) (zz_did z)) t = None) /\
  (forall tr, zprev eqv z t = Some tr -> zt_time tr < t /\ In tr (zchanges eqv (zz_tr z) (zz_did z))).
Proof. exact zprev_chain_lemma. Qed.


(* ================================================================== *)
(* 2b. Integer level: the civil second shown at a transition is mapped  *)
(*     back to that transition's instant by MakeTime's [trans] field    *)

Lemma ztrans_at_list po l m a : WF po l -> nth_error l m = Some a ->
  ztrans (zmakeL po l (at_ a)) = zt_time a.
Proof.
  intros W Ha. pose proof W as [HT [HA [HG Hne]]].
  destruct (zoff_at_trans po l m a HT Ha) as [_ Z2].
  assert (D : zt_time a + zoff_list l po (zt_time a) = at_ a) by (rewrite Z2; reflexivity).
  destruct (zmake_cases po l (at_ a) Hne HA) as [m' [HU|[HS|HR]]].
  - destruct (specU po l (at_ a) m' W HU) as [_ [S2 _]]. destruct HU as [E _]. rewrite E.
    cbn [zunique ztrans]. symmetry. apply S2. exact D.
  - destruct HS as [a' [Ha' [_ HL]]].
    destruct (specS po l (at_ a) m' a' W Ha' HL) as [S1 _]. exfalso. exact (S1 _ D).
  - destruct HR as [a' [Ha' [E [HL Hb]]]]. rewrite E. cbn [zrepeated ztrans].
    destruct (Nat.lt_trichotomy m m') as [Hlt|[Heq|Hgt]].
    + pose proof (HA m m' a a' Hlt Ha Ha'). lia.
    + subst m'. congruence.
    + destruct (nth_lt_some l (S m')) as [b Hb0]. { apply nth_some_lt in Ha. lia. }
      destruct (Hb b Hb0) as [H1 _].
      pose proof (sortedK_le at_ l (S m') m b a HA ltac:(lia) Hb0 Ha). lia.
Qed.

Lemma ztrans_at z a : wfz z = true -> In a (zz_tr z) -> ztrans (zmake z (at_ a)) = zt_time a.
Proof.
  destruct z as [l po did]. intros W Hin. apply wfz_WF in W. cbn [zz_tr] in Hin.
  apply In_nth_error in Hin. destruct Hin as [m Hm].
  rewrite zmake_zmakeL. exact (ztrans_at_list po l m a W Hm).
Qed.

(* ================================================================== *)
(* 3. Implementation level                                              *)

Local Notation cos := civil_of_seconds.

(* the zone's real changes: the table entries whose type is not equivalent to the
   type in force before them *)
Definition changes (z : zone) : list ztr :=
  zchanges (eqv_types z) (zz_tr (abs_zone z)) (zz_did (abs_zone z)).

(* 3a. the instant is threaded by the integer-level znext / zprev of the zone, run
   in parallel.  Err Fuel = the chain did not stop within [fuel] calls; OK l = the
   last call answered false *)
Fixpoint next_chain (fuel : nat) (z : zone) (t : Z) : res (list (fields * fields)) :=
  match fuel with
  | O => Err Fuel
  | S f =>
      do r <- next_transition z t ;;
      match r with
      | None => OK []
      | Some p =>
          match znext (eqv_types z) (abs_zone z) t with
          | None => Err Precond
          | Some tr => do rest <- next_chain f z (zt_time tr) ;; OK (p :: rest)
          end
      end
  end.

Fixpoint prev_chain (fuel : nat) (z : zone) (t : Z) : res (list (fields * fields)) :=
  match fuel with
  | O => Err Fuel
  | S f =>
      do r <- prev_transition z t ;;
      match r with
      | None => OK []
      | Some p =>
          match zprev (eqv_types z) (abs_zone z) t with
          | None => Err Precond
          | Some tr => do rest <- prev_chain f z (zt_time tr) ;; OK (p :: rest)
          end
      end
  end.

(* 3b. the loop of include/cctz/time_zone.h: the next query instant is re-derived
   from the reported [to] by the zone itself: tp = tz.lookup(trans.to).trans.
   The MakeTime search hint is threaded as the C++ does (it does not matter). *)
Fixpoint next_chain_client (fuel : nat) (z : zone) (hint : Z) (t : Z) : res (list (fields * fields)) :=
  match fuel with
  | O => Err Fuel
  | S f =>
      do r <- next_transition z t ;;
      match r with
      | None => OK []
      | Some p =>
          do '(cl, hint') <- make_time z hint (snd p) ;;
          do rest <- next_chain_client f z hint' (cl_trans cl) ;;
          OK (p :: rest)
      end
  end.

Fixpoint prev_chain_client (fuel : nat) (z : zone) (hint : Z) (t : Z) : res (list (fields * fields)) :=
  match fuel with
  | O => Err Fuel
  | S f =>
      do r <- prev_transition z t ;;
      match r with
      | None => OK []
      | Some p =>
          do '(cl, hint') <- make_time z hint (snd p) ;;
          do rest <- prev_chain_client f z hint' (cl_trans cl) ;;
          OK (p :: rest)
      end
  end.

Lemma abs_ti z : zfacts z -> times_increasing (zz_tr (abs_zone z)) = true.
Proof. intros F. exact (zf_ti z F). Qed.

Lemma E59 : 2 ^ 59 = 576460752303423488. Proof. reflexivity. Qed.
Lemma E60 : 2 ^ 60 = 1152921504606846976. Proof. reflexivity. Qed.

Lemma abs_In z x : zfacts z -> In x (zz_tr (abs_zone z)) ->
  - 2 ^ 59 <= zt_time x <= 2 ^ 60 /\ -93599 <= zt_off x <= 93599.
Proof.
  intros F Hin. change (zz_tr (abs_zone z)) with (map (absf z) (z_trans z)) in Hin.
  apply in_map_iff in Hin. destruct Hin as (tr & <- & Hin).
  destruct (zf_trs z F tr Hin) as [I B]. cbn [absf zt_time zt_off].
  split; [exact B|]. apply off_bound; assumption.
Qed.

Lemma changes_In z x : In x (changes z) -> In x (zz_tr (abs_zone z)).
Proof. apply zchanges_In. Qed.

Lemma changes_int64 z x : zfacts z -> In x (changes z) -> int64 (zt_time x).
Proof.
  intros F H. destruct (abs_In z x F (changes_In z x H)) as [B _].
  rewrite E59, E60 in B. unfold int64, min64, max64. lia.
Qed.

Lemma changes_ti z : zfacts z -> times_increasing (changes z) = true.
Proof. intros F. apply zchanges_ti. apply abs_ti; exact F. Qed.

(* every table instant is strictly inside the int64 range: nothing sits AT min64 / max64 *)
Lemma after_min z : zfacts z -> after min64 (changes z) = changes z.
Proof.
  intros F. apply filter_all. intros y Hy. apply Z.ltb_lt.
  destruct (abs_In z y F (changes_In z y Hy)) as [B _]. rewrite E59 in B. unfold min64. lia.
Qed.
Lemma before_max z : zfacts z -> before max64 (changes z) = changes z.
Proof.
  intros F. apply filter_all. intros y Hy. apply Z.ltb_lt.
  destruct (abs_In z y F (changes_In z y Hy)) as [B _]. rewrite E60 in B. unfold max64. lia.
Qed.
Lemma after_max z : zfacts z -> after max64 (changes z) = [].
Proof.
  intros F. apply filter_none. intros y Hy. apply Z.ltb_ge.
  destruct (abs_In z y F (changes_In z y Hy)) as [B _]. rewrite E60 in B. unfold max64. lia.
Qed.
Lemma before_min z : zfacts z -> before min64 (changes z) = [].
Proof.
  intros F. apply filter_none. intros y Hy. apply Z.ltb_ge.
  destruct (abs_In z y F (changes_In z y Hy)) as [B _]. rewrite E59 in B. unfold min64. lia.
Qed.

Lemma changes_length z : (length (changes z) <= length (z_trans z))%nat.
Proof.
  unfold changes. pose proof (zchanges_length (eqv_types z) (zz_tr (abs_zone z)) (zz_did (abs_zone z))) as H.
  change (zz_tr (abs_zone z)) with (map (absf z) (z_trans z)) in H at 2. rewrite map_length in H. exact H.
Qed.

Lemma filter_length_le {A} (p : A -> bool) l : (length (filter p l) <= length l)%nat.
Proof. induction l as [|x r IH]; cbn [filter length]; [lia|]. destruct (p x); cbn [length]; lia. Qed.

(* ---- the instant-threaded chains, from any instant ---- *)
Lemma next_chain_after z : zone_ok z = true -> bb_consistent z = true ->
  forall fuel t, int64 t -> (length (after t (changes z)) < fuel)%nat ->
  next_chain fuel z t = OK (map (report z) (after t (changes z))).
Proof.
  intros Hok Hb. pose proof (zone_ok_facts z Hok) as F.
  induction fuel as [|f IH]; intros t Ht Hf; [lia|].
  cbn [next_chain]. rewrite (next_transition_real_changes z t Hok Ht Hb). cbn [bind].
  rewrite (znext_spec_lemma (eqv_types z) (abs_zone z) t (abs_ti z F)).
  fold (changes z). rewrite first_after_eq. fold (after t (changes z)).
  destruct (after t (changes z)) as [|x R] eqn:E; [reflexivity|].
  cbn [option_map].
  pose proof (after_step (changes z) (changes_ti z F) t x R E) as S.
  assert (Hx : In x (changes z)).
  { assert (In x (after t (changes z))) as K by (rewrite E; left; reflexivity).
    apply filter_In in K. tauto. }
  rewrite IH; [|exact (changes_int64 z x F Hx)|rewrite S; cbn [length] in Hf; lia].
  rewrite S. reflexivity.
Qed.

Lemma prev_chain_before z : zone_ok z = true -> bb_consistent z = true ->
  forall fuel t, int64 t -> (length (before t (changes z)) < fuel)%nat ->
  prev_chain fuel z t = OK (map (report z) (rev (before t (changes z)))).
Proof.
  intros Hok Hb. pose proof (zone_ok_facts z Hok) as F.
  induction fuel as [|f IH]; intros t Ht Hf; [lia|].
  cbn [prev_chain]. rewrite (prev_transition_real_changes z t Hok Ht Hb). cbn [bind].
  rewrite (zprev_spec_lemma (eqv_types z) (abs_zone z) t (abs_ti z F)).
  fold (changes z). rewrite last_before_eq. fold (before t (changes z)).
  destruct (rev (before t (changes z))) as [|x R] eqn:E; [reflexivity|].
  cbn [option_map].
  assert (E' : before t (changes z) = rev R ++ [x]).
  { rewrite <- (rev_involutive (before t (changes z))), E. reflexivity. }
  pose proof (before_step (changes z) (changes_ti z F) t x (rev R) E') as S.
  assert (Hx : In x (changes z)).
  { assert (In x (before t (changes z))) as K by (rewrite E'; apply in_or_app; right; left; reflexivity).
    apply filter_In in K. tauto. }
  rewrite IH; [|exact (changes_int64 z x F Hx)|].
  - rewrite S, rev_involutive. reflexivity.
  - rewrite S. rewrite E', app_length in Hf. cbn [length] in Hf. lia.
Qed.

(* ---- MakeTime on the reported [to] gives back the instant of the change ---- *)

(* what the extended-zone branch of MakeTime needs: the table's last entry is not
   beyond local year last_year_ (ExtendTransitions sets last_year_ to exactly that
   year; the same premise is visible in Properties_C02/C03/C06) *)
Definition last_year_covers (z : zone) : Prop :=
  z_extended z = false \/
  (forall l, last_opt (z_trans z) = Some l -> fy (tr_cs l) <= z_last_year z).

Lemma last_at_max z x : zfacts z -> In x (zz_tr (abs_zone z)) ->
  forall l, last_opt (z_trans z) = Some l ->
  at_ x <= at_ (absf z l) /\ tr_cs l = cos (at_ (absf z l)).
Proof.
  intros F Hin l Hl. destruct (last_opt_nth _ _ Hl) as [Hn Hpos].
  destruct (tr_facts z _ l F Hn) as (_ & _ & _ & Ccs & _ & Na).
  split; [|exact Ccs].
  apply In_nth_error in Hin. destruct Hin as [i Hi].
  destruct (zf_wf z F) as (_ & HA & _).
  change (zz_tr (abs_zone z)) with (absl z) in Hi.
  apply (sortedK_le at_ (absl z) i (length (z_trans z) - 1) x (absf z l) HA); auto.
  apply nth_some_lt in Hi. rewrite absl_length in Hi. lia.
Qed.

Lemma make_time_at z x : zone_ok z = true -> last_year_covers z ->
  In x (zz_tr (abs_zone z)) -> forall h,
  exists cl h', make_time z h (snd (report z x)) = OK (cl, h') /\ cl_trans cl = zt_time x.
Proof.
  intros Hok Hly Hin h. pose proof (zone_ok_facts z Hok) as F.
  destruct (abs_In z x F Hin) as [BT BO]. rewrite E59, E60 in BT.
  unfold report. cbn [snd]. fold (at_ x).
  assert (BA : - SB <= at_ x <= SB) by (unfold at_, SB; lia).
  destruct (make_refines_lemma z h (cos (at_ x)) Hok (valid_cos _) (year_ok _ BA)) as (h' & HM).
  { destruct Hly as [He|Hl]; [left; exact He|right].
    destruct (zf_last z F) as (l & Hl' & _).
    destruct (last_at_max z x F Hin l Hl') as [H1 H2].
    specialize (Hl l Hl'). rewrite H2 in Hl.
    pose proof (cos_year_mono _ _ H1). lia. }
  cbv zeta in HM. rewrite sec_of_cos in HM.
  eexists. exists h'. split; [exact HM|]. cbn [cl_trans].
  assert (W : wfz (abs_zone z) = true).
  { unfold zone_ok in Hok. rewrite !andb_true_iff in Hok. tauto. }
  rewrite (ztrans_at (abs_zone z) x W Hin).
  apply clamp_id. unfold int64, min64, max64. lia.
Qed.

(* ---- the client chains, from any instant ---- *)
Lemma next_chain_client_after z : zone_ok z = true -> bb_consistent z = true -> last_year_covers z ->
  forall fuel hint t, int64 t -> (length (after t (changes z)) < fuel)%nat ->
  next_chain_client fuel z hint t = OK (map (report z) (after t (changes z))).
Proof.
  intros Hok Hb Hly. pose proof (zone_ok_facts z Hok) as F.
  induction fuel as [|f IH]; intros hint t Ht Hf; [lia|].
  cbn [next_chain_client]. rewrite (next_transition_real_changes z t Hok Ht Hb). cbn [bind].
  fold (changes z). rewrite first_after_eq.
  destruct (after t (changes z)) as [|x R] eqn:E; [reflexivity|].
  cbn [option_map].
  pose proof (after_step (changes z) (changes_ti z F) t x R E) as S.
  assert (Hx : In x (changes z)).
  { assert (In x (after t (changes z))) as K by (rewrite E; left; reflexivity).
    apply filter_In in K. tauto. }
  destruct (make_time_at z x Hok Hly (changes_In z x Hx) hint) as (cl & h' & HM & HT).
  rewrite HM. cbn [bind]. rewrite HT.
  rewrite IH; [|exact (changes_int64 z x F Hx)|rewrite S; cbn [length] in Hf; lia].
  rewrite S. reflexivity.
Qed.

Lemma prev_chain_client_before z : zone_ok z = true -> bb_consistent z = true -> last_year_covers z ->
  forall fuel hint t, int64 t -> (length (before t (changes z)) < fuel)%nat ->
  prev_chain_client fuel z hint t = OK (map (report z) (rev (before t (changes z)))).
Proof.
  intros Hok Hb Hly. pose proof (zone_ok_facts z Hok) as F.
  induction fuel as [|f IH]; intros hint t Ht Hf; [lia|].
  cbn [prev_chain_client]. rewrite (prev_transition_real_changes z t Hok Ht Hb). cbn [bind].
  fold (changes z). rewrite last_before_eq.
  destruct (rev (before t (changes z))) as [|x R] eqn:E; [reflexivity|].
  cbn [option_map].
  assert (E' : before t (changes z) = rev R ++ [x]).
  { rewrite <- (rev_involutive (before t (changes z))), E. reflexivity. }
  pose proof (before_step (changes z) (changes_ti z F) t x (rev R) E') as S.
  assert (Hx : In x (changes z)).
  { assert (In x (before t (changes z))) as K by (rewrite E'; apply in_or_app; right; left; reflexivity).
    apply filter_In in K. tauto. }
  destruct (make_time_at z x Hok Hly (changes_In z x Hx) hint) as (cl & h' & HM & HT).
  rewrite HM. cbn [bind]. rewrite HT.
  rewrite IH; [|exact (changes_int64 z x F Hx)|].
  - rewrite S, rev_involutive. reflexivity.
  - rewrite S. rewrite E', app_length in Hf. cbn [length] in Hf. lia.
Qed.

(* ================================================================== *)
(* 4. Main theorems                                                     *)

(* ---- 4.1 the CHAIN clause ---- *)

(* instant-threaded: from min() the chain of next_transition reports exactly the
   zone's real changes, in order, and the next call answers false (OK: a Fuel
   error would mean "still answering true"); from max() the chain of
   prev_transition reports exactly the same list reversed *)
Theorem c11_next_chain_from_min : forall z fuel, zone_ok z = true -> bb_consistent z = true ->
  (length (z_trans z) < fuel)%nat ->
  next_chain fuel z min64 =
    OK (map (report z) (zchanges (eqv_types z) (zz_tr (abs_zone z)) (zz_did (abs_zone z)))).
Proof.
  intros z fuel Hok Hb Hf. pose proof (zone_ok_facts z Hok) as F. fold (changes z).
  rewrite (next_chain_after z Hok Hb fuel min64); [rewrite (after_min z F); reflexivity|unfold int64, min64, max64; lia|].
  rewrite (after_min z F). pose proof (changes_length z). lia.
Qed.

Theorem c11_prev_chain_from_max : forall z fuel, zone_ok z = true -> bb_consistent z = true ->
  (length (z_trans z) < fuel)%nat ->
  prev_chain fuel z max64 =
    OK (rev (map (report z) (zchanges (eqv_types z) (zz_tr (abs_zone z)) (zz_did (abs_zone z))))).
Proof.
  intros z fuel Hok Hb Hf. pose proof (zone_ok_facts z Hok) as F. fold (changes z).
  rewrite (prev_chain_before z Hok Hb fuel max64); [rewrite (before_max z F), map_rev; reflexivity|unfold int64, min64, max64; lia|].
  rewrite (before_max z F). pose proof (changes_length z). lia.
Qed.

(* the client-runnable form (the loop documented in time_zone.h) *)
Theorem c11_next_chain_client_from_min : forall z fuel hint, zone_ok z = true -> bb_consistent z = true ->
  last_year_covers z -> (length (z_trans z) < fuel)%nat ->
  next_chain_client fuel z hint min64 =
    OK (map (report z) (zchanges (eqv_types z) (zz_tr (abs_zone z)) (zz_did (abs_zone z)))).
Proof.
  intros z fuel hint Hok Hb Hly Hf. pose proof (zone_ok_facts z Hok) as F. fold (changes z).
  rewrite (next_chain_client_after z Hok Hb Hly fuel hint min64);
    [rewrite (after_min z F); reflexivity|unfold int64, min64, max64; lia|].
  rewrite (after_min z F). pose proof (changes_length z). lia.
Qed.

Theorem c11_prev_chain_client_from_max : forall z fuel hint, zone_ok z = true -> bb_consistent z = true ->
  last_year_covers z -> (length (z_trans z) < fuel)%nat ->
  prev_chain_client fuel z hint max64 =
    OK (rev (map (report z) (zchanges (eqv_types z) (zz_tr (abs_zone z)) (zz_did (abs_zone z))))).
Proof.
  intros z fuel hint Hok Hb Hly Hf. pose proof (zone_ok_facts z Hok) as F. fold (changes z).
  rewrite (prev_chain_client_before z Hok Hb Hly fuel hint max64);
    [rewrite (before_max z F), map_rev; reflexivity|unfold int64, min64, max64; lia|].
  rewrite (before_max z F). pose proof (changes_length z). lia.
Qed.

(* "the same finite set in opposite orders" *)
Corollary c11_chains_opposite : forall z fuel, zone_ok z = true -> bb_consistent z = true ->
  (length (z_trans z) < fuel)%nat ->
  exists l, next_chain fuel z min64 = OK l /\ prev_chain fuel z max64 = OK (rev l) /\
            (length l <= length (z_trans z))%nat.
Proof.
  intros z fuel Hok Hb Hf. eexists. split; [apply c11_next_chain_from_min; assumption|].
  split; [apply c11_prev_chain_from_max; assumption|].
  rewrite map_length. exact (changes_length z).
Qed.

Corollary c11_client_chains_opposite : forall z fuel h1 h2, zone_ok z = true -> bb_consistent z = true ->
  last_year_covers z -> (length (z_trans z) < fuel)%nat ->
  exists l, next_chain_client fuel z h1 min64 = OK l /\ prev_chain_client fuel z h2 max64 = OK (rev l) /\
            (length l <= length (z_trans z))%nat.
Proof.
  intros z fuel h1 h2 Hok Hb Hly Hf. eexists. split; [apply c11_next_chain_client_from_min; assumption|].
  split; [apply c11_prev_chain_client_from_max; assumption|].
  rewrite map_length. exact (changes_length z).
Qed.

(* the chains from an arbitrary instant: the changes strictly after t in order,
   the changes strictly before t in reverse order *)
Theorem c11_next_chain_from : forall z fuel t, zone_ok z = true -> bb_consistent z = true -> int64 t ->
  (length (z_trans z) < fuel)%nat ->
  next_chain fuel z t =
    OK (map (report z) (filter (fun tr => t <? zt_time tr)
          (zchanges (eqv_types z) (zz_tr (abs_zone z)) (zz_did (abs_zone z))))).
Proof.
  intros z fuel t Hok Hb Ht Hf. apply (next_chain_after z Hok Hb fuel t Ht).
  pose proof (filter_length_le (fun tr => t <? zt_time tr) (changes z)). pose proof (changes_length z).
  unfold after. lia.
Qed.

Theorem c11_prev_chain_from : forall z fuel t, zone_ok z = true -> bb_consistent z = true -> int64 t ->
  (length (z_trans z) < fuel)%nat ->
  prev_chain fuel z t =
    OK (map (report z) (rev (filter (fun tr => zt_time tr <? t)
          (zchanges (eqv_types z) (zz_tr (abs_zone z)) (zz_did (abs_zone z)))))).
Proof.
  intros z fuel t Hok Hb Ht Hf. apply (prev_chain_before z Hok Hb fuel t Ht).
  pose proof (filter_length_le (fun tr => zt_time tr <? t) (changes z)). pose proof (changes_length z).
  unfold before. lia.
Qed.

(* ---- 4.2 end cases (no bb_consistent needed) ---- *)

Lemma searched_changes_In z x :
  In x (zchanges (eqv_types z) (zz_tr (searched z)) (zz_did (searched z))) -> In x (zz_tr (abs_zone z)).
Proof. intros H. apply searched_In. eapply zchanges_In; eauto. Qed.

(* no table entry lies beyond 2^60, none below -2^59 *)
Theorem c11_next_beyond_table : forall z t, zone_ok z = true -> int64 t -> 2 ^ 60 <= t ->
  next_transition z t = OK None.
Proof.
  intros z t Hok Ht Hge. pose proof (zone_ok_facts z Hok) as F.
  rewrite (next_transition_first_after z t Hok Ht). rewrite first_after_eq.
  unfold after. rewrite filter_none; [reflexivity|].
  intros y Hy. apply Z.ltb_ge. destruct (abs_In z y F (searched_changes_In z y Hy)) as [B _]. lia.
Qed.

Theorem c11_prev_below_table : forall z t, zone_ok z = true -> int64 t -> t <= - 2 ^ 59 ->
  prev_transition z t = OK None.
Proof.
  intros z t Hok Ht Hle. pose proof (zone_ok_facts z Hok) as F.
  rewrite (prev_transition_last_before z t Hok Ht). rewrite last_before_eq.
  unfold before. rewrite filter_none; [reflexivity|].
  intros y Hy. apply Z.ltb_ge. destruct (abs_In z y F (searched_changes_In z y Hy)) as [B _]. lia.
Qed.

Theorem c11_next_at_max : forall z, zone_ok z = true -> next_transition z max64 = OK None.
Proof.
  intros z Hok. apply c11_next_beyond_table; [exact Hok|unfold int64, min64, max64; lia|].
  rewrite E60. unfold max64. lia.
Qed.

Theorem c11_prev_at_min : forall z, zone_ok z = true -> prev_transition z min64 = OK None.
Proof.
  intros z Hok. apply c11_prev_below_table; [exact Hok|unfold int64, min64, max64; lia|].
  rewrite E59. unfold min64. lia.
Qed.

(* the first and the last recorded change: "when tp has its minimum value,
   next_transition returns true and sets trans to the first recorded transition"
   (time_zone.h) -- provided there is one *)
Theorem c11_next_at_min : forall z, zone_ok z = true -> bb_consistent z = true ->
  next_transition z min64 =
    OK (option_map (report z) (hd_error (zchanges (eqv_types z) (zz_tr (abs_zone z)) (zz_did (abs_zone z))))).
Proof.
  intros z Hok Hb. pose proof (zone_ok_facts z Hok) as F.
  rewrite (next_transition_real_changes z min64 Hok ltac:(unfold int64, min64, max64; lia) Hb).
  fold (changes z). rewrite first_after_eq, (after_min z F). destruct (changes z); reflexivity.
Qed.

Theorem c11_prev_at_max : forall z, zone_ok z = true -> bb_consistent z = true ->
  prev_transition z max64 =
    OK (option_map (report z) (hd_error (rev (zchanges (eqv_types z) (zz_tr (abs_zone z)) (zz_did (abs_zone z)))))).
Proof.
  intros z Hok Hb. pose proof (zone_ok_facts z Hok) as F.
  rewrite (prev_transition_real_changes z max64 Hok ltac:(unfold int64, min64, max64; lia) Hb).
  fold (changes z). rewrite last_before_eq, (before_max z F). destruct (rev (changes z)); reflexivity.
Qed.


(* the model's answer on an empty table (never produced by the loader, which always
   leaves at least one entry): false, as the C++ `if (transitions_.empty()) return false` *)
Lemma empty_table_false z t : z_trans z = [] ->
  next_transition z t = OK None /\ prev_transition z t = OK None.
Proof. intros E. unfold next_transition, prev_transition. rewrite E. split; reflexivity. Qed.

(* ---- 4.3 zones without transitions ---- *)

(* The loader never leaves the table empty (a file with timecnt = 0 yields the two
   sentinels -2^59 and 2^31-1, both of the default type; the built-in fixed-offset
   zones carry twelve entries of type 0).  "Without transitions" therefore means:
   no REAL change, i.e. every table entry's type is equivalent to the default type. *)
Lemma zchanges_nil_iff z : forall l did,
  zchanges (eqv_types z) l did = [] <-> (forall x, In x l -> eqv_types z did (zt_id x) = true).
Proof.
  induction l as [|a r IH]; intros did; cbn [zchanges].
  - split; [intros _ x []|reflexivity].
  - destruct (eqv_types z did (zt_id a)) eqn:Ea.
    + rewrite IH. split.
      * intros H x [<-|Hx]; [exact Ea|]. rewrite (eqv_types_cong z did (zt_id a) (zt_id x) Ea). apply H; exact Hx.
      * intros H x Hx. rewrite <- (eqv_types_cong z did (zt_id a) (zt_id x) Ea). apply H. right; exact Hx.
    + split; [discriminate|]. intros H. specialize (H a (or_introl eq_refl)). congruence.
Qed.

Lemma no_changes_iff z :
  changes z = [] <-> (forall tr, In tr (z_trans z) -> eqv_types z (z_default z) (tr_type tr) = true).
Proof.
  unfold changes. rewrite zchanges_nil_iff.
  change (zz_tr (abs_zone z)) with (map (absf z) (z_trans z)). change (zz_did (abs_zone z)) with (z_default z).
  split.
  - intros H tr Hin. apply (H (absf z tr)). apply in_map. exact Hin.
  - intros H x Hx. apply in_map_iff in Hx. destruct Hx as (tr & <- & Hin). apply H; exact Hin.
Qed.

Lemma no_changes_bb z : changes z = [] -> bb_consistent z = true.
Proof.
  intros H. unfold bb_consistent. destruct (z_trans z) as [|t0 r] eqn:E; [reflexivity|].
  rewrite (proj1 (no_changes_iff z) H t0) by (rewrite E; left; reflexivity).
  apply orb_true_r.
Qed.

Theorem c11_no_transitions : forall z t, zone_ok z = true -> int64 t ->
  zchanges (eqv_types z) (zz_tr (abs_zone z)) (zz_did (abs_zone z)) = [] ->
  next_transition z t = OK None /\ prev_transition z t = OK None.
Proof.
  intros z t Hok Ht H. fold (changes z) in H. pose proof (no_changes_bb z H) as Hb.
  rewrite (next_transition_real_changes z t Hok Ht Hb), (prev_transition_real_changes z t Hok Ht Hb).
  fold (changes z). rewrite H. split; reflexivity.
Qed.

(* in particular when every table entry carries the default type index *)
Corollary c11_all_default_type : forall z t, zone_ok z = true -> int64 t ->
  (forall tr, In tr (z_trans z) -> tr_type tr = z_default z) ->
  next_transition z t = OK None /\ prev_transition z t = OK None.
Proof.
  intros z t Hok Ht H. apply c11_no_transitions; auto. fold (changes z). apply no_changes_iff.
  intros tr Hin. rewrite (H tr Hin). apply eqv_types_refl.
Qed.

(* the built-in fixed-offset zones ("UTC", "Fixed/UTC+hh:mm:ss") *)
Corollary c11_fixed_zone : forall off t, -86400 <= off <= 86400 -> int64 t ->
  exists z, reset_to_builtin_utc off = OK z /\
    next_transition z t = OK None /\ prev_transition z t = OK None.
Proof.
  intros off t Ho Ht. exists (fixed_zone off). split; [apply reset_ok; exact Ho|].
  apply c11_all_default_type; [apply fixed_zone_ok_true; exact Ho|exact Ht|].
  intros tr Hin. cbn [fixed_zone z_trans z_default] in *. apply in_map_iff in Hin.
  destruct Hin as (x & <- & _). reflexivity.
Qed.

(* and such a zone really shows one and the same type (up to equivalence) at all instants *)
Theorem c11_no_transitions_constant : forall z t1 t2, zone_ok z = true ->
  zchanges (eqv_types z) (zz_tr (abs_zone z)) (zz_did (abs_zone z)) = [] ->
  eqv_types z (zid (abs_zone z) t1) (zid (abs_zone z) t2) = true.
Proof.
  intros z t1 t2 Hok H. pose proof (zone_ok_facts z Hok) as F.
  assert (R : forall a, eqv_types z a a = true) by (apply eqv_types_refl).
  assert (Tr : forall a b c, eqv_types z a b = true -> eqv_types z b c = true -> eqv_types z a c = true).
  { intros a b c H1 H2. rewrite (eqv_types_cong z a b c H1). exact H2. }
  assert (K : forall a b, a <= b -> eqv_types z (zid (abs_zone z) a) (zid (abs_zone z) b) = true).
  { intros a b Hab. apply (zlookup_const_between_lemma (eqv_types z) (abs_zone z) a b R Tr (abs_ti z F) Hab).
    intros tr Hin. rewrite H in Hin. destruct Hin. }
  destruct (Z.le_ge_cases t1 t2) as [L|L]; [exact (K _ _ L)|].
  specialize (K _ _ L). rewrite <- (eqv_types_cong z _ _ (zid (abs_zone z) t2) K). apply R.
Qed.

(* ---- 4.4 every accepted byte string ---- *)

(* acceptance by the loader + the C02 side condition gaps_wide give zone_ok
   (LoadCert.load_establishes_certificate_lemma).  bb_consistent is NOT implied by
   acceptance (NextPrevRefine.bb_file1 / bb_file2, and accepted_bb_inconsistent below),
   so it stays a visible hypothesis; it holds as soon as the file's first transition is
   later than -2^59 or has the default type (NextPrevRefine.bb_consistent_no_bb /
   bb_consistent_same_type) *)
Theorem c11_chains_every_accepted_file : forall bs z fuel, load_bytes bs = OK (Some z) ->
  gaps_wide (zz_doff (abs_zone z)) (zz_tr (abs_zone z)) = true ->
  bb_consistent z = true -> (length (z_trans z) < fuel)%nat ->
  let l := map (report z) (zchanges (eqv_types z) (zz_tr (abs_zone z)) (zz_did (abs_zone z))) in
  next_chain fuel z min64 = OK l /\ prev_chain fuel z max64 = OK (rev l).
Proof.
  intros bs z fuel H G Hb Hf. pose proof (load_establishes_certificate_lemma _ _ H G) as Hok.
  cbv zeta. split; [apply c11_next_chain_from_min|apply c11_prev_chain_from_max]; assumption.
Qed.

Theorem c11_client_chains_every_accepted_file : forall bs z fuel h1 h2, load_bytes bs = OK (Some z) ->
  gaps_wide (zz_doff (abs_zone z)) (zz_tr (abs_zone z)) = true ->
  bb_consistent z = true -> last_year_covers z -> (length (z_trans z) < fuel)%nat ->
  let l := map (report z) (zchanges (eqv_types z) (zz_tr (abs_zone z)) (zz_did (abs_zone z))) in
  next_chain_client fuel z h1 min64 = OK l /\ prev_chain_client fuel z h2 max64 = OK (rev l).
Proof.
  intros bs z fuel h1 h2 H G Hb Hly Hf. pose proof (load_establishes_certificate_lemma _ _ H G) as Hok.
  cbv zeta. split; [apply c11_next_chain_client_from_min|apply c11_prev_chain_client_from_max]; assumption.
Qed.

Theorem c11_end_cases_every_accepted_file : forall bs z, load_bytes bs = OK (Some z) ->
  gaps_wide (zz_doff (abs_zone z)) (zz_tr (abs_zone z)) = true ->
  next_transition z max64 = OK None /\ prev_transition z min64 = OK None /\
  (zchanges (eqv_types z) (zz_tr (abs_zone z)) (zz_did (abs_zone z)) = [] ->
   forall t, int64 t -> next_transition z t = OK None /\ prev_transition z t = OK None).
Proof.
  intros bs z H G. pose proof (load_establishes_certificate_lemma _ _ H G) as Hok.
  split; [apply c11_next_at_max; exact Hok|]. split; [apply c11_prev_at_min; exact Hok|].
  intros E t Ht. apply c11_no_transitions; assumption.
Qed.

(* ================================================================== *)
(* 5. Examples (vm_compute)                                             *)

(* A version-2 TZif file with five types
     0: +0:00 std "A"   1: +0:00 dst "A"   2: +0:00 dst "B"
     3: +1:00 std "A" (abbr index 0)       4: +1:00 std "A" (abbr index 4: same text)
   and five transitions
     -1000000 -> 1  (is_dst only)      0 -> 2  (abbreviation only)
      1000000 -> 3  (offset)     2000000 -> 4  (NO-OP: nothing observable changes)
      3000000 -> 0  (offset back; the reported [to] is a REPEATED civil second). *)
Definition ex_file : list Z :=
  tzif_hdr 0 0 0 ++
  tzif_hdr 5 5 6 ++ tzif_t64 (-1000000) ++ tzif_t64 0 ++ tzif_t64 1000000 ++ tzif_t64 2000000 ++ tzif_t64 3000000
  ++ [1; 2; 3; 4; 0]
  ++ tzif_tt 0 0 0 ++ tzif_tt 0 1 0 ++ tzif_tt 0 1 2 ++ tzif_tt 3600 0 0 ++ tzif_tt 3600 0 4
  ++ [65; 0; 66; 0; 65; 0] ++ [10; 10].

Definition ex_chain : list (fields * fields) :=
  [ (mkF 1969 12 20 10 13 20, mkF 1969 12 20 10 13 20);     (* is_dst only: from = to *)
    (mkF 1970 1 1 0 0 0,      mkF 1970 1 1 0 0 0);          (* abbreviation only *)
    (mkF 1970 1 12 13 46 40,  mkF 1970 1 12 14 46 40);      (* +0:00 -> +1:00 *)
    (mkF 1970 2 4 18 20 0,    mkF 1970 2 4 17 20 0) ].      (* +1:00 -> +0:00; 2000000 skipped *)

Example c11_chain_example :
  exists z, load_bytes ex_file = OK (Some z) /\
    gaps_wide (zz_doff (abs_zone z)) (zz_tr (abs_zone z)) = true /\
    zone_ok z = true /\ bb_consistent z = true /\ last_year_covers z /\
    map zt_time (zz_tr (abs_zone z)) = [-1000000; 0; 1000000; 2000000; 3000000] /\
    map zt_time (changes z) = [-1000000; 0; 1000000; 3000000] /\
    length (z_trans z) = 5%nat /\
    next_chain 6 z min64 = OK ex_chain /\
    prev_chain 6 z max64 = OK (rev ex_chain) /\
    next_chain_client 6 z 0 min64 = OK ex_chain /\
    prev_chain_client 6 z 0 max64 = OK (rev ex_chain) /\
    (* four changes need five calls: the fifth answers false *)
    next_chain 5 z min64 = OK ex_chain /\ next_chain 4 z min64 = Err Fuel /\
    next_transition z max64 = OK None /\ prev_transition z min64 = OK None.
Proof.
  destruct (load_bytes ex_file) as [[z|]|] eqn:E; try (vm_compute in E; discriminate).
  exists z. split; [reflexivity|].
  vm_compute in E. inversion E; subst z. clear E.
  split; [vm_compute; reflexivity|]. split; [vm_compute; reflexivity|]. split; [vm_compute; reflexivity|].
  split; [left; reflexivity|].
  repeat split; vm_compute; reflexivity.
Qed.

(* a file with timecnt = 0: the loader leaves the two sentinels, both of the default
   type; no real change; both functions answer false, both chains are empty *)
Definition empty_file : list Z :=
  tzif_hdr 0 0 0 ++ tzif_hdr 0 1 2 ++ tzif_tt 3600 0 0 ++ [65; 0] ++ [10; 10].

Example c11_timecnt0_example :
  exists z, load_bytes empty_file = OK (Some z) /\ zone_ok z = true /\
    map (fun tr => (tr_time tr, tr_type tr)) (z_trans z) = [(- 2 ^ 59, 0); (2147483647, 0)] /\
    z_default z = 0 /\ changes z = [] /\
    next_transition z 0 = OK None /\ prev_transition z 0 = OK None /\
    next_chain 3 z min64 = OK [] /\ prev_chain 3 z max64 = OK [] /\
    next_chain_client 3 z 0 min64 = OK [] /\ prev_chain_client 3 z 0 max64 = OK [].
Proof.
  destruct (load_bytes empty_file) as [[z|]|] eqn:E; try (vm_compute in E; discriminate).
  exists z. split; [reflexivity|].
  vm_compute in E. inversion E; subst z. clear E.
  repeat split; vm_compute; reflexivity.
Qed.

(* why bb_consistent is a hypothesis: NextPrevRefine.bb_file1 is accepted, zone_ok,
   has two real changes (at -2^59: +0:00 -> +1:00, at 0: +1:00 -> +0:00), and both
   chains of the implementation are EMPTY: the entry at -2^59 is skipped as "the
   BIG_BANG sentinel" and the entry at 0 is compared with the default type.
   For bb_file2 (one real change, at -2^59) both chains report a change at 0 that
   alters nothing (from = to = 1970-01-01 01:00:00). *)
Example accepted_bb_inconsistent :
  (exists z, load_bytes bb_file1 = OK (Some z) /\ zone_ok z = true /\ bb_consistent z = false /\
     map zt_time (changes z) = [- 2 ^ 59; 0] /\
     map (report z) (changes z) =
       [(mkF (-18267312070) 10 26 17 1 52, mkF (-18267312070) 10 26 18 1 52);
        (mkF 1970 1 1 1 0 0, mkF 1970 1 1 0 0 0)] /\
     next_transition z min64 = OK None /\ prev_transition z max64 = OK None /\
     next_chain_client 3 z 0 min64 = OK [] /\ prev_chain_client 3 z 0 max64 = OK []) /\
  (exists z, load_bytes bb_file2 = OK (Some z) /\ zone_ok z = true /\ bb_consistent z = false /\
     map zt_time (changes z) = [- 2 ^ 59] /\
     next_chain_client 3 z 0 min64 = OK [(mkF 1970 1 1 1 0 0, mkF 1970 1 1 1 0 0)] /\
     prev_chain_client 3 z 0 max64 = OK [(mkF 1970 1 1 1 0 0, mkF 1970 1 1 1 0 0)]).
Proof.
  split.
  - destruct (load_bytes bb_file1) as [[z|]|] eqn:E; try (vm_compute in E; discriminate).
    exists z. split; [reflexivity|].
    vm_compute in E. inversion E; subst z. clear E.
    repeat split; vm_compute; reflexivity.
  - destruct (load_bytes bb_file2) as [[z|]|] eqn:E; try (vm_compute in E; discriminate).
    exists z. split; [reflexivity|].
    vm_compute in E. inversion E; subst z. clear E.
    repeat split; vm_compute; reflexivity.
Qed.


(* the hypothesis last_year_covers of the client form is NOT implied by acceptance:
   with the footer "AAA0BBB,M12.5.0/167,M3.2.0" (DST begins 167 hours after the last
   Sunday of December, i.e. in the first days of the following January) the last entry
   ExtendTransitions generates for year last_year_ = 2371 shows the civil second
   2372-01-02 00:00:00.  MakeTime on that [to] then takes its 400-year-shift branch,
   outside make_refines_lemma.  (The same file falsifies the premise
   "fy (tr_cs last) = z_last_year z" that Properties_C02/C03/C06 describe as "what
   ExtendTransitions guarantees".)  On this file the client chains are nevertheless
   exactly the expected lists (803 real changes out of 806 entries): the shifted branch
   lands on the same instant. *)
Definition late_footer : list Z :=   (* "AAA0BBB,M12.5.0/167,M3.2.0" *)
  [65;65;65;48;66;66;66;44;77;49;50;46;53;46;48;47;49;54;55;44;77;51;46;50;46;48].
Definition late_file : list Z :=
  tzif_hdr 0 0 0 ++
  tzif_hdr 1 2 8 ++ tzif_t64 0 ++ [0]
  ++ tzif_tt 0 0 0 ++ tzif_tt 3600 1 4
  ++ [65;65;65;0;66;66;66;0] ++ [10] ++ late_footer ++ [10].

(* evaluation of a closed Prop about the loaded zone in one vm_compute, without
   substituting the (large) zone value into the proof term *)
Lemma by_load (P : zone -> Prop) bs :
  match load_bytes bs with OK (Some z) => P z | _ => False end ->
  exists z, load_bytes bs = OK (Some z) /\ P z.
Proof.
  destruct (load_bytes bs) as [[z|]|]; intros H; try contradiction.
  exists z. split; [reflexivity|exact H].
Qed.

Definition late_P (z : zone) : Prop :=
  zone_ok z = true /\ bb_consistent z = true /\ z_extended z = true /\
  option_map tr_cs (last_opt (z_trans z)) = Some (mkF 2372 1 2 0 0 0) /\ z_last_year z = 2371 /\
  length (z_trans z) = 806%nat /\ length (changes z) = 803%nat /\
  next_chain_client 807 z 0 min64 = OK (map (report z) (changes z)) /\
  prev_chain_client 807 z 0 max64 = OK (rev (map (report z) (changes z))).

Lemma late_computed : exists z, load_bytes late_file = OK (Some z) /\ late_P z.
Proof. apply by_load. vm_compute. repeat split; reflexivity. Qed.

Example accepted_last_year_not_covering :
  exists z l, load_bytes late_file = OK (Some z) /\ zone_ok z = true /\ bb_consistent z = true /\
    z_extended z = true /\ last_opt (z_trans z) = Some l /\
    tr_cs l = mkF 2372 1 2 0 0 0 /\ z_last_year z = 2371 /\ ~ last_year_covers z /\
    length (z_trans z) = 806%nat /\ length (changes z) = 803%nat /\
    next_chain_client 807 z 0 min64 = OK (map (report z) (changes z)) /\
    prev_chain_client 807 z 0 max64 = OK (rev (map (report z) (changes z))).
Proof.
  destruct late_computed as (z & E & A1 & A2 & A3 & A4 & A5 & A6 & A7 & A8 & A9).
  destruct (last_opt (z_trans z)) as [l|] eqn:El; [|discriminate].
  cbn [option_map] in A4. inversion A4 as [A4'].
  exists z, l. repeat split; auto.
  intros [H|H]; [congruence|]. specialize (H l El). rewrite A4', A5 in H. cbn [fy] in H. lia.
Qed.

Print Assumptions zprev_chain.
Print Assumptions znext_iter_all.
Print Assumptions zprev_iter_all.
Print Assumptions ztrans_at.
Print Assumptions c11_next_chain_from_min.
Print Assumptions c11_prev_chain_from_max.
Print Assumptions c11_next_chain_client_from_min.
Print Assumptions c11_prev_chain_client_from_max.
Print Assumptions c11_chains_opposite.
Print Assumptions c11_client_chains_opposite.
Print Assumptions c11_next_chain_from.
Print Assumptions c11_prev_chain_from.
Print Assumptions c11_next_beyond_table.
Print Assumptions c11_prev_below_table.
Print Assumptions c11_next_at_max.
Print Assumptions c11_prev_at_min.
Print Assumptions c11_no_transitions.
Print Assumptions c11_all_default_type.
Print Assumptions c11_fixed_zone.
Print Assumptions c11_no_transitions_constant.
Print Assumptions c11_chains_every_accepted_file.
Print Assumptions c11_client_chains_every_accepted_file.
Print Assumptions c11_end_cases_every_accepted_file.
Print Assumptions c11_chain_example.
Print Assumptions c11_timecnt0_example.
Print Assumptions accepted_bb_inconsistent.
Print Assumptions c11_next_at_min.
Print Assumptions c11_prev_at_max.
Print Assumptions accepted_last_year_not_covering.
