(* FinishZone.v — C09, the general-zone case of parse()'s post-processing:
   when no UTC offset was parsed, the scanned fields are read in the zone
   passed by the caller and parse() returns lookup(civil).pre in that zone.
   ParseImpl.parse_finish is proved to return exactly finish_zone_expected,
   which is written against the INTEGER-LEVEL zone function ZoneZ.zmake of
   the abstraction abs_zone tz, for every zone satisfying the certificate
   zone_ok (ZoneRefineDefs.v) and hence for every accepted file (LoadCert.v).

   Contents
   1. finish_zone_expected (the specification) and range_rule_lemma (the
      code's `tp == max()` / `tp == min()` tests say "the instant is an int64").
   2. finish_zone_correct_lemma: the table region (z_extended = false, or the
      civil year <= last_year); accepted_finish_zone_correct_lemma for files.
   3. finish_zone_future_lemma: beyond last_year of an extended zone
      (400-year continuation of the table; range rule as the code states it).
   4. The week-number branch (%U / %W): from_week_correct (FromWeek computes
      week_day_number), week_day_number_char (calendar characterisation),
      finish_zone_week_lemma.
   5. scan_offset_zero_lemma: the scanner leaves offset = 0 unless it parsed
      one, and week_start in {Monday, Sunday}; parse_zone_correct_lemma glues
      ParseProofs.scan_range_lemma to finish_zone_correct_lemma.
   6. Concrete evaluations on an accepted EST5EDT file and on gap_zone. *)
From CCTZ Require Import Base SrcConstants Cal CivilImpl PosixImpl FixedImpl ZoneLoad ZoneImpl
  ZoneZ ZoneHist ZoneRefineDefs FormatImpl ParseImpl FinishDefs FutureDefs.
From CCTZ Require Import CalProofs CivilNorm CivilDiff WeekdayProofs ZoneZProofs ZoneRefine FutureProofs
  LoadCert ImplRoundTrip ParseProofs FmtProofs FinishProofs.
Require Import Lia ZifyBool.
Local Open Scope Z_scope.
Local Ltac Zify.zify_post_hook ::= idtac.

Local Notation cos := civil_of_seconds.

(* ================================================================== *)
(* The specification                                                   *)

(* hour on the 24-hour clock: "%I ... %p" with PM adds twelve to 0..11 *)
Definition fz_hour (s : pstate) : Z :=
  let tm := ps_tm s in
  if ps_twelve s && ps_afternoon s && (tm_hour tm <? 12) then tm_hour tm + 12 else tm_hour tm.

(* year: %Y / %E4Y if one was seen, otherwise the tm_year strptime left *)
Definition fz_year (s : pstate) : Z :=
  if ps_saw_year s then ps_year s else tm_year (ps_tm s) + 1900.

(* the civil second the fields denote, on the integer civil time line;
   ":60" is the civil second after ":59" (it normalises into the next minute) *)
Definition finish_zone_civil (s : pstate) : Z :=
  let tm := ps_tm s in
  let leap := tm_sec tm =? 60 in
  sec_of (mkF (fz_year s) (tm_mon tm + 1) (tm_mday tm) (fz_hour s) (tm_min tm)
              (if leap then 59 else tm_sec tm))
  + (if leap then 1 else 0).

(* what parse() is specified to return when no offset was parsed: the `pre`
   instant of the civil second in zone z; nothing when the date is not a
   calendar date; nothing (NOT a saturated value) when that instant is not an
   int64; ":60" zeroes the fraction *)
Definition finish_zone_expected (z : zone) (s : pstate) : option (Z * Z) :=
  let tm := ps_tm s in
  let t := zpre (zmake (abs_zone z) (finish_zone_civil s)) in
  if valid_date (fz_year s) (tm_mon tm + 1) (tm_mday tm) && in64 t
  then Some (t, if tm_sec tm =? 60 then 0 else ps_subsec s) else None.

(* the year of the last int64 instant (in every zone: |offset| < 26h) *)
Definition YMAX : Z := 292277026596.

(* ================================================================== *)
(* The range rule.  The code tests `tp == max()` and then accepts only if
   cs <= lookup(max()).cs  (and symmetrically at min()).  On the integer
   level: MakeTime saturates, so tp = max64 iff zpre >= max64, and then
   zpre = L - zoff max64, so "cs <= lookup(max).cs" says zpre <= max64.   *)

Lemma abs_elem_facts z i a : zfacts z -> nth_error (absl z) i = Some a ->
  - 576460752303423488 <= zt_time a <= 1152921504606846976 /\ -93599 <= zt_off a <= 93599.
Proof.
  intros F H. rewrite absl_nth in H.
  destruct (nth_error (z_trans z) i) as [tr|] eqn:E; cbn [option_map] in H; [|discriminate].
  inversion H; subst a. destruct (tr_facts z i tr F E) as (_ & HT & HO & _).
  assert (2 ^ 59 = 576460752303423488) as E59 by reflexivity.
  assert (2 ^ 60 = 1152921504606846976) as E60 by reflexivity.
  rewrite E59, E60 in HT.
  cbn [absf zt_time zt_off]. split; assumption.
Qed.

Lemma zpre_high z L : zfacts z -> 1152921504606846976 + 187200 <= zpre (zmake (abs_zone z) L) ->
  zpre (zmake (abs_zone z) L) = L - zoff (abs_zone z) max64.
Proof.
  intros F. rewrite abs_zone_eq, zmake_zmakeL. unfold zoff. cbn [zz_tr zz_doff].
  destruct (zf_wf z F) as (ST & SA & GP & NE).
  assert (OB : forall m, -93599 <= ob (doff z) (absl z) m <= 93599) by (intros; apply ob_bound; exact F).
  destruct (zmake_cases (doff z) (absl z) L NE SA) as [m [HU|[HS|HR]]].
  - pose proof (caseU_inseg _ _ _ _ HU) as IS. destruct HU as (E & Hm & _ & _).
    rewrite E. unfold zunique. cbn [zpre]. intros Hge.
    destruct IS as (_ & I2 & I3).
    assert (m = length (absl z)) as ->.
    { destruct (nth_error (absl z) m) as [a|] eqn:Ea.
      - exfalso. specialize (I3 a eq_refl). destruct (abs_elem_facts z m a F Ea) as [HT _].
        unfold max64 in *. lia.
      - apply nth_error_None in Ea. lia. }
    rewrite (f_seg (doff z) (absl z) (length (absl z)) max64 ST); [reflexivity|].
    split; [lia|]. split.
    + intros j a Hj Ha. destruct (abs_elem_facts z j a F Ha) as [HT _]. unfold max64. lia.
    + intros a Ha. apply nth_some_lt in Ha. lia.
  - destruct HS as (a & Ha & E & HL). rewrite E. unfold zskipped, pre_, at_ in *.
    cbn [zpre]. intros Hge. exfalso.
    destruct (abs_elem_facts z m a F Ha) as [HT HO]. specialize (OB m). unfold max64 in *. lia.
  - destruct HR as (a & Ha & E & HL & _). rewrite E. unfold zrepeated, pre_, at_ in *.
    cbn [zpre]. intros Hge. exfalso.
    destruct (abs_elem_facts z m a F Ha) as [HT HO]. specialize (OB m). unfold max64 in *. lia.
Qed.

Lemma zpre_low z L : zfacts z -> zpre (zmake (abs_zone z) L) <= - 576460752303423488 - 187200 ->
  zpre (zmake (abs_zone z) L) = L - zoff (abs_zone z) min64.
Proof.
  intros F. rewrite abs_zone_eq, zmake_zmakeL. unfold zoff. cbn [zz_tr zz_doff].
  destruct (zf_wf z F) as (ST & SA & GP & NE).
  assert (OB : forall m, -93599 <= ob (doff z) (absl z) m <= 93599) by (intros; apply ob_bound; exact F).
  destruct (zmake_cases (doff z) (absl z) L NE SA) as [m [HU|[HS|HR]]].
  - pose proof (caseU_inseg _ _ _ _ HU) as IS. destruct HU as (E & Hm & _ & _).
    rewrite E. unfold zunique. cbn [zpre]. intros Hle.
    destruct IS as (_ & I2 & I3).
    assert (m = O) as ->.
    { destruct m as [|j]; [reflexivity|]. exfalso.
      destruct (nth_lt_some (absl z) j ltac:(lia)) as [a Ha].
      specialize (I2 j a eq_refl Ha). destruct (abs_elem_facts z j a F Ha) as [HT _].
      unfold min64 in *. lia. }
    rewrite (f_seg (doff z) (absl z) O min64 ST); [reflexivity|].
    split; [lia|]. split.
    + intros j a Hj. discriminate.
    + intros a Ha. destruct (abs_elem_facts z O a F Ha) as [HT _]. unfold min64. lia.
  - destruct HS as (a & Ha & E & HL). rewrite E. unfold zskipped, pre_, at_ in *.
    cbn [zpre]. intros Hle. exfalso.
    destruct (abs_elem_facts z m a F Ha) as [HT HO]. specialize (OB m). unfold min64 in *. lia.
  - destruct HR as (a & Ha & E & HL & _). rewrite E. unfold zrepeated, pre_, at_ in *.
    cbn [zpre]. intros Hle. exfalso.
    destruct (abs_elem_facts z m a F Ha) as [HT HO]. specialize (OB m). unfold min64 in *. lia.
Qed.

(* the rule as the code states it = "the instant is an int64" *)
Lemma range_rule_lemma : forall z L, zone_ok z = true ->
  in64 (zpre (zmake (abs_zone z) L))
  = (min64 + zoff (abs_zone z) min64 <=? L) && (L <=? max64 + zoff (abs_zone z) max64).
Proof.
  intros z L Hok. pose proof (zone_ok_facts z Hok) as F.
  pose proof (zpre_high z L F) as H1. pose proof (zpre_low z L F) as H2.
  pose proof (zmake_bounds z L F) as B. cbv zeta in B. destruct B as (B & _).
  pose proof (zoff_bound z min64 F) as O1. pose proof (zoff_bound z max64 F) as O2.
  set (p := zpre (zmake (abs_zone z) L)) in *. clearbody p.
  set (o1 := zoff (abs_zone z) min64) in *. set (o2 := zoff (abs_zone z) max64) in *.
  clearbody o1 o2. unfold in64.
  unfold min64, max64 in *.
  destruct (Z_le_gt_dec (1152921504606846976 + 187200) p) as [C1|C1].
  - specialize (H1 C1). lia.
  - destruct (Z_le_gt_dec p (- 576460752303423488 - 187200)) as [C2|C2].
    + specialize (H2 C2). lia.
    + lia.
Qed.

(* ================================================================== *)
(* The tail of parse_finish (FinishProofs.finish_tail) in a general zone *)

Lemma MX_far : max64 + 200000 < MX.
Proof. apply Z.ltb_lt. vm_compute. reflexivity. Qed.
Lemma MN_far : MN < min64 - 200000.
Proof. apply Z.ltb_lt. vm_compute. reflexivity. Qed.

(* what remains once the civil second cs' = cs - offset is known *)
Definition tail_rest (ptz : zone) (L sub : Z) : res (option (Z * Z)) :=
  do '(cl, _) <- make_time ptz 0 (cos L) ;;
  let tp := cl_pre cl in
  do over <-
    (if tp =? max64 then
       (do '(al, _) <- break_time ptz 0 max64 ;; OK (lt64 (al_cs al) (cos L)))
     else OK false) ;;
  do under <-
    (if tp =? min64 then
       (do '(al, _) <- break_time ptz 0 min64 ;; OK (lt64 (cos L) (al_cs al)))
     else OK false) ;;
  if over || under then OK None else OK (Some (tp, sub)).

(* the zone-independent part: the constructor, the normalisation test and
   the guard against leaving civil_second's range *)
Lemma finish_tail_split ptz y m d hh mm ss off sub :
  int64 y -> 1 <= m <= 12 -> 1 <= d <= 31 -> 0 <= hh <= 23 -> 0 <= mm <= 59 -> 0 <= ss <= 59 ->
  -86400 <= off <= 86400 ->
  let L := sec_of (mkF y m d hh mm ss) - off in
  (valid_date y m d = false /\ finish_tail ptz y m d hh mm ss off sub = OK None) \/
  (valid_date y m d = true /\ (MX < L \/ L < MN) /\ finish_tail ptz y m d hh mm ss off sub = OK None) \/
  (valid_date y m d = true /\ int64 (fy (cos L)) /\
   finish_tail ptz y m d hh mm ss off sub = tail_rest ptz L sub).
Proof.
  intros Hy Hm Hd Hh Hmi Hs Hoff. cbv zeta. unfold finish_tail.
  assert (I8 : forall v, -128 <= v <= 127 -> int64 v) by (unfold int64, min64, max64; lia).
  destruct (valid_date y m d) eqn:V.
  2:{ (* the date does not exist: the constructor normalises into the next month *)
    left. split; [reflexivity|].
    destruct (norm_invalid y m d hh mm ss Hm Hd Hh Hmi Hs V) as [Hlt E].
    rewrite (construct_refines_lemma 0 y m d hh mm ss); try (apply I8; lia); try assumption.
    - rewrite E. cbn [bind align_spec fm fd].
      destruct (Z.eqb_spec (m + 1) m) as [X|_]; [lia|]. reflexivity.
    - destruct (carry_id y m Hm) as [-> _]. exact Hy.
    - rewrite E. exact Hy. }
  right.
  pose proof (norm_valid y m d hh mm ss Hm Hh Hmi Hs V) as E.
  rewrite (construct_refines_lemma 0 y m d hh mm ss); try (apply I8; lia); try assumption.
  2:{ destruct (carry_id y m Hm) as [-> _]. exact Hy. }
  2:{ rewrite E. exact Hy. }
  rewrite E. cbn [bind align_spec fm fd]. rewrite !Z.eqb_refl. cbn [negb orb].
  set (f := mkF y m d hh mm ss) in *.
  assert (Vf : valid_fields f = true) by (apply valid_fields_intro; cbn [f fy fm fd fhh fmm fss]; auto).
  assert (Yf : int64 (fy f)) by exact Hy.
  set (Lc := sec_of f) in *.
  assert (Ef : cos Lc = f) by (apply cos_sec_of; exact Vf).
  assert (Io : int64 off) by (unfold int64, min64, max64; lia).
  pose proof MX_far as BX. pose proof MN_far as BN. unfold min64, max64 in BX, BN.
  (* the guard *)
  assert (G : exists g,
     (if off <? 0 then (do lim <- plus64 0 civil_max64 off ;; OK (lt64 lim f))
      else if 0 <? off then (do lim <- plus64 0 civil_min64 off ;; OK (lt64 f lim))
      else OK false) = OK g /\
     (g = true -> MX < Lc - off \/ Lc - off < MN) /\
     (g = false -> int64 (fy (cos (Lc - off))))).
  { destruct (Z.ltb_spec off 0) as [O1|O1].
    - assert (int64 (fy (cos (MX + off)))) as IY by (apply year_between; lia).
      rewrite (plus_cmax off Io IY). cbn [bind].
      rewrite lt_r by exact Vf. fold Lc.
      eexists; split; [reflexivity|]. split; intros Hg.
      + apply Z.ltb_lt in Hg. lia.
      + apply Z.ltb_ge in Hg.
        pose proof (cos_year_mono Lc (Lc - off) ltac:(lia)) as M1.
        pose proof (cos_year_mono (Lc - off) MX ltac:(lia)) as M2.
        rewrite Ef in M1. rewrite cos_MX in M2. cbn [fy civil_max64 f] in M1, M2.
        unfold int64 in *. lia.
    - destruct (Z.ltb_spec 0 off) as [O2|O2].
      + assert (int64 (fy (cos (MN + off)))) as IY by (apply year_between; lia).
        rewrite (plus_cmin off Io IY). cbn [bind].
        rewrite lt_l by exact Vf. fold Lc.
        eexists; split; [reflexivity|]. split; intros Hg.
        * apply Z.ltb_lt in Hg. lia.
        * apply Z.ltb_ge in Hg.
          pose proof (cos_year_mono (Lc - off) Lc ltac:(lia)) as M1.
          pose proof (cos_year_mono MN (Lc - off) ltac:(lia)) as M2.
          rewrite Ef in M1. rewrite cos_MN in M2. cbn [fy civil_min64 f] in M1, M2.
          unfold int64 in *. lia.
      + eexists; split; [reflexivity|]. split; [discriminate|]. intros _.
        assert (off = 0) as -> by lia. rewrite Z.sub_0_r, Ef. exact Hy. }
  destruct G as (g & -> & Gt & Gf). cbn [bind].
  destruct g.
  { left. split; [reflexivity|]. split; [exact (Gt eq_refl)|reflexivity]. }
  right. split; [reflexivity|]. specialize (Gf eq_refl). split; [exact Gf|].
  pose proof (minus_refines_lemma 0 f off ltac:(lia) Vf (align0 _) Yf Io) as P.
  rewrite ord0, oford0 in P. fold Lc in P. rewrite (P Gf). cbn [bind]. reflexivity.
Qed.

(* the region in which MakeTime answers from the transition table *)
Definition table_region (z : zone) (L : Z) : Prop :=
  z_extended z = false \/ (fy (cos L) <= z_last_year z /\ z_last_year z < YMAX).

Lemma year_near_max L : max64 - 187200 <= L -> YMAX <= fy (cos L).
Proof.
  intros H. pose proof (cos_year_mono (max64 - 187200) L H) as M.
  assert (fy (cos (max64 - 187200)) = YMAX) as E by (vm_compute; reflexivity).
  lia.
Qed.

Lemma tail_rest_table tz L sub : zone_ok tz = true -> int64 (fy (cos L)) -> table_region tz L ->
  tail_rest tz L sub =
  OK (let t := zpre (zmake (abs_zone tz) L) in if in64 t then Some (t, sub) else None).
Proof.
  intros Hok Gf Hreg. pose proof (zone_ok_facts tz Hok) as F. unfold tail_rest. cbv zeta.
  pose proof (zmake_bounds tz L F) as ZB. cbv zeta in ZB. destruct ZB as (ZB & _).
  assert (Hreg' : z_extended tz = false \/ fy (cos L) <= z_last_year tz).
  { destruct Hreg as [R|[R _]]; [left|right]; exact R. }
  destruct (make_refines_lemma tz 0 (cos L) Hok (valid_cos L) Gf Hreg') as (h' & HM).
  cbv zeta in HM. rewrite sec_of_cos in HM.
  rewrite HM. cbn [bind cl_pre]. clear HM.
  pose proof (zpre_high tz L F) as PH. pose proof (zpre_low tz L F) as PL.
  pose proof (zoff_bound tz max64 F) as O2. pose proof (zoff_bound tz min64 F) as O1.
  set (p := zpre (zmake (abs_zone tz) L)) in *.
  unfold clamp'.
  destruct (Z.eqb_spec (Z.max min64 (Z.min max64 p)) max64) as [E1|E1].
  - (* saturated at max(): lookup(max()) is consulted *)
    assert (Hp : max64 <= p) by (unfold min64, max64 in *; lia).
    assert (HB : z_extended tz = false \/
                 (forall l, last_opt (z_trans tz) = Some l -> max64 < tr_time l)).
    { destruct Hreg as [R|[R1 R2]]; [left; exact R|]. exfalso.
      pose proof (year_near_max L ltac:(unfold max64 in *; lia)). lia. }
    destruct (break_refines_lemma tz 0 max64 Hok i64_max HB) as (h1 & d1 & a1 & B1 & _).
    rewrite B1. cbn [bind al_cs]. rewrite lt_cc. rewrite E1.
    rewrite (PH ltac:(unfold max64 in *; lia)) in Hp |- *.
    set (o2 := zoff (abs_zone tz) max64) in *.
    change (max64 =? min64) with false. cbn [bind].
    unfold in64.
    destruct (Z.ltb_spec (max64 + o2) L) as [C|C]; cbn [orb].
    + replace (L - o2 <=? max64) with false by lia. rewrite andb_false_r. reflexivity.
    + replace (L - o2) with max64 by lia. reflexivity.
  - cbn [bind].
    destruct (Z.eqb_spec (Z.max min64 (Z.min max64 p)) min64) as [E2|E2].
    + (* saturated at min(): lookup(min()) is consulted *)
      assert (Hp : p <= min64) by (unfold min64, max64 in *; lia).
      assert (HB : z_extended tz = false \/
                   (forall l, last_opt (z_trans tz) = Some l -> min64 < tr_time l)).
      { right. intros l Hl. destruct (zf_last tz F) as (l' & Hl' & H0).
        assert (l' = l) by congruence. subst l'. unfold min64. lia. }
      destruct (break_refines_lemma tz 0 min64 Hok i64_min HB) as (h1 & d1 & a1 & B1 & _).
      rewrite B1. cbn [bind al_cs]. rewrite lt_cc. rewrite E2.
      rewrite (PL ltac:(unfold min64 in *; lia)) in Hp |- *.
      set (o1 := zoff (abs_zone tz) min64) in *.
      unfold in64. cbn [orb].
      destruct (Z.ltb_spec L (min64 + o1)) as [C|C].
      * replace (min64 <=? L - o1) with false by lia. reflexivity.
      * replace (L - o1) with min64 by lia. reflexivity.
    + cbn [bind orb].
      replace (Z.max min64 (Z.min max64 p)) with p by (unfold min64, max64 in *; lia).
      replace (in64 p) with true by (symmetry; unfold in64, min64, max64 in *; lia).
      reflexivity.
Qed.

Lemma finish_tail_zone tz y m d hh mm ss off sub :
  zone_ok tz = true ->
  int64 y -> 1 <= m <= 12 -> 1 <= d <= 31 -> 0 <= hh <= 23 -> 0 <= mm <= 59 -> 0 <= ss <= 59 ->
  -86400 <= off <= 86400 ->
  table_region tz (sec_of (mkF y m d hh mm ss) - off) ->
  finish_tail tz y m d hh mm ss off sub =
  OK (let t := zpre (zmake (abs_zone tz) (sec_of (mkF y m d hh mm ss) - off)) in
      if valid_date y m d && in64 t then Some (t, sub) else None).
Proof.
  intros Hok Hy Hm Hd Hh Hmi Hs Hoff Hreg.
  pose proof (zone_ok_facts tz Hok) as F.
  destruct (finish_tail_split tz y m d hh mm ss off sub Hy Hm Hd Hh Hmi Hs Hoff)
    as [[V ->]|[(V & C & ->)|(V & Gf & ->)]]; cbv zeta; rewrite V; cbn [andb].
  - reflexivity.
  - (* beyond civil_second::max()/min() shifted by the offset: far outside int64 *)
    pose proof (zmake_bounds tz (sec_of (mkF y m d hh mm ss) - off) F) as ZB.
    cbv zeta in ZB. destruct ZB as (ZB & _).
    pose proof MX_far as BX. pose proof MN_far as BN.
    replace (in64 (zpre (zmake (abs_zone tz) (sec_of (mkF y m d hh mm ss) - off)))) with false;
      [reflexivity|symmetry; unfold in64, min64, max64 in *; lia].
  - exact (tail_rest_table tz _ sub Hok Gf Hreg).
Qed.

(* ---- beyond last_year of an extended zone: MakeTime shifts the civil second
   back by a multiple k of 400 years into the table's last 400 years, looks it
   up there and shifts the answer forward (saturating at max()); lookup(max())
   does the same with its own multiple k' ---- *)
Lemma sec_of_shift L k :
  sec_of (mkF (fy (cos L) - 400 * k) (fm (cos L)) (fd (cos L)) (fhh (cos L)) (fmm (cos L)) (fss (cos L)))
  = L - k * P400.
Proof.
  pose proof (cos_period L (- k)) as C. cbv zeta in C.
  replace (fy (cos L) - 400 * k) with (fy (cos L) + 400 * - k) by lia.
  rewrite <- C, sec_of_cos. unfold P400. lia.
Qed.

Lemma tail_rest_future tz l L sub : zone_ok tz = true -> z_extended tz = true ->
  last_opt (z_trans tz) = Some l -> fy (tr_cs l) = z_last_year tz -> P400 <= tr_time l ->
  fy (tr_pcs l) <= z_last_year tz -> int64 (fy (cos L)) -> z_last_year tz < fy (cos L) ->
  tail_rest tz L sub =
  OK (let k := (fy (cos L) - z_last_year tz - 1) / 400 + 1 in
      let t := zpre (zmake (abs_zone tz) (L - k * P400)) + k * P400 in
      let k' := (max64 - tr_time l) / P400 + 1 in
      if (t <? max64) || (L <=? max64 + zoff (abs_zone tz) (max64 - k' * P400))
      then Some (Z.min max64 t, sub) else None).
Proof.
  intros Hok Hext Hl HY HP HPY Gf Hly. pose proof (zone_ok_facts tz Hok) as F.
  assert (HL1 : forall l0, last_opt (z_trans tz) = Some l0 ->
                fy (tr_cs l0) = z_last_year tz /\ P400 <= tr_time l0).
  { intros l0 H0. assert (l0 = l) by congruence. subst l0. split; assumption. }
  assert (HL2 : forall l0, last_opt (z_trans tz) = Some l0 -> fy (tr_pcs l0) <= z_last_year tz).
  { intros l0 H0. assert (l0 = l) by congruence. subst l0. assumption. }
  destruct (make_future_lemma tz 0 (cos L) Hok Hext (valid_cos L) Gf Hly HL1 HL2) as (h' & HM).
  cbv zeta in HM. rewrite sec_of_shift in HM.
  cbv zeta. unfold tail_rest. rewrite HM. cbn [bind cl_pre]. clear HM.
  set (k := (fy (cos L) - z_last_year tz - 1) / 400 + 1) in *.
  pose proof (zmake_bounds tz (L - k * P400) F) as ZB. cbv zeta in ZB. destruct ZB as (ZB & _).
  set (p := zpre (zmake (abs_zone tz) (L - k * P400))) in *.
  (* L is positive: it lies in a later civil year than the last transition *)
  destruct (last_opt_nth _ _ Hl) as [Hln _].
  destruct (tr_facts tz _ l F Hln) as (_ & HT & HO & Ccs & _).
  assert (2 ^ 60 = 1152921504606846976) as E60 by reflexivity. rewrite E60 in HT. clear E60.
  assert (HLpos : tr_time l + off_of tz (tr_type l) < L).
  { apply cos_year_lt. rewrite <- Ccs, HY. exact Hly. }
  rewrite P400_val in *.
  destruct (Z.eqb_spec (Z.min max64 (p + k * 12622780800)) max64) as [E1|E1].
  - assert (Hge : tr_time l <= max64) by (unfold max64; lia).
    destruct (break_future_lemma tz 0 max64 l Hok Hext Hl ltac:(rewrite P400_val; exact HP) i64_max Hge)
      as (h1 & d1 & a1 & B1 & _).
    cbv zeta in B1. rewrite P400_val in B1.
    rewrite B1. cbn [bind al_cs]. rewrite lt_cc. rewrite E1.
    change (max64 =? min64) with false. cbn [bind orb].
    replace (p + k * 12622780800 <? max64) with false by lia. cbn [orb].
    set (o := zoff (abs_zone tz) (max64 - ((max64 - tr_time l) / 12622780800 + 1) * 12622780800)).
    rewrite orb_false_r.
    destruct (Z.ltb_spec (max64 + o) L) as [C|C].
    + replace (L <=? max64 + o) with false by lia. reflexivity.
    + replace (L <=? max64 + o) with true by lia. reflexivity.
  - cbn [bind].
    replace (Z.min max64 (p + k * 12622780800) =? min64) with false
      by (unfold min64, max64 in *; lia).
    cbn [bind orb].
    replace (p + k * 12622780800 <? max64) with true by lia. reflexivity.
Qed.

(* ================================================================== *)
(* parse_finish in a general zone                                      *)

Lemma year_src_ok (sy : bool) (y ty : Z) : -2147483648 <= ty <= 2147483647 ->
  (if sy then OK (Some y) else if max64 - 1900 <? ty then OK None else OK (Some (ty + 1900)))
  = OK (Some (if sy then y else ty + 1900)).
Proof.
  intros H. destruct sy; [reflexivity|].
  destruct (Z.ltb_spec (max64 - 1900) ty) as [C|C]; [unfold max64 in C; lia|reflexivity].
Qed.

(* parse_finish up to the civil_second constructor: 12-hour clock, ":60",
   year source; no week number *)
Lemma finish_reduce tz utc data s :
  ps_saw_offset s = false -> ps_saw_s s = false -> ps_week_num s = -1 ->
  skip_space data = [] ->
  -2147483648 <= tm_year (ps_tm s) <= 2147483647 ->
  parse_finish tz utc (Some (data, s)) =
  finish_tail tz (fz_year s) (tm_mon (ps_tm s) + 1) (tm_mday (ps_tm s)) (fz_hour s) (tm_min (ps_tm s))
    (if tm_sec (ps_tm s) =? 60 then 59 else tm_sec (ps_tm s))
    (if tm_sec (ps_tm s) =? 60 then ps_offset s - 1 else ps_offset s)
    (if tm_sec (ps_tm s) =? 60 then 0 else ps_subsec s).
Proof.
  intros Hso Hs Hw Hsp Rty.
  unfold parse_finish, fz_hour, fz_year, finish_tail. rewrite Hsp, Hs, Hw, Hso. cbv zeta.
  change (negb (-1 =? -1)) with false. cbv iota.
  set (tm := ps_tm s) in *.
  destruct (ps_twelve s && ps_afternoon s && (tm_hour tm <? 12)) eqn:E12.
  - cbn [tm_with tm_sec].
    destruct (Z.eqb_spec (tm_sec tm) 60) as [E60|N60].
    + cbn [tm_with tm_year tm_sec tm_min tm_hour tm_mday tm_mon].
      rewrite year_src_ok by exact Rty. cbn [bind].
      cbn [tm_with tm_year tm_sec tm_min tm_hour tm_mday tm_mon]. reflexivity.
    + cbn [tm_with tm_year tm_sec tm_min tm_hour tm_mday tm_mon].
      rewrite year_src_ok by exact Rty. cbn [bind].
      cbn [tm_with tm_year tm_sec tm_min tm_hour tm_mday tm_mon]. reflexivity.
  - destruct (Z.eqb_spec (tm_sec tm) 60) as [E60|N60].
    + cbn [tm_with tm_year tm_sec tm_min tm_hour tm_mday tm_mon].
      rewrite year_src_ok by exact Rty. cbn [bind].
      cbn [tm_with tm_year tm_sec tm_min tm_hour tm_mday tm_mon]. reflexivity.
    + rewrite year_src_ok by exact Rty. cbn [bind]. reflexivity.
Qed.

Lemma fz_hour_range s : 0 <= tm_hour (ps_tm s) <= 23 -> 0 <= fz_hour s <= 23.
Proof.
  intros H. unfold fz_hour.
  destruct (ps_twelve s && ps_afternoon s) ; cbn [andb]; [|exact H].
  destruct (Z.ltb_spec (tm_hour (ps_tm s)) 12); lia.
Qed.

Lemma fz_year_int64 s : int64 (ps_year s) -> -2147483648 <= tm_year (ps_tm s) <= 2147483647 ->
  int64 (fz_year s).
Proof.
  intros H1 H2. unfold fz_year. destruct (ps_saw_year s); [exact H1|].
  unfold int64, min64, max64. lia.
Qed.

(* the civil second, written with the offset variable *)
Lemma civil_eq s :
  sec_of (mkF (fz_year s) (tm_mon (ps_tm s) + 1) (tm_mday (ps_tm s)) (fz_hour s) (tm_min (ps_tm s))
              (if tm_sec (ps_tm s) =? 60 then 59 else tm_sec (ps_tm s)))
  - (if tm_sec (ps_tm s) =? 60 then ps_offset s - 1 else ps_offset s)
  = finish_zone_civil s - ps_offset s.
Proof. unfold finish_zone_civil. cbv zeta. destruct (tm_sec (ps_tm s) =? 60); lia. Qed.

(* slightly more general than needed: any residual value of the offset
   variable is subtracted (the C++ initialises it to 0, see scan_offset_zero_lemma) *)
Lemma finish_zone_general tz utc data s :
  zone_ok tz = true ->
  ps_saw_offset s = false -> ps_saw_s s = false -> ps_week_num s = -1 ->
  skip_space data = [] ->
  0 <= tm_sec (ps_tm s) <= 60 -> 0 <= tm_min (ps_tm s) <= 59 -> 0 <= tm_hour (ps_tm s) <= 23 ->
  1 <= tm_mday (ps_tm s) <= 31 -> 0 <= tm_mon (ps_tm s) <= 11 ->
  -86399 <= ps_offset s <= 86399 -> int64 (ps_year s) -> -2147483648 <= tm_year (ps_tm s) <= 2147483647 ->
  table_region tz (finish_zone_civil s - ps_offset s) ->
  parse_finish tz utc (Some (data, s)) =
  OK (let t := zpre (zmake (abs_zone tz) (finish_zone_civil s - ps_offset s)) in
      if valid_date (fz_year s) (tm_mon (ps_tm s) + 1) (tm_mday (ps_tm s)) && in64 t
      then Some (t, if tm_sec (ps_tm s) =? 60 then 0 else ps_subsec s) else None).
Proof.
  intros Hok Hso Hs Hw Hsp Rs Rmi Rh Rd Rmo Ro Ry Rty Hreg.
  rewrite (finish_reduce tz utc data s Hso Hs Hw Hsp Rty).
  rewrite finish_tail_zone; auto using fz_hour_range, fz_year_int64; try lia.
  - rewrite civil_eq. reflexivity.
  - destruct (Z.eqb_spec (tm_sec (ps_tm s)) 60); lia.
  - destruct (Z.eqb_spec (tm_sec (ps_tm s)) 60); lia.
  - rewrite civil_eq. exact Hreg.
Qed.

(* ================================================================== *)
(* Goal (C09, general zone)                                            *)

Lemma finish_zone_correct_lemma : forall tz utc data s,
  zone_ok tz = true ->
  ps_saw_offset s = false -> ps_offset s = 0 ->
  ps_saw_s s = false -> ps_week_num s = -1 ->
  skip_space data = [] ->
  0 <= tm_sec (ps_tm s) <= 60 -> 0 <= tm_min (ps_tm s) <= 59 -> 0 <= tm_hour (ps_tm s) <= 23 ->
  1 <= tm_mday (ps_tm s) <= 31 -> 0 <= tm_mon (ps_tm s) <= 11 ->
  int64 (ps_year s) -> -2147483648 <= tm_year (ps_tm s) <= 2147483647 ->
  (z_extended tz = false \/
   (fy (civil_of_seconds (finish_zone_civil s)) <= z_last_year tz /\ z_last_year tz < YMAX)) ->
  parse_finish tz utc (Some (data, s)) = OK (finish_zone_expected tz s).
Proof.
  intros tz utc data s Hok Hso Ho Hs Hw Hsp Rs Rmi Rh Rd Rmo Ry Rty Hreg.
  rewrite (finish_zone_general tz utc data s Hok Hso Hs Hw Hsp Rs Rmi Rh Rd Rmo ltac:(lia) Ry Rty).
  - rewrite Ho, Z.sub_0_r. reflexivity.
  - rewrite Ho, Z.sub_0_r. exact Hreg.
Qed.

(* the bound on last_year follows from what ExtendTransitions guarantees
   (the table's last transition lies in local year last_year; the hypothesis
   make_future_lemma also carries) *)
Lemma last_year_bound z l : zone_ok z = true -> last_opt (z_trans z) = Some l ->
  fy (tr_cs l) = z_last_year z -> z_last_year z < YMAX.
Proof.
  intros Hok Hl HY. pose proof (zone_ok_facts z Hok) as F.
  destruct (last_opt_nth _ _ Hl) as [Hln _].
  destruct (tr_facts z _ l F Hln) as (_ & HT & HO & Ccs & _).
  assert (2 ^ 60 = 1152921504606846976) as E60 by reflexivity. rewrite E60 in HT.
  rewrite <- HY, Ccs.
  pose proof (cos_year_mono (tr_time l + off_of z (tr_type l)) (1152921504606846976 + 93599) ltac:(lia)) as M.
  assert (fy (cos (1152921504606846976 + 93599)) < YMAX) as B by (vm_compute; reflexivity).
  lia.
Qed.

Lemma finish_zone_correct_last_lemma : forall tz utc data s,
  zone_ok tz = true ->
  ps_saw_offset s = false -> ps_offset s = 0 ->
  ps_saw_s s = false -> ps_week_num s = -1 ->
  skip_space data = [] ->
  0 <= tm_sec (ps_tm s) <= 60 -> 0 <= tm_min (ps_tm s) <= 59 -> 0 <= tm_hour (ps_tm s) <= 23 ->
  1 <= tm_mday (ps_tm s) <= 31 -> 0 <= tm_mon (ps_tm s) <= 11 ->
  int64 (ps_year s) -> -2147483648 <= tm_year (ps_tm s) <= 2147483647 ->
  (z_extended tz = false \/
   (fy (civil_of_seconds (finish_zone_civil s)) <= z_last_year tz /\
    forall l, last_opt (z_trans tz) = Some l -> fy (tr_cs l) = z_last_year tz)) ->
  parse_finish tz utc (Some (data, s)) = OK (finish_zone_expected tz s).
Proof.
  intros tz utc data s Hok Hso Ho Hs Hw Hsp Rs Rmi Rh Rd Rmo Ry Rty Hreg.
  apply finish_zone_correct_lemma; auto.
  destruct Hreg as [R|[R1 R2]]; [left; exact R|right]. split; [exact R1|].
  destruct (zf_last tz (zone_ok_facts tz Hok)) as (l & Hl & _).
  exact (last_year_bound tz l Hok Hl (R2 l Hl)).
Qed.

(* ---- for every accepted file: the certificate is discharged by the loader proof ---- *)
Lemma accepted_finish_zone_correct_lemma : forall bs tz utc data s,
  load_bytes bs = OK (Some tz) ->
  gaps_wide (zz_doff (abs_zone tz)) (zz_tr (abs_zone tz)) = true ->
  ps_saw_offset s = false -> ps_offset s = 0 ->
  ps_saw_s s = false -> ps_week_num s = -1 ->
  skip_space data = [] ->
  0 <= tm_sec (ps_tm s) <= 60 -> 0 <= tm_min (ps_tm s) <= 59 -> 0 <= tm_hour (ps_tm s) <= 23 ->
  1 <= tm_mday (ps_tm s) <= 31 -> 0 <= tm_mon (ps_tm s) <= 11 ->
  int64 (ps_year s) -> -2147483648 <= tm_year (ps_tm s) <= 2147483647 ->
  (z_extended tz = false \/
   (fy (civil_of_seconds (finish_zone_civil s)) <= z_last_year tz /\ z_last_year tz < YMAX)) ->
  parse_finish tz utc (Some (data, s)) = OK (finish_zone_expected tz s).
Proof.
  intros bs tz utc data s H G. apply finish_zone_correct_lemma.
  exact (load_establishes_certificate_lemma _ _ H G).
Qed.

(* ================================================================== *)
(* Beyond last_year of an extended zone (second lemma).  The zone function
   is the table continued with period 400 years: the civil second is moved
   back k * 400 years, looked up, and the instant moved forward k * P400.
   The range rule is stated as the code has it: a result that reaches
   max() is accepted only if the civil second is not after the one max()
   displays (with lookup(max())'s own 400-year multiple k').              *)

Definition finish_zone_expected_future (z : zone) (s : pstate) : option (Z * Z) :=
  let tm := ps_tm s in
  let L := finish_zone_civil s in
  let k := (fy (cos L) - z_last_year z - 1) / 400 + 1 in
  let t := zpre (zmake (abs_zone z) (L - k * P400)) + k * P400 in
  let tl := match last_opt (z_trans z) with Some l => tr_time l | None => 0 end in
  let k' := (max64 - tl) / P400 + 1 in
  if valid_date (fz_year s) (tm_mon tm + 1) (tm_mday tm)
     && ((t <? max64) || (L <=? max64 + zoff (abs_zone z) (max64 - k' * P400)))
  then Some (Z.min max64 t, if tm_sec tm =? 60 then 0 else ps_subsec s) else None.

Lemma finish_zone_future_lemma : forall tz utc data s l,
  zone_ok tz = true -> z_extended tz = true ->
  (* what ExtendTransitions guarantees (the hypotheses of make_future_lemma) *)
  last_opt (z_trans tz) = Some l -> fy (tr_cs l) = z_last_year tz -> P400 <= tr_time l ->
  fy (tr_pcs l) <= z_last_year tz ->
  ps_saw_offset s = false -> ps_offset s = 0 ->
  ps_saw_s s = false -> ps_week_num s = -1 ->
  skip_space data = [] ->
  0 <= tm_sec (ps_tm s) <= 60 -> 0 <= tm_min (ps_tm s) <= 59 -> 0 <= tm_hour (ps_tm s) <= 23 ->
  1 <= tm_mday (ps_tm s) <= 31 -> 0 <= tm_mon (ps_tm s) <= 11 ->
  int64 (ps_year s) -> -2147483648 <= tm_year (ps_tm s) <= 2147483647 ->
  z_last_year tz < fy (civil_of_seconds (finish_zone_civil s)) ->
  parse_finish tz utc (Some (data, s)) = OK (finish_zone_expected_future tz s).
Proof.
  intros tz utc data s l Hok Hext Hl HY HP HPY Hso Ho Hs Hw Hsp Rs Rmi Rh Rd Rmo Ry Rty Hly.
  pose proof (zone_ok_facts tz Hok) as F.
  rewrite (finish_reduce tz utc data s Hso Hs Hw Hsp Rty).
  unfold finish_zone_expected_future. rewrite Hl. cbv zeta.
  pose proof (civil_eq s) as CE. rewrite Ho, Z.sub_0_r in CE.
  (* L is positive: it lies in a later civil year than the last transition *)
  destruct (last_opt_nth _ _ Hl) as [Hln _].
  destruct (tr_facts tz _ l F Hln) as (_ & HT & HO & Ccs & _).
  assert (HLpos : tr_time l + off_of tz (tr_type l) < finish_zone_civil s).
  { apply cos_year_lt. rewrite <- Ccs, HY. exact Hly. }
  destruct (finish_tail_split tz (fz_year s) (tm_mon (ps_tm s) + 1) (tm_mday (ps_tm s)) (fz_hour s)
              (tm_min (ps_tm s)) (if tm_sec (ps_tm s) =? 60 then 59 else tm_sec (ps_tm s))
              (if tm_sec (ps_tm s) =? 60 then ps_offset s - 1 else ps_offset s)
              (if tm_sec (ps_tm s) =? 60 then 0 else ps_subsec s))
    as [[V ->]|[(V & C & ->)|(V & Gf & ->)]];
    auto using fz_hour_range, fz_year_int64; try lia;
    try (destruct (Z.eqb_spec (tm_sec (ps_tm s)) 60); lia);
    rewrite ?Ho in *; cbv zeta in *; rewrite ?CE in *; rewrite V; cbn [andb].
  - reflexivity.
  - pose proof MX_far as BX. pose proof MN_far as BN.
    set (L := finish_zone_civil s) in *.
    set (k := (fy (cos L) - z_last_year tz - 1) / 400 + 1) in *.
    pose proof (zmake_bounds tz (L - k * P400) F) as ZB. cbv zeta in ZB. destruct ZB as (ZB & _).
    match goal with |- context [zoff (abs_zone tz) ?a] => pose proof (zoff_bound tz a F) as OB end.
    rewrite P400_val in *.
    destruct C as [C|C]; [|unfold min64, max64 in *; lia].
    replace (_ || _) with false; [reflexivity|]. symmetry. unfold min64, max64 in *. lia.
  - rewrite (tail_rest_future tz l (finish_zone_civil s) _ Hok Hext Hl HY HP HPY Gf Hly).
    reflexivity.
Qed.

(* ================================================================== *)
(* The week-number branch: %U / %W with %u / %w / %a (FromWeek)          *)

(* the day number of the date with that year, week number and weekday:
   week 0 begins on the last `ws` weekday (Sunday for %U, Monday for %W;
   cctz numbering monday = 0 ... sunday = 6) strictly before January 1st *)
Definition week_day_number (year wn ws wday : Z) : Z :=
  let J := days_from_civil year 1 1 in
  let wd := from_tm_wday wday in
  J - ((weekday_of_days J - ws - 1) mod 7 + 1) + (wd - ws) mod 7 + 7 * wn.
Definition fw_expected (wn ws year : Z) (tm : tmrec) : option (Z * tmrec) :=
  let '(y', m', d') := civil_of_days (week_day_number year wn ws (tm_wday tm)) in
  if in64 y' then Some (y', tm_with (tm_with tm 4 (m' - 1)) 3 d') else None.

Local Ltac Zify.zify_post_hook ::= Z.to_euclidean_division_equations.

Lemma dim_dec y : days_in_month y 12 = 31.
Proof. reflexivity. Qed.

Lemma day_year_bounds r n : days_from_civil r 1 1 - 30 <= n <= days_from_civil r 1 1 + 400 ->
  r - 1 <= fy (cos (n * 86400)) <= r + 1.
Proof.
  intros H. set (J := days_from_civil r 1 1) in *.
  assert (Vm : valid_fields (mkF (r - 1) 1 1 0 0 0) = true)
    by (apply valid_fields_intro; cbn [fy fm fd fhh fmm fss]; try lia; apply valid_first; lia).
  assert (Vp : valid_fields (mkF (r + 2) 1 1 0 0 0) = true)
    by (apply valid_fields_intro; cbn [fy fm fd fhh fmm fss]; try lia; apply valid_first; lia).
  pose proof (dfc_year_step (r - 1)) as S0. replace (r - 1 + 1) with r in S0 by lia. fold J in S0.
  pose proof (dfc_year_step r) as S1. fold J in S1.
  pose proof (dfc_year_step (r + 1)) as S2. replace (r + 1 + 1) with (r + 2) in S2 by lia.
  pose proof (diy_ge (r - 1)) as D0. pose proof (diy_ge r) as D1. pose proof (diy_ge (r + 1)) as D2.
  pose proof (cos_year_mono (sec_of (mkF (r - 1) 1 1 0 0 0)) (n * 86400)) as M1.
  rewrite cos_sec_of in M1 by assumption. cbn [fy] in M1.
  unfold sec_of in M1. cbn [fy fm fd fhh fmm fss] in M1.
  split; [apply M1; lia|].
  destruct (Z_lt_le_dec (fy (cos (n * 86400))) (r + 2)) as [C|C]; [lia|]. exfalso.
  assert (fy (cos (sec_of (mkF (r + 2) 1 1 0 0 0) - 1)) < fy (cos (n * 86400)) -> False) as X.
  { intros X. apply cos_year_lt in X. unfold sec_of in X. cbn [fy fm fd fhh fmm fss] in X. lia. }
  apply X. clear X.
  (* the second before (r+2)-01-01 is in year r+1 *)
  assert (fy (cos (sec_of (mkF (r + 2) 1 1 0 0 0) - 1)) <= r + 1); [|lia].
  assert (sec_of (mkF (r + 2) 1 1 0 0 0) - 1 = sec_of (mkF (r + 1) 12 31 23 59 59)) as ->.
  { unfold sec_of. cbn [fy fm fd fhh fmm fss]. pose proof (dfc_dec_jan (r + 1)) as DJ.
    replace (r + 1 + 1) with (r + 2) in DJ by lia. rewrite (dfc_day (r + 1) 12 31). lia. }
  rewrite cos_sec_of; [cbn [fy]; lia|].
  apply valid_fields_intro; cbn [fy fm fd fhh fmm fss]; try lia.
  apply valid_date_intro; [clear; lia|]. rewrite dim_dec. split; apply Z.leb_le; reflexivity.
Qed.

Lemma cos_day_fields n : let '(y, m, d) := civil_of_days n in cos (n * 86400) = mkF y m d 0 0 0.
Proof. pose proof (cos_days n) as H. destruct (civil_of_days n) as [[y m] d]. exact H. Qed.

Lemma of_ord3 n : of_ord_spec 3 n = cos (n * 86400).
Proof. reflexivity. Qed.

Lemma day_zero n : fhh (cos (n * 86400)) = 0 /\ fmm (cos (n * 86400)) = 0 /\ fss (cos (n * 86400)) = 0.
Proof.
  pose proof (cos_day_fields n) as H. destruct (civil_of_days n) as [[y m] d]. rewrite H. auto.
Qed.

Lemma day_dfc n : days_from_civil (fy (cos (n * 86400))) (fm (cos (n * 86400))) (fd (cos (n * 86400))) = n.
Proof.
  pose proof (dfc_cod n) as D. pose proof (cos_day_fields n) as H.
  destruct (civil_of_days n) as [[y m] d]. rewrite H. cbn [fy fm fd]. apply D.
Qed.

(* the year adjustment of FromWeek with its two overflow tests *)
Lemma year_shift_check year sh : int64 year -> -1 <= sh <= 1 ->
  (if negb (sh =? 0) then
     if 0 <? sh then
       (do lim <- sub64 max64 sh ;; if lim <? year then OK None else (do y' <- add64 year sh ;; OK (Some y')))
     else
       (do lim <- sub64 min64 sh ;; if year <? lim then OK None else (do y' <- add64 year sh ;; OK (Some y')))
   else OK (Some year))
  = OK (if in64 (year + sh) then Some (year + sh) else None).
Proof.
  intros Iy Hs. unfold in64, sub64, add64. unfold int64, min64, max64 in *.
  assert (sh = -1 \/ sh = 0 \/ sh = 1) as [ -> | [ -> | -> ] ] by lia.
  - change (negb (-1 =? 0)) with true. change (0 <? -1) with false. cbv iota.
    rewrite chk64_in by (unfold int64, min64, max64; lia). cbn [bind].
    destruct (Z.ltb_spec year (-9223372036854775808 - -1)) as [C|C].
    + replace (-9223372036854775808 <=? year + -1) with false by lia. reflexivity.
    + rewrite chk64_in by (unfold int64, min64, max64; lia). cbn [bind].
      replace (-9223372036854775808 <=? year + -1) with true by lia.
      replace (year + -1 <=? 9223372036854775807) with true by lia. reflexivity.
  - change (negb (0 =? 0)) with false. cbv iota. rewrite Z.add_0_r.
    replace (-9223372036854775808 <=? year) with true by lia.
    replace (year <=? 9223372036854775807) with true by lia. reflexivity.
  - change (negb (1 =? 0)) with true. change (0 <? 1) with true. cbv iota.
    rewrite chk64_in by (unfold int64, min64, max64; lia). cbn [bind].
    destruct (Z.ltb_spec (9223372036854775807 - 1) year) as [C|C].
    + replace (year + 1 <=? 9223372036854775807) with false by lia.
      rewrite andb_false_r. reflexivity.
    + rewrite chk64_in by (unfold int64, min64, max64; lia). cbn [bind].
      replace (-9223372036854775808 <=? year + 1) with true by lia.
      replace (year + 1 <=? 9223372036854775807) with true by lia. reflexivity.
Qed.

Lemma from_week_correct wn ws year tm :
  int64 year -> 0 <= wn <= 53 -> 0 <= ws <= 6 -> 0 <= tm_wday tm <= 6 ->
  from_week wn ws year tm = OK (fw_expected wn ws year tm).
Proof.
  intros Iy Hwn Hws Hwd.
  assert (Hy : year = Z.rem year 400 + 400 * Z.quot year 400) by lia.
  assert (Hr : -399 <= Z.rem year 400 <= 399) by lia.
  unfold from_week, fw_expected, week_day_number.
  set (r := Z.rem year 400) in *. set (q := Z.quot year 400) in *. clearbody r q.
  set (wd := from_tm_wday (tm_wday tm)).
  assert (Hwd' : 0 <= wd <= 6).
  { unfold wd, from_tm_wday. destruct (Z.eqb_spec (tm_wday tm) 0); lia. }
  set (J := days_from_civil r 1 1).
  assert (EJ : days_from_civil year 1 1 = J + 146097 * q) by (rewrite Hy, dfc_period; reflexivity).
  rewrite EJ, weekday_period.
  assert (Vf1 : valid_fields (mkF r 1 1 0 0 0) = true)
    by (apply valid_fields_intro; cbn [fy fm fd fhh fmm fss]; try lia; apply valid_first; lia).
  (* civil_year(year % 400) *)
  rewrite construct_refines_lemma; try f_i64.
  2:{ destruct (carry_id r 1 ltac:(lia)) as [-> _]. f_i64. }
  2:{ rewrite norm_spec_valid by assumption. cbn [fy]. f_i64. }
  rewrite norm_spec_valid by assumption. cbn [bind align_spec align64 fy fm fd fhh fmm fss].
  (* prev_weekday(y, week_start) *)
  destruct (prev_weekday_spec_lemma (mkF r 1 1 0 0 0) ws Vf1 ltac:(cbn; auto) ltac:(cbn [fy]; f_i64) Hws)
    as (k & Hk & Hkw & _ & Hprev).
  cbn [fy fm fd] in Hkw, Hprev. fold J in Hkw, Hprev.
  pose proof (day_year_bounds r (J - k) ltac:(fold J; lia)) as Y0.
  rewrite Hprev by f_i64. cbn [bind]. clear Hprev.
  (* - 1 *)
  rewrite (minus_refines_lemma 3 (cos ((J - k) * 86400)) 1); try f_i64.
  2:{ apply valid_cos. }
  2:{ rewrite <- of_ord3. apply align_of_ord. }
  2:{ cbn [ord_spec]. rewrite day_dfc, of_ord3.
      pose proof (day_year_bounds r (J - k - 1) ltac:(fold J; lia)). f_i64. }
  cbn [bind ord_spec]. rewrite day_dfc, of_ord3.
  pose proof (day_year_bounds r (J - k - 1) ltac:(fold J; lia)) as Y1.
  (* next_weekday(cd - 1, wd) *)
  destruct (next_weekday_spec_lemma (cos ((J - k - 1) * 86400)) wd (valid_cos _) (day_zero _)
              ltac:(f_i64) Hwd') as (k2 & Hk2 & Hk2w & _ & Hnext).
  rewrite day_dfc in Hk2w, Hnext.
  pose proof (day_year_bounds r (J - k - 1 + k2) ltac:(fold J; lia)) as Y2.
  rewrite Hnext by f_i64. cbn [bind]. clear Hnext.
  (* + week_num * 7 *)
  unfold mul32. rewrite chk32_in by (unfold int32, min32, max32; lia). cbn [bind].
  set (n := J - k - 1 + k2 + wn * 7).
  pose proof (day_year_bounds r n ltac:(fold J; unfold n; lia)) as Y3.
  rewrite (plus_refines_lemma 3 (cos ((J - k - 1 + k2) * 86400)) (wn * 7)); try f_i64.
  2:{ apply valid_cos. }
  2:{ rewrite <- of_ord3. apply align_of_ord. }
  2:{ cbn [ord_spec]. rewrite day_dfc, of_ord3. fold n. f_i64. }
  cbn [bind ord_spec]. rewrite day_dfc, of_ord3. fold n.
  (* the spec side: the same day number, 400 q years later *)
  assert (EN : J + 146097 * q - ((weekday_of_days J - ws - 1) mod 7 + 1) + (wd - ws) mod 7 + 7 * wn
               = n + 146097 * q).
  { unfold n, weekday_of_days in *. lia. }
  rewrite EN, cod_period.
  pose proof (cos_day_fields n) as CF.
  destruct (civil_of_days n) as [[yn mn] dn]. rewrite CF in *. cbn [fy fm fd] in *.
  rewrite sub64_ok by f_i64. cbn [bind].
  rewrite (year_shift_check year (yn - r) Iy ltac:(lia)). cbn [bind].
  replace (year + (yn - r)) with (yn + 400 * q) by lia.
  destruct (in64 (yn + 400 * q)); reflexivity.
Qed.

(* calendar characterisation: N is THE day that has the requested weekday and
   whose week number, by strftime's rule (yday + 7 - days since week start) / 7
   counted from January 1st of `year`, is wn *)
Lemma week_day_number_char year wn ws wday : 0 <= ws <= 6 -> 0 <= wday <= 6 ->
  let N := week_day_number year wn ws wday in
  let J := days_from_civil year 1 1 in
  let wd := from_tm_wday wday in
  weekday_of_days N = wd /\
  (N - J + 7 - (wd - ws) mod 7) / 7 = wn /\
  (forall N', weekday_of_days N' = wd -> (N' - J + 7 - (wd - ws) mod 7) / 7 = wn -> N' = N).
Proof.
  intros Hws Hwd. cbv zeta. unfold week_day_number.
  set (wd := from_tm_wday wday).
  assert (Hwd' : 0 <= wd <= 6).
  { unfold wd, from_tm_wday. destruct (Z.eqb_spec wday 0); lia. }
  set (J := days_from_civil year 1 1). clearbody J wd.
  unfold weekday_of_days. repeat split; lia.
Qed.

Local Ltac Zify.zify_post_hook ::= idtac.

(* the civil second the fields denote in the week-number branch *)
Definition finish_zone_civil_week (s : pstate) : Z :=
  let tm := ps_tm s in
  let leap := tm_sec tm =? 60 in
  week_day_number (fz_year s) (ps_week_num s) (ps_week_start s) (tm_wday tm) * 86400
  + fz_hour s * 3600 + tm_min tm * 60 + (if leap then 59 else tm_sec tm)
  + (if leap then 1 else 0).

(* no calendar-date test is needed: FromWeek always produces a real date; a
   year beyond int64 (week 53 of year max, week 0 of year min) is far outside
   the int64 instants *)
Definition finish_zone_expected_week (z : zone) (s : pstate) : option (Z * Z) :=
  let t := zpre (zmake (abs_zone z) (finish_zone_civil_week s)) in
  if in64 t then Some (t, if tm_sec (ps_tm s) =? 60 then 0 else ps_subsec s) else None.

Lemma finish_reduce_week tz utc data s :
  ps_saw_offset s = false -> ps_saw_s s = false -> ps_week_num s <> -1 ->
  skip_space data = [] ->
  -2147483648 <= tm_year (ps_tm s) <= 2147483647 ->
  parse_finish tz utc (Some (data, s)) =
  (do wk <- from_week (ps_week_num s) (ps_week_start s) (fz_year s)
              (mkTM (if tm_sec (ps_tm s) =? 60 then 59 else tm_sec (ps_tm s)) (tm_min (ps_tm s)) (fz_hour s)
                    (tm_mday (ps_tm s)) (tm_mon (ps_tm s)) (tm_year (ps_tm s)) (tm_wday (ps_tm s))
                    (tm_yday (ps_tm s)) (tm_isdst (ps_tm s))) ;;
   match wk with
   | None => OK None
   | Some (year, tm3) =>
       finish_tail tz year (tm_mon tm3 + 1) (tm_mday tm3) (tm_hour tm3) (tm_min tm3) (tm_sec tm3)
         (if tm_sec (ps_tm s) =? 60 then ps_offset s - 1 else ps_offset s)
         (if tm_sec (ps_tm s) =? 60 then 0 else ps_subsec s)
   end).
Proof.
  intros Hso Hs Hw Hsp Rty.
  unfold parse_finish, fz_hour, fz_year, finish_tail. rewrite Hsp, Hs, Hso. cbv zeta.
  destruct (Z.eqb_spec (ps_week_num s) (-1)) as [X|_]; [contradiction|]. cbn [negb].
  set (tm := ps_tm s) in *.
  destruct (ps_twelve s && ps_afternoon s && (tm_hour tm <? 12)) eqn:E12.
  - cbn [tm_with tm_sec].
    destruct (Z.eqb_spec (tm_sec tm) 60) as [E60|N60].
    + cbn [tm_with tm_year tm_sec tm_min tm_hour tm_mday tm_mon tm_wday tm_yday tm_isdst].
      rewrite year_src_ok by exact Rty. cbn [bind]. reflexivity.
    + cbn [tm_with tm_year tm_sec tm_min tm_hour tm_mday tm_mon tm_wday tm_yday tm_isdst].
      rewrite year_src_ok by exact Rty. cbn [bind]. reflexivity.
  - destruct (Z.eqb_spec (tm_sec tm) 60) as [E60|N60].
    + cbn [tm_with tm_year tm_sec tm_min tm_hour tm_mday tm_mon tm_wday tm_yday tm_isdst].
      rewrite year_src_ok by exact Rty. cbn [bind]. reflexivity.
    + rewrite year_src_ok by exact Rty. cbn [bind]. destruct tm; reflexivity.
Qed.

(* the tail after FromWeek, with the fields as plain variables *)
Lemma week_tail tz N hh mi ss off sub :
  zone_ok tz = true -> 0 <= hh <= 23 -> 0 <= mi <= 59 -> 0 <= ss <= 59 -> -1 <= off <= 0 ->
  table_region tz (N * 86400 + hh * 3600 + mi * 60 + ss - off) ->
  (let '(y', m', d') := civil_of_days N in
   if in64 y' then finish_tail tz y' (m' - 1 + 1) d' hh mi ss off sub else OK None)
  = OK (let t := zpre (zmake (abs_zone tz) (N * 86400 + hh * 3600 + mi * 60 + ss - off)) in
        if in64 t then Some (t, sub) else None).
Proof.
  intros Hok Rh Rmi Rss Roff Hreg. pose proof (zone_ok_facts tz Hok) as F. cbv zeta.
  pose proof (dfc_cod N) as DC. destruct (civil_of_days N) as [[y' m'] d'] eqn:EC.
  destruct DC as [V DN].
  pose proof (valid_date_inv _ _ _ V) as [Hm Hd]. pose proof (dim_range y' m') as DR.
  set (L := N * 86400 + hh * 3600 + mi * 60 + ss - off) in *.
  assert (EL : sec_of (mkF y' m' d' hh mi ss) - off = L).
  { unfold sec_of, L. cbn [fy fm fd fhh fmm fss]. rewrite DN. reflexivity. }
  destruct (in64 y') eqn:IY.
  - apply in64_spec in IY.
    replace (m' - 1 + 1) with m' by lia.
    rewrite finish_tail_zone; auto; try lia.
    + rewrite EL, V. reflexivity.
    + rewrite EL. exact Hreg.
  - (* the year left int64: the civil second is far outside the int64 instants *)
    pose proof (zmake_bounds tz L F) as ZB. cbv zeta in ZB. destruct ZB as (ZB & _).
    pose proof MX_far as BX. pose proof MN_far as BN.
    assert (EY : fy (cos (L + off)) = y').
    { unfold L. replace (N * 86400 + hh * 3600 + mi * 60 + ss - off + off)
        with (N * 86400 + hh * 3600 + mi * 60 + ss) by lia.
      rewrite (cos_split N _ _ _ y' m' d'); try lia; [reflexivity|exact EC]. }
    assert (OUT : MX < L \/ L < MN + 2).
    { unfold in64 in IY. apply andb_false_iff in IY. destruct IY as [IY|IY].
      - right. apply Z.leb_gt in IY.
        destruct (Z_lt_le_dec L (MN + 2)) as [C|C]; [exact C|]. exfalso.
        pose proof (cos_year_mono MN (L + off) ltac:(lia)) as M.
        rewrite cos_MN, EY in M. cbn [fy civil_min64] in M. lia.
      - left. apply Z.leb_gt in IY.
        destruct (Z_lt_le_dec MX L) as [C|C]; [exact C|]. exfalso.
        pose proof (cos_year_mono (L + off) MX ltac:(lia)) as M.
        rewrite cos_MX, EY in M. cbn [fy civil_max64] in M. lia. }
    replace (in64 (zpre (zmake (abs_zone tz) L))) with false; [reflexivity|].
    symmetry. unfold in64, min64, max64 in *. lia.
Qed.

Lemma finish_zone_week_lemma : forall tz utc data s,
  zone_ok tz = true ->
  ps_saw_offset s = false -> ps_offset s = 0 ->
  ps_saw_s s = false -> 0 <= ps_week_num s <= 53 -> 0 <= ps_week_start s <= 6 ->
  skip_space data = [] ->
  0 <= tm_sec (ps_tm s) <= 60 -> 0 <= tm_min (ps_tm s) <= 59 -> 0 <= tm_hour (ps_tm s) <= 23 ->
  0 <= tm_wday (ps_tm s) <= 6 ->
  int64 (ps_year s) -> -2147483648 <= tm_year (ps_tm s) <= 2147483647 ->
  (z_extended tz = false \/
   (fy (civil_of_seconds (finish_zone_civil_week s)) <= z_last_year tz /\ z_last_year tz < YMAX)) ->
  parse_finish tz utc (Some (data, s)) = OK (finish_zone_expected_week tz s).
Proof.
  intros tz utc data s Hok Hso Ho Hs Hwn Hws Hsp Rs Rmi Rh Rwd Ry Rty Hreg.
  rewrite (finish_reduce_week tz utc data s Hso Hs ltac:(lia) Hsp Rty).
  rewrite from_week_correct; auto using fz_year_int64. cbn [bind].
  unfold fw_expected, finish_zone_expected_week. cbn [tm_wday].
  assert (EL : finish_zone_civil_week s =
               week_day_number (fz_year s) (ps_week_num s) (ps_week_start s) (tm_wday (ps_tm s)) * 86400
               + fz_hour s * 3600 + tm_min (ps_tm s) * 60
               + (if tm_sec (ps_tm s) =? 60 then 59 else tm_sec (ps_tm s))
               - (if tm_sec (ps_tm s) =? 60 then ps_offset s - 1 else ps_offset s)).
  { unfold finish_zone_civil_week. cbv zeta. rewrite Ho. destruct (tm_sec (ps_tm s) =? 60); lia. }
  rewrite EL in Hreg |- *.
  pose proof (week_tail tz (week_day_number (fz_year s) (ps_week_num s) (ps_week_start s) (tm_wday (ps_tm s)))
                (fz_hour s) (tm_min (ps_tm s)) (if tm_sec (ps_tm s) =? 60 then 59 else tm_sec (ps_tm s))
                (if tm_sec (ps_tm s) =? 60 then ps_offset s - 1 else ps_offset s)
                (if tm_sec (ps_tm s) =? 60 then 0 else ps_subsec s) Hok (fz_hour_range s Rh) Rmi) as W.
  cbv zeta in W. rewrite <- W; clear W.
  - destruct (civil_of_days _) as [[y' m'] d']. destruct (in64 y'); reflexivity.
  - destruct (Z.eqb_spec (tm_sec (ps_tm s)) 60); lia.
  - rewrite Ho. destruct (tm_sec (ps_tm s) =? 60); lia.
  - exact Hreg.
Qed.

(* ================================================================== *)
(* The scanner leaves the offset variable at its initial 0 unless it    *)
(* parsed an offset (any oracle, any format, any input)                 *)

Definition keep_off (s s' : pstate) : Prop :=
  (ps_saw_offset s' = true \/ (ps_saw_offset s' = ps_saw_offset s /\ ps_offset s' = ps_offset s)) /\
  (ps_week_start s' = ps_week_start s \/ ps_week_start s' = 0 \/ ps_week_start s' = 6).

Section ScanOffset.
Variable so : list Z -> list Z -> tmrec -> option (list Z * tmrec).

Definition good2 (s : pstate) (out : res (list Z * option (list Z * pstate))) : Prop :=
  forall fmt' d' s', out = OK (fmt', Some (d', s')) -> keep_off s s'.

Lemma g2_none s f : good2 s (OK (f, None)).
Proof. intros fmt' d' s' H. discriminate. Qed.
Lemma g2_some s f d s' : keep_off s s' -> good2 s (OK (f, Some (d, s'))).
Proof. intros K fmt' d' s'' H. inversion H; subst. exact K. Qed.
Lemma g2_strp s fr spec data s1 : keep_off s s1 -> good2 s (OK (fr, parse_tm_spec so spec data s1)).
Proof.
  intros K fmt' d' s' H. inversion H as [[H1 H2]]. clear H. unfold parse_tm_spec in H2.
  destruct (so data spec (ps_tm s1)) as [[rest tm']|]; [|discriminate].
  destruct (list_eqb spec [37; 112]); inversion H2; subst; exact K.
Qed.
Lemma g2_pes s f data : good2 s (do r <- parse_ext_seconds data s ;; OK (f, r)).
Proof.
  intros fmt' d' s' H. rewrite pes_unf in H.
  destruct (parse_int32 _ _ _ _) as [[v d1]|]; [|discriminate].
  destruct d1 as [|x d2].
  { inversion H; subst. split; [right; split; reflexivity|left; reflexivity]. }
  destruct (x =? 46).
  - destruct (parse_subseconds d2) as [[[sub d3]|]|]; cbn [bind] in H; try discriminate.
    inversion H; subst. split; [right; split; reflexivity|left; reflexivity].
  - inversion H; subst. split; [right; split; reflexivity|left; reflexivity].
Qed.
Lemma g2_pef s f data : good2 s (do r <- parse_ext_frac data s ;; OK (f, r)).
Proof.
  intros fmt' d' s' H. unfold parse_ext_frac in H. destruct data as [|c d].
  { inversion H; subst. split; [right; split; reflexivity|left; reflexivity]. }
  destruct (is_digit c).
  - destruct (parse_subseconds (c :: d)) as [[[sub d3]|]|]; cbn [bind] in H; try discriminate.
    inversion H; subst. split; [right; split; reflexivity|left; reflexivity].
  - inversion H; subst. split; [right; split; reflexivity|left; reflexivity].
Qed.

Ltac ktac := split;
  [ first [left; reflexivity | right; split; reflexivity]
  | first [left; reflexivity | right; left; reflexivity | right; right; reflexivity] ].
Ltac fin2 := first
  [ apply g2_none
  | apply g2_strp; ktac
  | apply g2_pes
  | apply g2_pef
  | apply g2_some; ktac ].
Ltac pi2 :=
  match goal with
  | |- good2 _ (match ?e with Some _ => _ | None => _ end) =>
      destruct e as [[? ?]|]; [|apply g2_none]
  end.
Ltac pi_fin2 := pi2; apply g2_some; ktac.
Ltac e4y2 := pi2; destruct (Nat.eqb _ _); [|fin2]; apply g2_some; ktac.

Lemma scan_step_keep fmt data s : good2 s (scan_step so fmt data s).
Proof.
  destruct fmt as [|f0 f1]; [fin2|]. unfold scan_step.
  destruct (is_space f0). { fin2. }
  destruct (negb (f0 =? 37)).
  { destruct data as [|c d1]; [fin2|]. destruct (c =? f0); fin2. }
  destruct f1 as [|c f2]; [fin2|]. cbv zeta.
  match goal with |- context [if c =? 69 then ?X else _] => set (EB := X) end.
  destruct (c =? 89). { clear EB. pi_fin2. }
  destruct (c =? 109). { clear EB. pi_fin2. }
  destruct ((c =? 100) || (c =? 101)). { clear EB. pi_fin2. }
  destruct (c =? 85). { clear EB. pi_fin2. }
  destruct (c =? 87). { clear EB. pi_fin2. }
  destruct (c =? 117). { clear EB. pi_fin2. }
  destruct (c =? 119). { clear EB. pi_fin2. }
  destruct (c =? 72). { clear EB. pi_fin2. }
  destruct (c =? 77). { clear EB. pi_fin2. }
  destruct (c =? 83). { clear EB. pi_fin2. }
  destruct ((c =? 73) || (c =? 108) || (c =? 114)). { clear EB. fin2. }
  destruct ((c =? 82) || (c =? 84) || (c =? 99) || (c =? 88)). { clear EB. fin2. }
  destruct (c =? 122). { clear EB. pi_fin2. }
  destruct (c =? 90).
  { clear EB. destruct (span_while _ data) as [zn d1]. destruct zn; fin2. }
  destruct (c =? 115). { clear EB. pi_fin2. }
  destruct (c =? 58).
  { clear EB. match goal with |- good2 _ (match ?m with Some _ => _ | None => _ end) =>
      destruct m as [fr|] end.
    - pi_fin2.
    - fin2. }
  destruct (c =? 37).
  { clear EB. destruct data as [|x d1]; [fin2|]. walk_Z x; fin2. }
  destruct (c =? 69).
  { subst EB. destruct f2 as [|d f3]; [fin2|].
    match goal with |- good2 _ (match d with Z0 => ?D | Zpos _ => _ | Zneg _ => _ end) => remember D as DD eqn:HD end.
    assert (HG : good2 s DD).
    { assert (HS : good2 s (OK (f3, parse_tm_spec so (firstn (length (f0 :: c :: d :: f3) - length f3) (f0 :: c :: d :: f3)) data
                                  match d with 99 | 88 => set_twelve s false | _ => s end))).
      { apply g2_strp. walk_Z d; ktac. }
      subst DD. destruct (is_digit d); [|exact HS].
      destruct (parse_int32 (d :: f3) 0 0 1024) as [[v l]|]; [|exact HS].
      destruct l as [|z f5]; [exact HS|]. walk_Z z; first [exact HS | fin2]. }
    clear HD.
    walk_Z d; try exact HG;
    first
    [ solve [pi_fin2]
    | solve [destruct data as [|x d1]; [fin2|]; destruct ((x =? 84) || (x =? 116)); fin2]
    | destruct f3 as [|e f4]; [exact HG|]; walk_Z e; try exact HG; first [fin2 | solve [pi_fin2] | e4y2] ]. }
  clear EB. destruct (c =? 79).
  { apply g2_strp. destruct f2 as [|x f3]; [ktac|]. walk_Z x; ktac. }
  fin2.
Qed.

Definition scan_inv (s : pstate) : Prop :=
  (ps_saw_offset s = false -> ps_offset s = 0) /\ (ps_week_start s = 0 \/ ps_week_start s = 6).

Lemma scan_loop_keep : forall fuel fmt data s rest s',
  scan_loop so fuel fmt data s = OK (Some (rest, s')) -> scan_inv s -> scan_inv s'.
Proof.
  induction fuel as [|f IH]; intros fmt data s rest s' H J; [discriminate|].
  destruct fmt as [|f0 f1].
  - cbn [scan_loop] in H. inversion H; subst. exact J.
  - cbn [scan_loop] in H.
    pose proof (scan_step_keep (f0 :: f1) data s) as K.
    destruct (scan_step so (f0 :: f1) data s) as [[fmt' r]|e]; cbn [bind] in H; [|discriminate].
    destruct r as [[d1 s1]|]; [|discriminate].
    specialize (K fmt' d1 s1 eq_refl).
    apply (IH _ _ _ _ _ H). destruct J as [J1 J2]. destruct K as [K1 K2]. split.
    + intros Hs1. destruct K1 as [K|[K1 K3]]; [congruence|]. rewrite K3. apply J1. congruence.
    + destruct K2 as [K|[K|K]]; [rewrite K; exact J2|left; exact K|right; exact K].
Qed.
End ScanOffset.

(* what the scanning loop guarantees beyond ParseProofs.scan_range_lemma: the
   offset variable is still 0 unless an offset was parsed, and week_start is
   Sunday (6, %U) or Monday (0, %W) in cctz's numbering *)
Lemma scan_offset_zero_lemma : forall strptime_o fmt data rest s,
  scan_loop strptime_o (S (length fmt)) fmt data ps0 = OK (Some (rest, s)) ->
  (ps_saw_offset s = false -> ps_offset s = 0) /\ (ps_week_start s = 0 \/ ps_week_start s = 6).
Proof.
  intros so fmt data rest s H. apply (scan_loop_keep so _ _ _ _ _ _ H).
  split; [reflexivity|right; reflexivity].
Qed.

(* ================================================================== *)
(* Scanner + post-processing glued (formats handled without strptime)   *)

Lemma parse_zone_correct_lemma : forall strptime_o tz utc fmt input rest s,
  zone_ok tz = true -> no_strptime' strptime_o ->
  scan_loop strptime_o (S (length (c_str fmt))) (c_str fmt) (skip_space (c_str input)) ps0
    = OK (Some (rest, s)) ->
  skip_space rest = [] ->
  ps_saw_offset s = false -> ps_saw_s s = false -> ps_week_num s = -1 ->
  -2147483648 <= tm_year (ps_tm s) <= 2147483647 ->
  (z_extended tz = false \/
   (fy (civil_of_seconds (finish_zone_civil s)) <= z_last_year tz /\ z_last_year tz < YMAX)) ->
  parse_impl strptime_o tz utc fmt input = OK (finish_zone_expected tz s).
Proof.
  intros so tz utc fmt input rest s Hok Hno Hscan Hsp Hso Hs Hw Rty Hreg.
  unfold parse_impl. rewrite Hscan. cbn [bind].
  pose proof (scan_range_lemma so _ _ _ _ Hno Hscan) as R. unfold fields_in_range' in R. cbv zeta in R.
  destruct R as (R1 & R2 & R3 & R4 & R5 & _ & _ & _ & _ & R10 & _).
  destruct (scan_offset_zero_lemma so _ _ _ _ Hscan) as [Ho _].
  apply finish_zone_correct_lemma; auto.
Qed.

(* ================================================================== *)
(* For every accepted file                                             *)

Lemma accepted_finish_zone_future_lemma : forall bs tz utc data s l,
  load_bytes bs = OK (Some tz) ->
  gaps_wide (zz_doff (abs_zone tz)) (zz_tr (abs_zone tz)) = true ->
  z_extended tz = true ->
  last_opt (z_trans tz) = Some l -> fy (tr_cs l) = z_last_year tz -> P400 <= tr_time l ->
  fy (tr_pcs l) <= z_last_year tz ->
  ps_saw_offset s = false -> ps_offset s = 0 ->
  ps_saw_s s = false -> ps_week_num s = -1 ->
  skip_space data = [] ->
  0 <= tm_sec (ps_tm s) <= 60 -> 0 <= tm_min (ps_tm s) <= 59 -> 0 <= tm_hour (ps_tm s) <= 23 ->
  1 <= tm_mday (ps_tm s) <= 31 -> 0 <= tm_mon (ps_tm s) <= 11 ->
  int64 (ps_year s) -> -2147483648 <= tm_year (ps_tm s) <= 2147483647 ->
  z_last_year tz < fy (civil_of_seconds (finish_zone_civil s)) ->
  parse_finish tz utc (Some (data, s)) = OK (finish_zone_expected_future tz s).
Proof.
  intros bs tz utc data s l H G. apply finish_zone_future_lemma.
  exact (load_establishes_certificate_lemma _ _ H G).
Qed.

Lemma accepted_finish_zone_week_lemma : forall bs tz utc data s,
  load_bytes bs = OK (Some tz) ->
  gaps_wide (zz_doff (abs_zone tz)) (zz_tr (abs_zone tz)) = true ->
  ps_saw_offset s = false -> ps_offset s = 0 ->
  ps_saw_s s = false -> 0 <= ps_week_num s <= 53 -> 0 <= ps_week_start s <= 6 ->
  skip_space data = [] ->
  0 <= tm_sec (ps_tm s) <= 60 -> 0 <= tm_min (ps_tm s) <= 59 -> 0 <= tm_hour (ps_tm s) <= 23 ->
  0 <= tm_wday (ps_tm s) <= 6 ->
  int64 (ps_year s) -> -2147483648 <= tm_year (ps_tm s) <= 2147483647 ->
  (z_extended tz = false \/
   (fy (civil_of_seconds (finish_zone_civil_week s)) <= z_last_year tz /\ z_last_year tz < YMAX)) ->
  parse_finish tz utc (Some (data, s)) = OK (finish_zone_expected_week tz s).
Proof.
  intros bs tz utc data s H G. apply finish_zone_week_lemma.
  exact (load_establishes_certificate_lemma _ _ H G).
Qed.

(* ================================================================== *)
(* Non-vacuity: the specification evaluated against parse_finish on concrete
   zones (an accepted EST5EDT file whose footer extends the table to 2402; the
   two-transition gap_zone of ImplRoundTrip.v for the range ends)            *)

(* version-2 TZif: one transition at 10^9 to EDT, footer EST5EDT,M3.2.0,M11.1.0 *)
Definition est_bytes : list Z :=
  tzif_header 50 0 0 0 ++ tzif_header 50 1 2 8 ++ [0;0;0;0;59;154;202;0] ++ [1]
  ++ [255;255;185;176;0;0] ++ [255;255;199;192;1;4] ++ [69;83;84;0;69;68;84;0] ++ [10]
  ++ [69;83;84;53;69;68;84;44;77;51;46;50;46;48;44;77;49;49;46;49;46;48] ++ [10].
Definition est_zone : zone := match load_bytes est_bytes with OK (Some z) => z | _ => gap_zone end.

Definition ps_of (y mo d h mi se sub : Z) : pstate :=
  mkPS y true (mkTM se mi h d (mo - 1) 70 4 0 0) sub false 0 false false (-1) 6 false 0.
Definition ps_at (L : Z) : pstate :=
  let f := cos L in ps_of (fy f) (fm f) (fd f) (fhh f) (fmm f) (fss f) 7.
Definition ps_week (y wn ws wday h : Z) : pstate :=
  mkPS y true (mkTM 0 0 h 1 0 70 wday 0 0) 5 false 0 false false wn ws false 0.
Definition res_eqb (a : res (option (Z * Z))) (b : option (Z * Z)) : bool :=
  match a, b with
  | OK (Some (p, q)), Some (p', q') => (p =? p') && (q =? q')
  | OK None, None => true
  | _, _ => false
  end.

Example finish_zone_examples :
  (match load_bytes est_bytes with OK (Some z) => zone_ok z && z_extended z && (z_last_year z =? 2402) | _ => false end) = true /\
  (* skipped 02:00-03:00 on 2002-03-10, repeated 01:00-02:00 on 2002-11-03, ":60", Feb 30, 12-hour PM *)
  forallb (fun s => res_eqb (parse_finish est_zone gap_zone (Some ([], s))) (finish_zone_expected est_zone s))
    [ps_of 2002 3 10 1 59 59 9; ps_of 2002 3 10 1 59 60 9; ps_of 2002 3 10 2 0 0 9; ps_of 2002 3 10 2 30 0 9;
     ps_of 2002 3 10 2 59 59 9; ps_of 2002 3 10 3 0 0 9;
     ps_of 2002 11 3 0 59 60 9; ps_of 2002 11 3 1 0 0 9; ps_of 2002 11 3 1 30 0 9; ps_of 2002 11 3 1 59 59 9;
     ps_of 2002 11 3 1 59 60 9; ps_of 2002 11 3 2 0 0 9;
     ps_of 2002 2 30 0 0 0 9; ps_of 1960 1 1 0 0 0 9; ps_of 2402 12 31 23 59 59 9;
     mkPS 1970 false (mkTM 5 6 7 12 0 101 4 0 0) 5 false 0 true true (-1) 6 false 0] = true /\
  parse_finish est_zone gap_zone (Some ([], ps_of 2002 3 10 2 30 0 9)) = OK (Some (1015745400, 9)) /\
  parse_finish est_zone gap_zone (Some ([], ps_of 2002 11 3 1 30 0 9)) = OK (Some (1036301400, 9)) /\
  (* the range ends, in a zone whose last offset is +1:00 *)
  forallb (fun L => res_eqb (parse_finish gap_zone est_zone (Some ([], ps_at L))) (finish_zone_expected gap_zone (ps_at L)))
    [max64; max64 + 3600; max64 + 3601; max64 + 3599; min64; min64 - 1; min64 + 1; 1000000; 1003599; 1003600] = true /\
  parse_finish gap_zone est_zone (Some ([], ps_at (max64 + 3600))) = OK (Some (max64, 7)) /\
  parse_finish gap_zone est_zone (Some ([], ps_at (max64 + 3601))) = OK None /\
  parse_finish gap_zone est_zone (Some ([], ps_at min64)) = OK (Some (min64, 7)) /\
  parse_finish gap_zone est_zone (Some ([], ps_at (min64 - 1))) = OK None /\
  (* beyond last_year: 400-year continuation, and the ends of int64 (EST: -5:00) *)
  forallb (fun s => res_eqb (parse_finish est_zone gap_zone (Some ([], s))) (finish_zone_expected_future est_zone s))
    [ps_of 2403 1 1 0 0 0 9; ps_of 3000 3 9 2 30 0 9; ps_of 3000 11 2 1 30 0 9; ps_of 3000 7 1 12 0 0 9;
     ps_of 2802 12 31 23 59 60 9; ps_at (max64 - 18000); ps_at (max64 - 18000 + 1); ps_at (max64 - 18001)] = true /\
  (* week numbers: %U (6) and %W (0) *)
  forallb (fun s => res_eqb (parse_finish est_zone gap_zone (Some ([], s))) (finish_zone_expected_week est_zone s))
    [ps_week 2024 1 6 3 12; ps_week 2024 0 0 0 12; ps_week 2024 53 0 0 12; ps_week 2002 9 6 0 2; ps_week 2002 43 6 0 1;
     ps_week max64 53 6 3 0; ps_week min64 0 6 3 0] = true.
Proof. vm_compute. repeat split; reflexivity. Qed.

(* Observation (not a defect of the model; recorded for the property text):
   ":60" denotes the civil second AFTER ":59", so "01:59:60" on the fall-back
   day is 02:00:00 standard time, 3601 s after the `pre` reading of "01:59:59"
   (it is not lookup(01:59:59).pre + 1). *)
Example leap_second_on_repeated_hour :
  parse_finish est_zone gap_zone (Some ([], ps_of 2002 11 3 1 59 59 0)) = OK (Some (1036303199, 0)) /\
  parse_finish est_zone gap_zone (Some ([], ps_of 2002 11 3 1 59 60 0)) = OK (Some (1036306800, 0)) /\
  finish_zone_expected est_zone (ps_of 2002 11 3 1 59 60 0) = Some (1036306800, 0).
Proof. vm_compute. repeat split; reflexivity. Qed.

Print Assumptions range_rule_lemma.
Print Assumptions finish_zone_correct_last_lemma.
Print Assumptions accepted_finish_zone_correct_lemma.
Print Assumptions finish_zone_future_lemma.
Print Assumptions accepted_finish_zone_future_lemma.
Print Assumptions from_week_correct.
Print Assumptions week_day_number_char.
Print Assumptions finish_zone_week_lemma.
Print Assumptions accepted_finish_zone_week_lemma.
Print Assumptions scan_offset_zero_lemma.
Print Assumptions parse_zone_correct_lemma.
Print Assumptions finish_zone_examples.
Print Assumptions leap_second_on_repeated_hour.
Print Assumptions finish_zone_correct_lemma.

(* Status: everything above is proved; every `Print Assumptions` reports
   "Closed under the global context".
   - The specification reads ":60" as the civil second after ":59" (the code
     subtracts offset - 1 from the civil second BEFORE the zone lookup); in UTC
     this coincides with finish_expected's "second 59, plus one".
   - The premise `z_last_year tz < YMAX` (YMAX = 292277026596, the civil year of
     the last int64 instant) of the table-region lemma: zone_ok does not relate
     last_year_ to the table, and with last_year >= YMAX a result saturated at
     max() would consult lookup(max()) through BreakTime's extended branch.
     It follows from fy (tr_cs last) = z_last_year (last_year_bound), which is
     what ExtendTransitions guarantees and what make_future_lemma also assumes.
   - In the table region the code's range rule (accept tp == max() only if
     cs <= lookup(max()).cs, tp == min() only if cs >= lookup(min()).cs) is
     exactly "zpre is an int64" (range_rule_lemma).  Beyond last_year this need
     not hold: MakeTime saturates with min(max, .), and a SKIPPED civil second
     whose gap straddles max() has pre > max() but is <= lookup(max()).cs, so
     the code returns max() for it; finish_zone_expected_future therefore states
     the rule as the code has it.
   - `ps_offset s = 0` is what the scanner guarantees when no offset was parsed
     (scan_offset_zero_lemma); fields_in_range (Properties_C09) does not say so. *)
