// C18: the templates instantiated for the panel of duration types.
#ifndef VERIF_HARNESS_C18_H_
#define VERIF_HARNESS_C18_H_
#include <chrono>
#include <cstdint>
#include <ratio>
#include <sstream>
#include <string>
#include <vector>
#include "cctz/time_zone.h"
namespace c18 {
typedef std::vector<std::string> Args;
std::string unhex_(const std::string& h);
std::string hex_(const std::string& s);
long long I_(const std::string& s);

template <typename D>
std::string run_t(const Args& a) {
  using TP = cctz::time_point<D>;
  const std::string& op = a[0];
  const cctz::time_zone utc = cctz::utc_time_zone();
  std::ostringstream os;
  if (op == "split") {
    const TP tp{D(static_cast<typename D::rep>(I_(a[2])))};
    const auto p = cctz::detail::split_seconds(tp);
    os << static_cast<long long>(p.first.time_since_epoch().count()) << ' ' << static_cast<long long>(p.second.count());
  } else if (op == "tfmt") {
    const TP tp{D(static_cast<typename D::rep>(I_(a[2])))};
    os << hex_(cctz::format(unhex_(a[3]), tp, utc));
  } else if (op == "tconv") {
    const TP tp{D(static_cast<typename D::rep>(I_(a[2])))};
    const cctz::civil_second cs = cctz::convert(tp, utc);
    os << static_cast<long long>(cs.year()) << ' ' << cs.month() << ' ' << cs.day() << ' ' << cs.hour() << ' ' << cs.minute() << ' ' << cs.second();
  } else if (op == "tparse") {
    TP tp;
    if (!cctz::parse(unhex_(a[2]), unhex_(a[3]), utc, &tp)) return "0";
    os << "1 " << static_cast<long long>(tp.time_since_epoch().count());
  } else {  // join <T> <sec> <fs>
    TP tp;
    const cctz::time_point<cctz::seconds> sec{cctz::seconds(I_(a[2]))};
    if (!cctz::detail::join_seconds(sec, cctz::detail::femtoseconds(I_(a[3])), &tp)) return "0";
    os << "1 " << static_cast<long long>(tp.time_since_epoch().count());
  }
  return os.str();
}

inline std::string run(const Args& a) {
  using std::chrono::duration;
  const std::string& t = a[1];
  if (t == "ns64") return run_t<duration<std::int64_t, std::nano>>(a);
  if (t == "us64") return run_t<duration<std::int64_t, std::micro>>(a);
  if (t == "ms64") return run_t<duration<std::int64_t, std::milli>>(a);
  if (t == "s64") return run_t<duration<std::int64_t>>(a);
  if (t == "min32") return run_t<duration<std::int32_t, std::ratio<60>>>(a);
  if (t == "h32") return run_t<duration<std::int32_t, std::ratio<3600>>>(a);
  if (t == "s8") return run_t<duration<std::int8_t>>(a);
  if (t == "s16") return run_t<duration<std::int16_t>>(a);
  if (t == "min8") return run_t<duration<std::int8_t, std::ratio<60>>>(a);
  if (t == "min16") return run_t<duration<std::int16_t, std::ratio<60>>>(a);
  if (t == "third64") return run_t<duration<std::int64_t, std::ratio<1, 3>>>(a);
  if (t == "fs64") return run_t<duration<std::int64_t, std::femto>>(a);
  return "?type";
}
}  // namespace c18
#endif
