// Zone table + a strong cctz_extension::zone_info_source_factory that serves
// names "V:<id>" from the table named by $VERIF_ZONES ("<id> <hex bytes>" per
// line); every other name goes to the fallback (files under $TZDIR).
#ifndef VERIF_HARNESS_ZONE_H_
#define VERIF_HARNESS_ZONE_H_
#include <atomic>
#include <cstdlib>
#include <fstream>
#include <map>
#include <memory>
#include <string>
#include "cctz/time_zone.h"
#include "cctz/zone_info_source.h"

namespace vz {

inline std::map<std::string, std::string>& Table() {
  static std::map<std::string, std::string>* t = [] {
    auto* m = new std::map<std::string, std::string>;
    if (const char* p = std::getenv("VERIF_ZONES")) {
      std::ifstream in(p);
      std::string id, hexs;
      while (in >> id >> hexs) {
        std::string out;
        if (hexs != "-") {
          out.reserve(hexs.size() / 2);
          for (size_t i = 0; i + 1 < hexs.size(); i += 2) {
            auto nib = [](char c) { return c <= '9' ? c - '0' : c - 'a' + 10; };
            out.push_back(static_cast<char>(nib(hexs[i]) * 16 + nib(hexs[i + 1])));
          }
        }
        (*m)[id] = out;
      }
    }
    return m;
  }();
  return *t;
}

extern std::atomic<long> g_factory_calls;

class MemSource : public cctz::ZoneInfoSource {
 public:
  explicit MemSource(const std::string& d) : data_(d), pos_(0) {}
  std::size_t Read(void* ptr, std::size_t size) override {
    std::size_t n = std::min(size, data_.size() - pos_);
    if (n) std::memcpy(ptr, data_.data() + pos_, n);
    pos_ += n;
    return n;
  }
  int Skip(std::size_t offset) override {
    pos_ += std::min(offset, data_.size() - pos_);
    return 0;
  }
 private:
  std::string data_;
  std::size_t pos_;
};

inline std::unique_ptr<cctz::ZoneInfoSource> Factory(
    const std::string& name,
    const std::function<std::unique_ptr<cctz::ZoneInfoSource>(const std::string&)>& fallback) {
  ++g_factory_calls;
  if (name.compare(0, 2, "V:") == 0) {
    // "V:<id>" or "V:<id>#<anything>" (a second cache key for the same bytes)
    std::string id = name.substr(2);
    size_t h = id.find('#');
    if (h != std::string::npos) id = id.substr(0, h);
    h = id.find('\0');   // a name with an embedded NUL is a different name for the same bytes
    if (h != std::string::npos) id = id.substr(0, h);
    auto it = Table().find(id);
    if (it == Table().end()) return nullptr;
    return std::unique_ptr<cctz::ZoneInfoSource>(new MemSource(it->second));
  }
  return fallback(name);
}

inline cctz::time_point<cctz::seconds> TP(long long t) {
  return cctz::time_point<cctz::seconds>(cctz::seconds(t));
}
inline long long UT(const cctz::time_point<cctz::seconds>& tp) {
  return static_cast<long long>(tp.time_since_epoch().count());
}

// load "V:<id>[#key]"; returns false when the loader rejected the bytes
inline bool Zone(const std::string& id, cctz::time_zone* tz) {
  if (id.compare(0, 2, "N:") == 0) {  // "N:<hex name>": a name loaded directly
    std::string name;
    for (size_t i = 2; i + 1 < id.size(); i += 2) {
      auto nib = [](char c) { return c <= '9' ? c - '0' : c - 'a' + 10; };
      name.push_back(static_cast<char>(nib(id[i]) * 16 + nib(id[i + 1])));
    }
    return cctz::load_time_zone(name, tz);
  }
  return cctz::load_time_zone("V:" + id, tz);
}

}  // namespace vz
#endif
