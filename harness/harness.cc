// Correspondence harness: runs the real cctz (compiled from /repo's working
// tree on every run, ASan+UBSan) on a case file, one case per line, and prints
// one canonical result line per case.  The extracted Coq model (ocaml/driver)
// reads the same file.  See DESIGN.md section 3.
#include <algorithm>
#include <atomic>
#include <chrono>
#include <cstdint>
#include <cstdio>
#include <cstdlib>
#include <cstring>
#include <fstream>
#include <functional>
#include <iostream>
#include <limits>
#include <map>
#include <memory>
#include <sstream>
#include <string>
#include <thread>
#include <vector>

#include "cctz/civil_time.h"
#include "cctz/time_zone.h"
#include "cctz/zone_info_source.h"
#include "time_zone_fixed.h"
#include "time_zone_posix.h"
#include "harness_zone.h"
#include "harness_c18.h"

namespace vz { std::atomic<long> g_factory_calls{0}; }
namespace cctz_extension { ZoneInfoSourceFactory zone_info_source_factory = vz::Factory; }

// UBSan calls this (weak hook) on every report; we count per case.
static int g_ub = 0;
extern "C" void __ubsan_on_report(void) { ++g_ub; }

typedef std::vector<std::string> Args;
typedef long long ll;

static ll I(const std::string& s) {
  // full int64 range (strtoll saturates; inputs are generated in range)
  return std::strtoll(s.c_str(), nullptr, 10);
}
static std::string unhex(const std::string& h) {
  if (h == "-") return std::string();
  std::string out;
  for (size_t i = 0; i + 1 < h.size(); i += 2) {
    out.push_back(static_cast<char>(std::stoi(h.substr(i, 2), nullptr, 16)));
  }
  return out;
}
static std::string hex(const std::string& s) {
  if (s.empty()) return "-";
  static const char* d = "0123456789abcdef";
  std::string out;
  for (unsigned char c : s) {
    out.push_back(d[c >> 4]);
    out.push_back(d[c & 15]);
  }
  return out;
}

template <typename CT>
static std::string F(const CT& c) {
  std::ostringstream os;
  os << static_cast<ll>(c.year()) << ' ' << c.month() << ' ' << c.day() << ' '
     << c.hour() << ' ' << c.minute() << ' ' << c.second();
  return os.str();
}

// Dispatch on the alignment tag: 0 second .. 5 year.
template <typename Fn>
static std::string with_tag(int tag, Fn fn) {
  switch (tag) {
    case 0: return fn(cctz::civil_second());
    case 1: return fn(cctz::civil_minute());
    case 2: return fn(cctz::civil_hour());
    case 3: return fn(cctz::civil_day());
    case 4: return fn(cctz::civil_month());
    default: return fn(cctz::civil_year());
  }
}

struct Ctor {
  const Args& a; size_t off;
  template <typename CT> CT make(CT) const {
    return CT(I(a[off]), I(a[off + 1]), I(a[off + 2]), I(a[off + 3]), I(a[off + 4]), I(a[off + 5]));
  }
};

static cctz::weekday WD(ll w) { return static_cast<cctz::weekday>(w); }

struct OpCtor { const Args& a;
  template <typename CT> std::string operator()(CT t) const { return F(Ctor{a, 2}.make(t)); } };
struct OpAdd { const Args& a;
  template <typename CT> std::string operator()(CT t) const { CT c = Ctor{a, 2}.make(t); return F(c + I(a[8])); } };
struct OpSub { const Args& a;
  template <typename CT> std::string operator()(CT t) const { CT c = Ctor{a, 2}.make(t); return F(c - I(a[8])); } };
// every spelling of "move by n": n + c, c += n, c -= n (the compound forms have bodies of their own)
struct OpAddEq { const Args& a;
  template <typename CT> std::string operator()(CT t) const { CT c = Ctor{a, 2}.make(t); c += I(a[8]); return F(c); } };
struct OpSubEq { const Args& a;
  template <typename CT> std::string operator()(CT t) const { CT c = Ctor{a, 2}.make(t); c -= I(a[8]); return F(c); } };
struct OpAddL { const Args& a;
  template <typename CT> std::string operator()(CT t) const { CT c = Ctor{a, 2}.make(t); return F(I(a[8]) + c); } };
struct OpDiff { const Args& a;
  template <typename CT> std::string operator()(CT t) const {
    CT c1 = Ctor{a, 2}.make(t); CT c2 = Ctor{a, 8}.make(t);
    return std::to_string(static_cast<ll>(c1 - c2)); } };
struct OpInc { const Args& a;  // ++, --, +=, -= agree with + and -
  template <typename CT> std::string operator()(CT t) const {
    CT c = Ctor{a, 2}.make(t); CT p = c; CT q = c; CT r = c; CT s = c;
    ++p; q++; --r; s--;
    CT u = c; u += 3; CT v = c; v -= 3;
    return F(p) + " | " + F(q) + " | " + F(r) + " | " + F(s) + " | " + F(u) + " | " + F(v); } };
struct OpStream { const Args& a;
  template <typename CT> std::string operator()(CT t) const {
    std::ostringstream os; os << Ctor{a, 2}.make(t); return hex(os.str()); } };
struct OpConv { const Args& a; int to;
  template <typename CT> std::string operator()(CT t) const {
    CT c = Ctor{a, 3}.make(t);
    switch (to) {
      case 0: return F(cctz::civil_second(c));
      case 1: return F(cctz::civil_minute(c));
      case 2: return F(cctz::civil_hour(c));
      case 3: return F(cctz::civil_day(c));
      case 4: return F(cctz::civil_month(c));
      default: return F(cctz::civil_year(c));
    } } };
struct OpCmp { const Args& a; int t2;
  template <typename C1> std::string operator()(C1 t) const {
    C1 c1 = Ctor{a, 3}.make(t);
    return with_tag(t2, Inner<C1>{a, c1}); }
  template <typename C1> struct Inner { const Args& a; C1 c1;
    template <typename C2> std::string operator()(C2 t) const {
      C2 c2 = Ctor{a, 9}.make(t);
      std::ostringstream os;
      os << (c1 < c2) << (c1 <= c2) << (c1 == c2) << (c1 != c2) << (c1 >= c2) << (c1 > c2);
      return os.str(); } };
};

namespace c18 { std::string unhex_(const std::string& h) { return unhex(h); } std::string hex_(const std::string& s) { return hex(s); } long long I_(const std::string& s) { return I(s); } }
static std::string run_case(const Args& a);
static std::string run_case(const Args& a) {
  const std::string& op = a[0];
  // ---------------- civil time (C04, C05, C17) ----------------
  if (op == "ctor") return with_tag(static_cast<int>(I(a[1])), OpCtor{a});
  if (op == "add") return with_tag(static_cast<int>(I(a[1])), OpAdd{a});
  if (op == "sub") return with_tag(static_cast<int>(I(a[1])), OpSub{a});
  if (op == "addeq") return with_tag(static_cast<int>(I(a[1])), OpAddEq{a});
  if (op == "subeq") return with_tag(static_cast<int>(I(a[1])), OpSubEq{a});
  if (op == "addl") return with_tag(static_cast<int>(I(a[1])), OpAddL{a});
  if (op == "diff") return with_tag(static_cast<int>(I(a[1])), OpDiff{a});
  if (op == "inc") return with_tag(static_cast<int>(I(a[1])), OpInc{a});
  if (op == "stream") return with_tag(static_cast<int>(I(a[1])), OpStream{a});
  if (op == "conv") return with_tag(static_cast<int>(I(a[1])), OpConv{a, static_cast<int>(I(a[2]))});
  if (op == "cmp") return with_tag(static_cast<int>(I(a[1])), OpCmp{a, static_cast<int>(I(a[2]))});
  if (op == "wd") {
    cctz::civil_second cs(I(a[1]), I(a[2]), I(a[3]), I(a[4]), I(a[5]), I(a[6]));
    return std::to_string(static_cast<int>(cctz::get_weekday(cs)));
  }
  if (op == "yd") {
    cctz::civil_second cs(I(a[1]), I(a[2]), I(a[3]), I(a[4]), I(a[5]), I(a[6]));
    return std::to_string(cctz::get_yearday(cs));
  }
  if (op == "nwd") {
    cctz::civil_day cd(I(a[1]), I(a[2]), I(a[3]));
    return F(cctz::next_weekday(cd, WD(I(a[4]))));
  }
  if (op == "pwd") {
    cctz::civil_day cd(I(a[1]), I(a[2]), I(a[3]));
    return F(cctz::prev_weekday(cd, WD(I(a[4]))));
  }
  // ---------------- fixed-offset helpers (C15) ----------------
  if (op == "fx_name") return hex(cctz::FixedOffsetToName(cctz::seconds(I(a[1]))));
  if (op == "fx_abbr") return hex(cctz::FixedOffsetToAbbr(cctz::seconds(I(a[1]))));
  if (op == "fx_from") {
    cctz::seconds off(12345678);
    bool ok = cctz::FixedOffsetFromName(unhex(a[1]), &off);
    return ok ? "1 " + std::to_string(static_cast<ll>(off.count())) : "0";
  }
  // ---------------- POSIX TZ parser (C16) ----------------
  if (op == "posix") {
    const std::string spec = unhex(a[1]);
    cctz::PosixTimeZone r[2];
    bool ok[2];
    for (int k = 0; k < 2; ++k) {
      const int pat = k ? 0x7f : 0x00;
      std::memset(&r[k].dst_start, pat, sizeof r[k].dst_start);
      std::memset(&r[k].dst_end, pat, sizeof r[k].dst_end);
      std::memset(&r[k].std_offset, pat, sizeof r[k].std_offset);
      std::memset(&r[k].dst_offset, pat, sizeof r[k].dst_offset);
      ok[k] = cctz::ParsePosixSpec(spec, &r[k]);
    }
    if (ok[0] != ok[1]) return "?nondeterministic-accept";
    if (!ok[0]) return "0";
    std::ostringstream os;
    auto num = [&](ll x, ll y) { if (x == y) os << ' ' << x; else os << " U"; };
    auto tr = [&](const cctz::PosixTransition& x, const cctz::PosixTransition& y) {
      int fx, fy;  // read the enum through memcpy: a never-written fmt is not a valid enumerator
      std::memcpy(&fx, &x.date.fmt, sizeof fx);
      std::memcpy(&fy, &y.date.fmt, sizeof fy);
      if (fx != fy) {
        os << " U";
      } else if (fx == cctz::PosixTransition::J) {
        os << " J"; num(x.date.j.day, y.date.j.day);
      } else if (fx == cctz::PosixTransition::N) {
        os << " N"; num(x.date.n.day, y.date.n.day);
      } else if (fx == cctz::PosixTransition::M) {
        os << " M"; num(x.date.m.month, y.date.m.month); num(x.date.m.week, y.date.m.week);
        num(x.date.m.weekday, y.date.m.weekday);
      } else {
        os << " ?fmt";
      }
      os << " /"; num(x.time.offset, y.time.offset);
    };
    if (r[0].std_abbr != r[1].std_abbr || r[0].dst_abbr != r[1].dst_abbr) return "?nondeterministic-abbr";
    os << "1 " << hex(r[0].std_abbr); num(r[0].std_offset, r[1].std_offset);
    os << ' ' << hex(r[0].dst_abbr); num(r[0].dst_offset, r[1].dst_offset);
    os << " ;"; tr(r[0].dst_start, r[1].dst_start);
    os << " ;"; tr(r[0].dst_end, r[1].dst_end);
    return os.str();
  }
#include "harness_zone.inc"
  return "?unknown-op";
}

// Fork server: UBSan reports each source location only once per process and
// ASan aborts the process, so cases run in a child which hands control back to
// the parent after the first case that produced a report; the parent (whose
// sanitizer state is pristine) forks a fresh child for the remaining cases.
#include <sys/mman.h>
#include <sys/wait.h>
#include <unistd.h>
#include <fcntl.h>

int main(int argc, char** argv) {
  if (argc < 3) { fprintf(stderr, "usage: harness <cases> <out>\n"); return 2; }
  std::ifstream in(argv[1]);
  std::vector<std::string> lines;
  std::string line;
  while (std::getline(in, line)) lines.push_back(line);
  int fd = open(argv[2], O_WRONLY | O_CREAT | O_TRUNC, 0644);
  if (fd < 0) return 2;
  volatile long* progress = static_cast<volatile long*>(
      mmap(nullptr, sizeof(long), PROT_READ | PROT_WRITE, MAP_SHARED | MAP_ANONYMOUS, -1, 0));
  *progress = 0;
  const long n = static_cast<long>(lines.size());
  const bool nofork = getenv("VERIF_NOFORK") != nullptr;
  while (*progress < n) {
    pid_t pid = nofork ? 0 : fork();
    if (pid == 0) {
      for (long i = *progress; i < n; ++i) {
        const std::string& l = lines[i];
        std::string r;
        g_ub = 0;
        if (!(l.empty() || l[0] == '#')) {
          Args a;
          std::istringstream is(l);
          std::string tok;
          while (is >> tok) a.push_back(tok);
          r = run_case(a);
          if (g_ub) r += " UB";
        }
        r += "\n";
        if (write(fd, r.data(), r.size()) < 0) _exit(3);
        *progress = i + 1;
        if (g_ub && !nofork) _exit(0);
      }
      if (nofork) break;
      _exit(0);
    }
    int st = 0;
    waitpid(pid, &st, 0);
    if (!(WIFEXITED(st) && WEXITSTATUS(st) == 0)) {
      // the child died on case *progress (ASan report, crash, assert)
      char buf[64];
      int k = snprintf(buf, sizeof buf, "?ABORT status=%d\n", st);
      if (write(fd, buf, static_cast<size_t>(k)) < 0) return 3;
      *progress = *progress + 1;
    }
  }
  close(fd);
  return 0;
}
