// Thread harness for C13 / C20: executes schedules of the loader at the
// granularity of its critical sections.  A strong zone_info_source_factory
// parks the calling thread inside the factory until it is released, so
//   S<t>:<name>  runs S1 of load_time_zone(name) on thread t and, on a cache
//                miss of a non-fixed name, parks it inside the factory (S2);
//   R<t>         lets thread t finish S2 and S3.
// One schedule per input line, each run in a fresh child process (the cache is
// process-global).  Output per line:  results | factory log.
// Mode "stress <seed> <nthreads> <iters>": free-running threads mixing loads
// with lookups/format/parse on shared zones (run under ThreadSanitizer).
#include <atomic>
#include <chrono>
#include <condition_variable>
#include <cstdio>
#include <cstdlib>
#include <cstring>
#include <fstream>
#include <map>
#include <mutex>
#include <sstream>
#include <string>
#include <thread>
#include <vector>
#include <sys/wait.h>
#include <unistd.h>
#include <fcntl.h>

#include "cctz/civil_time.h"
#include "cctz/time_zone.h"
#include "cctz/zone_info_source.h"
#include "harness_zone.h"

namespace vz { std::atomic<long> g_factory_calls{0}; }

namespace {

// schedule tokens spell a NUL inside a zone name as "%00"
std::string Unesc(const std::string& s) {
  std::string o;
  for (size_t i = 0; i < s.size(); ++i) {
    if (s.compare(i, 3, "%00") == 0) { o.push_back('\0'); i += 2; } else o.push_back(s[i]);
  }
  return o;
}
std::string Esc(const std::string& s) {
  std::string o;
  for (char c : s) { if (c == '\0') o += "%00"; else o.push_back(c); }
  return o;
}

std::mutex g_mu;
std::condition_variable g_cv;
thread_local int t_index = -1;                 // worker index of the current thread
bool g_park = true;                            // park inside the factory?
std::vector<std::string> g_log;                // factory log
std::map<int, bool> g_parked;                  // thread -> parked inside the factory
std::map<int, bool> g_released;                // thread -> allowed to leave the factory
std::atomic<int> g_inside{0};
std::atomic<int> g_max_inside{0};

std::unique_ptr<cctz::ZoneInfoSource> ParkingFactory(
    const std::string& name,
    const std::function<std::unique_ptr<cctz::ZoneInfoSource>(const std::string&)>& fallback) {
  const int me = t_index;
  {
    std::unique_lock<std::mutex> l(g_mu);
    g_log.push_back("E" + std::to_string(me) + ":" + Esc(name));
    const int now = ++g_inside;
    if (now > g_max_inside) g_max_inside = now;
    if (g_park) {
      g_parked[me] = true;
      g_cv.notify_all();
      g_cv.wait(l, [&] { return g_released[me]; });
      g_released[me] = false;
      g_parked[me] = false;
    }
    --g_inside;
    g_log.push_back("X" + std::to_string(me) + ":" + Esc(name));
  }
  return vz::Factory(name, fallback);
}

struct Result { int t; std::string name; bool ok; cctz::time_zone tz; };
std::vector<Result> g_results;

struct Worker {
  int index;
  std::thread th;
  std::vector<std::string> queue;   // names to load
  size_t done = 0;                  // loads completed
  bool quit = false;
  void Run() {
    t_index = index;
    for (;;) {
      std::string name;
      {
        std::unique_lock<std::mutex> l(g_mu);
        g_cv.wait(l, [&] { return quit || done < queue.size(); });
        if (quit && done >= queue.size()) return;
        name = queue[done];
      }
      cctz::time_zone tz;
      const bool ok = cctz::load_time_zone(name, &tz);
      {
        std::unique_lock<std::mutex> l(g_mu);
        g_results.push_back({index, name, ok, tz});
        ++done;
        g_cv.notify_all();
      }
    }
  }
};

std::string RunSchedule(const std::string& line) {
  std::istringstream is(line);
  std::vector<std::string> ev;
  std::string tok;
  while (is >> tok) ev.push_back(tok);
  std::map<int, Worker*> ws;
  auto worker = [&](int t) -> Worker* {
    if (!ws.count(t)) {
      Worker* w = new Worker;
      w->index = t;
      ws[t] = w;
      w->th = std::thread([w] { w->Run(); });
    }
    return ws[t];
  };
  for (const std::string& e : ev) {
    if (e[0] == 'S') {
      const size_t c = e.find(':');
      const int t = std::atoi(e.substr(1, c - 1).c_str());
      const std::string name = Unesc(e.substr(c + 1));
      Worker* w = worker(t);
      std::unique_lock<std::mutex> l(g_mu);
      const size_t target = w->queue.size() + 1;
      w->queue.push_back(name);
      g_cv.notify_all();
      // wait until the load completed or the thread parked inside the factory
      g_cv.wait(l, [&] { return w->done >= target || g_parked[t]; });
    } else if (e[0] == 'R') {
      const int t = std::atoi(e.substr(1).c_str());
      Worker* w = worker(t);
      std::unique_lock<std::mutex> l(g_mu);
      if (!g_parked[t]) continue;              // a release of a thread that is not parked is a no-op
      const size_t target = w->done + 1;
      g_released[t] = true;
      g_cv.notify_all();
      g_cv.wait(l, [&] { return w->done >= target; });
    }
  }
  // let every parked thread finish, in thread order, then stop the workers
  for (auto& kv : ws) {
    std::unique_lock<std::mutex> l(g_mu);
    if (g_parked[kv.first]) {
      const size_t target = kv.second->done + 1;
      g_released[kv.first] = true;
      g_cv.notify_all();
      g_cv.wait(l, [&] { return kv.second->done >= target; });
    }
  }
  for (auto& kv : ws) {
    { std::unique_lock<std::mutex> l(g_mu); kv.second->quit = true; g_cv.notify_all(); }
    kv.second->th.join();
  }
  // canonical identities: 0 = UTC, others numbered by first appearance
  std::vector<cctz::time_zone> seen;
  std::ostringstream os;
  for (const Result& r : g_results) {
    int id = 0;
    if (!(r.tz == cctz::utc_time_zone())) {
      size_t k = 0;
      while (k < seen.size() && !(seen[k] == r.tz)) ++k;
      if (k == seen.size()) seen.push_back(r.tz);
      id = static_cast<int>(k) + 1;
    }
    const bool nameok = r.tz.name() == (id == 0 ? std::string("UTC") : r.name);
    os << "R" << r.t << ":" << Esc(r.name) << ":" << (r.ok ? 1 : 0) << ":" << id << ":" << (nameok ? 1 : 0) << " ";
  }
  os << "|";
  for (const std::string& s : g_log) os << " " << s;
  os << " | maxinside=" << g_max_inside.load();
  return os.str();
}

// Cold start: NOTHING of the library runs before the threads do, so that the very first uses of the process (creation
// of the zone map, of the UTC singleton, of the mutex) overlap.  A change that reads shared state outside the lock at
// that moment is only visible here, and only to ThreadSanitizer; each run is a fresh process.
int ColdStart(unsigned seed, int nthreads) {
  g_park = false;
  std::vector<std::string> names;
  for (const auto& kv : vz::Table()) names.push_back("V:" + kv.first);
  names.push_back("Fixed/UTC+01:00:00");
  names.push_back("Fixed/UTC+02:00:00");
  names.push_back("V:nosuchzone");
  std::atomic<int> ready{0};
  std::atomic<long> sink{0};
  std::vector<std::thread> ths;
  for (int i = 0; i < nthreads; ++i) {
    ths.emplace_back([&, i] {
      t_index = i;
      unsigned s = seed * 2654435761u + static_cast<unsigned>(i) * 40503u + 1u;
      auto rnd = [&] { s = s * 1664525u + 1013904223u; return s >> 8; };
      ++ready;
      // start together (bounded, yielding wait: on a machine with few cores the threads must not spin each other out)
      for (int spin = 0; ready.load() < nthreads && spin < 200000; ++spin) std::this_thread::yield();
      if (i % 3 == 1) std::this_thread::sleep_for(std::chrono::microseconds(rnd() % 400));
      for (int k = 0; k < 6; ++k) {
        cctz::time_zone tz;
        cctz::load_time_zone(names[(static_cast<size_t>(i) + static_cast<size_t>(k) * (1 + rnd() % 3)) % names.size()], &tz);
        sink += tz.lookup(vz::TP(static_cast<long long>(rnd()))).offset;
        if (k == 1) sink += cctz::utc_time_zone().lookup(vz::TP(0)).offset;
        if (k == 2) sink += cctz::fixed_time_zone(cctz::seconds(3600 * (i % 5))).lookup(vz::TP(0)).offset;
        if (k == 3) sink += cctz::local_time_zone().lookup(vz::TP(0)).offset;
      }
    });
  }
  for (auto& t : ths) t.join();
  printf("coldstart done %ld\n", sink.load());
  return 0;
}

int Stress(unsigned seed, int nthreads, int iters) {
  g_park = false;
  std::vector<std::string> names;
  for (const auto& kv : vz::Table()) names.push_back("V:" + kv.first);
  names.push_back("UTC");
  names.push_back("Fixed/UTC+01:00:00");
  names.push_back("V:nosuchzone");
  // reference answers, computed single-threaded before any thread starts: lookups on a shared zone must give
  // exactly these whatever the other threads are doing (a torn read of a hint would show up as another
  // interval's offset)
  struct Ref { cctz::time_zone tz; cctz::time_point<cctz::seconds> tp; cctz::time_zone::absolute_lookup al; cctz::time_zone::civil_lookup cl; };
  std::vector<Ref> refs;
  for (const auto& kv : vz::Table()) {
    cctz::time_zone tz;
    if (!cctz::load_time_zone("V:" + kv.first, &tz)) continue;
    for (long long t = -3000000000LL; t <= 5000000000LL; t += 97000003LL) {
      Ref r;
      r.tz = tz;
      r.tp = vz::TP(t);
      r.al = tz.lookup(r.tp);
      r.cl = tz.lookup(r.al.cs);
      refs.push_back(r);
    }
  }
  std::atomic<long> mismatches{0};
  std::vector<std::thread> ths;
  std::atomic<long> sink{0};
  for (int i = 0; i < nthreads; ++i) {
    ths.emplace_back([&, i] {
      t_index = i;
      unsigned s = seed * 2654435761u + static_cast<unsigned>(i) * 40503u + 1u;
      auto rnd = [&] { s = s * 1664525u + 1013904223u; return s >> 8; };
      // value checks: many lookups per iteration, each thread dwelling on its own few instants so that
      // different threads keep re-pointing the shared hints
      for (int k = 0; k < iters * 40 && !refs.empty(); ++k) {
        const Ref& r = refs[(static_cast<size_t>(i) * 7 + rnd() % 5) % refs.size()];
        const auto al = r.tz.lookup(r.tp);
        const auto cl = r.tz.lookup(r.al.cs);
        if (al.offset != r.al.offset || al.cs != r.al.cs || al.is_dst != r.al.is_dst ||
            cl.kind != r.cl.kind || cl.pre != r.cl.pre || cl.trans != r.cl.trans || cl.post != r.cl.post) {
          if (mismatches++ == 0) {
            fprintf(stderr, "VALUE-MISMATCH thread %d: lookup(%lld) offset %d (reference %d)\n", i,
                    static_cast<long long>(vz::UT(r.tp)), al.offset, r.al.offset);
          }
        }
      }
      for (int k = 0; k < iters; ++k) {
        cctz::time_zone tz;
        cctz::load_time_zone(names[rnd() % names.size()], &tz);
        const auto tp = vz::TP(static_cast<long long>(rnd()) * 1000 - 2000000000LL);
        const auto al = tz.lookup(tp);
        const auto cl = tz.lookup(al.cs);
        cctz::time_zone::civil_transition tr;
        tz.next_transition(tp, &tr);
        tz.prev_transition(tp, &tr);
        const std::string txt = cctz::format("%Y-%m-%dT%H:%M:%E*S%Ez", tp, tz);
        cctz::time_point<cctz::seconds> back;
        cctz::parse("%Y-%m-%dT%H:%M:%E*S%Ez", txt, tz, &back);
        sink += al.offset + static_cast<long>(cl.kind) + static_cast<long>(back == tp);
        if (k % 7 == 0) { cctz::time_zone f = cctz::fixed_time_zone(cctz::seconds(static_cast<int>(rnd() % 7200) - 3600)); sink += f.lookup(tp).offset; }
        if (k % 11 == 0) { sink += cctz::utc_time_zone().lookup(tp).offset; sink += cctz::local_time_zone().lookup(tp).offset; }
      }
    });
  }
  for (auto& t : ths) t.join();
  printf("stress done %ld mismatches %ld\n", sink.load(), mismatches.load());
  return mismatches.load() ? 3 : 0;
}

}  // namespace

namespace cctz_extension { ZoneInfoSourceFactory zone_info_source_factory = ParkingFactory; }

int main(int argc, char** argv) {
  if (argc >= 4 && std::string(argv[1]) == "coldstart") {
    return ColdStart(static_cast<unsigned>(std::atoi(argv[2])), std::atoi(argv[3]));
  }
  if (argc >= 5 && std::string(argv[1]) == "stress") {
    return Stress(static_cast<unsigned>(std::atoi(argv[2])), std::atoi(argv[3]), std::atoi(argv[4]));
  }
  if (argc < 3) { fprintf(stderr, "usage: thr_harness <schedules> <out> | stress <seed> <threads> <iters>\n"); return 2; }
  std::ifstream in(argv[1]);
  std::vector<std::string> lines;
  std::string line;
  while (std::getline(in, line)) lines.push_back(line);
  int fd = open(argv[2], O_WRONLY | O_CREAT | O_TRUNC, 0644);
  for (const std::string& l : lines) {
    pid_t pid = fork();
    if (pid == 0) {
      alarm(20);   // a schedule that deadlocks is reported, not waited for
      std::string r = (l.empty() || l[0] == '#') ? std::string() : RunSchedule(l);
      r += "\n";
      if (write(fd, r.data(), r.size()) < 0) _exit(3);
      _exit(0);
    }
    int st = 0;
    waitpid(pid, &st, 0);
    if (!(WIFEXITED(st) && WEXITSTATUS(st) == 0)) {
      char buf[64];
      int k = snprintf(buf, sizeof buf, "?ABORT status=%d\n", st);
      if (write(fd, buf, static_cast<size_t>(k)) < 0) return 3;
    }
  }
  close(fd);
  return 0;
}
