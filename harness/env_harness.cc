// C19: name resolution.  Run in a child process whose environment (TZDIR, TZ,
// LOCALTIME) the orchestrator has set; reads one request per line:
//   <hex name> | LOCAL | DEFAULT
// and prints  ok=<b> name=<hex> utc=<b> off=<offset at a probe instant>.
#include <cstdio>
#include <fstream>
#include <iostream>
#include <string>
#include "cctz/time_zone.h"

static std::string unhex(const std::string& h) {
  if (h == "-") return std::string();
  std::string out;
  for (size_t i = 0; i + 1 < h.size(); i += 2) out.push_back(static_cast<char>(std::stoi(h.substr(i, 2), nullptr, 16)));
  return out;
}
static std::string hex(const std::string& s) {
  if (s.empty()) return "-";
  static const char* d = "0123456789abcdef";
  std::string out;
  for (unsigned char c : s) { out.push_back(d[c >> 4]); out.push_back(d[c & 15]); }
  return out;
}

int main(int argc, char** argv) {
  if (argc < 3) return 2;
  std::ifstream in(argv[1]);
  FILE* out = fopen(argv[2], "w");
  std::string line;
  const auto probe = cctz::time_point<cctz::seconds>(cctz::seconds(1700000000));
  while (std::getline(in, line)) {
    if (line.empty()) { fprintf(out, "\n"); continue; }
    cctz::time_zone tz;
    bool ok = true;
    if (line == "DEFAULT") {
      cctz::time_zone d;
      fprintf(out, "default_eq_utc=%d\n", d == cctz::utc_time_zone() ? 1 : 0);
      continue;
    } else if (line == "LOCAL") {
      tz = cctz::local_time_zone();
      ok = !(tz == cctz::utc_time_zone());   // local_time_zone() has no flag; report "is not UTC"
    } else {
      ok = cctz::load_time_zone(unhex(line), &tz);
    }
    fprintf(out, "ok=%d name=%s utc=%d off=%d\n", ok ? 1 : 0, hex(tz.name()).c_str(),
            tz == cctz::utc_time_zone() ? 1 : 0, tz.lookup(probe).offset);
  }
  fclose(out);
  return 0;
}
