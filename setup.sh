#!/bin/sh
# Builds the framework from files on disk only (offline): regenerate the
# constants from /repo, full .vo build of the Coq development (never -vos),
# extraction, OCaml driver, and a first build of the sanitizer harness.
set -e
cd "$(dirname "$0")"
python3 gen/src_constants.py
python3 gen/ast_translate.py
python3 gen/ast_translate64.py
python3 gen/ast_translate_ptr.py
cd coq
coq_makefile -f _CoqProject -o Makefile > /dev/null
timeout 7000 make -j16
cd ..
python3 - <<'PY'
import sys
sys.path.insert(0, '.')
from vlib import common as C
d, log = C.build_driver()
assert d, log
h, log = C.build_harness()
assert h, log
print("setup ok:", d, h)
PY
