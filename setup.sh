#!/bin/sh
# Builds the framework from files on disk only (offline): regenerate the
# constants from /repo, full .vo build of the Coq development (never -vos),
# extraction, OCaml driver, and a first build of the sanitizer harness.
set -e
cd "$(dirname "$0")"
python3 - <<'PY'
import sys, json
sys.path.insert(0, '.')
from vlib import common as C
print(json.dumps(C.regen_constants())[:2000])
PY
cd coq
coq_makefile -f _CoqProject -o Makefile > /dev/null
timeout 7000 make -j16
cd ..
python3 - <<'PY'
import sys
sys.path.insert(0, '.')
from vlib import common as C
d, log = C.build_driver()
assert d, log
h, log = C.build_harness()
assert h, log
print("setup ok:", d, h)
PY
