#!/usr/bin/env python3
"""Writes /verif/MANIFEST.json from the table below (kept in one place so the
entries stay consistent)."""
import json, os
V = os.path.dirname(os.path.dirname(os.path.abspath(__file__)))
NOTE = ("Trusted: Coq 8.16.1 kernel (vm_compute for finite sweeps, no native_compute), no axioms (Print Assumptions = closed for every listed theorem); "
        "the hand-written Gallina model (coq/*Impl.v, ZoneLoad.v) is tied to /repo by differential correspondence on generated cases each run and by constants regenerated from the source (coq/SrcConstants.v); "
        "extraction with ExtrOcamlBasic only; ocaml/driver*.ml, harness/*.cc, g++ ASan/UBSan. Modelled, not verified: libstdc++, <chrono>, the compiler.")
CHECKS = {
 "C01": ("Theorems over every year of Z: TransOffset's modular week arithmetic equals the calendar reading of Jn/n/Mm.w.d (sweep lifted by periodicity), the rule is 400-year periodic, the 402-iteration extension loop generates exactly the rule instants without overflow; table lookup = latest transition at or before t for every sorted table and every hint; c01_future_lookup: beyond the table BreakTime equals the table's answer 400k years earlier re-dated, and rule_window/rule_state_periodic tie the generated window to the footer rule. Correspondence: model, an independent spec that reads the TZif bytes and evaluates the footer on the calendar, and the ASan/UBSan build of /repo on every shipped + synthetic zone at transition/seam/rule/400-year/extreme instants.",
         "proof + differential correspondence", "6 C01"),
 "C02": ("Theorem zmake_spec/zmake_kind_iff: for EVERY zone value satisfying the boolean certificate wfz (the property's own side condition) and EVERY civil second, the MakeTime case analysis returns UNIQUE/SKIPPED/REPEATED exactly when one/no/two instants display it, with pre/trans/post as stated (induction over unbounded transition lists, integer level); make_refines and c02_future_lookup carry it to the int64 implementation inside and beyond the table (400-year shift, saturating re-dating). Correspondence of implementation vs model vs independent preimage-counting spec on all probe civil seconds.",
         "proof (list induction, lia) + differential correspondence", "6 C02"),
 "C03": ("Theorems zroundtrip/zdisplays_back/zbreak_spec for every wfz zone and every instant; composed correspondence lookup(t)->lookup(cs) on the implementation.", "proof + differential correspondence", "6 C03"),
 "C04": ("Theorem n_sec_refines: for ALL int64^6 arguments within exactly the property's representability bound the transcription of n_sec..n_day returns OK of the unique valid calendar date-time (no overflow, loops terminate within stated fuel); calendar bijection, successor characterisation, alignment lemmas; src64_construct_meets_spec: the SOURCE-DERIVED checked functions (Source64.v, regenerated from clang's AST of the header on every run) meet the same spec. Correspondence incl. the exhaustive 146097-day base (thorough) under UBSan.", "proof (refinement to a calendar spec) + differential correspondence", "6 C04"),
 "C05": ("Theorems plus/minus/difference_refines for all six alignments, all valid a,b, all int64 n with representable result (incl. n = INT64_MIN, extreme years), ord inverse laws, order agreement; src64_plus/difference_meets_spec for the source-derived functions. Correspondence under UBSan against the Z-ordinal spec.", "proof + differential correspondence", "6 C05"),
 "C06": ("Theorem zconvert_mono for ALL pairs L1 < L2 in every wfz zone (not neighbours), plus monotone clamping; implementation checked on sorted probe sequences and against the spec.", "proof + differential correspondence", "6 C06"),
 "C10": ("Totality/saturation: UBSan+ASan correspondence at the outermost 2 days/2 minutes of both ranges, +-2^59, +-2^31, 400-year multiples, in every zone incl. fixed +-24h; theorems: searches never violate upper_bound's precondition on any sorted table (searches_meet_precondition), clamped conversion monotone. The full no-overflow theorem for accepted zones is in progress (see DESIGN).", "proof (partial) + sanitizer-instrumented correspondence", "6 C10"),
 "C11": ("Theorems znext_spec/zprev_spec/zlookup_const_between/zlookup_differs_across/znext_chain over every increasing transition list and every type-equivalence; chains and point queries on the implementation vs model vs spec change points.", "proof + differential correspondence", "6 C11"),
 "C12": ("Arbitrary bytes: mutated/handcrafted/random files through a replaced zone_info_source_factory under ASan+UBSan; accept/reject and a query panel compared with the model, whose checked-int64 semantics turns any overflow/unpartitioned search/uninitialised read into an error value even where no sanitizer fires. Theorems: load_total (every byte list: accept or reject, never an undefined operation), load_establishes_certificate (acceptance implies every structural clause of the zone certificate), posix_determined, searches_meet_precondition. Memory safety of the compiled C++ is observed, not proved.", "proof (partial) + sanitizer-instrumented correspondence", "6 C12"),
 "C14": ("Theorems hint_irrelevant_break/make for ALL hint values, history_independent for ALL operation sequences from ALL hidden states, on every table sorted both ways; implementation: every reachable hint state primed then probed, compared with a pristine copy under a fresh cache key; reload/failed-name cache contract with a counting factory.", "proof + differential correspondence", "6 C14"),
 "C15": ("fixed_exhaustive: all 180,001 offsets enumerated inside the kernel; fromname_iff_spec / fromname_only_if over ALL byte strings. Implementation exhausted on the same domain plus name mutants.", "proof (finite domain exhausted in-kernel + all strings) + exhaustive correspondence", "6 C15"),
 "C16": ("posix_iff: for every NUL-free byte string the parser transcription equals the independently written grammar; posix_cstr; posix_determined. Correspondence calls ParsePosixSpec twice with different pre-fill patterns to observe unwritten fields.", "proof + differential correspondence", "6 C16"),
 "C17": ("weekday_spec/yearday_spec/next/prev_weekday_spec for every valid date with any year (sweeps over the 400-year cycle lifted by periodicity), also for the source-derived get_weekday/get_yearday (Source64.v); exhaustive 146097-day correspondence in thorough.", "proof + (exhaustive in thorough) correspondence", "6 C17"),
}
CHECKS.update({
 "C13": ("Theorems over ALL schedules (induction over the event list of a small-step model of LoadTimeZone's critical sections): one_identity_per_name, schedule_independent, cache_monotone. Correspondence: every interleaving of Start/Release for k<=3 (quick) / k<=4 (thorough) threads over valid/invalid/fixed/UTC names executed on the real library through a parking factory and compared with the model; ThreadSanitizer stress with 4/16/64 free-running threads mixing loads, lookups, transitions, format and parse. Data-race freedom under the C++ memory model is observed (TSan), not proved.", "proof (partial: DRF observed) + exhaustive schedule correspondence + TSan", "6 C13"),
 "C18": ("Theorems for ALL periods num/den, ALL tick counts and ALL rep widths: split = floor with remainder in [0,1s) (split_floor), join into coarser types = floor with failure exactly when the count does not fit (join_floor, join_seconds_exact), femtosecond conversion truncates (femto_truncates). Correspondence on the panel of 12 duration types at every remainder class and at the representation limits, through lookup/convert/format/parse.", "proof + differential correspondence", "6 C18"),
 "C19": ("Twelve decision-rule theorems over all names, environments and file-system oracles (NameRes.v); correspondence over the matrix TZDIR x TZ x LOCALTIME x names in child processes, with the file system entering through a measured oracle. Kernel file semantics are observed, not proved.", "proof (partial: kernel semantics via measured oracle) + configuration matrix", "6 C19"),
 "C20": ("Theorems over ALL schedules: factory_on_caller, factory_not_for_fixed, factory_calls_bounded_partial; over all serial schedules: factory_once_sequential; and factory_once_refuted: the contract's 'only once' / 'serially' is FALSE of the code for two concurrent first loads of one name (known finding F7, exhibited on the real library by the parking harness for every such schedule).", "proof (incl. machine-checked refutation) + exhaustive schedule correspondence", "6 C20"),
 "C07": ("Component inverses, each unbounded: parse(format64 v) = v for every int64 incl. INT64_MIN, two-digit fields, offsets (full-resolution modes lossless for |off|<24h; minute modes exactly when the offset has no seconds; refuted at 24h = finding F6), femtosecond fractions; rfc3339_roundtrip: the whole format->parse pipeline for %Y-%m-%dT%H:%M:%E*S%E*z returns (t, fs) for every instant, fs < 10^15 and |offset| < 24h. Other compositions checked by correspondence: lossless formats generated from the boolean lossless_fmt x zones (real, synthetic, fixed) x extreme instants x femtosecond values, implementation format->parse vs model vs expected (t, fs).", "proof (component inverses) + differential correspondence of the composition", "6 C07"),
 "C08": ("format_safe: for EVERY byte string as format, every oracle, every valid lookup result: no scratch-buffer overflow, table overrun, integer overflow or fuel exhaustion; format_lib_only: formats of literals, %% and the library-defined specifiers render exactly the documented text (no oracle involved); to_tm_spec. strftime itself is an oracle (real libc in the correspondence run). Correspondence: random/odd/dangling formats x zones x extreme instants under ASan+UBSan vs model and vs the token-wise spec.", "proof (partial: strftime is an oracle) + differential correspondence", "6 C08"),
 "C09": ("parse_int_sound (never wraps, never over-reads, width respected), scan_range (every internally handled field within the ranges read from the source), scan_safe (the scanner never overflows or over-reads for ANY pair of byte strings and any oracle), finish_utc_correct (parse's whole post-processing = the denoted instant whenever fields are read in UTC). For other zones the instant denoted is checked by correspondence against expectations computed from chosen field values by the calendar/zone spec, incl. leap second, offsets, limits and single-edit mutants.", "proof (scanner soundness/safety) + differential correspondence", "6 C09"),
})
NA = {}
def main():
    checks = []
    for pid in sorted(CHECKS):
        text, tech, ref = CHECKS[pid]
        checks.append({
            "property_id": pid,
            "quick_cmd": "./check %s --tier quick" % pid,
            "thorough_cmd": "./check %s --tier thorough" % pid,
            "evidence_file": "/verif/evidence/%s.json" % pid,
            "replay_cmd_template": "./check %s --replay {path}" % pid,
            "engine": "coq+correspondence",
            "level_claimed": {"category": "proof", "text": text, "design_ref": "DESIGN.md section " + ref},
            "level_note": NOTE,
            "technique": "machine-checked proof in Coq 8.16 (" + tech + ")",
        })
    allp = [json.loads(l)["id"] for l in open(os.path.join(V, "properties.jsonl"))]
    na = [{"property_id": p, "reason": NA.get(p, "check not yet registered in this commit; model and theorems in progress (see DESIGN.md section 9)")} for p in allp if p not in CHECKS]
    m = {
        "version": 1,
        "setup_cmd": "./setup.sh",
        "hooks": {"guard": "GOOGLE_CCTZ_VERIF",
                  "enable": "the harness compiles /repo/src/*.cc and /repo/include with -DGOOGLE_CCTZ_VERIF; no hook exists in /repo (observation uses the public API, three internal headers and a strong zone_info_source_factory)",
                  "baseline_off_cmd": "cmake --build /repo/_build && ctest --test-dir /repo/_build -j8 --timeout 900",
                  "source_commits": [], "add_only": True},
        "engines": [{"name": "coq+correspondence", "path": "/verif/check", "serves_properties": sorted(CHECKS),
                     "kind_free_text": "Coq 8.16 theorems about a hand-written Gallina model + differential correspondence of the extracted model and an independent spec with the sanitizer build of /repo"}],
        "checks": checks,
        "notes": "fix: commits in /repo: 23348e6 (C04), e1d2346 (C15), 97a2b46 (C16), b1c0b57 + 1e4d85c (C12). Known finding F9 in known_findings.json.",
        "not_applicable": na,
    }
    json.dump(m, open(os.path.join(V, "MANIFEST.json"), "w"), indent=1)
if __name__ == "__main__":
    main()
