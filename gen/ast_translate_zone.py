#!/usr/bin/env python3
"""Translator for the zone QUERY functions of src/time_zone_info.cc: clang JSON AST -> Gallina
(coq/SourceZone.v), re-run on every check.  Functions read from the AST of the CURRENT source:

  Transition::ByUnixTime / ByCivilTime (operator()), MakeUnique x2, MakeSkipped, MakeRepeated, YearShift,
  TimeZoneInfo::EquivTransitions, LocalTime x2, BreakTime, MakeTime, TimeLocal, NextTransition, PrevTransition.

Control flow, comparisons, order of tests and all arithmetic come from the AST.  A deliberately small
vocabulary of library idioms is recognised; each is mapped to a model primitive in which the C++
precondition is an explicit error (all results live in the `res` monad of Base.v):

 * `this` is a value `z : zone` (ZoneLoad.v).  transitions_ / transition_types_ / abbreviations_ /
   default_transition_type_ / extended_ / last_year_ are its fields.  Transition, TransitionType,
   absolute_lookup, civil_lookup are the records of ZoneLoad.v / ZoneImpl.v (field order checked against
   the record declarations in the AST on every run).
 * `v[i]` on a std::vector is `nth_res v i` (Err OOB unless 0 <= i < size), `v.size()` is `vec_size v`,
   `v.empty()` is `vec_empty v`.
 * a `const Transition*` is an INDEX into transitions_ (nullptr = -1): `&transitions_[i]` is `vec_addr`
   (same precondition as v[i]), `p + k`, `++p`, `--p`, `p[k]` go through `ptr_add` (Err unless the result
   stays in [0, size]), `*p`, `p->m`, `p[k]` read through `ptr_rd` (Err OOB unless 0 <= p < size),
   `p - q` is `ptr_diff`; pointers are compared with == and != only.
 * `std::upper_bound(first, last, value, cmp)` is `range_search (fun e => cmp value e) v first last` and
   `std::lower_bound(first, last, value, cmp)` is `range_search (fun e => negb (cmp e value)) v first last`:
   ZoneImpl.bound_search over the sub-list [first, last), Err Precond when the range is not partitioned
   (the standard makes the call undefined); the comparator is itself translated from the AST.
 * `hint_.load(std::memory_order_relaxed)` / `hint_.store(x, std::memory_order_relaxed)` on one of the two
   atomic hints: the hint is an explicit argument and an extra result of every function that (transitively)
   touches it, as in the hand-written model.  Any other memory order is outside the vocabulary.
 * std::chrono: `seconds` and `time_point<seconds>` are their tick counts (Z) with CHECKED 64-bit signed
   arithmetic (`tp - d`, `tp += d`, comparisons, `::max()`, `::min()`, `.count()`, `seconds(n)`);
   ToUnixSeconds / FromUnixSeconds are the identity on counts (system_clock's epoch is the Unix epoch).
 * civil_second: `a < b` etc. are CivilImpl.lt64 (<=, >, >= as the header defines them from <), `a - b` is
   `difference64 0`, `a + n` is `plus64 0`, `a - n` is `minus64 0`, the six-argument constructor is
   `construct64 0`, `.year()`.. are the field projections, `civil_second()` is the value the default
   constructor's initialiser list holds in the AST.
 * `&abbreviations_[i]` (a const char*) is the C string it points to: `cstr_from abbreviations_ i`;
   `std::strcmp(a, b) != 0` is `negb (list_eqb a b)`.
 * a static member function `max()` / `min()` without arguments (numeric_limits, seconds, time_point<seconds>) is
   the limit of its 64-bit signed result type.
 * `assert(c)` is `if c then ... else Err Precond` (the translation runs clang without NDEBUG).
 * a call between the translated functions is resolved by name, member-ness and the kinds of its arguments
   (clang's node ids differ between the separate clang runs); operands / arguments whose evaluations C++ leaves
   unsequenced must not modify what another one reads - otherwise the function is untranslated.
 * signed integer arithmetic is checked (add64/sub64/mul64, 32-bit forms for int); size_t arithmetic and
   conversions to unsigned types wrap (`u64`); `/` by a positive constant is Z.quot.
 * a struct-typed local (absolute_lookup / civil_lookup) is flattened to one variable per member; a member
   that is read before it is assigned makes the function untranslatable; the `civil_transition* trans`
   output parameter is passed in as its two current members and handed back in the result tuple.
 * recursion (BreakTime -> BreakTime, MakeTime -> TimeLocal -> MakeTime) and loops are Fixpoints on explicit
   fuel (`Err Fuel` when exhausted); a range-for over a braced list of `&member` is unrolled.

Anything else makes that function 'untranslated': the previous SourceZone.v is kept and the fact is recorded in
the status line (not an alarm).  coq/SourceZoneProofs.v proves that whenever the hand-written model of ZoneImpl.v
returns OK r the source-derived function returns OK r."""
import json, os, re, sys

sys.path.insert(0, os.path.dirname(__file__))
from ast_translate import Untranslatable  # noqa: E402
from ast_translate64 import clang_docs, walk, zl, TRANSPARENT, CASTS  # noqa: E402

SRC = "src/time_zone_info.cc"
INT_S = {"long": 64, "long long": 64, "int": 32, "short": 16, "signed char": 8, "char": 8}
INT_U = {"unsigned long": 64, "unsigned long long": 64, "unsigned int": 32, "unsigned short": 16, "unsigned char": 8}

# ---- the vocabulary: C++ records / members  ->  model records / projections -------------------------------
RECORDS = {
    "tr": ("cctz::Transition", "Transition", "transition", "mkTr",
           [("unix_time", "tr_time"), ("type_index", "tr_type"), ("civil_sec", "tr_cs"), ("prev_civil_sec", "tr_pcs")]),
    "tt": ("cctz::TransitionType", "TransitionType", "ttype", "mkTT",
           [("utc_offset", "tt_off"), ("civil_max", "tt_cmax"), ("civil_min", "tt_cmin"), ("is_dst", "tt_isdst"), ("abbr_index", "tt_abbr")]),
    "al": ("cctz::time_zone::absolute_lookup", "absolute_lookup", "alookup", "mkAL",
           [("cs", "al_cs"), ("offset", "al_off"), ("is_dst", "al_dst"), ("abbr", "al_abbr")]),
    "cl": ("cctz::time_zone::civil_lookup", "civil_lookup", "clookup", "mkCL",
           [("kind", "cl_kind"), ("pre", "cl_pre"), ("trans", "cl_trans"), ("post", "cl_post")]),
}
OUT_RECORD = ("cctz::time_zone::civil_transition", "civil_transition", [("from", "cs"), ("to", "cs")])
CKINDS = ("UNIQUE", "SKIPPED", "REPEATED")
THIS_MEMBERS = {                                   # member of TimeZoneInfo -> (Gallina term, kind)
    "transitions_": ("(z_trans z)", "vec:tr"), "transition_types_": ("(z_types z)", "vec:tt"),
    "abbreviations_": ("(z_abbrs z)", "str"), "default_transition_type_": ("(z_default z)", "Z"),
    "extended_": ("(z_extended z)", "bool"), "last_year_": ("(z_last_year z)", "Z"),
}
ATOMIC_MEMBERS = ("local_time_hint_", "time_local_hint_")
ACCESSORS = {"year": "fy", "month": "fm", "day": "fd", "hour": "fhh", "minute": "fmm", "second": "fss"}
GTYPE = {"Z": "Z", "bool": "bool", "cs": "fields", "tr": "transition", "tt": "ttype", "ptr": "Z", "al": "alookup",
         "cl": "clookup", "kind": "ckind", "abbr": "list Z"}

# the functions, in source order; (filter for clang, name, owner class or None)
TARGETS = [("ByUnixTime", "operator()", "ByUnixTime"), ("ByCivilTime", "operator()", "ByCivilTime"),
           ("MakeUnique", "MakeUnique", None), ("MakeSkipped", "MakeSkipped", None), ("MakeRepeated", "MakeRepeated", None),
           ("YearShift", "YearShift", None), ("EquivTransitions", "EquivTransitions", "TimeZoneInfo"),
           ("LocalTime", "LocalTime", "TimeZoneInfo"), ("BreakTime", "BreakTime", "TimeZoneInfo"),
           ("TimeLocal", "TimeLocal", "TimeZoneInfo"), ("MakeTime", "MakeTime", "TimeZoneInfo"),
           ("NextTransition", "NextTransition", "TimeZoneInfo"), ("PrevTransition", "PrevTransition", "TimeZoneInfo")]


# ---- types ------------------------------------------------------------------------------------------------
def clean(s):
    s = re.sub(r"\b(const|volatile)\b", "", s or "").replace("&", "")
    s = re.sub(r"\s+", " ", s).replace("> >", ">>").strip()
    return re.sub(r"\s*\*\s*", " *", s).strip()


def dty(n):
    t = n.get("type", {})
    return clean(t.get("desugaredQualType") or t.get("qualType") or "")


DUR = r"std::chrono::duration<long(, std::ratio<1(, 1)?>)?>"


def classify(s):
    """kind of a value of (desugared, cv-stripped) C++ type s"""
    if s == "bool":
        return "bool"
    if s in INT_S or s in INT_U:
        return "Z"
    if re.match(r"^%s$" % DUR, s):
        return "dur"
    if re.match(r"^std::chrono::time_point<std::chrono::system_clock, %s>$" % DUR, s):
        return "tp"
    if re.match(r"^std::chrono::time_point<std::chrono::system_clock, %s> \*$" % DUR, s):
        return "tpp"
    if s == "cctz::detail::civil_time<cctz::detail::second_tag>":
        return "cs"
    for kd, rec in RECORDS.items():
        if s == rec[0]:
            return kd
    if s == "cctz::Transition *":
        return "ptr"
    if s in (OUT_RECORD[0] + " *", OUT_RECORD[0].replace("cctz::", "", 1) + " *"):
        return "outp"
    if s in ("cctz::time_zone::civil_lookup::civil_kind", "enum cctz::time_zone::civil_lookup::civil_kind"):
        return "kind"
    if s == "char *":
        return "abbr"
    if s in ("cctz::Transition::ByUnixTime", "cctz::Transition::ByCivilTime"):
        return "cmp:" + s.split("::")[-1]
    if s == "std::nullptr_t":
        return "ptr"
    raise Untranslatable("type " + s)


def kind_of(n):
    return classify(dty(n))


def zk(kd):
    """tick counts are plain integers"""
    return "Z" if kd in ("tp", "dur") else kd


def int_type(n):
    """(width, signed) of an integer-typed node (tick counts are 64-bit signed)"""
    s = dty(n)
    if s in INT_S:
        return INT_S[s], True
    if s in INT_U:
        return INT_U[s], False
    if s == "bool":
        return 1, False
    if classify(s) in ("tp", "dur"):
        return 64, True
    raise Untranslatable("integer type " + s)


def strip(n):
    while n.get("kind") in TRANSPARENT or n.get("kind") in CASTS:
        n = n["inner"][-1]
    return n


def strip_copies(n):
    """through parentheses, casts that do not change the value's kind and copy/move constructions"""
    while True:
        k = n.get("kind")
        if k in TRANSPARENT:
            n = n["inner"][-1]
        elif k in CASTS and n.get("castKind") in ("NoOp", "LValueToRValue", "ConstructorConversion"):
            n = n["inner"][-1]
        elif k == "CXXConstructExpr" and len(n.get("inner", [])) == 1 and same_class(n, n["inner"][0]):
            n = n["inner"][0]
        else:
            return n


def same_class(a, b):
    try:
        ka, kb = kind_of(a), kind_of(b)
    except Untranslatable:
        return False
    return ka == kb and ka in ("cs", "tr", "tt", "al", "cl", "tp", "dur")


def callee_ref(call):
    c = call["inner"][0]
    while c.get("kind") in ("ImplicitCastExpr", "ParenExpr"):
        c = c["inner"][0]
    return c


# ---- constants read from the AST ------------------------------------------------------------------------------
_GLOBALS = {}


def fold(n):
    """value of an integer constant expression over literals and namespace-scope const variables, or None"""
    k = n.get("kind")
    if k in TRANSPARENT or k in CASTS:
        return fold(n["inner"][-1])
    if k == "IntegerLiteral":
        return int(n["value"])
    if k == "UnaryOperator" and n.get("opcode") == "-":
        v = fold(n["inner"][0])
        return None if v is None else -v
    if k == "BinaryOperator" and n.get("opcode") in ("+", "-", "*", "<<"):
        a, b = fold(n["inner"][0]), fold(n["inner"][1])
        if a is None or b is None:
            return None
        if n["opcode"] == "<<":
            w, sg = int_type(n)
            if not (0 <= b < w) or a < 0 or (a << b) >= (1 << (w - 1 if sg else w)):
                return None                                  # an undefined shift is not a constant
            return a << b
        v = {"+": a + b, "-": a - b, "*": a * b}[n["opcode"]]
        w, sg = int_type(n)
        lo, hi = (-(1 << (w - 1)), (1 << (w - 1)) - 1) if sg else (0, (1 << w) - 1)
        return v if lo <= v <= hi else None
    if k == "DeclRefExpr" and n.get("referencedDecl", {}).get("kind") == "VarDecl":
        return global_const(n["referencedDecl"]["name"])
    return None


def global_const(name):
    if name not in _GLOBALS:
        _GLOBALS[name] = None
        for d in clang_docs(name, SRC):
            if d.get("kind") == "VarDecl" and d.get("name") == name and d.get("inner") and d.get("storageClass") != "extern" \
                    and "const" in d.get("type", {}).get("qualType", "") and d.get("id") is not None:
                v = fold(d["inner"][-1])
                if v is not None:
                    _GLOBALS[name] = v
                    break
    return _GLOBALS[name]


def check_records():
    """the field order of the C++ records is the one the vocabulary assumes"""
    todo = [(r[1], [f for f, _ in r[4]]) for r in RECORDS.values()] + [(OUT_RECORD[1], [f for f, _ in OUT_RECORD[2]])]
    for short, want in todo:
        got = None
        for d in clang_docs(short, SRC):
            for m in walk(d):
                if m.get("kind") == "CXXRecordDecl" and m.get("name") == short and m.get("completeDefinition"):
                    got = [c.get("name") for c in m.get("inner", []) if c.get("kind") == "FieldDecl"]
        if got != want:
            raise Untranslatable("record %s has fields %s" % (short, got))
    want = list(THIS_MEMBERS) + list(ATOMIC_MEMBERS)
    got = None
    for d in clang_docs("TimeZoneInfo", SRC):
        for m in walk(d):
            if m.get("kind") == "CXXRecordDecl" and m.get("name") == "TimeZoneInfo" and m.get("completeDefinition"):
                got = {c.get("name"): clean(c.get("type", {}).get("desugaredQualType") or c.get("type", {}).get("qualType")) for c in m.get("inner", []) if c.get("kind") == "FieldDecl"}
    if got is None or any(w not in got for w in want):
        raise Untranslatable("members of TimeZoneInfo")
    for a in ATOMIC_MEMBERS:
        if got[a] != "std::atomic<unsigned long>":
            raise Untranslatable("type of " + a)


def civil_default():
    """the value civil_second() holds: the six literals of the default constructor's member initialiser"""
    found = set()
    for d in clang_docs("civil_time::civil_time", SRC):
        for m in walk(d):
            if m.get("kind") == "CXXConstructorDecl" and not any(c.get("kind") == "ParmVarDecl" for c in m.get("inner", [])):
                for c in m.get("inner", []):
                    if c.get("kind") == "CXXCtorInitializer":
                        for q in walk(c):
                            if q.get("kind") in ("InitListExpr", "CXXConstructExpr") and dty(q) == "cctz::detail::fields":
                                vals = [fold(e) for e in q.get("inner", [])]
                                if len(vals) == 6 and all(v is not None for v in vals):
                                    found.add(tuple(vals))
    if len(found) != 1:
        raise Untranslatable("default constructor of civil_time")
    return "(mkF %s)" % " ".join(zl(v) for v in found.pop())


# ---- bindings -------------------------------------------------------------------------------------------------
class B:
    def __init__(self, text, var=None):
        self.text, self.var = text, var


def txt(binds):
    return "".join(b.text for b in binds)


def rebound(binds):
    return {b.var for b in binds if b.var}


def mentions(term, var):
    return re.search(r"(?<![\w'])%s(?![\w'])" % re.escape(var), term) is not None


RESERVED = {"end", "in", "let", "fun", "match", "with", "if", "then", "else", "return", "as", "at", "fix", "cofix", "forall",
            "exists", "Type", "Set", "Prop", "using", "where", "for", "do", "struct", "OK", "Err", "bind", "z", "fuel", "tt", "e_"}
# `tt` is Coq's unit value but a frequent C++ name for a TransitionType: a local of that name is fine in Gallina (it
# shadows), so only the names that would not parse or would capture the translation's own binders are changed.
RESERVED -= {"tt"}


def rename_reserved(n):
    """C++ variable names that are Gallina keywords (or the translation's own binders) get a trailing underscore"""
    if isinstance(n, dict):
        if n.get("kind") in ("VarDecl", "ParmVarDecl") and n.get("name") in RESERVED:
            n["name"] = n["name"] + "_"
        ref = n.get("referencedDecl")
        if isinstance(ref, dict) and ref.get("kind") in ("VarDecl", "ParmVarDecl") and ref.get("name") in RESERVED:
            ref["name"] = ref["name"] + "_"
        for c in n.get("inner", []):
            rename_reserved(c)


class Fn:
    """one function definition"""
    def __init__(self, key, ast, owner, unit):
        rename_reserved(ast)
        self.key, self.ast, self.owner, self.unit = key, ast, owner, unit
        self.gname = "sz_" + key
        self.member = owner == "TimeZoneInfo"
        self.body = [c for c in ast.get("inner", []) if c.get("kind") == "CompoundStmt"][0]
        self.base = ast.get("name")
        self.callees = []            # keys of translated functions this one calls (filled by Unit)
        self.states = []             # atomic hints it (transitively) touches
        self.fuel = False
        self.rec = False             # member of a recursive group
        self.tmp = 0
        self.loops = []
        self.kinds = {}              # variable -> kind
        self.ctype = {}              # integer variable -> (width, signed)
        self.structs = {}            # flattened struct local -> kind ('al' | 'cl')
        self.alias = {}              # pointer-to-member loop variable -> variable it designates
        self.outs = []               # flattened members of the output parameter
        self.outroot = None

    def fresh(self):
        self.tmp += 1
        return "t%d" % self.tmp

    # ------------------------------------------------------------ results
    def extra(self):
        return list(self.states) + list(self.outs)

    def ret_tuple(self, val):
        parts = [val] + self.extra()
        return parts[0] if len(parts) == 1 else "(%s)" % ", ".join(parts)

    def ret_type(self):
        parts = [GTYPE[zk(self.ret_kind)]] + ["Z"] * len(self.states) + ["fields"] * len(self.outs)
        return " * ".join(parts)

    # ------------------------------------------------------------ conversions
    @staticmethod
    def as_z(t, kd):
        return "(b2z %s)" % t if kd == "bool" else t

    @staticmethod
    def as_b(t, kd):
        if kd == "bool":
            return t
        if kd == "ptr":
            return "(negb (%s =? -1))" % t
        if kd == "Z":
            return "(negb (%s =? 0))" % t
        raise Untranslatable("truth value of a " + kd)

    def block(self, binds, result):
        return "(" + txt(binds) + result + ")"

    def unseq(self, b1, t1, b2, t2):
        """two operands whose evaluations are unsequenced: neither may rebind a variable the other one reads or
           rebinds (the translation would otherwise have to pick an order the standard does not fix)"""
        for (ba, bb, tb) in ((b1, b2, t2), (b2, b1, t1)):
            for v in rebound(ba):
                if v in rebound(bb):
                    raise Untranslatable("two unsequenced modifications of " + v)
                if mentions(tb, v) or any(mentions(b.text, v) for b in bb):
                    raise Untranslatable("unsequenced modification and read of " + v)
        return b1 + b2

    # ------------------------------------------------------------ lvalues
    def place(self, n, scope):
        """the program variable an lvalue designates, or None"""
        n = strip(n)
        k = n.get("kind")
        if k == "DeclRefExpr":
            v = n.get("referencedDecl", {}).get("name")
            if v in self.structs or v == self.outroot:
                return None
            return v
        if k == "MemberExpr":
            base = strip(n["inner"][0])
            if base.get("kind") == "DeclRefExpr":
                r = base.get("referencedDecl", {}).get("name")
                if r in self.structs and not n.get("isArrow"):
                    return "%s__%s" % (r, n.get("name"))
                if r == self.outroot and n.get("isArrow"):
                    return "%s__%s" % (r, n.get("name"))
            return None
        if k == "UnaryOperator" and n.get("opcode") == "*":
            p = strip(n["inner"][0])
            if p.get("kind") == "DeclRefExpr" and p.get("referencedDecl", {}).get("name") in self.alias:
                return self.alias[p["referencedDecl"]["name"]]
        return None

    def read_var(self, v, scope):
        if v not in scope:
            raise Untranslatable("read of %s, which is not (yet) assigned" % v)
        return [], v, self.kinds[v]

    def assign(self, v, b, t, kd, scope, n=None):
        """bindings for `v = value`; v keeps its kind"""
        vk = self.kinds.get(v)
        if vk is None:
            raise Untranslatable("assignment to " + str(v))
        if zk(vk) != zk(kd) and not (vk == "bool" and kd == "Z") and not (vk == "Z" and kd == "bool"):
            raise Untranslatable("assignment of a %s to %s" % (kd, v))
        if vk == "Z":
            t = self.as_z(t, kd)
        elif vk == "bool":
            t = self.as_b(t, kd)
        if v not in scope:
            if not (("__" in v) and v.split("__")[0] in self.structs):
                raise Untranslatable("assignment to " + v)
            scope.append(v)                                       # first assignment of a member of a struct local
        return b + [B("let %s := %s in\n" % (v, t), v)]

    # ------------------------------------------------------------ expressions -> (binds, term, kind)
    def expr(self, n, scope):
        k = n.get("kind")
        inner = n.get("inner", [])
        if k in TRANSPARENT:
            return self.expr(inner[-1], scope)
        c = fold(n) if k in ("BinaryOperator", "UnaryOperator", "IntegerLiteral") or k in CASTS else None
        if c is not None and self.safe_int(n):
            return [], zl(c), "Z"
        if k in CASTS:
            return self.cast(n, scope)
        if k == "CXXBoolLiteralExpr":
            return [], "true" if n.get("value") else "false", "bool"
        if k == "CXXNullPtrLiteralExpr":
            return [], "(-1)", "ptr"
        if k == "DeclRefExpr":
            return self.declref(n, scope)
        if k == "CXXThisExpr":
            raise Untranslatable("use of `this` as a value")
        if k == "MemberExpr":
            return self.member_expr(n, scope)
        if k in ("CXXConstructExpr", "CXXTemporaryObjectExpr"):
            return self.construct(n, scope)
        if k == "InitListExpr":
            kd = kind_of(n)
            if kd not in RECORDS:
                raise Untranslatable("braced initialiser of a " + kd)
            rec = RECORDS[kd]
            if len(inner) != len(rec[4]):
                raise Untranslatable("braced initialiser with %d elements" % len(inner))
            binds, terms = [], []
            for e in inner:
                b, t, ek = self.expr(e, scope)
                for tb in terms:
                    for v in rebound(b):
                        if mentions(tb, v):
                            raise Untranslatable("initialiser element modifies " + v)
                binds += b
                terms.append(self.as_z(t, ek) if zk(ek) in ("Z", "bool") and ek != "bool" else t)
            return binds, "(%s %s)" % (rec[3], " ".join(terms)), kd
        if k == "CXXMemberCallExpr":
            return self.member_call(n, scope)
        if k == "CXXOperatorCallExpr":
            return self.operator_call(n, scope)
        if k == "CallExpr":
            return self.call(n, scope)
        if k == "UnaryOperator":
            return self.unary(n, scope)
        if k == "BinaryOperator":
            return self.binary(n, scope)
        if k == "CompoundAssignOperator":
            return self.compound_assign(n, scope)
        if k == "ArraySubscriptExpr":
            bb, bt, bk = self.expr(inner[0], scope)
            ib, it, ik = self.expr(inner[1], scope)
            if bk != "ptr" or ik != "Z":
                raise Untranslatable("subscript of a " + bk)
            binds = self.unseq(bb, bt, ib, it)
            p, x = self.fresh(), self.fresh()
            return binds + [B("do %s <- ptr_add (z_trans z) %s %s ;;\n" % (p, bt, it)),
                            B("do %s <- ptr_rd (z_trans z) %s ;;\n" % (x, p))], x, "tr"
        if k == "ConditionalOperator":
            bc, tc, kc = self.expr(inner[0], scope)
            ba, ta, ka = self.expr(inner[1], scope)
            bb, tb, kb = self.expr(inner[2], scope)
            if rebound(ba) or rebound(bb):
                raise Untranslatable("assignment inside a conditional expression")
            tc = self.as_b(tc, kc)
            if zk(ka) != zk(kb):
                raise Untranslatable("conditional expression with arms %s / %s" % (ka, kb))
            if not ba and not bb:
                return bc, "(if %s then %s else %s)" % (tc, ta, tb), zk(ka)
            x = self.fresh()
            e = "(if %s then %s else %s)" % (tc, self.block(ba, "OK %s" % ta), self.block(bb, "OK %s" % tb))
            return bc + [B("do %s <- %s ;;\n" % (x, e))], x, zk(ka)
        raise Untranslatable("expression kind " + str(k))

    def safe_int(self, n):
        try:
            int_type(n)
            return True
        except Untranslatable:
            return False

    def cast(self, n, scope):
        ck = n.get("castKind")
        src = n["inner"][-1]
        b, t, kd = self.expr(src, scope)
        if ck in ("LValueToRValue", "NoOp", "FunctionToPointerDecay", "ConstructorConversion", "UncheckedDerivedToBase", "DerivedToBase"):
            return b, t, kd
        if ck == "NullToPointer":
            return b, "(-1)", "ptr"
        if ck in ("IntegralToBoolean", "PointerToBoolean"):
            return b, self.as_b(t, kd), "bool"
        if ck == "IntegralCast":
            if kd == "bool":
                return b, self.as_z(t, kd), "Z"
            if kd != "Z":
                raise Untranslatable("integral cast of a " + kd)
            (sw, ss), (dw, ds) = int_type(src), int_type(n)
            c = fold(src)
            lo, hi = (-(1 << (dw - 1)), (1 << (dw - 1)) - 1) if ds else (0, (1 << dw) - 1)
            if c is not None and lo <= c <= hi:
                return b, t, "Z"
            if ds == ss and dw >= sw:
                return b, t, "Z"
            if ds and not ss and dw > sw:
                return b, t, "Z"                                  # unsigned to a wider signed type
            if not ds:
                return b, "(u%d %s)" % (dw, t), "Z"               # to unsigned: modulo 2^w
            x = self.fresh()
            if dw not in (8, 32) or not ss:
                raise Untranslatable("conversion to a signed type of %d bits" % dw)
            return b + [B("do %s <- narrow%d %s ;;\n" % (x, dw, t))], x, "Z"
        raise Untranslatable("cast kind " + str(ck))

    def declref(self, n, scope):
        ref = n.get("referencedDecl", {})
        name = ref.get("name")
        if ref.get("kind") == "EnumConstantDecl":
            if kind_of(n) == "kind" and name in CKINDS:
                return [], name, "kind"
            raise Untranslatable("enumerator " + str(name))
        if name in self.alias or name in self.structs or name == self.outroot:
            raise Untranslatable("use of %s as a value" % name)
        if name in self.kinds and ref.get("kind") in ("VarDecl", "ParmVarDecl"):
            return self.read_var(name, scope)
        if ref.get("kind") == "VarDecl":
            v = global_const(name)
            if v is not None:
                return [], zl(v), "Z"
        raise Untranslatable("unknown name " + str(name))

    def member_expr(self, n, scope):
        name = n.get("name")
        base = strip(n["inner"][0])
        if base.get("kind") == "CXXThisExpr":
            if name in THIS_MEMBERS and self.member:
                t, kd = THIS_MEMBERS[name]
                return [], t, kd
            if name in ATOMIC_MEMBERS and self.member:
                return [], name, "atomic"
            raise Untranslatable("member " + str(name))
        v = self.place(n, scope)
        if v is not None:
            return self.read_var(v, scope)
        b, t, kd = self.expr(n["inner"][0], scope)
        if n.get("isArrow"):
            if kd != "ptr":
                raise Untranslatable("-> on a " + kd)
            x = self.fresh()
            b, t, kd = b + [B("do %s <- ptr_rd (z_trans z) %s ;;\n" % (x, t))], x, "tr"
        if kd in RECORDS:
            for cname, proj in RECORDS[kd][4]:
                if cname == name:
                    return b, "(%s %s)" % (proj, t), zk(kind_of(n))
        raise Untranslatable("member access .%s on a %s" % (name, kd))

    def construct(self, n, scope):
        inner = n.get("inner", [])
        kd = kind_of(n)
        if len(inner) == 1 and (same_class(n, inner[0]) or (kd == "dur" and zk(kind_of(inner[0])) == "Z" and int_type(inner[0]) == (64, True))):
            b, t, k1 = self.expr(inner[0], scope)
            return b, t, zk(kd) if kd in ("tp", "dur") else k1
        if kd == "cs" and not inner:
            return [], self.unit.civil_default, "cs"
        if kd == "cs" and len(inner) == 6:
            binds, terms = [], []
            for a in inner:
                if a.get("kind") == "CXXDefaultArgExpr":
                    raise Untranslatable("default argument")
                if int_type(a) != (64, True):
                    raise Untranslatable("civil_second constructor argument type")
                b, t, k1 = self.expr(a, scope)
                for tb in terms:
                    for v in rebound(b):
                        if mentions(tb, v):
                            raise Untranslatable("argument modifies " + v)
                binds += b
                terms.append(self.as_z(t, k1))
            x = self.fresh()
            return binds + [B("do %s <- construct64 0 %s ;;\n" % (x, " ".join(terms)))], x, "cs"
        if kd.startswith("cmp:") and not [a for a in inner if a.get("kind") not in TRANSPARENT + ("CXXTemporaryObjectExpr",)]:
            return [], "", kd
        raise Untranslatable("construction of a " + kd)

    def member_call(self, n, scope):
        inner = n["inner"]
        me = inner[0]
        if me.get("kind") != "MemberExpr":
            raise Untranslatable("member call")
        name, args = me.get("name"), inner[1:]
        info = self.unit.resolve(name, args, True) if strip(me["inner"][0]).get("kind") == "CXXThisExpr" else None
        if info is not None:
            return self.call_known(info, args, scope)
        if name in ("load", "store"):
            ob, ot, ok_ = self.expr(me["inner"][0], scope)
            if ok_ != "atomic":
                raise Untranslatable(name + " on something that is not one of the hints")
            order = strip(args[-1]) if args else {}
            if order.get("referencedDecl", {}).get("name") != "memory_order_relaxed" or len(args) != (1 if name == "load" else 2):
                raise Untranslatable("atomic access that is not relaxed")
            if ot not in self.states:
                raise Untranslatable("hint " + ot)
            if name == "load":
                return [], ot, "Z"
            b, t, kd = self.expr(args[0], scope)
            if kd != "Z" or int_type(args[0]) != (64, False):
                raise Untranslatable("stored value type")
            return b + [B("let %s := %s in\n" % (ot, t), ot)], "tt", "void"
        ob, ot, ok_ = self.expr(me["inner"][0], scope)
        if ok_.startswith("vec:") and not args:
            if name == "size":
                return ob, "(vec_size %s)" % ot, "Z"
            if name == "empty":
                return ob, "(vec_empty %s)" % ot, "bool"
        if ok_ == "cs" and name in ACCESSORS and not args:
            return ob, "(%s %s)" % (ACCESSORS[name], ot), "Z"
        if ok_ in ("dur", "Z") and name == "count" and not args and classify(dty(strip_copies(me["inner"][0]))) == "dur":
            return ob, ot, "Z"
        raise Untranslatable("member call ." + str(name))

    def cs_compare(self, op, a, b):
        return {"operator<": "(lt64 %s %s)" % (a, b), "operator>": "(lt64 %s %s)" % (b, a),
                "operator<=": "(negb (lt64 %s %s))" % (b, a), "operator>=": "(negb (lt64 %s %s))" % (a, b)}.get(op)

    def operator_call(self, n, scope):
        inner = n["inner"]
        op = callee_ref(n).get("referencedDecl", {}).get("name")
        args = inner[1:]
        if op == "operator[]" and len(args) == 2:
            vb, vt, vk = self.expr(args[0], scope)
            ib, it, ik = self.expr(args[1], scope)
            if not vk.startswith("vec:") or ik != "Z" or int_type(args[1]) != (64, False):
                raise Untranslatable("operator[] on a " + vk)
            x = self.fresh()
            return vb + ib + [B("do %s <- nth_res %s %s ;;\n" % (x, vt, it))], x, vk[4:]
        if op == "operator=" and len(args) == 2:
            v = self.place(args[0], scope)
            if v is None:
                raise Untranslatable("assignment to something that is not a variable")
            b, t, kd = self.expr(args[1], scope)
            return self.assign(v, b, t, kd, scope), v, self.kinds[v]
        if op == "operator+=" and len(args) == 2:
            v = self.place(args[0], scope)
            if v is None or kind_of(args[0]) != "tp" or kind_of(args[1]) != "dur":
                raise Untranslatable("operator+= on " + str(v))
            b, t, kd = self.expr(args[1], scope)
            rb, rt, rk = self.read_var(v, scope)
            x = self.fresh()
            return b + [B("do %s <- add64 %s %s ;;\n" % (x, v, t)), B("let %s := %s in\n" % (v, x), v)], v, "Z"
        if len(args) != 2:
            raise Untranslatable("operator " + str(op))
        k1, k2 = kind_of(args[0]), kind_of(args[1])
        b1, t1, _ = self.expr(args[0], scope)
        b2, t2, e2 = self.expr(args[1], scope)
        binds = self.unseq(b1, t1, b2, t2)
        if k1 == "cs" and k2 == "cs":
            c = self.cs_compare(op, t1, t2)
            if c is not None:
                return binds, c, "bool"
            if op == "operator-":
                x = self.fresh()
                return binds + [B("do %s <- difference64 0 %s %s ;;\n" % (x, t1, t2))], x, "Z"
        if k1 == "cs" and k2 == "Z" and op in ("operator+", "operator-") and int_type(args[1]) == (64, True):
            x = self.fresh()
            return binds + [B("do %s <- %s 0 %s %s ;;\n" % (x, "plus64" if op == "operator+" else "minus64", t1, self.as_z(t2, e2)))], x, "cs"
        if (k1, k2) in (("tp", "tp"), ("dur", "dur")):
            m = {"operator<": "(%s <? %s)", "operator<=": "(%s <=? %s)", "operator==": "(%s =? %s)", "operator!=": "(negb (%s =? %s))"}
            if op in m:
                return binds, m[op] % (t1, t2), "bool"
            if op in ("operator>", "operator>="):
                return binds, ("(%s <? %s)" if op == "operator>" else "(%s <=? %s)") % (t2, t1), "bool"
        if (k1, k2) in (("tp", "dur"), ("dur", "dur")) and op in ("operator+", "operator-") or (k1, k2, op) == ("tp", "tp", "operator-"):
            x = self.fresh()
            return binds + [B("do %s <- %s64 %s %s ;;\n" % (x, "add" if op == "operator+" else "sub", t1, t2))], x, "Z"
        raise Untranslatable("operator %s on %s, %s" % (op, k1, k2))

    def call(self, n, scope):
        c = callee_ref(n)
        ref = c.get("referencedDecl", {})
        name, args = ref.get("name"), n["inner"][1:]
        info = self.unit.resolve(name, args, False) if ref.get("kind") == "FunctionDecl" else None
        if info is not None:
            return self.call_known(info, args, scope)
        if name in ("ToUnixSeconds", "FromUnixSeconds") and len(args) == 1:
            b, t, kd = self.expr(args[0], scope)
            want = ("tp", 64) if name == "ToUnixSeconds" else ("Z", 64)
            if kind_of(args[0]) != want[0] or int_type(args[0]) != (64, True) or int_type(n) != (64, True):
                raise Untranslatable("argument of " + name)
            return b, t, "Z"
        if name in ("max", "min") and not args and ref.get("kind") == "CXXMethodDecl":
            w, sg = int_type(n)
            if not sg:
                raise Untranslatable("limit of an unsigned type")
            return [], zl((1 << (w - 1)) - 1 if name == "max" else -(1 << (w - 1))), "Z"
        if name in ("upper_bound", "lower_bound") and len(args) == 4:
            b1, t1, k1 = self.expr(args[0], scope)
            b2, t2, k2 = self.expr(args[1], scope)
            b3, t3, k3 = self.expr(args[2], scope)
            b4, t4, k4 = self.expr(args[3], scope)
            if k1 != "ptr" or k2 != "ptr" or k3 != "tr" or not k4.startswith("cmp:") or kind_of(n) != "ptr":
                raise Untranslatable("arguments of " + name)
            if rebound(b1 + b2 + b3 + b4):
                raise Untranslatable("argument with a side effect")
            cmpf = self.unit.known.get(k4[4:])
            if cmpf is None:
                raise Untranslatable("comparator " + k4[4:])
            pred = "(fun e_ => %s %s e_)" % (cmpf["gname"], t3) if name == "upper_bound" else "(fun e_ => negb (%s e_ %s))" % (cmpf["gname"], t3)
            x = self.fresh()
            return b1 + b2 + b3 + [B("do %s <- range_search %s (z_trans z) %s %s ;;\n" % (x, pred, t1, t2))], x, "ptr"
        raise Untranslatable("call of " + str(name))

    def call_known(self, info, args, scope):
        if info.get("pure"):
            raise Untranslatable("direct call of a comparator")
        if len(args) != len(info["params"]):
            raise Untranslatable("argument count of " + info["gname"])
        binds, terms, parts = [], [], []
        for a, (pname, pkind) in zip(args, info["params"]):
            b, t, kd = self.expr(a, scope)
            if zk(kd) != zk(pkind) and not (pkind == "Z" and kd == "bool"):
                raise Untranslatable("argument %s of %s is a %s" % (pname, info["gname"], kd))
            for (b0, t0) in parts:                                  # arguments are indeterminately sequenced
                self.unseq(b0, t0, b, t)
            parts.append((b, t))
            binds += b
            terms.append(self.as_z(t, kd) if pkind == "Z" else t)
        if info["outs"]:
            raise Untranslatable("call of a function with an output parameter")
        for s in info["states"]:
            if s not in self.states:
                raise Untranslatable("hint " + s)
        r = self.fresh()
        pat = "'(%s)" % ", ".join([r] + info["states"]) if info["states"] else r
        head = info["gname"] + (" fuel" if info["fuel"] else "") + (" z" if info["member"] else "")
        out = binds + [B("do %s <- %s %s ;;\n" % (pat, head, " ".join(info["states"] + terms)))]
        out += [B("", s) for s in info["states"]]
        return out, r, info["ret"]

    def unary(self, n, scope):
        op, inner = n["opcode"], n["inner"]
        if op in ("++", "--"):
            v = self.place(inner[0], scope)
            if v is None or v not in scope:
                raise Untranslatable("increment of something that is not a variable")
            kd = self.kinds[v]
            d = "1" if op == "++" else "(-1)"
            x = self.fresh()
            if kd == "ptr":
                step = [B("do %s <- ptr_add (z_trans z) %s %s ;;\n" % (x, v, d))]
            elif kd == "Z" and v in self.ctype and self.ctype[v][1]:
                step = [B("do %s <- add%d %s %s ;;\n" % (x, max(self.ctype[v][0], 32), v, d))]
                if self.ctype[v][0] < 32:
                    raise Untranslatable("increment of a narrow integer")
            elif kd == "Z" and v in self.ctype:
                step = [B("let %s := u%d (%s + %s) in\n" % (x, self.ctype[v][0], v, d))]
            else:
                raise Untranslatable("increment of a " + kd)
            if n.get("isPostfix"):
                old = self.fresh()
                return [B("let %s := %s in\n" % (old, v))] + step + [B("let %s := %s in\n" % (v, x), v)], old, kd
            return step + [B("let %s := %s in\n" % (v, x), v)], v, kd
        if op == "*":
            v = self.place(n, scope)
            if v is not None:
                return self.read_var(v, scope)
            b, t, kd = self.expr(inner[0], scope)
            if kd != "ptr":
                raise Untranslatable("dereference of a " + kd)
            x = self.fresh()
            return b + [B("do %s <- ptr_rd (z_trans z) %s ;;\n" % (x, t))], x, "tr"
        if op == "&":
            tgt = strip(inner[0])
            if tgt.get("kind") == "CXXOperatorCallExpr" and callee_ref(tgt).get("referencedDecl", {}).get("name") == "operator[]":
                vb, vt, vk = self.expr(tgt["inner"][1], scope)
                ib, it, ik = self.expr(tgt["inner"][2], scope)
                if ik != "Z" or int_type(tgt["inner"][2]) != (64, False):
                    raise Untranslatable("index type")
                x = self.fresh()
                if vk == "vec:tr":
                    return vb + ib + [B("do %s <- vec_addr %s %s ;;\n" % (x, vt, it))], x, "ptr"
                if vk == "str":
                    return vb + ib + [B("do %s <- cstr_from %s %s ;;\n" % (x, vt, it))], x, "abbr"
            raise Untranslatable("address-of")
        b, t, kd = self.expr(inner[0], scope)
        if op == "!":
            return b, "(negb %s)" % self.as_b(t, kd), "bool"
        if op == "+" and kd == "Z":
            return b, t, "Z"
        if op == "-" and kd == "Z":
            w, sg = int_type(n)
            if not sg or w not in (32, 64):
                raise Untranslatable("negation at this type")
            x = self.fresh()
            return b + [B("do %s <- neg%d %s ;;\n" % (x, w, t))], x, "Z"
        raise Untranslatable("unary " + op)

    def is_strcmp(self, n):
        n = strip(n)
        return n.get("kind") == "CallExpr" and callee_ref(n).get("referencedDecl", {}).get("name") == "strcmp" and len(n["inner"]) == 3

    def binary(self, n, scope):
        op, inner = n["opcode"], n["inner"]
        if op == "=":
            v = self.place(inner[0], scope)
            if v is None:
                raise Untranslatable("assignment to something that is not a variable")
            b, t, kd = self.expr(inner[1], scope)
            return self.assign(v, b, t, kd, scope), v, self.kinds[v]
        if op in ("&&", "||"):
            b1, t1, k1 = self.expr(inner[0], scope)
            b2, t2, k2 = self.expr(inner[1], scope)
            t1, t2 = self.as_b(t1, k1), self.as_b(t2, k2)
            if rebound(b2):
                raise Untranslatable("assignment in the right operand of " + op)
            if not b2:
                return b1, "(%s %s %s)" % (t1, op, t2), "bool"
            x = self.fresh()
            e = ("(if %s then %s else OK false)" if op == "&&" else "(if %s then OK true else %s)") % (t1, self.block(b2, "OK %s" % t2))
            return b1 + [B("do %s <- %s ;;\n" % (x, e))], x, "bool"
        if op in ("==", "!=") and (self.is_strcmp(inner[0]) and fold(inner[1]) == 0 or self.is_strcmp(inner[1]) and fold(inner[0]) == 0):
            call = strip(inner[0]) if self.is_strcmp(inner[0]) else strip(inner[1])
            b1, t1, k1 = self.expr(call["inner"][1], scope)
            b2, t2, k2 = self.expr(call["inner"][2], scope)
            if k1 != "abbr" or k2 != "abbr":
                raise Untranslatable("strcmp of a " + k1)
            binds = self.unseq(b1, t1, b2, t2)
            return binds, ("(list_eqb %s %s)" if op == "==" else "(negb (list_eqb %s %s))") % (t1, t2), "bool"
        b1, t1, k1 = self.expr(inner[0], scope)
        b2, t2, k2 = self.expr(inner[1], scope)
        binds = self.unseq(b1, t1, b2, t2)
        if op in ("==", "!=", "<", "<=", ">", ">="):
            if (k1 == "ptr") != (k2 == "ptr"):
                raise Untranslatable("comparison of a pointer with a " + (k2 if k1 == "ptr" else k1))
            if k1 == "ptr" and op not in ("==", "!="):
                raise Untranslatable("ordering of pointers")
            if k1 not in ("ptr", "Z", "bool") or k2 not in ("ptr", "Z", "bool"):
                raise Untranslatable("comparison of a " + k1)
            if k1 != "ptr" and int_type(inner[0]) != int_type(inner[1]):
                raise Untranslatable("comparison at mixed types")
            a, c = self.as_z(t1, k1), self.as_z(t2, k2)
            m = {"==": "(%s =? %s)", "!=": "(negb (%s =? %s))", "<": "(%s <? %s)", "<=": "(%s <=? %s)"}
            if op in m:
                return binds, m[op] % (a, c), "bool"
            return binds, ("(%s <? %s)" if op == ">" else "(%s <=? %s)") % (c, a), "bool"
        if op in ("+", "-") and k1 == "ptr" and k2 == "Z":
            x = self.fresh()
            off = t2 if op == "+" else "(- %s)" % t2
            return binds + [B("do %s <- ptr_add (z_trans z) %s %s ;;\n" % (x, t1, off))], x, "ptr"
        if op == "-" and k1 == "ptr" and k2 == "ptr":
            x = self.fresh()
            return binds + [B("do %s <- ptr_diff %s %s ;;\n" % (x, t1, t2))], x, "Z"
        if k1 not in ("Z", "bool") or k2 not in ("Z", "bool"):
            raise Untranslatable("operand of %s is a %s" % (op, k1 if k1 not in ("Z", "bool") else k2))
        t1, t2 = self.as_z(t1, k1), self.as_z(t2, k2)
        if op in ("+", "-", "*"):
            w, sg = int_type(n)
            x = self.fresh()
            if sg:
                if w not in (32, 64):
                    raise Untranslatable("arithmetic at width %d" % w)
                f = {"+": "add", "-": "sub", "*": "mul"}[op]
                return binds + [B("do %s <- %s%d %s %s ;;\n" % (x, f, w, t1, t2))], x, "Z"
            return binds, "(u%d (%s %s %s))" % (w, t1, op, t2), "Z"
        if op in ("/", "%"):
            v = fold(inner[1])
            w, sg = int_type(n)
            if v is None or v <= 0:
                raise Untranslatable("division by a non-constant or non-positive value")
            return binds, "(Z.%s %s %s)" % ("quot" if op == "/" else "rem", t1, t2), "Z"
        raise Untranslatable("binary " + op)

    def compound_assign(self, n, scope):
        op, inner = n["opcode"], n["inner"]
        v = self.place(inner[0], scope)
        if v is None or v not in scope or self.kinds.get(v) != "Z" or v not in self.ctype:
            raise Untranslatable("compound assignment to something that is not an integer variable")
        b, t, kd = self.expr(inner[1], scope)
        t = self.as_z(t, kd)
        cw = INT_S.get(clean(n.get("computeResultType", {}).get("desugaredQualType") or n.get("computeResultType", {}).get("qualType")))
        lw, ls = self.ctype[v]
        if op in ("+=", "-=", "*=") and cw in (32, 64) and ls and lw == cw:
            x = self.fresh()
            f = {"+": "add", "-": "sub", "*": "mul"}[op[0]]
            return b + [B("do %s <- %s%d %s %s ;;\n" % (x, f, cw, v, t)), B("let %s := %s in\n" % (v, x), v)], v, "Z"
        raise Untranslatable("compound assignment " + op)

    # ------------------------------------------------------------ statements
    @staticmethod
    def body_list(st):
        if not st:
            return []
        return list(st.get("inner", [])) if st.get("kind") == "CompoundStmt" else [st]

    def assigned(self, stmts, scope):
        got = set()
        for st in stmts:
            for m in walk(st):
                k = m.get("kind")
                if k == "CompoundAssignOperator" or (k == "BinaryOperator" and m.get("opcode") == "="):
                    got.add(self.place(m["inner"][0], scope))
                elif k == "UnaryOperator" and m.get("opcode") in ("++", "--"):
                    got.add(self.place(m["inner"][0], scope))
                elif k == "CXXOperatorCallExpr" and callee_ref(m).get("referencedDecl", {}).get("name") in ("operator=", "operator+="):
                    got.add(self.place(m["inner"][1], scope))
                elif k == "CXXMemberCallExpr":
                    me = m["inner"][0]
                    if me.get("name") == "store":
                        for q in walk(me):
                            if q.get("kind") == "MemberExpr" and q.get("name") in ATOMIC_MEMBERS:
                                got.add(q["name"])
                    info = self.unit.resolve_node(m)
                    if info:
                        got.update(info["states"])
                elif k == "CallExpr":
                    info = self.unit.resolve_node(m)
                    if info:
                        got.update(info["states"])
        return [v for v in scope if v in got and self.kinds.get(v) != "struct"]

    def used(self, stmts, scope):
        names = set()
        for st in stmts:
            for m in walk(st):
                if m.get("kind") == "DeclRefExpr":
                    names.add(m.get("referencedDecl", {}).get("name"))
                    if m.get("referencedDecl", {}).get("name") in self.alias:
                        names.add(self.alias[m["referencedDecl"]["name"]])
                if m.get("kind") == "MemberExpr":
                    names.add(self.place(m, scope))
                    if m.get("name") in ATOMIC_MEMBERS:
                        names.add(m["name"])
                if m.get("kind") in ("CXXMemberCallExpr", "CallExpr"):
                    info = self.unit.resolve_node(m)
                    if info:
                        names.update(info["states"])
        return [v for v in scope if v in names and self.kinds.get(v) != "struct"]

    def walk_own(self, n):
        if isinstance(n, dict):
            yield n
            if n.get("kind") in ("ForStmt", "WhileStmt", "DoStmt", "CXXForRangeStmt"):
                for m in walk(n):
                    if m.get("kind") == "ReturnStmt":
                        yield m
                return
            for c in n.get("inner", []):
                yield from self.walk_own(c)

    def escapes(self, stmts):
        return any(m.get("kind") in ("ReturnStmt", "BreakStmt", "ContinueStmt", "GotoStmt") for st in stmts for m in self.walk_own(st))

    def always_escapes(self, stmts):
        if not stmts:
            return False
        last = stmts[-1]
        if last.get("kind") in ("ReturnStmt", "BreakStmt"):
            return True
        if last.get("kind") == "CompoundStmt":
            return self.always_escapes(self.body_list(last))
        if last.get("kind") == "IfStmt" and last.get("hasElse"):
            return self.always_escapes(self.body_list(last["inner"][1])) and self.always_escapes(self.body_list(last["inner"][2]))
        return False

    @staticmethod
    def tup(vs):
        return "tt" if not vs else (vs[0] if len(vs) == 1 else "(%s)" % ", ".join(vs))

    @staticmethod
    def pat(vs):
        return "_" if not vs else (vs[0] if len(vs) == 1 else "'(%s)" % ", ".join(vs))

    def gty(self, v):
        return GTYPE[zk(self.kinds[v])]

    def is_assert(self, st):
        """assert(c) as glibc expands it without NDEBUG: (static_cast<bool>(c) ? void(0) : __assert_fail(...)); returns c"""
        if st.get("kind") != "ParenExpr" or dty(st) != "void":
            return None
        c = st["inner"][0]
        if c.get("kind") != "ConditionalOperator" or len(c.get("inner", [])) != 3:
            return None
        no = strip(c["inner"][2])
        yes = c["inner"][1]
        if no.get("kind") == "CallExpr" and callee_ref(no).get("referencedDecl", {}).get("name") == "__assert_fail" \
                and yes.get("castKind") == "ToVoid" and fold(yes["inner"][0]) == 0:
            return c["inner"][0]
        return None

    def decl(self, vd, scope):
        """bindings for one local variable declaration; extends scope"""
        name = vd["name"]
        if name in scope or name in self.alias or name in ("z", "fuel") or name in self.states or re.match(r"^t\d+$", name) or "__" in name:
            raise Untranslatable("redeclaration of the name " + name)
        if vd.get("storageClass"):
            raise Untranslatable("storage class of " + name)
        kd = kind_of(vd)
        init = vd["inner"][-1] if vd.get("inner") else None
        if kd in ("al", "cl"):
            core = strip_copies(init) if init else None
            self.structs[name] = kd
            self.kinds[name] = "struct"
            scope.append(name)                                      # the root only marks the name as taken
            for cname, proj in RECORDS[kd][4]:
                fk = {"cs": "cs", "offset": "Z", "is_dst": "bool", "abbr": "abbr", "kind": "kind", "pre": "Z", "trans": "Z", "post": "Z"}[cname]
                self.kinds["%s__%s" % (name, cname)] = fk
                if fk == "Z":
                    self.ctype["%s__%s" % (name, cname)] = (32, True) if cname == "offset" else (64, True)
            if core is None or (core.get("kind") == "CXXConstructExpr" and not core.get("inner")):
                return []                                           # default-initialised: no member is readable yet
            b, t, k1 = self.expr(init, scope)
            if k1 != kd:
                raise Untranslatable("initialiser of " + name)
            out = list(b)
            for cname, proj in RECORDS[kd][4]:
                v = "%s__%s" % (name, cname)
                out.append(B("let %s := %s %s in\n" % (v, proj, t), v))
                scope.append(v)
            return out
        if init is None:
            raise Untranslatable("declaration of %s without initialiser" % name)
        if kd in ("tpp", "outp", "atomic") or kd.startswith("cmp:"):
            raise Untranslatable("local of type " + kd)
        b, t, k1 = self.expr(init, scope)
        if zk(k1) != zk(kd) and not (zk(kd) in ("Z", "bool") and k1 in ("Z", "bool")):
            raise Untranslatable("initialiser of %s is a %s" % (name, k1))
        self.kinds[name] = zk(kd)
        if zk(kd) == "Z":
            self.ctype[name] = int_type(vd)
            t = self.as_z(t, k1)
        elif kd == "bool":
            t = self.as_b(t, k1)
        scope.append(name)
        return b + [B("let %s := %s in\n" % (name, t), name)]

    def finish(self, tail, val):
        if tail[0] != "none":
            raise Untranslatable("return inside a loop or a joined branch")
        return "OK %s" % self.ret_tuple(val)

    def ret_value(self, e, scope):
        """(binds, term) of the returned value"""
        core = strip_copies(e)
        if core.get("kind") == "DeclRefExpr" and core.get("referencedDecl", {}).get("name") in self.structs:
            r = core["referencedDecl"]["name"]
            kd = self.structs[r]
            vs = ["%s__%s" % (r, c) for c, _ in RECORDS[kd][4]]
            for v in vs:
                if v not in scope:
                    raise Untranslatable("member %s may be returned unassigned" % v)
            if kd != self.ret_kind:
                raise Untranslatable("returned struct kind")
            return [], "(%s %s)" % (RECORDS[kd][3], " ".join(vs))
        b, t, kd = self.expr(e, scope)
        if self.ret_kind == "bool":
            return b, self.as_b(t, kd)
        if zk(self.ret_kind) == "Z":
            if kd not in ("Z", "bool"):
                raise Untranslatable("returned value is a " + kd)
            return b, self.as_z(t, kd)
        if kd != self.ret_kind:
            raise Untranslatable("returned value is a " + kd)
        return b, t

    def seq(self, stmts, scope, tail):
        scope = list(scope)
        if not stmts:
            if tail[0] == "fall":
                for v in tail[1]:
                    if v not in scope:
                        raise Untranslatable("join on the unassigned " + v)
                return "OK %s" % self.tup(tail[1])
            if tail[0] == "loop":
                return tail[4]
            raise Untranslatable("control reaches the end of a non-void function")
        st, rest = stmts[0], stmts[1:]
        k = st.get("kind")
        if k == "CompoundStmt":
            return self.seq(self.body_list(st) + rest, scope, tail)
        if k == "NullStmt":
            return self.seq(rest, scope, tail)
        cond = self.is_assert(st)
        if cond is not None:
            b, t, kd = self.expr(cond, scope)
            if rebound(b):
                raise Untranslatable("assertion with a side effect")
            return "%sif %s then (\n%s\n) else Err Precond" % (txt(b), self.as_b(t, kd), self.seq(rest, scope, tail))
        if k == "DeclStmt":
            out = ""
            for vd in st.get("inner", []):
                if vd.get("kind") != "VarDecl":
                    raise Untranslatable("declaration of " + str(vd.get("kind")))
                out += txt(self.decl(vd, scope))
            return out + self.seq(rest, scope, tail)
        if k == "ReturnStmt":
            if not st.get("inner"):
                raise Untranslatable("return without a value")
            b, t = self.ret_value(st["inner"][0], scope)
            return txt(b) + self.finish(tail, t)
        if k == "BreakStmt":
            if tail[0] != "loop":
                raise Untranslatable("break outside a loop")
            return "OK %s" % self.tup(tail[3])
        if k == "IfStmt":
            if st.get("hasVar") or st.get("hasInit"):
                raise Untranslatable("if with a declaration")
            cb, ct, ck = self.expr(st["inner"][0], scope)
            c = self.as_b(ct, ck)
            pre = txt(cb)
            th = self.body_list(st["inner"][1])
            el = self.body_list(st["inner"][2]) if st.get("hasElse") else []
            if self.escapes(th) or self.escapes(el):
                a = self.seq(th if self.always_escapes(th) else th + rest, scope, tail)
                b = self.seq(el if self.always_escapes(el) else el + rest, scope, tail)
                return "%sif %s then (\n%s\n) else (\n%s\n)" % (pre, c, a, b)
            vs = self.assigned(th + el, scope + [v for v in self.kinds if "__" in v and v.split("__")[0] in self.structs and v not in scope])
            vs = [v for v in vs if v is not None]
            if not vs:
                raise Untranslatable("if without effect")
            for v in vs:
                if v not in scope:
                    raise Untranslatable("first assignment of %s inside a branch" % v)
            a = self.seq(th, scope, ("fall", vs))
            b = self.seq(el, scope, ("fall", vs))
            return "%sdo %s <- (if %s then (\n%s\n) else (\n%s\n)) ;;\n%s" % (pre, self.pat(vs), c, a, b, self.seq(rest, scope, tail))
        if k == "CXXForRangeStmt":
            return self.range_for(st, rest, scope, tail)
        if k == "ForStmt":
            return self.for_loop(st, rest, scope, tail)
        if k in ("BinaryOperator", "UnaryOperator", "CallExpr", "ExprWithCleanups", "CompoundAssignOperator", "CXXOperatorCallExpr", "CXXMemberCallExpr"):
            b, t, kd = self.expr(st, scope)
            for x in b:
                if x.var and x.var not in scope:
                    scope.append(x.var)
            return txt(b) + self.seq(rest, scope, tail)
        raise Untranslatable("statement " + str(k))

    def range_for(self, st, rest, scope, tail):
        """for (auto* p : {&a.x, &a.y, ...}) body  -- unrolled, p being the variable each element designates"""
        ins = st["inner"]
        if len(ins) != 8 or ins[0]:
            raise Untranslatable("range-for with an init statement")
        rng, var, body = ins[1], ins[6], ins[7]
        lst = None
        for m in walk(rng):
            if m.get("kind") == "CXXStdInitializerListExpr":
                lst = strip(m["inner"][0])
        if lst is None or lst.get("kind") != "InitListExpr":
            raise Untranslatable("range-for over something that is not a braced list")
        vd = var["inner"][0]
        if kind_of(vd) != "tpp":
            raise Untranslatable("range-for variable type")
        name = vd["name"]
        if name in scope or name in self.alias:
            raise Untranslatable("redeclaration of the name " + name)
        bl = self.body_list(body)
        if self.escapes(bl):
            raise Untranslatable("range-for body that leaves the loop")
        unrolled = []
        for e in lst.get("inner", []):
            e = strip(e)
            if e.get("kind") != "UnaryOperator" or e.get("opcode") != "&":
                raise Untranslatable("range-for element that is not an address")
            v = self.place(e["inner"][0], scope)
            if v is None or kind_of(e["inner"][0]) != "tp":
                raise Untranslatable("range-for element")
            unrolled.append((name, v, bl))
        # each copy of the body is translated with the alias set; copies are chained through a marker statement
        out, sc = "", list(scope)
        for (nm, v, stmts) in unrolled:
            self.alias[nm] = v
            vs = self.assigned(stmts, sc)
            vs = [x for x in vs if x is not None]
            if not vs:
                raise Untranslatable("range-for body without effect")
            for x in vs:
                if x not in sc:
                    raise Untranslatable("first assignment of %s inside a loop" % x)
            out += "do %s <- (\n%s\n) ;;\n" % (self.pat(vs), self.seq(stmts, sc, ("fall", vs)))
            del self.alias[nm]
        return out + self.seq(rest, sc, tail)

    def for_loop(self, st, rest, scope, tail):
        init, cvar, cond, inc, body = (st["inner"] + [None] * 5)[:5]
        if init:
            return self.seq([init, dict(st, inner=[None, cvar, cond, inc, body])] + rest, scope, tail)
        if cvar:
            raise Untranslatable("loop with a condition variable")
        bl = self.body_list(body)
        pieces = [x for x in [cond, inc] if x] + bl
        if any(m.get("kind") in ("ReturnStmt", "ContinueStmt", "GotoStmt") for x in pieces for m in walk(x)):
            raise Untranslatable("return or continue inside a loop")
        if self.rec:
            for x in pieces:
                for m in walk(x):
                    i1 = self.unit.resolve_node(m) if m.get("kind") in ("CXXMemberCallExpr", "CallExpr") else None
                    if i1 and i1.get("key") in self.group:
                        raise Untranslatable("recursive call inside a loop")
        stv = [v for v in self.assigned(pieces, scope) if v is not None]
        ro = [v for v in self.used(pieces, scope) if v not in stv]
        lname = "%s_loop%d" % (self.gname, len(self.loops) + 1)
        self.loops.append(None)
        idx = len(self.loops) - 1
        cb, ct, ck = self.expr(cond, scope) if cond else ([], "true", "bool")
        if rebound(cb) - set(stv):
            raise Untranslatable("loop condition rebinds a non-state variable")
        recur = "%s fuel%s %s" % (lname, " z" if self.member else "", " ".join(ro + stv))
        sc = list(scope)
        if inc:
            ib, it, ik = self.expr(inc, sc)
            recur = txt(ib) + recur
        btxt = self.seq(bl, sc, ("loop", lname, ro, stv, recur))
        itxt = "%sif %s then (\n%s\n) else (\nOK %s\n)" % (txt(cb), self.as_b(ct, ck), btxt, self.tup(stv))
        sty = " * ".join(self.gty(v) for v in stv) if stv else "unit"
        self.loops[idx] = ("Fixpoint %s (fuel : nat)%s %s {struct fuel} : res (%s) :=\n  match fuel with\n  | O => Err Fuel\n  | S fuel =>\n%s\n  end.\n\n"
                           % (lname, " (z : zone)" if self.member else "", " ".join("(%s : %s)" % (v, self.gty(v)) for v in ro + stv), sty, itxt))
        return "do %s <- %s fuel%s %s ;;\n%s" % (self.pat(stv), lname, " z" if self.member else "", " ".join(ro + stv), self.seq(rest, scope, tail))

    # ------------------------------------------------------------ function
    def signature(self):
        """parameters -> (Gallina binders, scope, info params); sets kinds"""
        binders, scope, sig = [], [], []
        for c in self.ast.get("inner", []):
            if c.get("kind") != "ParmVarDecl":
                continue
            p = c.get("name")
            if p is None:
                raise Untranslatable("unnamed parameter")
            # a reference parameter's type is printed with its sugar only: read the desugared type off a use
            for m in walk(self.body):
                if m.get("kind") == "DeclRefExpr" and m.get("referencedDecl", {}).get("id") == c.get("id") and "desugaredQualType" in m.get("type", {}):
                    c = dict(c, type=m["type"])
                    break
            kd = kind_of(c)
            if kd == "outp":
                if self.outroot:
                    raise Untranslatable("two output parameters")
                self.outroot = p
                for f, fk in OUT_RECORD[2]:
                    v = "%s__%s" % (p, f)
                    self.kinds[v] = fk
                    self.outs.append(v)
                continue
            if kd in ("al", "cl", "tpp", "abbr", "kind", "ptr") or kd.startswith("cmp:"):
                raise Untranslatable("parameter of type " + kd)
            self.kinds[p] = zk(kd)
            if zk(kd) == "Z":
                self.ctype[p] = int_type(c)
            binders.append("(%s : %s)" % (p, GTYPE[zk(kd)]))
            scope.append(p)
            sig.append((p, zk(kd)))
        return binders, scope, sig

    def prepare(self):
        rt = clean(self.ast.get("type", {}).get("qualType", "").split("(")[0])
        rt = {"time_zone::absolute_lookup": "cctz::time_zone::absolute_lookup", "time_zone::civil_lookup": "cctz::time_zone::civil_lookup",
              "civil_second": "cctz::detail::civil_time<cctz::detail::second_tag>", "cctz::civil_second": "cctz::detail::civil_time<cctz::detail::second_tag>"}.get(rt, rt)
        self.ret_kind = classify(rt)
        if self.ret_kind not in ("bool", "Z", "al", "cl", "cs"):
            raise Untranslatable("return type " + rt)
        self.binders, self.scope0, self.sig = self.signature()
        return {"key": self.key, "gname": self.gname, "fuel": self.fuel, "member": self.member, "states": list(self.states),
                "params": self.sig, "outs": list(self.outs), "ret": zk(self.ret_kind)}

    def translate(self):
        scope = list(self.states) + self.scope0 + list(self.outs)
        term = self.seq(self.body_list(self.body), scope, ("none",))
        binders = (["(fuel : nat)"] if self.fuel else []) + (["(z : zone)"] if self.member else []) + \
            ["(%s : Z)" % s for s in self.states] + self.binders + ["(%s : fields)" % o for o in self.outs]
        return "".join(self.loops), "%s %s" % (self.gname, " ".join(binders)), "res (%s)" % self.ret_type(), term


class PureFn:
    """a comparator's operator(): a single `return e;` with e a total boolean expression"""
    def __init__(self, key, ast, unit):
        self.key, self.ast, self.unit = key, ast, unit
        self.gname = "sz_" + key

    def translate(self):
        f = Fn(self.key, self.ast, None, self.unit)
        f.ret_kind = "bool"
        binders, scope, sig = f.signature()
        if [k for _, k in sig] != ["tr", "tr"]:
            raise Untranslatable("comparator parameters")
        body = f.body_list(f.body)
        if len(body) != 1 or body[0].get("kind") != "ReturnStmt":
            raise Untranslatable("comparator body")
        b, t, kd = f.expr(body[0]["inner"][0], scope)
        if b or kd != "bool":
            raise Untranslatable("comparator that can fail")
        return "Definition %s %s : bool :=\n%s.\n" % (self.gname, " ".join(binders), t)


PRELUDE = """(* SourceZone.v - GENERATED by gen/ast_translate_zone.py from clang's AST of /repo's current
   src/time_zone_info.cc (the zone query functions) on every run.  Do not edit.
   `this` is [z : zone]; a `const Transition*` is an index into transitions_ (nullptr = -1); the two
   atomic hints are explicit arguments and extra results; time_point / seconds are tick counts with
   checked 64-bit arithmetic; std::upper_bound / lower_bound are ZoneImpl.bound_search over the
   sub-range (Err Precond when not partitioned); see the translator's header for the full reading. *)
From CCTZ Require Import Base Cal CivilImpl ZoneLoad ZoneImpl.
Local Open Scope Z_scope.
(* conversions to / arithmetic at unsigned types wrap *)
Definition u64 (x : Z) : Z := x mod 2 ^ 64.
Definition u32 (x : Z) : Z := x mod 2 ^ 32.
Definition u16 (x : Z) : Z := x mod 2 ^ 16.
Definition u8 (x : Z) : Z := x mod 2 ^ 8.
Definition vec_size {A} (l : list A) : Z := Z.of_nat (length l).
Definition vec_empty {A} (l : list A) : bool := match l with [] => true | _ => false end.
(* &v[i]: operator[] requires i < size(); the pointer is the index *)
Definition vec_addr {A} (l : list A) (i : Z) : res Z := do _ <- nth_res l i ;; OK i.
(* p + k stays inside the array or one past its end *)
Definition ptr_add {A} (l : list A) (p k : Z) : res Z :=
  if p <? 0 then Err Precond
  else if (0 <=? p + k) && (p + k <=? vec_size l) then OK (p + k) else Err OOB.
Definition ptr_diff (p q : Z) : res Z := if (p <? 0) || (q <? 0) then Err Precond else OK (p - q).
(* *p *)
Definition ptr_rd {A} (l : list A) (p : Z) : res A := if p <? 0 then Err Precond else nth_res l p.
(* std::upper_bound / lower_bound over [b, e): the partition point of the sub-range *)
Definition range_search {A} (after : A -> bool) (l : list A) (b e : Z) : res Z :=
  if (0 <=? b) && (b <=? e) && (e <=? vec_size l) then
    do k <- bound_search after (firstn (Z.to_nat (e - b)) (skipn (Z.to_nat b) l)) ;; OK (b + Z.of_nat k)
  else Err Precond.

"""


class Unit:
    def __init__(self):
        self.known, self.sigs = {}, {}
        self.civil_default = None

    def resolve(self, name, args, member):
        """the translated function a call designates: by name, member-ness and the kinds of the arguments (clang's
           node ids are not stable across the separate clang runs, so overloads are told apart by their parameters)"""
        try:
            kinds = [zk(kind_of(a)) for a in args]
        except Untranslatable:
            return None
        for info in self.sigs.get((name, member), []):
            pk = [k for _, k in info["params"]] + ["outp"] * (1 if info["outs"] else 0)
            if len(pk) == len(kinds) and all(a == b or (a == "bool" and b == "Z") for a, b in zip(kinds, pk)):
                return info
        return None

    def resolve_node(self, m):
        if m.get("kind") == "CXXMemberCallExpr":
            me = m["inner"][0]
            if me.get("kind") == "MemberExpr" and strip(me["inner"][0]).get("kind") == "CXXThisExpr":
                return self.resolve(me.get("name"), m["inner"][1:], True)
            return None
        if m.get("kind") == "CallExpr":
            ref = callee_ref(m).get("referencedDecl", {})
            if ref.get("kind") == "FunctionDecl":
                return self.resolve(ref.get("name"), m["inner"][1:], False)
        return None

    def definitions(self):
        """[(key, ast, owner)] for every target, overloads told apart by their parameter kinds"""
        out, failed = [], {}
        for flt, name, owner in TARGETS:
            defs, seen = [], set()
            for d in clang_docs(flt, SRC):
                for m in walk(d):
                    if m.get("kind") in ("FunctionDecl", "CXXMethodDecl") and m.get("name") == name and m.get("id") not in seen \
                            and any(c.get("kind") == "CompoundStmt" for c in m.get("inner", [])):
                        seen.add(m.get("id"))
                        defs.append(m)
            if owner in ("ByUnixTime", "ByCivilTime"):
                if len(defs) != 1:
                    failed[flt] = "no single definition"
                    continue
                out.append((flt, defs[0], owner))
                continue
            if not defs:
                failed[flt] = "no definition"
                continue
            for m in defs:
                key = name
                if len(defs) > 1:
                    codes = []
                    for c in m.get("inner", []):
                        if c.get("kind") == "ParmVarDecl":
                            for q in walk(m):
                                if q.get("kind") == "DeclRefExpr" and q.get("referencedDecl", {}).get("id") == c.get("id") and "desugaredQualType" in q.get("type", {}):
                                    c = dict(c, type=q["type"])
                                    break
                            try:
                                kd = kind_of(c)
                            except Untranslatable:
                                kd = "x"
                            codes.append({"Z": "i%d" % int_type(c)[0] if kd == "Z" else kd}.get(kd, kd))
                    key = "%s_%s" % (name, "_".join(codes))
                out.append((key, m, owner))
        return out, failed

    def run(self):
        parts, done, failed = [PRELUDE], [], {}
        try:
            check_records()
            self.civil_default = civil_default()
        except Untranslatable as e:
            return None, [], {"*": str(e)}
        defs, failed = self.definitions()
        fns = {}
        for key, ast, owner in defs:
            if owner in ("ByUnixTime", "ByCivilTime"):
                try:
                    text = PureFn(key, ast, self).translate()
                    parts.append(text + "\n")
                    self.known[key] = {"gname": "sz_" + key, "pure": True}
                    done.append(key)
                except Untranslatable as e:
                    failed[key] = str(e)
                    parts.append("(* %s: not translated: %s *)\n\n" % (key, e))
                continue
            fns[key] = Fn(key, ast, owner, self)
        order = [k for k, _, o in defs if k in fns]
        # signatures first (callees are resolved by name and parameter kinds), then call graph, hints, fuel
        for k in list(fns):
            f = fns[k]
            try:
                f.info = f.prepare()
                self.sigs.setdefault((f.base, f.member), []).append(f.info)
            except Untranslatable as e:
                failed[k] = str(e)
                parts_failed = "(* %s: not translated: %s *)\n\n" % (k, e)
                del fns[k]
        order = [k for k in order if k in fns]
        for k, f in fns.items():
            for m in walk(f.body):
                info = self.resolve_node(m) if m.get("kind") in ("CXXMemberCallExpr", "CallExpr") else None
                if info is not None and info["key"] not in f.callees:
                    f.callees.append(info["key"])
            f.direct_states = [a for a in ATOMIC_MEMBERS if any(m.get("kind") == "MemberExpr" and m.get("name") == a for m in walk(f.body))]
            f.has_loop = any(m.get("kind") in ("ForStmt", "WhileStmt", "DoStmt") for m in walk(f.body))

        def reach(k):
            seen, todo = set(), list(fns[k].callees)
            while todo:
                x = todo.pop()
                if x not in seen:
                    seen.add(x)
                    todo += fns[x].callees
            return seen
        reachable = {k: reach(k) for k in fns}
        for k, f in fns.items():
            f.rec = k in reachable[k]
            f.group = sorted([x for x in reachable[k] if k in reachable[x]], key=order.index) if f.rec else [k]
            f.states = [a for a in ATOMIC_MEMBERS if a in f.direct_states or any(a in fns[x].direct_states for x in reachable[k])]
            f.fuel = f.rec or f.has_loop or any(fns[x].has_loop or x in reachable[x] for x in reachable[k])
            f.info.update(fuel=f.fuel, states=list(f.states))
            for st_ in f.states:
                f.kinds[st_] = "Z"
                f.ctype[st_] = (64, False)
        # translate in dependency order (callees first), recursive groups together
        emitted = set()

        def emit(k, stack=()):
            f = fns[k]
            if k in emitted or k in failed:
                return
            for c in f.callees:
                if c not in f.group and c not in stack:
                    emit(c, stack + (k,))
            group = f.group
            if any(g in emitted for g in group):
                return
            try:
                for g in group:
                    for c in fns[g].callees:
                        if c in failed:
                            raise Untranslatable("calls the untranslated " + c)
                infos = {g: fns[g].info for g in group}
                pieces = [fns[g].translate() for g in group]
            except Untranslatable as e:
                for g in group:
                    failed[g] = str(e)
                    self.sigs[(fns[g].base, fns[g].member)].remove(fns[g].info)
                    parts.append("(* %s: not translated: %s *)\n\n" % (g, e))
                return
            text = "".join(p[0] for p in pieces)
            if f.rec:
                bodies = []
                for (loops, head, rty, term) in pieces:
                    bodies.append("%s {struct fuel} : %s :=\n  match fuel with\n  | O => Err Fuel\n  | S fuel =>\n%s\n  end" % (head, rty, term))
                text += "Fixpoint " + "\nwith ".join(bodies) + ".\n"
            else:
                (loops, head, rty, term) = pieces[0]
                text += "Definition %s : %s :=\n%s.\n" % (head, rty, term)
            parts.append(text + "\n")
            for g in group:
                emitted.add(g)
                self.known[g] = infos[g]
                done.append(g)
        for k in order:
            emit(k)
        return "".join(parts), done, failed


def main():
    out = sys.argv[1] if len(sys.argv) > 1 and not sys.argv[1].startswith("--") else os.path.join(os.path.dirname(__file__), "..", "coq", "SourceZone.v")
    text, done, failed = Unit().run()
    if failed:
        print(json.dumps({"written": False, "translated": done, "untranslated": failed, "kept_previous": True}))
        if "--force" in sys.argv and text is not None:
            open(out, "w").write(text)
        return
    changed = not os.path.exists(out) or open(out).read() != text
    if changed:
        open(out, "w").write(text)
    print(json.dumps({"written": changed, "translated": done, "untranslated": failed}))


if __name__ == "__main__":
    main()
