#!/usr/bin/env python3
"""Translator for the LOADER side of src/time_zone_info.cc: clang JSON AST -> Gallina (coq/SourceLoad.v, and
coq/SourceNames.v next to it - see the end of this text), re-run on every check.  Sibling of gen/ast_translate_zone.py (whose expression / statement translation it reuses):

  Header::Build, Header::DataLength, TimeZoneInfo::GetTransitionType, TimeZoneInfo::ExtendTransitions,
  TimeZoneInfo::Load(ZoneInfoSource*).

The loader MUTATES the object, so `this` is a state that is threaded through:

 * a non-const member function of TimeZoneInfo takes the object's value on entry, `z : zone` (ZoneLoad.v), reads
   its seven modelled members into variables (transitions_, transition_types_, default_transition_type_,
   abbreviations_, future_spec_, extended_, last_year_), and returns (C++ result, the zone on exit[, further
   state][, outputs]).  version_ (not part of the zone record) and the ZoneInfoSource are further threaded state.
   Header's members may be unset: `oheader` has `option Z` members (reading an unset one is Err Uninit).  A const
   member function gets the value only.  The const query functions (EquivTransitions, LocalTime, the comparators)
   are the source-derived ones of SourceZone.v, called on the zone rebuilt from the current values of the members.
 * std::vector / std::string members are lists: `.size()` `.empty()` `[i]` `.back()` `.front()` (Err OOB when empty)
   `.push_back(x)` `.append(s)` `.append(n, c)` `.assign(p, n)` `.clear()` `.resize(n)` (value-initialised
   elements: zeros and civil_second()) `.reserve(n)` / `.shrink_to_fit()` (no effect on the value).
   `v[i].m = e` rewrites element i (`vec_set`).  `T& r(*v.emplace(v.end()))` / `(v.begin())` inserts the
   value-initialised element and makes r an ALIAS of that element, `T& r(v[i])` an alias of element i: `r.m = e`
   rewrites the element, `r.m` reads it; an alias, a `const T&` snapshot of an element or a `T*` into the vector
   is dropped (its later use makes the function untranslated) as soon as the vector's size changes or, for a
   snapshot, an element is written.  `for (auto& x : v)` is a loop on the index with x an alias of element i.
 * a scalar local declared without initialiser, and an integer output parameter (`std::uint_least8_t* index`),
   is an `option Z` that starts as / is passed in as its current value; reading it while None is `Err Uninit`.
 * the ZoneInfoSource is the list of the bytes it has yet to deliver: `zip->Read(p, n)` takes min(n, remaining)
   bytes and returns how many; `zip->Skip(n)` is ZoneLoad.skip_z and returns 0; `zip->Version()` is a parameter.
   The destinations of Read: a `tzhead` local (an `option (list Z)`: a short read leaves it unreadable), a
   `std::vector<char>` local (n zero bytes, overwritten from the front), an `unsigned char` local.
 * `const char[k]` members of a tzhead are pointers into its 44 bytes (offsets computed from the struct declaration
   in the AST), `v.data()` is a pointer into the byte vector; such pointers are indices with STRICT bounds
   (`cadd`, `byte_at`, `csub`); Decode8/32/64 are the source-derived SourceDecode functions, guarded by `span_ok`
   (the bytes they read lie inside the buffer); `strncmp(p, "literal", k) != 0` with k <= strlen(literal) compares
   the k bytes at p with the literal's; `sizeof` of a tzhead / char array is read off the AST; a conversion to
   plain `char` is the byte (`u8`: the signedness of char is abstracted, as in the pointer translator).
 * `PosixTimeZone posix; ParsePosixSpec(spec, &posix)` is the hand-written parser model PosixImpl.ParsePosixSpec
   (tied to the source-derived parser by SourcePosixProofs.v): posix is an `option posix_tz`, its members are read
   through get_opt (Err Uninit for a member the parser did not write); TransOffset / AllYearDST are the
   source-derived Source64 functions applied to the flattened struct (Source64InfoProofs.flat_trans /
   flat_allyear); IsLeap, ToPosixWeekday, get_weekday are Source64's.
 * a `Transition` local is a record value; `x.m = e` is a functional update; `c ? &a : &b` / `&a` on such locals
   is the VALUE of the pointee at that point, dropped as soon as a pointee is assigned.
 * `const char* p = &abbreviations_[i]` is the C string (cstr_from); `p == str` is list_eqb.
 * a capture-less local lambda whose body is declarations followed by one return is expanded at each call.
 * a loop that contains `return` is a Fixpoint returning (Some result | None, loop state); `while` is a `for`
   without header; when both branches of an `if` that contains a `return` can reach a LARGE rest of the block
   (one with loops in it), that rest is translated once, as a separate function sl_<fn>_k<i> of everything in scope.
 * everything else (checked signed arithmetic, wrapping size_t arithmetic, narrowing through narrow32, loops on
   fuel, if-joins, short-circuit, assert) as in ast_translate_zone.py.

A second output, coq/SourceNames.v (definitions sn_*), is the NAME-RESOLUTION and CACHE code:

  TimeZoneInfo::ResetToBuiltinUTC, TimeZoneInfo::Load(const std::string&), FileZoneInfoSource::Open
  (src/time_zone_info.cc), local_time_zone() (src/time_zone_lookup.cc), time_zone::Impl::LoadTimeZone
  (src/time_zone_impl.cc).

 * what the code asks the outside world is an ORACLE, an extra parameter of the definition:
   `zone_info_source_factory(name, fallback)` is [factory__ name : option (bytes, Version())] (the fallback lambda
   belongs to the oracle and is not inspected); `std::getenv("X")` is [getenv__ "X" : option (list Z)] (nullptr =
   None); `FOpen(path.c_str(), "rb")` is [fopen__ (c_str path) : option (bytes of the file)] and
   `new FileZoneInfoSource(std::move(fp))` is the source (those bytes, Version() = ""); `load_time_zone(name, &tz)`
   is [load_time_zone__ name tz : bool * TZ] over an abstract type TZ of time_zone values, `time_zone tz;` is
   [tz_default__].
 * FixedOffsetFromName / FixedOffsetToName / FixedOffsetToAbbr are the source-derived SourceFixed.so_* functions
   (`seconds::zero()` is 0); `Load(name, zip.get())` is sl_Load with version_ threaded.
 * a std::string local is a list: `size` `empty` `c_str` `s[i]` (str_at: the NUL at size()) `+=` of a character / a
   C string, `append(s, pos, npos)` (str_from), `compare(pos, n, "lit") == 0` (str_compare_eq; pos <= size() or
   Err OOB), `==` of two strings (list_eqb), construction from a `const char*`; `for (x : {c1, c2})` is unrolled.
 * a nullable `const char*` is an `option (list Z)`: the characters before the NUL; `p != nullptr` / `if (p)`,
   `*p` (hd 0: the NUL of an empty string), `++p` (cstr_next: Err OOB past the NUL), `strcmp(p, "lit") == 0`.
   A `std::unique_ptr` to a source / FILE is an option: `== nullptr`, `return nullptr`.
 * LoadTimeZone (class CacheFn, its own small vocabulary; statements in continuation-passing style, so the code
   after an `if` that may return appears in both branches) is a SEQUENTIAL function over an explicit cache:
   time_zone_map is `option imap` (None = nullptr; imap an association list, newest key first, of nullable Impl
   pointers `option nat`: None = nullptr, an Impl is its identity, UTCImpl() is 0); `find` / `end()` / `->second`
   (map_find, reading end() is Err Uninit), `(*time_zone_map)[name]` (map_index: a missing key is inserted with
   nullptr; the `const Impl*&` is an alias of that entry: reading it looks the key up, assigning it is map_set),
   `time_zone_map = new TimeZoneImplByName` (Some []).  `std::lock_guard<std::mutex> l(TimeZoneMutex())` appends
   LkLock to the trace where it is declared and LkUnlock where its scope ends (each return included); at the
   k-th acquisition the guarded variable becomes [world__ k time_zone_map] - whatever the other threads left
   there; touching time_zone_map without the lock, or taking the lock twice, makes the function untranslated.
   `new Impl(name)` is the oracle [new_impl__ name : identity * (zone_ != nullptr)]; `p->zone_ ? p.release() : q`.
   The declarations are checked too: time_zone_map is one namespace-scope pointer that is not thread_local and
   starts null, TimeZoneMutex() returns one function-local static mutex.

Anything else makes that function 'untranslated' (previous SourceLoad.v / SourceNames.v kept, fact recorded; not
an alarm).  coq/SourceLoadProofs.v ties each loader function to the hand-written model of ZoneLoad.v,
coq/SourceNamesProofs.v the name-resolution functions to ZoneLoad.v / NameRes.v, coq/SourceCacheProofs.v
LoadTimeZone to LoaderSM.v (S1 | S2 | S3, LoaderSM.publish)."""
import json, os, re, sys

sys.path.insert(0, os.path.dirname(__file__))
from ast_translate import Untranslatable  # noqa: E402
from ast_translate64 import clang_docs, walk, zl, TRANSPARENT, CASTS  # noqa: E402
import ast_translate_zone as ZM  # noqa: E402
from ast_translate_zone import (Fn, B, txt, rebound, mentions, strip, strip_copies, callee_ref, fold, dty, clean,  # noqa: E402
                                 kind_of, int_type, zk, RECORDS, SRC, INT_S, INT_U)

ZONE_MEMBERS = [("transitions_", "vec:tr", "z_trans"), ("transition_types_", "vec:tt", "z_types"),
                ("default_transition_type_", "Z", "z_default"), ("abbreviations_", "str", "z_abbrs"),
                ("future_spec_", "str", "z_future"), ("extended_", "bool", "z_extended"), ("last_year_", "Z", "z_last_year")]
ZONE_CTYPE = {"default_transition_type_": (8, False), "last_year_": (64, True)}
HEADER_MEMBERS = [("timecnt", "oZ", "oh_timecnt"), ("typecnt", "oZ", "oh_typecnt"), ("charcnt", "oZ", "oh_charcnt"),
                  ("leapcnt", "oZ", "oh_leapcnt"), ("ttisstdcnt", "oZ", "oh_isstdcnt"), ("ttisutcnt", "oZ", "oh_isutcnt")]
OWNERS = {"TimeZoneInfo": ("z", "zone", "mkZone", ZONE_MEMBERS), "Header": ("h", "oheader", "mkOH", HEADER_MEMBERS),
          "none": ("", "", "", [])}                     # a static member function: no object
XSTATE_MEMBERS = {"version_": "str"}          # members of TimeZoneInfo outside the zone record: threaded separately
PTZ_FIELDS = {"std_abbr": "str", "std_offset": "oZ", "dst_abbr": "str", "dst_offset": "oZ", "dst_start": "ptrans", "dst_end": "ptrans"}
# source-derived functions of other generated files: name -> (Gallina name, parameter kinds, result kind, fuel)
EXTERNAL = {"IsLeap": ("Source64.s64_IsLeap", ["Z"], "bool", False),
            "ToPosixWeekday": ("Source64.s64_ToPosixWeekday", ["Z"], "Z", False),
            "get_weekday": ("Source64.s64_get_weekday", ["cs"], "Z", False),
            "TransOffset": ("Source64InfoProofs.flat_trans", ["bool", "Z", "ptrans"], "Z", False),
            "AllYearDST": ("Source64InfoProofs.flat_allyear", ["ptz"], "bool", False),
            "FixedOffsetToAbbr": ("SourceFixed.so_FixedOffsetToAbbr", ["Z"], "str", False),
            "FixedOffsetToName": ("SourceFixed.so_FixedOffsetToName", ["Z"], "str", False)}
# the byte decoders of SourceDecode.v and the number of bytes each reads from its argument (SourceDecode reads through the
# C-string convention of the pointer translator - index length is a readable NUL - so the span is checked here)
DECODE = {"Decode32": ("SourceDecode.sd_Decode32", 4), "Decode64": ("SourceDecode.sd_Decode64", 8), "Decode8": ("SourceDecode.sd_Decode8", 1)}
# const member functions translated in SourceZone.v: (name, parameter kinds) -> (Gallina name, result kind)
ZONE_QUERIES = {("EquivTransitions", ("Z", "Z")): ("sz_EquivTransitions", "bool"),
                ("LocalTime", ("Z", "tt")): ("sz_LocalTime_i64_tt", "al"),
                ("LocalTime", ("Z", "tr")): ("sz_LocalTime_i64_tr", "al")}
# (clang filter, C++ name, owner, output file, key, substring the function type must contain)
TARGETS = [("Header::Build", "Build", "Header", "load", "Build", ""), ("Header::DataLength", "DataLength", "Header", "load", "DataLength", ""),
           ("GetTransitionType", "GetTransitionType", "TimeZoneInfo", "load", "GetTransitionType", ""),
           ("ExtendTransitions", "ExtendTransitions", "TimeZoneInfo", "load", "ExtendTransitions", ""),
           ("TimeZoneInfo::Load", "Load", "TimeZoneInfo", "load", "Load", "ZoneInfoSource"),
           ("ResetToBuiltinUTC", "ResetToBuiltinUTC", "TimeZoneInfo", "names", "ResetToBuiltinUTC", ""),
           ("TimeZoneInfo::Load", "Load", "TimeZoneInfo", "names", "LoadName", "std::string"),
           ("FileZoneInfoSource::Open", "Open", "none", "names", "FileOpen", ""),
           ("local_time_zone", "local_time_zone", "none", "names", "local_time_zone", "", "src/time_zone_lookup.cc"),
           ("LoadTimeZone", "LoadTimeZone", "cache", "names", "LoadTimeZone", "", "src/time_zone_impl.cc")]
PREFIX = {"load": "sl_", "names": "sn_"}

ZM.GTYPE.update({"vec:tr": "list transition", "vec:tt": "list ttype", "str": "list Z", "oZ": "option Z", "optz": "option posix_tz",
                 "ptz": "posix_tz", "ptrans": "ptrans", "lref": "transition", "bytes": "list Z", "otzh": "option (list Z)",
                 "ohdr": "oheader", "cvec": "list Z", "zip": "list Z", "ttptr": "Z", "osrc": "option (list Z * list Z)", "ocstr": "option (list Z)", "ofile": "option (list Z)", "cstrv": "list Z", "tzv": "TZ"})
# C++ locals that would capture an identifier the translation itself emits get a trailing underscore
ZM.RESERVED |= {p for r in RECORDS.values() for _, p in r[4]} | {p for _, _, p in ZONE_MEMBERS + HEADER_MEMBERS} | set(PTZ_FIELDS) | \
    {"fy", "fm", "fd", "fhh", "fmm", "fss", "h", "repeat", "length", "firstn", "skipn", "nth_res", "vec_size", "vec_empty", "vec_back",
     "vec_set", "cstr_from", "get_opt", "list_eqb", "b2z", "u8", "u16", "u32", "u64", "narrow8", "narrow32", "pt_date", "pt_time"}
_zone_classify = ZM.classify


def lclassify(s):
    if s in ("std::basic_string<char>", "std::string"):
        return "str"
    if s == "std::vector<cctz::Transition>":
        return "vec:tr"
    if s == "std::vector<cctz::TransitionType>":
        return "vec:tt"
    if s == "tzhead":
        return "tzhead"
    if re.match(r"^char\[\d+\]$", s):
        return "chararr"
    if s == "cctz::PosixTimeZone":
        return "optz"
    if s == "cctz::PosixTimeZone *":
        return "optz*"
    if s == "cctz::PosixTransition":
        return "ptrans"
    if s in ("cctz::detail::weekday", "enum cctz::detail::weekday"):
        return "Z"
    if s in ("unsigned char *", "std::uint_least8_t *"):
        return "outz"
    if s == "cctz::(anonymous namespace)::Header":
        return "ohdr"
    if s == "std::vector<char>":
        return "cvec"
    if s == "cctz::ZoneInfoSource *":
        return "zip"
    if s in ("std::unique_ptr<cctz::ZoneInfoSource>", "std::unique_ptr<ZoneInfoSource>"):
        return "osrc"
    if s.startswith("std::unique_ptr<_IO_FILE,"):
        return "ofile"
    if s == "cctz::time_zone":
        return "tzv"
    if s == "cctz::TransitionType *":
        return "ttptr"
    if s == "char *":
        return "abbr"                      # refined by the initialiser (a pointer into a local byte buffer is cptr:<buf>)
    if s == "void *":
        return "voidp"
    if s.startswith("(lambda at "):
        return "lambda"
    return _zone_classify(s)


ZM.classify = lclassify
_zone_int_type = ZM.int_type


def l_int_type(n):
    if dty(n) in ("cctz::detail::weekday", "enum cctz::detail::weekday"):
        return 32, True
    return _zone_int_type(n)


ZM.int_type = l_int_type
int_type = l_int_type


def record_layout(name):
    """byte offsets of the char-array members of a plain struct (no padding: every member is a char array)"""
    for d in clang_docs(name, SRC):
        for m in walk(d):
            if m.get("kind") == "CXXRecordDecl" and m.get("name") == name and m.get("completeDefinition"):
                off, out = 0, {}
                for c in m.get("inner", []):
                    if c.get("kind") == "FieldDecl":
                        mt = re.match(r"^char\[(\d+)\]$", clean(c.get("type", {}).get("qualType", "")))
                        if not mt:
                            raise Untranslatable("member %s of %s" % (c.get("name"), name))
                        out[c["name"]] = (off, int(mt.group(1)))
                        off += int(mt.group(1))
                return out, off
    raise Untranslatable("record " + name)


def ctor_defaults():
    """default arguments of civil_time(year_t y, diff_t m = 1, ...): list of 6 (None for y)"""
    found = set()
    for d in clang_docs("civil_time::civil_time", SRC):
        for m in walk(d):
            if m.get("kind") == "CXXConstructorDecl":
                ps = [c for c in m.get("inner", []) if c.get("kind") == "ParmVarDecl"]
                if len(ps) == 6 and all(clean(p.get("type", {}).get("desugaredQualType") or p.get("type", {}).get("qualType")) in ("long", "cctz::year_t", "cctz::diff_t") for p in ps):
                    vals = tuple(fold(p["inner"][-1]) if p.get("inner") else None for p in ps)
                    found.add(vals)
    if len(found) != 1:
        raise Untranslatable("default arguments of the civil_time constructor")
    return list(found.pop())


class LFn(Fn):
    def __init__(self, key, ast, owner, unit):
        Fn.__init__(self, key, ast, None, unit)
        self.owner = owner
        self.gname = PREFIX[getattr(unit, "cur_file", "load")] + key
        self.this_var, self.this_type, self.this_ctor, self.members = OWNERS[owner]
        names_used = {callee_ref(m).get("referencedDecl", {}).get("name") for m in walk(self.body) if m.get("kind") == "CallExpr"}
        self.uses_getenv, self.uses_fopen = "getenv" in names_used, "FOpen" in names_used
        self.uses_loadtz = "load_time_zone" in names_used
        self.uses_factory = any(m.get("kind") == "DeclRefExpr" and m.get("referencedDecl", {}).get("name") == "zone_info_source_factory" for m in walk(self.body))
        self.mkinds = {m: k for m, k, _ in self.members}
        self.const_method = owner == "none" or re.search(r"\)\s*const\s*$", ast.get("type", {}).get("qualType", "")) is not None
        self.member = True
        self.refs = {}                 # alias of a vector element: name -> (vector variable, index term, element kind)
        self.snaps = {}                # const-reference snapshot of a vector element: name -> vector variable
        self.lrefs = {}                # value of a pointee local: name -> set of locals
        self.bufs = {}                 # pointer parameter / tzhead parameter -> buffer variable
        self.outz = []                 # integer output parameters (option Z)
        self.xstates = []              # further threaded state: members outside the zone record, the ZoneInfoSource
        self.zipalias = {}             # lambda parameter -> the ZoneInfoSource variable it is called with
        self.lambdas = {}              # local lambda -> (parameter names, body)
        self.cptrs = {}                # pointer variable into a local byte buffer -> buffer
        self.vptrs = {}                # pointer variable into a vector member -> vector
        self.uses_version = any(m.get("kind") == "MemberExpr" and m.get("name") == "Version" for m in walk(self.body))
        self.nlam = 0
        self.fuel = any(m.get("kind") in ("ForStmt", "WhileStmt", "DoStmt") for m in walk(self.body))

    # ------------------------------------------------------------ state
    def zone_term(self):
        return "(%s %s)" % (self.this_ctor, " ".join(m for m, _, _ in self.members))

    def ret_tuple(self, val):
        parts = [val] + ([] if self.const_method else [self.zone_term()]) + list(self.xstates) + list(self.outz)
        return parts[0] if len(parts) == 1 else "(%s)" % ", ".join(parts)

    def ret_type(self):
        parts = [ZM.GTYPE[zk(self.ret_kind)]] + ([] if self.const_method else [self.this_type]) + \
            [ZM.GTYPE[self.kinds[x]] for x in self.xstates] + ["option Z"] * len(self.outz)
        return " * ".join(parts)

    def state_vars(self):
        """everything a `return` hands back"""
        return ([] if self.const_method else [m for m, _, _ in self.members]) + list(self.xstates) + list(self.outz)

    def kill(self, names, scope):
        for n in names:
            if n in scope:
                scope.remove(n)

    def vec_resized(self, vec, scope):
        self.kill([n for n, (v, _, _) in self.refs.items() if v == vec] + [n for n, v in self.snaps.items() if v == vec] +
                  [n for n, v in self.vptrs.items() if v == vec], scope)

    def buf_written(self, buf, scope):
        self.kill([n for n, b in self.cptrs.items() if b == buf], scope)

    def vec_written(self, vec, scope):
        self.kill([n for n, v in self.snaps.items() if v == vec], scope)

    def local_assigned(self, name, scope):
        self.kill([n for n, src in self.lrefs.items() if name in src], scope)

    # ------------------------------------------------------------ lvalues
    def this_member(self, n):
        n = strip(n)
        if n.get("kind") == "MemberExpr" and strip(n["inner"][0]).get("kind") == "CXXThisExpr" and \
                (n.get("name") in self.mkinds or n.get("name") in self.xstates):
            return n["name"]
        return None

    def zip_var(self, n):
        """the ZoneInfoSource state variable a pointer expression designates"""
        n = strip(n)
        if n.get("kind") == "DeclRefExpr":
            v = n.get("referencedDecl", {}).get("name")
            v = self.zipalias.get(v, v)
            if self.kinds.get(v) == "zip":
                return v
        return None

    def local_of(self, n, kind):
        n = strip(n)
        if n.get("kind") == "DeclRefExpr":
            v = n.get("referencedDecl", {}).get("name")
            if self.kinds.get(v) == kind:
                return v
        return None

    def place(self, n, scope):
        m = self.this_member(n)
        if m is not None:
            return m
        s = strip(n)
        if s.get("kind") == "UnaryOperator" and s.get("opcode") == "*":
            p = strip(s["inner"][0])
            if p.get("kind") == "DeclRefExpr" and p.get("referencedDecl", {}).get("name") in self.outz:
                return p["referencedDecl"]["name"]
        if s.get("kind") == "DeclRefExpr" and (s.get("referencedDecl", {}).get("name") in self.refs or s.get("referencedDecl", {}).get("name") in self.outz):
            return None
        return Fn.place(self, n, scope)

    def assign(self, v, b, t, kd, scope, n=None):
        if self.kinds.get(v) == "oZ":
            if kd not in ("Z", "bool"):
                raise Untranslatable("assignment of a %s to %s" % (kd, v))
            return b + [B("let %s := Some %s in\n" % (v, self.as_z(t, kd)), v)]
        if self.kinds.get(v) == "str" and kd == "str" and v in scope:
            self.vec_resized(v, scope)
            return b + [B("let %s := %s in\n" % (v, t), v)]
        if self.kinds.get(v, "").startswith("vec:") or self.kinds.get(v) == "str":
            raise Untranslatable("assignment to the container " + v)
        if self.kinds.get(v) == "ocstr":
            if kd not in ("ocstr", "cstrv") or v not in scope:
                raise Untranslatable("assignment to " + v)
            return b + [B("let %s := %s in\n" % (v, t if kd == "ocstr" else "Some %s" % t), v)]
        if self.kinds.get(v) == "ttptr":
            if kd != "ttptr" or v not in scope:
                raise Untranslatable("assignment to " + v)
            return b + [B("let %s := %s in\n" % (v, t), v)]
        out = Fn.assign(self, v, b, t, kd, scope, n)
        if self.kinds.get(v) == "tr":
            self.local_assigned(v, scope)
        return out

    def field_target(self, lhs, scope):
        """lhs designates a member of a record local, of an aliased vector element or of v[i]:
           ('local', var, member) / ('ref', name, member) / ('elem', vector, index node, element kind, member)"""
        lhs = strip(lhs)
        if lhs.get("kind") != "MemberExpr" or lhs.get("isArrow"):
            return None
        base = strip(lhs["inner"][0])
        if base.get("kind") == "CXXOperatorCallExpr" and callee_ref(base).get("referencedDecl", {}).get("name") == "operator[]":
            vk = self.vec_of(base["inner"][1], scope)
            if vk is not None and vk[1].startswith("vec:"):
                return ("elem", vk[0], base["inner"][2], vk[1][4:], lhs.get("name"))
            return None
        if base.get("kind") != "DeclRefExpr":
            return None
        r = base.get("referencedDecl", {}).get("name")
        if r in self.refs:
            return ("ref", r, lhs.get("name"))
        if self.kinds.get(r) in ("tr", "tt") and r in scope and r not in self.snaps:
            return ("local", r, lhs.get("name"))
        return None

    def record_with(self, kd, x, member, val):
        rec = RECORDS[kd]
        if member not in [c for c, _ in rec[4]]:
            raise Untranslatable("member " + str(member))
        return "(%s %s)" % (rec[3], " ".join(val if c == member else "(%s %s)" % (p, x) for c, p in rec[4]))

    def assign_field(self, tgt, lhs, rhs, scope):
        ib, it = [], None
        if tgt[0] == "elem":                                       # the index is evaluated like any operand
            ib, it, ik = self.expr(tgt[2], scope)
            if ik != "Z" or int_type(tgt[2]) != (64, False):
                raise Untranslatable("index type")
        b, t, kd = self.expr(rhs, scope)
        fk = zk(kind_of(lhs))
        if fk == "Z":
            if kd not in ("Z", "bool"):
                raise Untranslatable("assignment of a " + kd)
            t = self.as_z(t, kd)
        elif fk == "bool":
            t = self.as_b(t, kd)
        elif fk != zk(kd):
            raise Untranslatable("assignment of a %s to a %s member" % (kd, fk))
        if tgt[0] == "local":
            _, v, member = tgt
            if any(x.var == v for x in b):
                raise Untranslatable("unsequenced modification of " + v)
            out = b + [B("let %s := %s in\n" % (v, self.record_with(self.kinds[v], v, member, t)), v)]
            self.local_assigned(v, scope)
            return out, t, fk
        if tgt[0] == "elem":
            _, vec, _, ek, member = tgt
            binds = self.unseq(ib, it, b, t)
            if any(x.var == vec for x in binds):
                raise Untranslatable("unsequenced modification of " + vec)
            idx = it
        else:
            _, r, member = tgt
            if r not in scope:
                raise Untranslatable("use of the reference %s after its vector changed" % r)
            vec, idx, ek = self.refs[r]
            binds = b
        x, y = self.fresh(), self.fresh()
        out = binds + [B("do %s <- nth_res %s %s ;;\n" % (x, vec, idx)),
                       B("do %s <- vec_set %s %s %s ;;\n" % (y, vec, idx, self.record_with(ek, x, member, t))),
                       B("let %s := %s in\n" % (vec, y), vec)]
        self.vec_written(vec, scope)
        return out, t, fk

    # ------------------------------------------------------------ expressions
    def read_var(self, v, scope):
        b, t, kd = Fn.read_var(self, v, scope)
        if kd == "oZ":
            x = self.fresh()
            return [B("do %s <- get_opt %s ;;\n" % (x, v))], x, "Z"
        if kd == "lref":
            return b, t, "tr"
        if kd == "otzh":
            x = self.fresh()
            return [B("do %s <- get_opt %s ;;\n" % (x, v))], x, "bytes"
        if kd == "tzhead":
            return b, t, "bytes"
        return b, t, kd

    def declref(self, n, scope):
        name = n.get("referencedDecl", {}).get("name")
        if name in self.refs:
            if name not in scope:
                raise Untranslatable("use of the reference %s after its vector changed" % name)
            vec, idx, ek = self.refs[name]
            x = self.fresh()
            return [B("do %s <- nth_res %s %s ;;\n" % (x, vec, idx))], x, ek
        if name in self.outz:
            raise Untranslatable("use of the output pointer %s as a value" % name)
        if self.kinds.get(name) == "optz":
            if name not in scope:
                raise Untranslatable("read of " + str(name))
            x = self.fresh()
            return [B("do %s <- get_opt %s ;;\n" % (x, name))], x, "ptz"
        if self.kinds.get(name) in ("zip", "lambda", "cvec") or name in self.zipalias:
            raise Untranslatable("use of %s as a value" % name)
        return Fn.declref(self, n, scope)

    def member_expr(self, n, scope):
        m = self.this_member(n)
        if m is not None:
            return self.read_var(m, scope)
        base = strip(n["inner"][0])
        bname = base.get("referencedDecl", {}).get("name") if base.get("kind") == "DeclRefExpr" else None
        bk = self.kinds.get(bname) if bname is not None else None
        if bk == "optz" and not n.get("isArrow"):
            f = n.get("name")
            if f not in PTZ_FIELDS:
                raise Untranslatable("member %s of PosixTimeZone" % f)
            b, p, _ = self.declref(base, scope)
            if PTZ_FIELDS[f] == "oZ":
                x = self.fresh()
                return b + [B("do %s <- get_opt (%s %s) ;;\n" % (x, f, p))], x, "Z"
            return b, "(%s %s)" % (f, p), PTZ_FIELDS[f]
        if bk in ("tzhead", "otzh") and not n.get("isArrow"):
            lay, _ = self.unit.tzhead
            if n.get("name") not in lay:
                raise Untranslatable("member of tzhead")
            b, t, _ = self.read_var(bname, scope)
            return b, zl(lay[n["name"]][0]), "cptr:" + t
        if bk == "ohdr" and not n.get("isArrow"):
            for cname, _, proj in HEADER_MEMBERS:
                if cname == n.get("name"):
                    if bname not in scope:
                        raise Untranslatable("read of " + bname)
                    x = self.fresh()
                    return [B("do %s <- get_opt (%s %s) ;;\n" % (x, proj, bname))], x, "Z"
            raise Untranslatable("member of Header")
        if bk == "lref" and n.get("isArrow"):
            b, t, _ = self.read_var(bname, scope)
            for cname, proj in RECORDS["tr"][4]:
                if cname == n.get("name"):
                    return b, "(%s %s)" % (proj, t), zk(kind_of(n))
        return Fn.member_expr(self, n, scope)

    def cast(self, n, scope):
        ck = n.get("castKind")
        if ck == "ArrayToPointerDecay" and strip(n["inner"][-1]).get("kind") != "StringLiteral":
            b, t, kd = self.expr(n["inner"][-1], scope)
            if kd.startswith("cptr:"):
                return b, t, kd
            raise Untranslatable("array decay of a " + kd)
        if ck == "ArrayToPointerDecay" and strip(n["inner"][-1]).get("kind") == "StringLiteral":
            text = json.loads(strip(n["inner"][-1])["value"])
            return [], "[%s]" % "; ".join(str(ord(ch)) for ch in text), "cstrv"
        if ck == "PointerToBoolean":
            b, t, kd = self.expr(n["inner"][-1], scope)
            if kd == "ocstr":
                return b, "(match %s with Some _ => true | None => false end)" % t, "bool"
            raise Untranslatable("truth value of a " + kd)
        if ck == "BitCast" and dty(n) == "void *":
            return self.expr(n["inner"][-1], scope)
        if ck == "IntegralCast" and dty(n) == "char":
            b, t, kd = self.expr(n["inner"][-1], scope)        # a byte: the signedness of plain char is abstracted
            if kd != "Z":
                raise Untranslatable("conversion of a %s to char" % kd)
            c = fold(n["inner"][-1])
            return b, (t if c is not None and 0 <= c <= 255 else "(u8 %s)" % t), "Z"
        b, t, kd = Fn.cast(self, n, scope)
        return b, t, kd

    def construct(self, n, scope):
        inner = n.get("inner", [])
        try:
            kn = kind_of(n)
        except Untranslatable:
            kn = ""
        if kn == "tzv" and len(inner) == 1:
            b, t, kd = self.expr(inner[0], scope)
            if kd == "tzv":
                return b, t, kd
            raise Untranslatable("construction of a time_zone from a " + kd)
        if kn in ("osrc", "ofile") and len(inner) == 1:
            core = inner[0]
            while core.get("kind") in TRANSPARENT or core.get("kind") in CASTS:
                core = core["inner"][-1]
            if core.get("kind") == "CXXNullPtrLiteralExpr":
                return [], "None", kn
            if core.get("kind") == "CXXNewExpr" and kn == "osrc" and dty(core) == "cctz::(anonymous namespace)::FileZoneInfoSource *":
                ce = core["inner"][0]
                cargs = [a for a in ce.get("inner", []) if a.get("kind") != "CXXDefaultArgExpr"]
                if len(cargs) != 1:
                    raise Untranslatable("construction of a FileZoneInfoSource")
                b, t, kd = self.expr(cargs[0], scope)
                if kd != "ofile":
                    raise Untranslatable("construction of a FileZoneInfoSource from a " + kd)
                x = self.fresh()      # a source over the whole file; FileZoneInfoSource::Version() is the empty string
                return b + [B("do %s <- get_opt %s ;;\n" % (x, t))], "(Some (%s, ([] : list Z)))" % x, "osrc"
            b, t, kd = self.expr(inner[0], scope)
            if kd == kn:
                return b, t, kd
            raise Untranslatable("construction of a %s from a %s" % (kn, kd))
        if kind_of(n) == "cs" and len(inner) == 6 and any(a.get("kind") == "CXXDefaultArgExpr" for a in inner):
            binds, terms = [], []
            for a, dflt in zip(inner, self.unit.ctor_defaults):
                if a.get("kind") == "CXXDefaultArgExpr":
                    if dflt is None:
                        raise Untranslatable("default argument")
                    terms.append(zl(dflt))
                    continue
                if int_type(a) != (64, True):
                    raise Untranslatable("civil_second constructor argument type")
                b, t, k1 = self.expr(a, scope)
                if rebound(b):
                    raise Untranslatable("argument with a side effect")
                binds += b
                terms.append(self.as_z(t, k1))
            x = self.fresh()
            return binds + [B("do %s <- construct64 0 %s ;;\n" % (x, " ".join(terms)))], x, "cs"
        return Fn.construct(self, n, scope)

    def vec_of(self, n, scope):
        """(variable, kind) if n designates a container member of this"""
        m = self.this_member(n)
        if m is not None and (self.mkinds[m].startswith("vec:") or self.mkinds[m] == "str"):
            if m not in scope:
                raise Untranslatable("read of " + m)
            return m, self.mkinds[m]
        return None

    def dflt_elem(self, ek):
        cd = self.unit.civil_default
        return {"tr": "(mkTr 0 0 %s %s)" % (cd, cd), "tt": "(mkTT 0 %s %s false 0)" % (cd, cd)}[ek]

    def zip_call(self, zv, name, args, scope):
        """Read / Skip / Version on the ZoneInfoSource: the source is the list of the bytes it has yet to deliver"""
        if zv not in scope:
            raise Untranslatable("read of " + zv)
        if name == "Version" and not args:
            return [], "zip__version", "str"
        if name == "Skip" and len(args) == 1:
            b, t, kd = self.expr(args[0], scope)
            if kd != "Z" or int_type(args[0]) != (64, False):
                raise Untranslatable("argument of Skip")
            return b + [B("let %s := skip_z %s %s in\n" % (zv, t, zv), zv)], "0", "Z"
        if name == "Read" and len(args) == 2:
            bn, tn, kn = self.expr(args[1], scope)
            if kn != "Z" or int_type(args[1]) != (64, False) or rebound(bn):
                raise Untranslatable("count of Read")
            dest = args[0]
            while dest.get("kind") in TRANSPARENT or dest.get("kind") in CASTS:
                dest = dest["inner"][-1]
            g = self.fresh()
            binds = bn + [B("let %s := firstn (Z.to_nat %s) %s in\n" % (g, tn, zv)),
                          B("let %s := skipn (Z.to_nat %s) %s in\n" % (zv, tn, zv), zv)]
            c = fold(args[1])
            if c is None and re.match(r"^\d+$", tn):
                c = int(tn)                                          # a sizeof
            if dest.get("kind") == "UnaryOperator" and dest.get("opcode") == "&":
                v = self.local_of(dest["inner"][0], "otzh")
                if v is not None and v in scope and c == self.unit.tzhead[1]:
                    # a short read leaves the rest of the struct indeterminate: the whole of it is then unreadable
                    binds.append(B("let %s := (if vec_size %s =? %s then Some %s else None) in\n" % (v, g, tn, g), v))
                    return binds, "(vec_size %s)" % g, "Z"
                v = self.local_of(dest["inner"][0], "oZ")
                if v is not None and v in scope and c == 1 and self.ctype.get(v) == (8, False):
                    binds.append(B("let %s := (match %s with c_ :: _ => Some c_ | [] => %s end) in\n" % (v, g, v), v))
                    return binds, "(vec_size %s)" % g, "Z"
            if dest.get("kind") == "CXXMemberCallExpr" and dest["inner"][0].get("name") == "data" and len(dest["inner"]) == 1:
                v = self.local_of(dest["inner"][0]["inner"][0], "cvec")
                if v is not None and v in scope:
                    self.buf_written(v, scope)
                    binds.append(B("do _ <- span_ok %s 0 %s ;;\n" % (v, tn)))
                    binds.append(B("let %s := %s ++ skipn (length %s) %s in\n" % (v, g, g, v), v))
                    return binds, "(vec_size %s)" % g, "Z"
            raise Untranslatable("destination of Read")
        raise Untranslatable("call of ZoneInfoSource::" + str(name))

    def object_call(self, v, name, args, scope):
        """member call on a local Header object"""
        info = self.unit.known.get(name)
        if info is None or info["owner"] != "Header" or len(args) != len(info["params"]) or v not in scope:
            raise Untranslatable("member call %s on a Header" % name)
        binds, terms = [], []
        for a, (pname, pkind) in zip(args, info["params"]):
            b, t, kd = self.expr(a, scope)
            if zk(kd) != zk(pkind):
                raise Untranslatable("argument %s of %s is a %s" % (pname, name, kd))
            if rebound(b):
                raise Untranslatable("argument with a side effect")
            binds += b
            terms.append(t)
        r = self.fresh()
        head = info["gname"] + (" fuel" if info["fuel"] else "")
        if info["const"]:
            return binds + [B("do %s <- %s %s %s ;;\n" % (r, head, v, " ".join(terms)))], r, info["ret"]
        return binds + [B("do '(%s, %s) <- %s %s %s ;;\n" % (r, v, head, v, " ".join(terms))), B("", v)], r, info["ret"]

    def member_call(self, n, scope):
        inner = n["inner"]
        me = inner[0]
        if me.get("kind") != "MemberExpr":
            raise Untranslatable("member call")
        name, args = me.get("name"), inner[1:]
        if strip(me["inner"][0]).get("kind") == "CXXThisExpr":
            return self.call_member(name, args, scope)
        zv = self.zip_var(me["inner"][0])
        if zv is not None:
            return self.zip_call(zv, name, args, scope)
        ov = self.local_of(me["inner"][0], "ohdr")
        if ov is not None:
            return self.object_call(ov, name, args, scope)
        sv = self.local_of(me["inner"][0], "str")
        if sv is not None and sv in scope and sv not in self.mkinds:
            if name == "size" and not args:
                return [], "(vec_size %s)" % sv, "Z"
            if name == "empty" and not args:
                return [], "(vec_empty %s)" % sv, "bool"
            if name == "c_str" and not args:
                return [], "(c_str %s)" % sv, "cstrv"
            if name == "append" and len(args) == 3 and strip(args[2]).get("referencedDecl", {}).get("name") == "npos":
                b1, t1, k1 = self.expr(args[0], scope)
                b2, t2, k2 = self.expr(args[1], scope)
                if k1 != "str" or k2 != "Z" or int_type(args[1]) != (64, False) or rebound(b1 + b2):
                    raise Untranslatable("arguments of append")
                x = self.fresh()
                return b1 + b2 + [B("do %s <- str_from %s %s ;;\n" % (x, t1, t2)), B("let %s := %s ++ %s in\n" % (sv, sv, x), sv)], "tt", "void"
            raise Untranslatable("member call .%s on a string" % name)
        cv = self.local_of(me["inner"][0], "cvec")
        if cv is not None and cv in scope and not args:
            if name == "data":
                return [], "0", "cptr:" + cv
            if name == "size":
                return [], "(vec_size %s)" % cv, "Z"
        vk = self.vec_of(me["inner"][0], scope)
        if vk is not None:
            v, kd = vk
            if name == "size" and not args:
                return [], "(vec_size %s)" % v, "Z"
            if name == "empty" and not args:
                return [], "(vec_empty %s)" % v, "bool"
            if name in ("back", "front") and not args and kd.startswith("vec:"):
                x = self.fresh()
                return [B("do %s <- vec_%s %s ;;\n" % (x, name, v))], x, kd[4:]
            if name == "reserve" and len(args) == 1:
                b, t, k1 = self.expr(args[0], scope)
                if k1 != "Z" or int_type(args[0]) != (64, False):
                    raise Untranslatable("argument of reserve")
                self.vec_resized(v, scope)
                return b, "tt", "void"
            if name == "shrink_to_fit" and not args:
                self.vec_resized(v, scope)
                return [], "tt", "void"
            if name == "clear" and not args:
                self.vec_resized(v, scope)
                return [B("let %s := [] in\n" % v, v)], "tt", "void"
            if name == "resize" and len(args) == 1 and kd.startswith("vec:"):
                b, t, k1 = self.expr(args[0], scope)
                if k1 != "Z" or int_type(args[0]) != (64, False) or rebound(b):
                    raise Untranslatable("argument of resize")
                self.vec_resized(v, scope)
                return b + [B("let %s := vec_resize %s %s %s in\n" % (v, v, t, self.dflt_elem(kd[4:])), v)], "tt", "void"
            if name == "push_back" and len(args) == 1:
                b, t, k1 = self.expr(args[0], scope)
                if not (kd.startswith("vec:") and k1 == kd[4:]) and not (kd == "str" and k1 == "Z" and dty(args[0]) == "char"):
                    raise Untranslatable("push_back of a " + k1)
                self.vec_resized(v, scope)
                return b + [B("let %s := %s ++ [%s] in\n" % (v, v, t), v)], "tt", "void"
            if name == "append" and kd == "str" and len(args) == 1:
                b, t, k1 = self.expr(args[0], scope)
                if k1 != "str":
                    raise Untranslatable("append of a " + k1)
                self.vec_resized(v, scope)
                return b + [B("let %s := %s ++ %s in\n" % (v, v, t), v)], "tt", "void"
            if name in ("append", "assign") and kd == "str" and len(args) == 2:
                b1, t1, k1 = self.expr(args[0], scope)
                b2, t2, k2 = self.expr(args[1], scope)
                if rebound(b1 + b2):
                    raise Untranslatable("argument with a side effect")
                if name == "append" and k1 == "Z" and k2 == "Z" and int_type(args[0]) == (64, False):
                    self.vec_resized(v, scope)
                    return b1 + b2 + [B("let %s := %s ++ repeat %s (Z.to_nat %s) in\n" % (v, v, t2, t1), v)], "tt", "void"
                if name == "assign" and k1.startswith("cptr:") and k2 == "Z" and int_type(args[1]) == (64, False):
                    x = self.fresh()
                    self.vec_resized(v, scope)
                    return b1 + b2 + [B("do %s <- csub %s %s %s ;;\n" % (x, k1[5:], t1, t2)), B("let %s := %s in\n" % (v, x), v)], "tt", "void"
                raise Untranslatable("arguments of " + name)
            raise Untranslatable("member call .%s on a container" % name)
        base = strip(me["inner"][0])
        if base.get("kind") == "MemberExpr" and name == "empty" and not args:
            b, t, kd = self.expr(me["inner"][0], scope)
            if kd == "str":
                return b, "(vec_empty %s)" % t, "bool"
        return Fn.member_call(self, n, scope)

    def out_arg(self, a, scope):
        """&x for an option-Z local x"""
        a = strip(a)
        if a.get("kind") == "UnaryOperator" and a.get("opcode") == "&":
            t = strip(a["inner"][0])
            v = t.get("referencedDecl", {}).get("name") if t.get("kind") == "DeclRefExpr" else None
            if v is not None and self.kinds.get(v) == "oZ" and v in scope:
                return v
        return None

    def rebind_this(self, zvar):
        out = []
        for m, _, proj in self.members:
            out.append(B("let %s := %s %s in\n" % (m, proj, zvar), m))
        return out

    def call_member(self, name, args, scope):
        """call of a member function on this: a loader function translated here, or a const query of SourceZone.v"""
        if self.owner != "TimeZoneInfo":
            raise Untranslatable("member call " + str(name))
        info = self.unit.known.get(name)
        for m, _, _ in self.members:
            if m not in scope:
                raise Untranslatable("member %s is not readable here" % m)
        if info is not None and info["owner"] == "TimeZoneInfo":
            if info.get("xstates"):
                return self.call_threaded(info, args, scope)
            if len(args) != len(info["params"]) + len(info["outz"]):
                raise Untranslatable("argument count of " + name)
            binds, terms, parts, outs = [], [], [], []
            for a, (pname, pkind) in zip(args, info["params"] + [(o, "outz") for o in info["outz"]]):
                if pkind == "outz":
                    v = self.out_arg(a, scope)
                    if v is None:
                        raise Untranslatable("output argument of " + name)
                    outs.append(v)
                    continue
                b, t, kd = self.expr(a, scope)
                if zk(kd) != zk(pkind) and not (pkind == "Z" and kd == "bool"):
                    raise Untranslatable("argument %s of %s is a %s" % (pname, name, kd))
                for (b0, t0) in parts:
                    self.unseq(b0, t0, b, t)
                if any(x.var in self.mkinds for x in b):
                    raise Untranslatable("argument that modifies the object")
                parts.append((b, t))
                binds += b
                terms.append(self.as_z(t, kd) if pkind == "Z" else t)
            r, z1 = self.fresh(), self.fresh()
            pat = [r] + ([] if info["const"] else [z1]) + outs
            head = info["gname"] + (" fuel" if info["fuel"] else "")
            out = binds + [B("do %s <- %s %s %s ;;\n" % ("'(%s)" % ", ".join(pat) if len(pat) > 1 else r, head, self.zone_term(), " ".join(terms + outs)))]
            out += [B("", o) for o in outs]
            if not info["const"]:
                out += self.rebind_this(z1)
                for m, k, _ in self.members:
                    if k.startswith("vec:") or k == "str":
                        self.vec_resized(m, scope)
            return out, r, info["ret"]
        try:
            kinds = tuple(zk(kind_of(a)) for a in args)
        except Untranslatable:
            kinds = None
        q = ZONE_QUERIES.get((name, kinds))
        if q is None:
            raise Untranslatable("member call " + str(name))
        binds, terms, parts = [], [], []
        for a in args:
            b, t, kd = self.expr(a, scope)
            for (b0, t0) in parts:
                self.unseq(b0, t0, b, t)
            if rebound(b):
                raise Untranslatable("argument with a side effect")
            parts.append((b, t))
            binds += b
            terms.append(self.as_z(t, kd) if kd in ("Z", "bool") and zk(kind_of(a)) == "Z" else t)
        r = self.fresh()
        return binds + [B("do %s <- %s %s %s ;;\n" % (r, q[0], self.zone_term(), " ".join(terms)))], r, q[1]

    def call_threaded(self, info, args, scope):
        """this->f(p.get()) for f that threads version_ and a ZoneInfoSource, p a unique_ptr local"""
        if info["outz"] or len(args) != len(info["params"]) or [k for _, k in info["params"]] != ["zip"] or not info["uses_version"]:
            raise Untranslatable("call of " + info["gname"])
        a = strip(args[0])
        v = None
        if a.get("kind") == "CXXMemberCallExpr" and a["inner"][0].get("name") == "get" and len(a["inner"]) == 1:
            v = self.local_of(a["inner"][0]["inner"][0], "osrc")
        if v is None or v not in scope:
            raise Untranslatable("argument of " + info["gname"])
        for x in info["xstates"]:
            if x in XSTATE_MEMBERS and x not in scope:
                raise Untranslatable("read of " + x)
        pr, r, z1, zr = self.fresh(), self.fresh(), self.fresh(), self.fresh()
        mem = [x for x in info["xstates"] if x in XSTATE_MEMBERS]
        out = [B("do %s <- get_opt %s ;;\n" % (pr, v)),
               B("do '(%s) <- %s%s %s %s (fst %s) (snd %s) ;;\n" % (", ".join([r, z1] + mem + [zr]), info["gname"], " fuel" if info["fuel"] else "",
                                                                  self.zone_term(), " ".join(mem), pr, pr))]
        out += [B("", x) for x in mem]
        out += self.rebind_this(z1)
        out.append(B("let %s := Some (%s, snd %s) in\n" % (v, zr, pr), v))
        for m, k, _ in self.members:
            if k.startswith("vec:") or k == "str":
                self.vec_resized(m, scope)
        return out, r, info["ret"]

    def call(self, n, scope):
        c = callee_ref(n)
        ref = c.get("referencedDecl", {})
        name, args = ref.get("name"), n["inner"][1:]
        if name in DECODE and len(args) == 1:
            b, t, kd = self.expr(args[0], scope)
            if not kd.startswith("cptr:"):
                raise Untranslatable("argument of " + name)
            x = self.fresh()
            return b + [B("do _ <- span_ok %s %s %d ;;\n" % (kd[5:], t, DECODE[name][1])),
                        B("do %s <- %s fuel %s %s ;;\n" % (x, DECODE[name][0], kd[5:], t))], x, "Z"
        if name == "ParsePosixSpec" and len(args) == 2:
            b, t, kd = self.expr(args[0], scope)
            a = strip(args[1])
            tgt = strip(a["inner"][0]) if a.get("kind") == "UnaryOperator" and a.get("opcode") == "&" else {}
            v = tgt.get("referencedDecl", {}).get("name") if tgt.get("kind") == "DeclRefExpr" else None
            if kd != "str" or v is None or self.kinds.get(v) != "optz" or v not in scope or rebound(b):
                raise Untranslatable("arguments of ParsePosixSpec")
            return b + [B("let %s := ParsePosixSpec %s in\n" % (v, t), v)], "(match %s with Some _ => true | None => false end)" % v, "bool"
        if name == "load_time_zone" and len(args) == 2 and ref.get("kind") == "FunctionDecl":
            b, t, kd = self.expr(args[0], scope)           # the zone loader is an oracle: name, *tz on entry -> result, *tz
            a = strip(args[1])
            v = self.local_of(a["inner"][0], "tzv") if a.get("kind") == "UnaryOperator" and a.get("opcode") == "&" else None
            if kd != "str" or v is None or v not in scope or rebound(b):
                raise Untranslatable("arguments of load_time_zone")
            r = self.fresh()
            return b + [B("let '(%s, %s) := load_time_zone__ %s %s in\n" % (r, v, t, v), v)], r, "bool"
        if name == "getenv" and len(args) == 1:
            b, t, kd = self.expr(args[0], scope)                   # the environment is an oracle
            if kd != "cstrv" or b:
                raise Untranslatable("argument of getenv")
            return [], "(getenv__ %s)" % t, "ocstr"
        if name == "FOpen" and len(args) == 2:
            b, t, kd = self.expr(args[0], scope)                   # the file system is an oracle: path -> contents
            mb, mt, mk = self.expr(args[1], scope)
            if kd != "cstrv" or mk != "cstrv" or mt != "[114; 98]" or rebound(b):
                raise Untranslatable("arguments of FOpen")
            return b, "(fopen__ %s)" % t, "ofile"
        if name == "move" and len(args) == 1:
            return self.expr(args[0], scope)
        if name == "zero" and not args and ref.get("kind") == "CXXMethodDecl" and kind_of(n) == "dur":
            return [], "0", "Z"
        if name == "FixedOffsetFromName" and len(args) == 2 and ref.get("kind") == "FunctionDecl":
            b, t, kd = self.expr(args[0], scope)
            a = strip(args[1])
            tgt = strip(a["inner"][0]) if a.get("kind") == "UnaryOperator" and a.get("opcode") == "&" else {}
            v = tgt.get("referencedDecl", {}).get("name") if tgt.get("kind") == "DeclRefExpr" else None
            if kd != "str" or v is None or self.kinds.get(v) != "Z" or self.ctype.get(v) != (64, True) or v not in scope or rebound(b):
                raise Untranslatable("arguments of FixedOffsetFromName")
            r = self.fresh()
            return b + [B("do '(%s, %s) <- SourceFixed.so_FixedOffsetFromName %s %s ;;\n" % (r, v, t, v), v)], r, "bool"
        if name == "zone_info_source_factory" and ref.get("kind") == "VarDecl" and len(args) == 2:
            # the factory (and the default sources it may fall back to) is an oracle: name -> (bytes, Version()) or nothing
            b, t, kd = self.expr(args[0], scope)
            if kd != "str" or rebound(b) or not any(m.get("kind") == "LambdaExpr" for m in walk(args[1])):
                raise Untranslatable("arguments of zone_info_source_factory")
            return b, "(factory__ %s)" % t, "osrc"
        if name in EXTERNAL and ref.get("kind") == "FunctionDecl":
            gname, pk, rk, fuel = EXTERNAL[name]
            if len(args) != len(pk):
                raise Untranslatable("argument count of " + name)
            binds, terms, parts = [], [], []
            for a, k in zip(args, pk):
                b, t, kd = self.expr(a, scope)
                if zk(kd) != k and not (k == "Z" and kd == "bool"):
                    raise Untranslatable("argument of %s is a %s" % (name, kd))
                for (b0, t0) in parts:
                    self.unseq(b0, t0, b, t)
                parts.append((b, t))
                binds += b
                terms.append(self.as_z(t, kd) if k == "Z" else t)
            x = self.fresh()
            return binds + [B("do %s <- %s %s ;;\n" % (x, gname, " ".join(terms)))], x, rk
        return Fn.call(self, n, scope)

    def lambda_call(self, name, args, scope):
        """a capture-less local lambda whose body is declarations followed by one return: expanded in place"""
        params, body = self.lambdas[name]
        if len(args) != len(params):
            raise Untranslatable("arguments of the lambda " + name)
        saved = dict(self.zipalias)
        for pn, a in zip(params, args):
            zv = self.zip_var(a)
            if zv is None:
                raise Untranslatable("argument of the lambda " + name)
            self.zipalias[pn] = zv
        self.nlam += 1
        body = json.loads(json.dumps(body))
        ren = {}
        for m in walk(body):
            if m.get("kind") == "VarDecl":
                ren[m["name"]] = "%s_%d" % (m["name"], self.nlam)
        for m in walk(body):
            if m.get("kind") == "VarDecl":
                m["name"] = ren[m["name"]]
            ref = m.get("referencedDecl")
            if isinstance(ref, dict) and ref.get("kind") == "VarDecl" and ref.get("name") in ren:
                ref["name"] = ren[ref["name"]]
        stmts = self.body_list(body)
        if not stmts or stmts[-1].get("kind") != "ReturnStmt" or any(x.get("kind") != "DeclStmt" for x in stmts[:-1]):
            raise Untranslatable("body of the lambda " + name)
        binds = []
        for st in stmts[:-1]:
            for vd in st.get("inner", []):
                binds += self.decl(vd, scope)
        b, t, kd = self.expr(stmts[-1]["inner"][0], scope)
        self.zipalias = saved
        return binds + b, t, kd

    def operator_call(self, n, scope):
        inner = n["inner"]
        op = callee_ref(n).get("referencedDecl", {}).get("name")
        args = inner[1:]
        if op == "operator()" and args:
            obj = strip(args[0])
            if obj.get("kind") == "DeclRefExpr" and obj.get("referencedDecl", {}).get("name") in self.lambdas \
                    and obj["referencedDecl"]["name"] in scope:
                return self.lambda_call(obj["referencedDecl"]["name"], args[1:], scope)
            try:
                ck = kind_of(args[0])
            except Untranslatable:
                ck = ""
            if ck.startswith("cmp:") and len(args) == 3 and ck[4:] in ("ByUnixTime", "ByCivilTime"):
                b1, t1, k1 = self.expr(args[1], scope)
                b2, t2, k2 = self.expr(args[2], scope)
                if k1 != "tr" or k2 != "tr":
                    raise Untranslatable("arguments of the comparator")
                return self.unseq(b1, t1, b2, t2), "(sz_%s %s %s)" % (ck[4:], t1, t2), "bool"
        if op in ("operator!=", "operator==") and len(args) == 2:
            v = self.local_of(args[0], "osrc") or self.local_of(args[0], "ofile")
            if v is not None and v in scope and dty(args[1]) == "std::nullptr_t":
                return [], ("(match %s with Some _ => true | None => false end)" if op == "operator!=" else
                            "(match %s with Some _ => false | None => true end)") % v, "bool"
        if op == "operator[]" and len(args) == 2:
            sv = self.local_of(args[0], "str")
            if sv is not None and sv in scope and sv not in self.mkinds:
                ib, it, ik = self.expr(args[1], scope)
                if ik != "Z" or int_type(args[1]) != (64, False):
                    raise Untranslatable("index type")
                x = self.fresh()
                return ib + [B("do %s <- str_at %s %s ;;\n" % (x, sv, it))], x, "Z"
        if op == "operator+=" and len(args) == 2:
            sv = self.local_of(args[0], "str")
            if sv is not None and sv in scope and sv not in self.mkinds:
                b, t, kd = self.expr(args[1], scope)
                if any(x.var == sv for x in b):
                    raise Untranslatable("unsequenced modification of " + sv)
                if kd == "ocstr":
                    x = self.fresh()
                    return b + [B("do %s <- get_opt %s ;;\n" % (x, t)), B("let %s := %s ++ %s in\n" % (sv, sv, x), sv)], sv, "str"
                if kd == "Z" and dty(args[1]) == "char":
                    return b + [B("let %s := %s ++ [%s] in\n" % (sv, sv, t), sv)], sv, "str"
                raise Untranslatable("operator+= of a " + kd)
        if op == "operator=" and len(args) == 2:
            tgt = self.field_target(args[0], scope)
            if tgt is not None:
                return self.assign_field(tgt, args[0], args[1], scope)
        if op == "operator[]" and len(args) == 2:
            vk = self.vec_of(args[0], scope)
            if vk is not None and vk[1].startswith("vec:"):
                ib, it, ik = self.expr(args[1], scope)
                if ik != "Z" or int_type(args[1]) != (64, False):
                    raise Untranslatable("index type")
                x = self.fresh()
                return ib + [B("do %s <- nth_res %s %s ;;\n" % (x, vk[0], it))], x, vk[1][4:]
        if op == "operator==" and len(args) == 2:
            try:
                k1, k2 = kind_of(args[0]), kind_of(args[1])
            except Untranslatable:
                k1 = k2 = None
            if (k1, k2) == ("str", "str"):
                b1, t1, e1 = self.expr(args[0], scope)
                b2, t2, e2 = self.expr(args[1], scope)
                if e1 != "str" or e2 != "str":
                    raise Untranslatable("comparison of a %s with a %s" % (e1, e2))
                return self.unseq(b1, t1, b2, t2), "(list_eqb %s %s)" % (t1, t2), "bool"
            if (k1, k2) in (("abbr", "str"), ("str", "abbr")):
                b1, t1, e1 = self.expr(args[0], scope)
                b2, t2, e2 = self.expr(args[1], scope)
                if not (e1 in ("abbr", "str") and e2 in ("abbr", "str")):
                    raise Untranslatable("comparison of a %s with a %s" % (e1, e2))
                return self.unseq(b1, t1, b2, t2), "(list_eqb %s %s)" % ((t1, t2) if k1 == "abbr" else (t2, t1)), "bool"
        return Fn.operator_call(self, n, scope)

    def unary(self, n, scope):
        op, inner = n["opcode"], n["inner"]
        if op == "&":
            tgt = strip(inner[0])
            if tgt.get("kind") == "CXXOperatorCallExpr" and callee_ref(tgt).get("referencedDecl", {}).get("name") == "operator[]":
                vk = self.vec_of(tgt["inner"][1], scope)
                if vk is not None and vk[1] in ("str", "vec:tt"):
                    ib, it, ik = self.expr(tgt["inner"][2], scope)
                    if ik != "Z" or int_type(tgt["inner"][2]) != (64, False):
                        raise Untranslatable("index type")
                    x = self.fresh()
                    if vk[1] == "str":
                        return ib + [B("do %s <- cstr_from %s %s ;;\n" % (x, vk[0], it))], x, "abbr"
                    return ib + [B("do %s <- vec_addr %s %s ;;\n" % (x, vk[0], it))], x, "ttptr"
            if tgt.get("kind") == "DeclRefExpr":
                v = tgt.get("referencedDecl", {}).get("name")
                if self.kinds.get(v) == "tr" and v in scope and v not in self.snaps and v not in self.refs:
                    return [], v, "lref:" + v
            raise Untranslatable("address-of")
        if op == "*":
            p = strip(inner[0])
            v = p.get("referencedDecl", {}).get("name") if p.get("kind") == "DeclRefExpr" else None
            if v is not None and self.kinds.get(v) == "lref":
                return self.read_var(v, scope)
            if v is not None and v in self.outz:
                return self.read_var(v, scope)
            if v is not None and self.kinds.get(v) == "ocstr" and dty(n) == "char":
                if v not in scope:
                    raise Untranslatable("read of " + v)
                x = self.fresh()
                return [B("do %s <- get_opt %s ;;\n" % (x, v))], "(hd 0 %s)" % x, "Z"
            if v is not None and self.kinds.get(v) == "ttptr":
                b, t, _ = Fn.read_var(self, v, scope)
                x = self.fresh()
                return b + [B("do %s <- ptr_rd %s %s ;;\n" % (x, self.vptrs[v], t))], x, "tt"
        if op in ("++", "--"):
            m = self.this_member(inner[0])
            if m is not None and m not in self.ctype:
                raise Untranslatable("increment of " + m)
            v = self.place(inner[0], scope)
            if v is not None and self.kinds.get(v) == "ocstr" and v in scope and op == "++" and not n.get("isPostfix"):
                x, y = self.fresh(), self.fresh()      # the next character of a C string: there must be one
                return [B("do %s <- get_opt %s ;;\n" % (x, v)), B("do %s <- cstr_next %s ;;\n" % (y, x)),
                        B("let %s := Some %s in\n" % (v, y), v)], v, "ocstr"
            if v is not None and self.kinds.get(v, "").startswith("cptr:") and v in scope:
                x = self.fresh()
                step = [B("do %s <- cadd %s %s %s ;;\n" % (x, self.kinds[v][5:], v, "1" if op == "++" else "(-1)"))]
                if n.get("isPostfix"):
                    old = self.fresh()
                    return [B("let %s := %s in\n" % (old, v))] + step + [B("let %s := %s in\n" % (v, x), v)], old, self.kinds[v]
                return step + [B("let %s := %s in\n" % (v, x), v)], v, self.kinds[v]
        return Fn.unary(self, n, scope)

    def is_strncmp(self, n):
        n = strip(n)
        return n.get("kind") == "CallExpr" and callee_ref(n).get("referencedDecl", {}).get("name") == "strncmp" and len(n["inner"]) == 4

    def binary(self, n, scope):
        op, inner = n["opcode"], n["inner"]
        if op == "=":
            tgt = self.field_target(inner[0], scope)
            if tgt is not None:
                return self.assign_field(tgt, inner[0], inner[1], scope)
            v = self.place(inner[0], scope)
            if v is not None and self.kinds.get(v) == "oZ":
                b, t, kd = self.expr(inner[1], scope)
                if kd not in ("Z", "bool"):
                    raise Untranslatable("assignment of a %s to %s" % (kd, v))
                t = self.as_z(t, kd)
                if b and not re.match(r"^t\d+$", t):
                    x = self.fresh()
                    b, t = b + [B("let %s := %s in\n" % (x, t))], x
                return b + [B("let %s := Some %s in\n" % (v, t), v)], t, "Z"
        if op in ("==", "!=") and (self.is_strncmp(inner[0]) and fold(inner[1]) == 0 or self.is_strncmp(inner[1]) and fold(inner[0]) == 0):
            # strncmp(p, "literal", k) with k <= strlen(literal): equality of the k bytes at p with the literal's first k
            call = strip(inner[0]) if self.is_strncmp(inner[0]) else strip(inner[1])
            b1, t1, k1 = self.expr(call["inner"][1], scope)
            lit = strip(call["inner"][2])
            k = fold(call["inner"][3])
            if k is None:
                kb, kt, kk = self.expr(call["inner"][3], scope)
                k = int(kt) if not kb and re.match(r"^\d+$", kt) else None
            if not k1.startswith("cptr:") or lit.get("kind") != "StringLiteral" or k is None or rebound(b1):
                raise Untranslatable("arguments of strncmp")
            text = json.loads(lit["value"])
            if not (0 <= k <= len(text)) or "\0" in text[:k]:
                raise Untranslatable("length of strncmp")
            x = self.fresh()
            want = "[%s]" % "; ".join(str(ord(ch)) for ch in text[:k])
            e = "(list_eqb %s %s)" % (x, want)
            return b1 + [B("do %s <- csub %s %s %d ;;\n" % (x, k1[5:], t1, k))], (e if op == "==" else "(negb %s)" % e), "bool"
        if op in ("==", "!="):
            for a_, o_ in ((inner[0], inner[1]), (inner[1], inner[0])):
                c_ = strip(a_)
                if self.is_strcmp(c_) and fold(o_) == 0:
                    v = self.local_of(c_["inner"][1], "ocstr")
                    if v is not None and v in scope:
                        b2, t2, k2 = self.expr(c_["inner"][2], scope)
                        if k2 != "cstrv" or b2:
                            raise Untranslatable("arguments of strcmp")
                        x = self.fresh()
                        e = "(list_eqb %s %s)" % (x, t2)
                        return [B("do %s <- get_opt %s ;;\n" % (x, v))], (e if op == "==" else "(negb %s)" % e), "bool"
                if c_.get("kind") == "CXXMemberCallExpr" and c_["inner"][0].get("name") == "compare" and len(c_["inner"]) == 4 and fold(o_) == 0:
                    sv = self.local_of(c_["inner"][0]["inner"][0], "str")
                    b1, t1, k1 = self.expr(c_["inner"][1], scope)
                    b2, t2, k2 = self.expr(c_["inner"][2], scope)
                    b3, t3, k3 = self.expr(c_["inner"][3], scope)
                    if sv is None or sv not in scope or k1 != "Z" or k2 != "Z" or k3 != "cstrv" or b1 or b2 or b3:
                        raise Untranslatable("arguments of compare")
                    x = self.fresh()    # s.compare(p, n, "lit") == 0: the (at most n) characters of s from p on are the literal
                    return [B("do %s <- str_compare_eq %s %s %s %s ;;\n" % (x, sv, t1, t2, t3))], (x if op == "==" else "(negb %s)" % x), "bool"
        if op in ("==", "!=") and "char *" in (dty(inner[0]), dty(inner[1])):
            for a_, o_ in ((inner[0], inner[1]), (inner[1], inner[0])):
                v = self.local_of(a_, "ocstr")
                if v is not None and v in scope and strip(o_).get("kind") == "CXXNullPtrLiteralExpr":
                    return [], ("(match %s with Some _ => false | None => true end)" if op == "==" else
                                "(match %s with Some _ => true | None => false end)") % v, "bool"
        if op in ("==", "!=", "+", "-") and "char *" in (dty(inner[0]), dty(inner[1])):
            if True:
                b1, t1, k1 = self.expr(inner[0], scope)
                b2, t2, k2 = self.expr(inner[1], scope)
                binds = self.unseq(b1, t1, b2, t2)
                if op in ("==", "!=") and k1 == k2:
                    return binds, ("(%s =? %s)" if op == "==" else "(negb (%s =? %s))") % (t1, t2), "bool"
                if op in ("+", "-") and k1.startswith("cptr:") and k2 == "Z":
                    x = self.fresh()
                    return binds + [B("do %s <- cadd %s %s %s ;;\n" % (x, k1[5:], t1, t2 if op == "+" else "(- %s)" % t2))], x, k1
                raise Untranslatable("pointer operand of " + op)
        return Fn.binary(self, n, scope)

    def expr(self, n, scope):
        k = n.get("kind")
        if k == "CharacterLiteral":
            return [], zl(int(n["value"])), "Z"
        if k == "UnaryExprOrTypeTraitExpr" and n.get("name") == "sizeof":
            t = clean((n.get("argType") or (n.get("inner") or [{}])[0].get("type", {})).get("qualType", ""))
            if t == "tzhead":
                return [], zl(self.unit.tzhead[1]), "Z"
            mt = re.match(r"^char\[(\d+)\]$", t)
            if mt:
                return [], mt.group(1), "Z"
            raise Untranslatable("sizeof " + t)
        if k == "ConditionalOperator":
            inner = n["inner"]
            ka = kb = ""
            if dty(n) == "cctz::Transition *":
                ba, ta, ka = self.expr(inner[1], scope)
                bb, tb, kb = self.expr(inner[2], scope)
            if ka.startswith("lref:") and kb.startswith("lref:") and not ba and not bb:
                bc, tc, kc = self.expr(inner[0], scope)
                if rebound(bc):
                    raise Untranslatable("condition with a side effect")
                return bc, "(if %s then %s else %s)" % (self.as_b(tc, kc), ta, tb), "lref:%s,%s" % (ka[5:], kb[5:])
        if k == "ArraySubscriptExpr":
            base = strip(n["inner"][0])
            if base.get("kind") == "DeclRefExpr" and base.get("referencedDecl", {}).get("kind") == "VarDecl" and base["referencedDecl"]["name"] not in self.kinds:
                tbl = self.unit.global_table(base["referencedDecl"]["name"])
                if tbl is not None:
                    ib, it, ik = self.expr(n["inner"][1], scope)
                    if ik not in ("Z", "bool"):
                        raise Untranslatable("subscript type")
                    x = self.fresh()
                    return ib + [B("do %s <- nth_res [%s] %s ;;\n" % (x, "; ".join(zl(v) for v in tbl), self.as_z(it, ik)))], x, "Z"
            if dty(n) == "char":
                bb, bt, bk = self.expr(n["inner"][0], scope)
                ib, it, ik = self.expr(n["inner"][1], scope)
                if bk.startswith("cptr:") and ik == "Z" and not rebound(bb + ib):
                    x = self.fresh()
                    return bb + ib + [B("do %s <- byte_at %s (%s + %s) ;;\n" % (x, bk[5:], bt, it))], x, "Z"
                raise Untranslatable("subscript of a " + bk)
        return Fn.expr(self, n, scope)

    def compound_assign(self, n, scope):
        op, inner = n["opcode"], n["inner"]
        v = self.place(inner[0], scope)
        if v is not None and v in scope and self.kinds.get(v, "").startswith("cptr:") and op in ("+=", "-="):
            b, t, kd = self.expr(inner[1], scope)
            if kd != "Z" or any(x.var == v for x in b):
                raise Untranslatable("pointer compound assignment")
            x = self.fresh()
            return b + [B("do %s <- cadd %s %s %s ;;\n" % (x, self.kinds[v][5:], v, t if op == "+=" else "(- %s)" % t)),
                        B("let %s := %s in\n" % (v, x), v)], v, self.kinds[v]
        if v is not None and v in scope and self.kinds.get(v) == "Z" and v in self.ctype and not self.ctype[v][1] and op in ("+=", "-=", "*="):
            b, t, kd = self.expr(inner[1], scope)
            if kd != "Z" or int_type(inner[1]) != self.ctype[v]:
                raise Untranslatable("compound assignment at mixed types")
            return b + [B("let %s := u%d (%s %s %s) in\n" % (v, self.ctype[v][0], v, op[0], t), v)], v, "Z"
        return Fn.compound_assign(self, n, scope)

    # ------------------------------------------------------------ statements
    RESIZERS = ("push_back", "append", "emplace", "resize", "clear", "assign")

    def assigned(self, stmts, scope):
        got = set(Fn.assigned(self, stmts, scope))
        for st in stmts:
            for m in walk(st):
                k = m.get("kind")
                if k == "BinaryOperator" and m.get("opcode") == "=":
                    tgt = self.field_target(m["inner"][0], list(scope) + list(self.refs))
                    if tgt is not None and tgt[0] in ("local", "elem"):
                        got.add(tgt[1])
                    elif tgt is not None:
                        got.add(self.refs[tgt[1]][0])
                elif k == "CXXOperatorCallExpr" and callee_ref(m).get("referencedDecl", {}).get("name") == "operator=":
                    tgt = self.field_target(m["inner"][1], list(scope) + list(self.refs))
                    if tgt is not None and tgt[0] in ("local", "elem"):
                        got.add(tgt[1])
                    elif tgt is not None:
                        got.add(self.refs[tgt[1]][0])
                elif k == "CXXOperatorCallExpr" and callee_ref(m).get("referencedDecl", {}).get("name") == "operator()":
                    obj = strip(m["inner"][1])
                    if obj.get("kind") == "DeclRefExpr" and dty(obj).startswith("(lambda at "):
                        for a in m["inner"][2:]:                     # whatever the lambda does to the source it is given
                            got.add(self.zip_var(a))
                elif k == "VarDecl" and m.get("type", {}).get("qualType", "").rstrip().endswith("&") and not m.get("type", {}).get("qualType", "").startswith("const "):
                    for q in walk(m):                                  # a non-const reference to an element: the vector may be written
                        vm = self.this_member(q) if q.get("kind") == "MemberExpr" else None
                        if vm is not None and self.mkinds.get(vm, "").startswith("vec:"):
                            got.add(vm)
                elif k == "CXXForRangeStmt":
                    for q in walk(m["inner"][1]):
                        vm = self.this_member(q) if q.get("kind") == "MemberExpr" else None
                        if vm is not None:
                            got.add(vm)
                elif k == "CXXMemberCallExpr":
                    me = m["inner"][0]
                    if me.get("kind") == "MemberExpr":
                        vm = self.this_member(me["inner"][0])
                        if vm is not None and me.get("name") in self.RESIZERS:
                            got.add(vm)
                        zv = self.zip_var(me["inner"][0])
                        if zv is not None and me.get("name") in ("Read", "Skip"):
                            got.add(zv)
                            if me.get("name") == "Read":
                                d = m["inner"][1]
                                while d.get("kind") in TRANSPARENT or d.get("kind") in CASTS:
                                    d = d["inner"][-1]
                                if d.get("kind") == "UnaryOperator":
                                    got.add(strip(d["inner"][0]).get("referencedDecl", {}).get("name"))
                                elif d.get("kind") == "CXXMemberCallExpr":
                                    got.add(self.local_of(d["inner"][0]["inner"][0], "cvec"))
                        ov = self.local_of(me["inner"][0], "ohdr")
                        if ov is not None:
                            info = self.unit.known.get(me.get("name"))
                            if info is None or not info["const"]:
                                got.add(ov)
                        if strip(me["inner"][0]).get("kind") == "CXXThisExpr":
                            info = self.unit.known.get(me.get("name"))
                            if info is not None and not info["const"]:
                                got.update(x for x, _, _ in self.members)
                            for a in m["inner"][1:]:
                                v = self.out_arg(a, scope)
                                if v is not None:
                                    got.add(v)
                elif k == "CallExpr" and callee_ref(m).get("referencedDecl", {}).get("name") == "ParsePosixSpec":
                    a = strip(m["inner"][2])
                    if a.get("kind") == "UnaryOperator":
                        got.add(strip(a["inner"][0]).get("referencedDecl", {}).get("name"))
        return [v for v in scope if v in got and self.kinds.get(v) != "struct"]

    def used(self, stmts, scope):
        names = set(Fn.used(self, stmts, scope))
        for st in stmts:
            for m in walk(st):
                tm = self.this_member(m) if m.get("kind") == "MemberExpr" else None
                if tm is not None:
                    names.add(tm)
                if m.get("kind") == "CXXMemberCallExpr" and m["inner"][0].get("kind") == "MemberExpr" \
                        and strip(m["inner"][0]["inner"][0]).get("kind") == "CXXThisExpr":
                    names.update(x for x, _, _ in self.members)            # the callee sees the whole object
                if m.get("kind") == "DeclRefExpr":
                    nm = m.get("referencedDecl", {}).get("name")
                    if nm in self.refs:
                        names.add(self.refs[nm][0])
                    if nm in self.cptrs:
                        names.add(self.cptrs[nm])
                    if nm in self.vptrs:
                        names.add(self.vptrs[nm])
                    if nm in self.zipalias:
                        names.add(self.zipalias[nm])
                    if nm in self.lambdas:
                        names.update(v for v in scope if self.kinds.get(v) == "zip")
        return [v for v in scope if v in names and self.kinds.get(v) not in ("struct", "lambda")]

    def emplace_alias(self, vd, scope):
        """T& r(*v.emplace(v.end())) / (v.begin()): bindings, or None"""
        init = strip_copies(vd["inner"][-1]) if vd.get("inner") else None
        if init is None or init.get("kind") != "CXXOperatorCallExpr" or callee_ref(init).get("referencedDecl", {}).get("name") != "operator*":
            return None
        call = init["inner"][1]
        while call.get("kind") in TRANSPARENT or call.get("kind") in CASTS:
            call = call["inner"][-1]
        if call.get("kind") != "CXXMemberCallExpr" or call["inner"][0].get("name") != "emplace" or len(call["inner"]) != 2:
            return None
        vk = self.vec_of(call["inner"][0]["inner"][0], scope)
        if vk is None or not vk[1].startswith("vec:"):
            raise Untranslatable("emplace on something that is not a vector member")
        pos = None
        for m in walk(call["inner"][1]):
            if m.get("kind") == "CXXMemberCallExpr" and m["inner"][0].get("name") in ("end", "begin") and len(m["inner"]) == 1:
                if self.vec_of(m["inner"][0]["inner"][0], scope) != vk or pos is not None:
                    raise Untranslatable("position of emplace")
                pos = m["inner"][0]["name"]
        if pos is None:
            raise Untranslatable("position of emplace")
        v, ek = vk[0], vk[1][4:]
        self.vec_resized(v, scope)
        name = vd["name"]
        if pos == "end":
            ix = self.fresh()
            binds = [B("let %s := vec_size %s in\n" % (ix, v)), B("let %s := %s ++ [%s] in\n" % (v, v, self.dflt_elem(ek)), v)]
        else:
            ix = "0"
            binds = [B("let %s := %s :: %s in\n" % (v, self.dflt_elem(ek), v), v)]
        self.refs[name] = (v, ix, ek)
        self.kinds[name] = "ref"
        scope.append(name)
        return binds

    def decl(self, vd, scope):
        name = vd["name"]
        if name in scope or name in self.alias or name in ("z", "h", "fuel", "zip__version") or re.match(r"^t\d+$", name) or "__" in name \
                or name in self.mkinds:
            raise Untranslatable("redeclaration of the name " + name)
        for d in (self.refs, self.snaps, self.lrefs, self.cptrs, self.vptrs):
            d.pop(name, None)
        qt = vd.get("type", {}).get("qualType", "")
        is_ref = qt.rstrip().endswith("&")
        is_const = qt.startswith("const ")
        kd = kind_of(vd)
        if kd == "lambda":
            lam = None
            for m in walk(vd):
                if m.get("kind") == "LambdaExpr":
                    lam = m
            if lam is None or len(lam.get("inner", [])) != 2:
                raise Untranslatable("lambda " + name)
            rec, body = lam["inner"]
            if any(c.get("kind") == "FieldDecl" for c in rec.get("inner", [])):
                raise Untranslatable("lambda with captures")
            ops = [c for c in rec.get("inner", []) if c.get("kind") == "CXXMethodDecl" and c.get("name") == "operator()"]
            if len(ops) != 1:
                raise Untranslatable("lambda " + name)
            params = [c for c in ops[0].get("inner", []) if c.get("kind") == "ParmVarDecl"]
            if any(lclassify(clean(c.get("type", {}).get("qualType", ""))) != "zip" for c in params):
                raise Untranslatable("parameters of the lambda " + name)
            self.lambdas[name] = ([c["name"] for c in params], body)
            self.kinds[name] = "lambda"
            scope.append(name)
            return []
        if is_ref and not is_const:
            al = self.emplace_alias(vd, scope)
            if al is None:
                al = self.index_alias(vd, scope)
            if al is None:
                raise Untranslatable("non-const reference " + name)
            return al
        if not vd.get("inner") or kd in ("otzh", "tzhead", "ohdr") and self.default_constructed(vd):
            if kd == "Z":
                self.kinds[name] = "oZ"
                self.ctype[name] = int_type(vd)
                scope.append(name)
                return [B("let %s := (None : option Z) in\n" % name, name)]
            if kd == "tzhead":
                self.kinds[name] = "otzh"
                scope.append(name)
                return [B("let %s := (None : option (list Z)) in\n" % name, name)]
            if kd == "ohdr":
                self.kinds[name] = "ohdr"
                scope.append(name)
                return [B("let %s := oh_unset in\n" % name, name)]
            raise Untranslatable("declaration of %s without initialiser" % name)
        if kd == "optz":
            if not self.default_constructed(vd):
                raise Untranslatable("initialiser of " + name)
            self.kinds[name] = "optz"
            scope.append(name)
            return [B("let %s := (None : option posix_tz) in\n" % name, name)]
        if kd == "tzv" and self.default_constructed(vd):
            self.kinds[name] = "tzv"
            scope.append(name)
            return [B("let %s := tz_default__ in\n" % name, name)]
        if kd == "str" and not self.default_constructed(vd):
            cargs = []
            for m_ in walk(vd["inner"][-1]):                      # through the elided copy to std::string(const char*)
                if m_.get("kind") == "CXXConstructExpr" and dty(m_) == "std::basic_string<char>":
                    ca = [a for a in m_.get("inner", []) if a.get("kind") != "CXXDefaultArgExpr"]
                    if len(ca) == 1 and dty(ca[0]) == "char *":
                        cargs = ca
            if len(cargs) == 1 and dty(cargs[0]) == "char *":
                b, t, k1 = self.expr(cargs[0], scope)          # std::string(const char*): the characters up to the NUL
                self.kinds[name] = "str"
                scope.append(name)
                if k1 == "ocstr":
                    x = self.fresh()
                    return b + [B("do %s <- get_opt %s ;;\n" % (x, t)), B("let %s := %s in\n" % (name, x), name)]
                if k1 == "cstrv":
                    return b + [B("let %s := %s in\n" % (name, t), name)]
                raise Untranslatable("initialiser of " + name)
        if kd == "str" and self.default_constructed(vd):
            self.kinds[name] = "str"
            scope.append(name)
            return [B("let %s := ([] : list Z) in\n" % name, name)]
        if kd == "abbr" and vd.get("inner") and strip(vd["inner"][-1]).get("kind") in ("StringLiteral", "CXXNullPtrLiteralExpr"):
            self.kinds[name] = "ocstr"                             # a nullable pointer to a C string
            scope.append(name)
            if strip(vd["inner"][-1]).get("kind") == "CXXNullPtrLiteralExpr":
                return [B("let %s := (None : option (list Z)) in\n" % name, name)]
            b, t, k1 = self.expr(vd["inner"][-1], scope)
            return b + [B("let %s := Some %s in\n" % (name, t), name)]
        if kd == "ofile":
            b, t, k1 = self.expr(vd["inner"][-1], scope)
            if k1 != "ofile":
                raise Untranslatable("initialiser of " + name)
            self.kinds[name] = "ofile"
            scope.append(name)
            return b + [B("let %s := %s in\n" % (name, t), name)]
        if kd == "osrc":
            b, t, k1 = self.expr(vd["inner"][-1], scope)
            if k1 != "osrc":
                raise Untranslatable("initialiser of " + name)
            self.kinds[name] = "osrc"
            scope.append(name)
            return b + [B("let %s := %s in\n" % (name, t), name)]
        if kd == "cvec":                                        # std::vector<char> v(n): n zero bytes
            core = strip_copies(vd["inner"][-1])
            args = [a for a in core.get("inner", []) if a.get("kind") != "CXXDefaultArgExpr"] if core.get("kind") == "CXXConstructExpr" else None
            if args is None or len(args) != 1:
                raise Untranslatable("initialiser of " + name)
            b, t, k1 = self.expr(args[0], scope)
            if k1 != "Z" or int_type(args[0]) != (64, False):
                raise Untranslatable("size of " + name)
            self.kinds[name] = "cvec"
            scope.append(name)
            return b + [B("let %s := repeat 0 (Z.to_nat %s) in\n" % (name, t), name)]
        if kd == "ptr":                                         # a pointer to a Transition local: the pointee's value
            b, t, k1 = self.expr(vd["inner"][-1], scope)
            if not k1.startswith("lref:") or b and rebound(b):
                raise Untranslatable("pointer " + name)
            self.kinds[name] = "lref"
            self.lrefs[name] = set(k1[5:].split(","))
            scope.append(name)
            return b + [B("let %s := %s in\n" % (name, t), name)]
        if kd == "abbr" or kd == "ttptr":
            b, t, k1 = self.expr(vd["inner"][-1], scope)
            if k1.startswith("cptr:") and kd == "abbr":
                self.kinds[name] = k1
                self.cptrs[name] = k1[5:]
                scope.append(name)
                return b + [B("let %s := %s in\n" % (name, t), name)]
            if k1 == "ttptr" and kd == "ttptr":
                self.kinds[name] = "ttptr"
                self.vptrs[name] = "transition_types_"
                scope.append(name)
                return b + [B("let %s := %s in\n" % (name, t), name)]
            if k1 == "abbr" and kd == "abbr":
                self.kinds[name] = "abbr"
                scope.append(name)
                return b + [B("let %s := %s in\n" % (name, t), name)]
            raise Untranslatable("pointer " + name)
        out = Fn.decl(self, vd, scope)
        if is_ref and is_const and kd in ("tr", "tt"):
            core = strip_copies(vd["inner"][-1])
            vec = None
            if core.get("kind") == "CXXOperatorCallExpr" and callee_ref(core).get("referencedDecl", {}).get("name") == "operator[]":
                vec = self.this_member(core["inner"][1])
            elif core.get("kind") == "CXXMemberCallExpr" and core["inner"][0].get("name") in ("back", "front"):
                vec = self.this_member(core["inner"][0]["inner"][0])
            if vec is None:
                raise Untranslatable("const reference %s to something that is not a vector element" % name)
            self.snaps[name] = vec
        return out

    @staticmethod
    def default_constructed(vd):
        core = strip_copies(vd["inner"][-1]) if vd.get("inner") else None
        return core is None or (core.get("kind") == "CXXConstructExpr" and not core.get("inner"))

    def index_alias(self, vd, scope):
        """T& r(v[i]): r is an alias of that element"""
        init = strip_copies(vd["inner"][-1]) if vd.get("inner") else None
        if init is not None and init.get("kind") == "CXXMemberCallExpr" and init["inner"][0].get("name") == "back" and len(init["inner"]) == 1:
            vk = self.vec_of(init["inner"][0]["inner"][0], scope)       # T& r(v.back()): the last element
            if vk is None or not vk[1].startswith("vec:"):
                return None
            ix = self.fresh()
            name = vd["name"]
            self.refs[name] = (vk[0], ix, vk[1][4:])
            self.kinds[name] = "ref"
            scope.append(name)
            return [B("do _ <- vec_back %s ;;\n" % vk[0]), B("let %s := vec_size %s - 1 in\n" % (ix, vk[0]))]
        if init is None or init.get("kind") != "CXXOperatorCallExpr" or callee_ref(init).get("referencedDecl", {}).get("name") != "operator[]":
            return None
        vk = self.vec_of(init["inner"][1], scope)
        if vk is None or not vk[1].startswith("vec:"):
            return None
        ib, it, ik = self.expr(init["inner"][2], scope)
        if ik != "Z" or int_type(init["inner"][2]) != (64, False) or rebound(ib):
            raise Untranslatable("index type")
        ix = self.fresh()
        name = vd["name"]
        self.refs[name] = (vk[0], ix, vk[1][4:])
        self.kinds[name] = "ref"
        scope.append(name)
        return ib + [B("let %s := %s in\n" % (ix, it)), B("do _ <- nth_res %s %s ;;\n" % (vk[0], ix))]

    def finish(self, tail, val):
        if tail[0] == "cont":
            return self.finish(tail[4], val)
        if tail[0] == "rloop":
            return "OK (Some %s, %s)" % (self.ret_tuple(val), self.tup(tail[3]))
        return Fn.finish(self, tail, val)

    @staticmethod
    def base_tail(tail):
        while tail[0] == "cont":
            tail = tail[4]
        return tail

    def seq(self, stmts, scope, tail):
        if tail[0] == "cont":
            if not stmts:                                          # fall through to the shared continuation
                for v in tail[2]:
                    if v not in scope:
                        raise Untranslatable("join on %s, which is no longer readable" % v)
                tail[3].append(list(scope))
                return "\x00%s\x00 %s\x01%s\x01" % (tail[1], " ".join(tail[2]), tail[1])
            if stmts[0].get("kind") == "BreakStmt":
                return self.seq(stmts, scope, tail[4])
        if tail[0] == "rloop":
            if not stmts:
                return tail[4]
            if stmts[0].get("kind") == "BreakStmt":
                return "OK (None, %s)" % self.tup(tail[3])
        if stmts and stmts[0].get("kind") == "ReturnStmt" and stmts[0].get("inner"):
            e = stmts[0]["inner"][0]
            while e.get("kind") in TRANSPARENT:
                e = e["inner"][-1]
            if e.get("kind") == "BinaryOperator" and e.get("opcode") == "&&" and self.ret_kind == "bool" and \
                    any(m.get("kind") in ("CXXMemberCallExpr", "CallExpr") for m in walk(e["inner"][1])):
                # return a && f(..): f may change the object, so this is  if (a) return f(..); else return false;
                lit = {"kind": "CXXBoolLiteralExpr", "value": False, "type": {"qualType": "bool"}}
                node = {"kind": "IfStmt", "hasElse": True,
                        "inner": [e["inner"][0], {"kind": "ReturnStmt", "inner": [e["inner"][1]]}, {"kind": "ReturnStmt", "inner": [lit]}]}
                return self.seq([node], scope, tail)
        if stmts and stmts[0].get("kind") == "WhileStmt":
            ins = stmts[0]["inner"]
            if len(ins) != 2:
                raise Untranslatable("while with a condition variable")
            return self.for_loop({"kind": "ForStmt", "inner": [None, None, ins[0], None, ins[1]]}, stmts[1:], list(scope), tail)
        if stmts and stmts[0].get("kind") == "IfStmt" and not stmts[0].get("hasVar") and not stmts[0].get("hasInit"):
            st, rest = stmts[0], stmts[1:]
            th = self.body_list(st["inner"][1])
            el = self.body_list(st["inner"][2]) if st.get("hasElse") else []
            if (self.escapes(th) or self.escapes(el)) and not self.always_escapes(th) and not self.always_escapes(el) \
                    and any(m.get("kind") in ("ForStmt", "WhileStmt", "DoStmt", "CXXForRangeStmt") for x in rest for m in walk(x)):
                # both branches can reach the rest of the block and that rest is large: it is translated ONCE, as a
                # local function of the variables the branches may have rebound
                scope = list(scope)
                cb, ct, ck = self.expr(st["inner"][0], scope)
                vs = [v for v in self.assigned(th + el, scope) if v is not None]
                self.nk = getattr(self, "nk", 0) + 1
                kname = "k%d" % self.nk
                rec = []
                a = self.seq(th, scope, ("cont", kname, vs, rec, tail))
                b = self.seq(el, scope, ("cont", kname, vs, rec, tail))
                srest = [v for v in scope if all(v in sc for sc in rec) and self.kinds.get(v) not in ("struct", "lambda", "ref")]
                r = self.seq(rest, list(srest), tail)
                # the shared rest becomes a top-level function of everything in scope (lambda lifting)
                cap = [v for v in srest if v not in vs]
                extra = ["zip__version"] if self.uses_version else []
                binders = (["(fuel : nat)"] if self.fuel else []) + ["(%s : %s)" % (v, self.gty(v)) for v in cap + vs] + \
                    ["(%s : list Z)" % v for v in extra]
                kdef = "Definition %s_%s %s : res (%s) :=\n%s.\n\n" % (self.gname, kname, " ".join(binders), self.ret_type(), r)
                self.loops.append(kdef)
                self.kcalls = getattr(self, "kcalls", {})
                self.kcalls[kname] = "%s_%s%s %s" % (self.gname, kname, " fuel" if self.fuel else "", " ".join(cap))
                a = a.replace("\x00%s\x00" % kname, self.kcalls[kname])
                b = b.replace("\x00%s\x00" % kname, self.kcalls[kname])
                extra_args = (" " + " ".join(extra)) if extra else ""
                a = a.replace("\x01%s\x01" % kname, extra_args)
                b = b.replace("\x01%s\x01" % kname, extra_args)
                return "%sif %s then (\n%s\n) else (\n%s\n)" % (txt(cb), self.as_b(ct, ck), a, b)
        return Fn.seq(self, stmts, scope, tail)

    def range_for(self, st, rest, scope, tail):
        """for (auto& x : vector_member) body: x is an alias of element i for i = 0 .. size-1"""
        ins = st["inner"]
        if len(ins) != 8 or ins[0]:
            raise Untranslatable("range-for with an init statement")
        rng, var, body = ins[1], ins[6], ins[7]
        rvd = rng["inner"][0]
        vk = self.vec_of(strip_copies(rvd["inner"][-1]), scope) if rvd.get("inner") else None
        vd = var["inner"][0]
        qt = vd.get("type", {}).get("qualType", "")
        lst = None
        for m_ in walk(rng):
            if m_.get("kind") == "CXXStdInitializerListExpr":
                lst = strip(m_["inner"][0])
        if lst is not None and lst.get("kind") == "InitListExpr" and not qt.rstrip().endswith("&"):
            vals = [fold(e) for e in lst.get("inner", [])]
            try:
                ity = int_type(vd)
            except Untranslatable:
                ity = None
            if vals and all(v is not None for v in vals) and ity is not None:
                # for (const T x : {c1, .., cn}) body, x taking each constant in turn: unrolled
                name = vd["name"]
                if name in scope:
                    raise Untranslatable("redeclaration of the name " + name)
                bl = self.body_list(body)
                if self.escapes(bl):
                    raise Untranslatable("range-for body that leaves the loop")
                out, sc = "", list(scope)
                for v in vals:
                    lo, hi = (-(1 << (ity[0] - 1)), (1 << (ity[0] - 1)) - 1) if ity[1] else (0, (1 << ity[0]) - 1)
                    if not lo <= v <= hi:
                        raise Untranslatable("range-for constant out of range")
                    vs = [x for x in self.assigned(bl, sc) if x is not None]
                    if not vs:
                        raise Untranslatable("range-for body without effect")
                    self.kinds[name] = "Z"
                    self.ctype[name] = ity
                    out += "do %s <- (\nlet %s := %s in\n%s\n) ;;\n" % (self.pat(vs), name, zl(v), self.seq(bl, sc + [name], ("fall", vs)))
                    for x in vs:
                        if self.kinds.get(x, "").startswith("vec:") or self.kinds.get(x) == "str":
                            self.vec_resized(x, sc)
                return out + self.seq(rest, sc, tail)
        if vk is None or not vk[1].startswith("vec:") or not qt.rstrip().endswith("&") or qt.startswith("const "):
            return Fn.range_for(self, st, rest, scope, tail)
        vec, ek = vk[0], vk[1][4:]
        name = vd["name"]
        if name in scope:
            raise Untranslatable("redeclaration of the name " + name)
        bl = self.body_list(body)
        if self.escapes(bl):
            raise Untranslatable("range-for body that leaves the loop")
        for m in walk(body):
            if m.get("kind") == "CXXMemberCallExpr" and m["inner"][0].get("kind") == "MemberExpr" and \
                    m["inner"][0].get("name") in self.RESIZERS + ("reserve", "shrink_to_fit") and self.this_member(m["inner"][0]["inner"][0]) == vec:
                raise Untranslatable("range-for body that resizes the vector")
        stv = [v for v in self.assigned(bl, scope) if v is not None]
        if vec not in stv:
            stv.append(vec)
        stv = [v for v in scope if v in stv]
        ro = [v for v in self.used(bl, scope) if v not in stv]
        lname = "%s_loop%d" % (self.gname, len(self.loops) + 1)
        self.loops.append(None)
        idx = len(self.loops) - 1
        ix = "%s_i" % name
        sc = list(scope)
        self.refs[name] = (vec, ix, ek)
        self.kinds[name] = "ref"
        sc.append(name)
        recur = "%s fuel %s (%s + 1)" % (lname, " ".join(ro + stv), ix)
        btxt = self.seq(bl, sc, ("loop", lname, ro, stv, recur))
        itxt = "if %s <? vec_size %s then (\n%s\n) else (\nOK %s\n)" % (ix, vec, btxt, self.tup(stv))
        sty = " * ".join(self.gty(v) for v in stv)
        self.loops[idx] = ("Fixpoint %s (fuel : nat) %s (%s : Z) {struct fuel} : res (%s) :=\n  match fuel with\n  | O => Err Fuel\n  | S fuel =>\n%s\n  end.\n\n"
                           % (lname, " ".join("(%s : %s)" % (v, self.gty(v)) for v in ro + stv), ix, sty, itxt))
        after = list(scope)
        for v in stv:
            if self.kinds.get(v, "").startswith("vec:") or self.kinds.get(v) == "str":
                self.vec_resized(v, after)
        return "do %s <- %s fuel %s 0 ;;\n%s" % (self.pat(stv), lname, " ".join(ro + stv), self.seq(rest, after, tail))

    def for_loop(self, st, rest, scope, tail, drop=()):
        init, cvar, cond, inc, body = (st["inner"] + [None] * 5)[:5]
        if init:
            if init.get("kind") != "DeclStmt":
                return self.seq([init, dict(st, inner=[None, cvar, cond, inc, body])] + rest, scope, tail)
            sc0 = list(scope)                                     # the loop's own variables end with the loop
            pre = "".join(txt(self.decl(vd, sc0)) for vd in init.get("inner", []))
            return pre + self.for_loop(dict(st, inner=[None, cvar, cond, inc, body]), rest, sc0, tail,
                                       drop=[v for v in sc0 if v not in scope])
        if cvar:
            raise Untranslatable("loop with a condition variable")
        bl = self.body_list(body)
        pieces = [x for x in [cond, inc] if x] + bl
        if any(m.get("kind") in ("ContinueStmt", "GotoStmt") for x in pieces for m in walk(x)):
            raise Untranslatable("continue inside a loop")
        has_ret = any(m.get("kind") == "ReturnStmt" and not self.in_lambda(x, m) for x in pieces for m in walk(x))
        if has_ret and self.base_tail(tail)[0] != "none":
            raise Untranslatable("return inside a nested loop or a joined branch")
        stv = [v for v in self.assigned(pieces, scope) if v is not None]
        ro = [v for v in self.used(pieces, scope) if v not in stv]
        if has_ret:                                              # a return hands back the whole state
            ro = [v for v in scope if v not in stv and (v in ro or v in self.state_vars())]
        if any(self.kinds.get(v) in ("ref",) for v in ro + stv):
            raise Untranslatable("reference alias used in a loop")
        lname = "%s_loop%d" % (self.gname, len(self.loops) + 1)
        self.loops.append(None)
        idx = len(self.loops) - 1
        sc = list(scope)
        cb, ct, ck = self.expr(cond, sc) if cond else ([], "true", "bool")
        if rebound(cb) - set(stv):
            raise Untranslatable("loop condition rebinds a non-state variable")
        recur = "%s fuel %s" % (lname, " ".join(ro + stv))
        isc = list(sc)
        btxt_tail = ("rloop" if has_ret else "loop", lname, ro, stv, None)
        # the increment runs after the body, in the scope the loop's own variables live in
        if inc:
            ib, it, ik = self.expr(inc, isc)
            recur = txt(ib) + recur
        btxt = self.seq(bl, sc, btxt_tail[:4] + (recur,))
        exit_ = ("OK (None, %s)" if has_ret else "OK %s") % self.tup(stv)
        itxt = "%sif %s then (\n%s\n) else (\n%s\n)" % (txt(cb), self.as_b(ct, ck), btxt, exit_)
        sty = " * ".join(self.gty(v) for v in stv) if stv else "unit"
        rty = "option (%s) * (%s)" % (self.ret_type(), sty) if has_ret else sty
        self.loops[idx] = ("Fixpoint %s (fuel : nat) %s {struct fuel} : res (%s) :=\n  match fuel with\n  | O => Err Fuel\n  | S fuel =>\n%s\n  end.\n\n"
                           % (lname, " ".join("(%s : %s)" % (v, self.gty(v)) for v in ro + stv), rty, itxt))
        after = [v for v in scope if v not in drop]
        for v in stv:
            if self.kinds.get(v, "").startswith("vec:") or self.kinds.get(v) == "str":
                self.vec_resized(v, after)
            if self.kinds.get(v) == "tr":
                self.local_assigned(v, after)
            if self.kinds.get(v) == "cvec":
                self.buf_written(v, after)
        call = "%s fuel %s" % (lname, " ".join(ro + stv))
        if has_ret:
            r = self.fresh()
            return "do '(%s, %s) <- %s ;;\nmatch %s with\n| Some rv_ => OK rv_\n| None =>\n%s\nend" % (
                r, self.tup(stv) if stv else "_", call, r, self.seq(rest, after, tail))
        return "do %s <- %s ;;\n%s" % (self.pat(stv), call, self.seq(rest, after, tail))

    @staticmethod
    def in_lambda(root, node):
        """node lies inside a lambda expression below root"""
        def go(n, inside):
            if n is node:
                return inside
            if isinstance(n, dict):
                for c in n.get("inner", []):
                    r = go(c, inside or n.get("kind") == "LambdaExpr")
                    if r is not None:
                        return r
            return None
        return bool(go(root, False))

    def gty(self, v):
        k = zk(self.kinds[v])
        return "Z" if k.startswith("cptr:") else ZM.GTYPE[k]

    # ------------------------------------------------------------ function
    def signature(self):
        binders, scope, sig = [], [], []
        for c in self.ast.get("inner", []):
            if c.get("kind") != "ParmVarDecl":
                continue
            p = c.get("name")
            if p is None:
                raise Untranslatable("unnamed parameter")
            for m in walk(self.body):
                if m.get("kind") == "DeclRefExpr" and m.get("referencedDecl", {}).get("id") == c.get("id") and "desugaredQualType" in m.get("type", {}):
                    c = dict(c, type=m["type"])
                    break
            kd = kind_of(c)
            if kd == "outz":
                self.outz.append(p)
                self.kinds[p] = "oZ"
                self.ctype[p] = {"unsigned char *": (8, False), "std::uint_least8_t *": (8, False)}[dty(c)]
                continue
            if kd == "zip":
                self.kinds[p] = "zip"
                self.xstates.append(p)
                sig.append((p, "zip"))
                continue
            if kd == "tzhead":
                self.kinds[p] = "tzhead"
                binders.append("(%s : list Z)" % p)
                scope.append(p)
                sig.append((p, "bytes"))
                continue
            if kd not in ("Z", "bool", "str", "cs", "tr", "tt", "tp", "dur"):
                raise Untranslatable("parameter of type " + kd)
            self.kinds[p] = zk(kd)
            if zk(kd) == "Z":
                self.ctype[p] = int_type(c)
            binders.append("(%s : %s)" % (p, ZM.GTYPE[zk(kd)]))
            scope.append(p)
            sig.append((p, zk(kd)))
        return binders, scope, sig

    def prepare(self):
        rt = clean(self.ast.get("type", {}).get("qualType", "").split("(")[0])
        rt = {"std::size_t": "unsigned long", "time_zone": "cctz::time_zone"}.get(rt, rt)
        self.ret_kind = lclassify(rt)
        if self.ret_kind not in ("bool", "Z", "osrc", "tzv"):
            raise Untranslatable("return type " + rt)
        if self.owner == "TimeZoneInfo":
            for x, k in XSTATE_MEMBERS.items():
                if any(m.get("kind") == "MemberExpr" and m.get("name") == x and strip(m["inner"][0]).get("kind") == "CXXThisExpr" for m in walk(self.body)):
                    self.xstates.append(x)
                    self.kinds[x] = k
                    self.mkinds[x] = k
        self.binders, self.scope0, self.sig = self.signature()
        for m in walk(self.body):
            if m.get("kind") == "CallExpr" and callee_ref(m).get("referencedDecl", {}).get("name") in DECODE:
                self.fuel = True
            if m.get("kind") == "CXXMemberCallExpr" and m["inner"][0].get("kind") == "MemberExpr":
                info = self.unit.known.get(m["inner"][0].get("name"))
                if info is not None and info["fuel"]:
                    self.fuel = True
                if info is not None and strip(m["inner"][0]["inner"][0]).get("kind") == "CXXThisExpr":
                    for x in info.get("xstates", []):              # the callee threads version_: so does the caller
                        if x in XSTATE_MEMBERS and x not in self.xstates:
                            self.xstates.insert(0, x)
                            self.kinds[x] = XSTATE_MEMBERS[x]
                            self.mkinds[x] = XSTATE_MEMBERS[x]
        for m, k, _ in self.members:
            self.kinds[m] = k
            if k in ("Z", "oZ"):
                self.ctype[m] = ZONE_CTYPE.get(m, (64, False))
        return {"key": self.key, "gname": self.gname, "fuel": self.fuel, "owner": self.owner, "const": self.const_method,
                "params": self.sig, "outz": list(self.outz), "ret": zk(self.ret_kind), "xstates": list(self.xstates),
                "uses_version": self.uses_version}

    def translate(self):
        scope = [m for m, _, _ in self.members] + list(self.xstates) + self.scope0 + list(self.outz)
        term = self.seq(self.body_list(self.body), scope, ("none",))
        pre = "".join("let %s := %s %s in\n" % (m, proj, self.this_var) for m, _, proj in self.members)
        binders = (["(fuel : nat)"] if self.fuel else []) + (["(%s : %s)" % (self.this_var, self.this_type)] if self.this_var else []) + \
            (["(getenv__ : list Z -> option (list Z))"] if self.uses_getenv else []) + \
            (["(fopen__ : list Z -> option (list Z))"] if self.uses_fopen else []) + \
            (["(TZ : Type) (tz_default__ : TZ) (load_time_zone__ : list Z -> TZ -> bool * TZ)"] if self.uses_loadtz else []) + \
            ["(%s : %s)" % (x, ZM.GTYPE[self.kinds[x]]) for x in self.xstates] + \
            (["(zip__version : list Z)"] if self.uses_version else []) + \
            (["(factory__ : list Z -> option (list Z * list Z))"] if self.uses_factory else []) + self.binders + ["(%s : option Z)" % o for o in self.outz]
        return "".join(self.loops) + "Definition %s %s : res (%s) :=\n%s%s.\n" % (self.gname, " ".join(binders), self.ret_type(), pre, term)

PRELUDE = """(* SourceLoad.v - GENERATED by gen/ast_translate_load.py from clang's AST of /repo's current
   src/time_zone_info.cc (the loader side) on every run.  Do not edit.
   The object is a value threaded through: a non-const member function takes [z : zone] (or [h : header]) as it
   is on entry and returns (C++ result, the object on exit[, outputs]); containers are lists; an unset scalar /
   an integer output parameter is an [option Z]; see the translator's header for the full reading. *)
From CCTZ Require Import Base Cal CivilImpl PosixImpl ZoneLoad ZoneImpl SourceZone.
From CCTZ Require Source64 SourceDecode Source64InfoProofs.
Local Open Scope Z_scope.
(* a Header whose members may be unset *)
Record oheader := mkOH { oh_timecnt : option Z; oh_typecnt : option Z; oh_charcnt : option Z;
                         oh_leapcnt : option Z; oh_isstdcnt : option Z; oh_isutcnt : option Z }.
Definition oh_unset : oheader := mkOH None None None None None None.
Definition oh_of (h : header) : oheader :=
  mkOH (Some (h_timecnt h)) (Some (h_typecnt h)) (Some (h_charcnt h)) (Some (h_leapcnt h)) (Some (h_isstdcnt h)) (Some (h_isutcnt h)).
(* byte buffers that are not C strings (a tzhead, a std::vector<char>): strict bounds *)
Definition byte_at (buf : list Z) (p : Z) : res Z :=
  if (0 <=? p) && (p <? Z.of_nat (length buf)) then OK (nth (Z.to_nat p) buf 0) else Err OOB.
Definition cadd (buf : list Z) (p k : Z) : res Z :=
  if (0 <=? p) && (0 <=? p + k) && (p + k <=? Z.of_nat (length buf)) then OK (p + k) else Err OOB.
Definition csub (buf : list Z) (p n : Z) : res (list Z) :=
  if (0 <=? p) && (0 <=? n) && (p + n <=? Z.of_nat (length buf)) then OK (firstn (Z.to_nat n) (skipn (Z.to_nat p) buf)) else Err OOB.
Definition vec_front {A} (l : list A) : res A := match l with x :: _ => OK x | [] => Err OOB end.
(* v.resize(n): truncated, or extended with value-initialised elements *)
Definition vec_resize {A} (l : list A) (n : Z) (d : A) : list A :=
  firstn (Z.to_nat n) l ++ repeat d (Z.to_nat n - length l).
(* v.back(): the vector must not be empty *)
Definition vec_back {A} (l : list A) : res A := match last_opt l with Some x => OK x | None => Err OOB end.
(* the n bytes at p lie inside the buffer *)
Definition span_ok (buf : list Z) (p n : Z) : res unit :=
  if (0 <=? p) && (p + n <=? Z.of_nat (length buf)) then OK tt else Err OOB.
(* the element an alias designates is rewritten in place *)
Definition vec_set {A} (l : list A) (i : Z) (x : A) : res (list A) :=
  if (0 <=? i) && (i <? vec_size l) then OK (firstn (Z.to_nat i) l ++ x :: skipn (S (Z.to_nat i)) l) else Err OOB.

"""


class CacheFn:
    """time_zone::Impl::LoadTimeZone (src/time_zone_impl.cc) as a SEQUENTIAL function over an explicit cache.
    time_zone_map (a nullable pointer to an unordered_map<string, const Impl*>) is [option imap], an association list
    with the newest key first; a `const Impl*` is [option nat] (None = nullptr, UTCImpl() = utc_impl_ptr); `*tz` holds
    such a pointer.  A std::lock_guard on TimeZoneMutex() appends LkLock to the trace where it is declared and LkUnlock
    where its scope ends (every return included); time_zone_map may only be touched while one is alive, and at each
    acquisition it is replaced by [world__ k time_zone_map] (k-th acquisition of this call): whatever the other threads
    left there.  `new Impl(name)` is the oracle [new_impl__ name] = (identity, zone_ != nullptr)."""
    WRAP = ("ExprWithCleanups", "ImplicitCastExpr", "MaterializeTemporaryExpr", "ParenExpr", "CXXBindTemporaryExpr", "CXXFunctionalCastExpr")
    STATE = ("tz", "time_zone_map", "trace")

    def __init__(self, key, ast, path):
        self.key, self.ast, self.n, self.path = key, ast, 0, path

    def check_globals(self):
        """time_zone_map is ONE namespace-scope pointer (not thread_local) that starts null; TimeZoneMutex() returns the
        same mutex on every call (a function-local static pointer, not thread_local, initialised with new std::mutex)"""
        vs = [d for d in clang_docs("time_zone_map", self.path) if d.get("kind") == "VarDecl" and d.get("name") == "time_zone_map"]
        if len(vs) != 1 or "tls" in vs[0] or not vs[0].get("type", {}).get("qualType", "").endswith("TimeZoneImplByName *"):
            raise Untranslatable("time_zone_map is not a single process-wide TimeZoneImplByName*")
        init = self.core(vs[0]["inner"][-1]) if vs[0].get("inner") else {}
        if init.get("kind") != "CXXNullPtrLiteralExpr":
            raise Untranslatable("time_zone_map does not start as nullptr")
        fs = [d for d in clang_docs("TimeZoneMutex", self.path) if d.get("kind") == "FunctionDecl" and d.get("name") == "TimeZoneMutex"
              and any(c.get("kind") == "CompoundStmt" for c in d.get("inner", []))]
        ok = len(fs) == 1 and fs[0].get("type", {}).get("qualType") == "std::mutex &()"
        body = [c for c in fs[0]["inner"] if c.get("kind") == "CompoundStmt"][0].get("inner", []) if ok else []
        ok = ok and len(body) == 2 and body[0].get("kind") == "DeclStmt" and body[1].get("kind") == "ReturnStmt"
        if ok:
            v = body[0]["inner"][0]
            nw = self.core(v["inner"][-1]) if v.get("inner") else {}
            r = self.core(body[1]["inner"][0])
            ok = v.get("kind") == "VarDecl" and v.get("storageClass") == "static" and "tls" not in v and self.ty(v) == "std::mutex *" \
                and nw.get("kind") == "CXXNewExpr" and self.ty(nw) == "std::mutex *" \
                and r.get("kind") == "UnaryOperator" and r.get("opcode") == "*" \
                and self.core(r["inner"][0]).get("referencedDecl", {}).get("name") == v.get("name")
        if not ok:
            raise Untranslatable("TimeZoneMutex() is not a single process-wide mutex")

    def tmp(self):
        self.n += 1
        return "t%d" % self.n

    @staticmethod
    def ty(n):
        return n.get("type", {}).get("qualType", "")

    def core(self, n):
        while True:
            k = n.get("kind")
            if k in self.WRAP and len(n.get("inner", [])) == 1:
                n = n["inner"][0]
            elif k == "CXXConstructExpr" and len(n.get("inner", [])) == 1 and \
                    (self.ty(n) in ("cctz::time_zone", "std::chrono::duration<long>") or "const_iterator" in self.ty(n)):
                n = n["inner"][0]
            else:
                return n

    def callee(self, n):
        c = self.core(n["inner"][0])
        if c.get("kind") == "DeclRefExpr":
            return c.get("referencedDecl", {}).get("name")
        if c.get("kind") == "MemberExpr":
            return c.get("name")
        return None

    def var(self, n, env, kind=None):
        c = self.core(n)
        if c.get("kind") != "DeclRefExpr":
            return None
        nm = c.get("referencedDecl", {}).get("name")
        if nm in env and (kind is None or env[nm][0] == kind):
            return nm
        return None

    def need_lock(self, what):
        if not any(self.scopes):
            raise Untranslatable("%s without holding TimeZoneMutex" % what)

    def read_map(self, pre):
        self.need_lock("time_zone_map dereferenced")
        t = self.tmp()
        pre.append("do %s <- get_opt time_zone_map ;;" % t)
        return t

    # -- expressions: (term, kind); binding lines go to pre; assigned variables to mods
    def ex(self, n, env, pre, mods):
        n = self.core(n)
        k = n.get("kind")
        if k == "CXXBoolLiteralExpr":
            return ("true" if n.get("value") else "false"), "bool"
        if k == "CXXNullPtrLiteralExpr":
            return "None", "null"
        if k == "DeclRefExpr":
            nm = n.get("referencedDecl", {}).get("name")
            if nm not in env:
                raise Untranslatable("reference to %s" % nm)
            kind = env[nm][0]
            if kind == "mapp":
                self.need_lock("time_zone_map read")
                return nm, kind
            if kind == "implref":
                m = self.read_map(pre)
                t = self.tmp()
                pre.append("do %s <- get_opt (map_find %s %s) ;;" % (t, m, env[nm][1]))
                return t, "iptr"
            if kind == "lock":
                raise Untranslatable("use of a lock_guard")
            return nm, kind
        if k == "CallExpr":
            f = self.callee(n)
            args = n["inner"][1:]
            if f == "UTCImpl" and not args:
                return "utc_impl_ptr", "iptr"
            if f == "zero" and not args:
                return "0", "Z"
            if f == "FixedOffsetFromName" and len(args) == 2:
                s = self.var(args[0], env, "str")
                a = self.core(args[1])
                o = self.var(a["inner"][0], env, "Z") if a.get("kind") == "UnaryOperator" and a.get("opcode") == "&" else None
                if s and o:
                    t = self.tmp()
                    pre.append("do '(%s, %s) <- SourceFixed.so_FixedOffsetFromName %s %s ;;" % (t, o, s, o))
                    mods.add(o)
                    return t, "bool"
            raise Untranslatable("call of %s" % f)
        if k == "UnaryOperator" and n.get("opcode") == "!":
            a, ka = self.ex(n["inner"][0], env, pre, mods)
            if ka != "bool":
                raise Untranslatable("! of a %s" % ka)
            return "(negb %s)" % a, "bool"
        if k == "BinaryOperator" and n.get("opcode") in ("&&", "||"):
            a, ka = self.ex(n["inner"][0], env, pre, mods)
            p2, m2 = [], set()
            b, kb = self.ex(n["inner"][1], env, p2, m2)
            if p2 or m2 or ka != "bool" or kb != "bool":
                raise Untranslatable("right operand of %s with effects" % n.get("opcode"))
            return "(%s %s %s)" % (a, n.get("opcode"), b), "bool"
        if k == "BinaryOperator" and n.get("opcode") in ("==", "!="):
            a, ka = self.ex(n["inner"][0], env, pre, mods)
            b, kb = self.ex(n["inner"][1], env, pre, mods)
            neg = n.get("opcode") == "!="
            if ka == "mapp" and kb == "null":
                r = "match %s with Some _ => false | None => true end" % a
            elif ka == "iptr" and kb in ("iptr", "null"):
                r = "optnat_eqb %s %s" % (a, b)
            elif ka == "bool" and kb == "bool":
                r = "Bool.eqb %s %s" % (a, b)
            else:
                raise Untranslatable("comparison of a %s and a %s" % (ka, kb))
            return ("(negb (%s))" % r if neg else "(%s)" % r), "bool"
        if k == "CXXOperatorCallExpr":
            f = self.callee(n)
            args = n["inner"][1:]
            if f == "operator==" and len(args) == 2:
                a, ka = self.ex(args[0], env, pre, mods)
                b, kb = self.ex(args[1], env, pre, mods)
                if ka == "Z" and kb == "Z":
                    return "(%s =? %s)" % (a, b), "bool"
            if f in ("operator!=", "operator==") and len(args) == 2:
                for x, y in ((args[0], args[1]), (args[1], args[0])):
                    it = self.var(x, env, "itr")
                    e = self.core(y)
                    if it and e.get("kind") == "CXXMemberCallExpr" and self.callee(e) == "end" and \
                            self.var(self.core(e["inner"][0])["inner"][0], env, "mapp") and env[it][1] == self.epoch:
                        self.need_lock("time_zone_map->end()")
                        if f == "operator!=":
                            return "(match %s with Some _ => true | None => false end)" % it, "bool"
                        return "(match %s with Some _ => false | None => true end)" % it, "bool"
            raise Untranslatable("operator call %s" % f)
        if k == "MemberExpr" and n.get("name") == "second":
            b = self.core(n["inner"][0])
            if b.get("kind") == "CXXOperatorCallExpr" and self.callee(b) == "operator->":
                it = self.var(b["inner"][1], env, "itr")
                if it and env[it][1] == self.epoch:
                    t = self.tmp()
                    pre.append("do %s <- get_opt %s ;;" % (t, it))
                    return t, "iptr"
            raise Untranslatable("->second of something else than a live iterator")
        if k == "CXXMemberCallExpr":
            f = self.callee(n)
            base = self.core(n["inner"][0])["inner"][0] if self.core(n["inner"][0]).get("inner") else None
            args = n["inner"][1:]
            if f == "operator bool" and base is not None:
                z = self.core(base)
                if z.get("kind") == "MemberExpr" and z.get("name") == "zone_":
                    p = self.core(z["inner"][0])
                    if p.get("kind") == "CXXOperatorCallExpr" and self.callee(p) == "operator->":
                        u = self.var(p["inner"][1], env, "uimpl")
                        if u:
                            t = self.tmp()
                            pre.append("do %s <- get_opt %s ;;" % (t, u))
                            return "(snd %s)" % t, "bool"
            if f == "release" and base is not None and not args:
                u = self.var(base, env, "uimpl")
                if u:
                    t = self.tmp()
                    pre.append("let %s := option_map fst %s in" % (t, u))
                    pre.append("let %s := None in" % u)
                    mods.add(u)
                    return t, "iptr"
            if f == "find" and base is not None and len(args) == 1 and self.var(base, env, "mapp"):
                s = self.var(args[0], env, "str")
                if s:
                    m = self.read_map(pre)
                    return "(map_find %s %s)" % (m, s), "itr"
            raise Untranslatable("member call %s" % f)
        if k == "ConditionalOperator":
            c, kc = self.ex(n["inner"][0], env, pre, mods)
            pa, ma, pb, mb = [], set(), [], set()
            a, ka = self.ex(n["inner"][1], env, pa, ma)
            b, kb = self.ex(n["inner"][2], env, pb, mb)
            if kc != "bool" or ka != kb:
                raise Untranslatable("conditional of %s ? %s : %s" % (kc, ka, kb))
            if not (pa or pb):
                return "(if %s then %s else %s)" % (c, a, b), ka
            ms = sorted(ma | mb)
            t = self.tmp()
            tup = lambda v: "(" + ", ".join([v] + ms) + ")"
            pre.append("do '%s <- (if %s then (%s OK %s) else (%s OK %s)) ;;" % (tup(t), c, " ".join(pa), tup(a), " ".join(pb), tup(b)))
            mods |= set(ms)
            return t, ka
        if k == "CXXNewExpr":
            c = n["inner"][0] if n.get("inner") else {}
            if c.get("kind") == "CXXConstructExpr" and self.ty(c) == "cctz::time_zone::Impl" and len(c.get("inner", [])) == 1:
                s = self.var(c["inner"][0], env, "str")
                if s:
                    return "(Some (new_impl__ %s))" % s, "uimpl"
            if c.get("kind") == "CXXConstructExpr" and "TimeZoneImplByName" in self.ty(c) and not c.get("inner"):
                return "(Some [])", "mapp"
            raise Untranslatable("new %s" % self.ty(c))
        if k == "CXXConstructExpr" and self.ty(n).startswith("std::unique_ptr<const") and len(n.get("inner", [])) == 1:
            return self.ex(n["inner"][0], env, pre, mods)
        raise Untranslatable("expression %s" % k)

    # -- statements, in continuation-passing style: work is the list of what remains to be done
    def assigned(self, n, env):
        out = set()
        for m in walk(n):
            if m.get("kind") == "BinaryOperator" and m.get("opcode") == "=":
                v = self.var(m["inner"][0], env)
                if v and env[v][0] not in ("mapp", "implref"):
                    out.add(v)
            if m.get("kind") == "UnaryOperator" and m.get("opcode") == "&":
                v = self.var(m["inner"][0], env)
                if v:
                    out.add(v)
            if m.get("kind") == "MemberExpr" and m.get("name") == "release":
                v = self.var(m["inner"][0], env)
                if v:
                    out.add(v)
        return sorted(out)

    def unlock(self, scope):
        return ["let trace := trace ++ [LkUnlock] in" for _ in scope]

    def run(self, work, scopes, env, nlk):
        self.scopes = scopes
        if not work:
            raise Untranslatable("control reaches the end of the function")
        s, rest = work[0], work[1:]
        if isinstance(s, tuple) and s[0] == "end":
            env2 = {k: v for k, v in env.items() if k in s[1]}
            return "\n".join(self.unlock(scopes[-1]) + [self.run(rest, scopes[:-1], env2, nlk)])
        if isinstance(s, tuple) and s[0] == "yield":
            return "OK (%s)" % ", ".join(s[1])
        k = s.get("kind")
        pre, mods = [], set()
        if k == "CompoundStmt":
            return self.run(list(s.get("inner", [])) + [("end", set(env))] + rest, scopes + ((),), env, nlk)
        if k == "DeclStmt":
            if len(s.get("inner", [])) != 1 or s["inner"][0].get("kind") != "VarDecl":
                raise Untranslatable("declaration statement")
            d = s["inner"][0]
            nm, t = d.get("name"), self.ty(d)
            if nm in self.STATE or nm in ("name", "world__", "new_impl__") or re.match(r"^t\d+$", nm) or nm in ZM.RESERVED:
                raise Untranslatable("local named %s" % nm)
            init = d["inner"][-1] if d.get("inner") else None
            env = dict(env)
            if t == "std::lock_guard<std::mutex>":
                c = self.core(init) if init else {}
                a = self.core(c["inner"][0]) if c.get("kind") == "CXXConstructExpr" and len(c.get("inner", [])) == 1 else {}
                if not (a.get("kind") == "CallExpr" and self.callee(a) == "TimeZoneMutex"):
                    raise Untranslatable("lock_guard on something else than TimeZoneMutex()")
                if any(scopes):
                    raise Untranslatable("TimeZoneMutex acquired twice")
                env[nm] = ("lock",)
                self.epoch += 1
                lines = ["let trace := trace ++ [LkLock] in", "let time_zone_map := world__ %d%%nat time_zone_map in" % nlk]
                return "\n".join(lines + [self.run(rest, scopes[:-1] + (scopes[-1] + (nm,),), env, nlk + 1)])
            if t.endswith("&") and "Impl *" in t:
                c = self.core(init)
                ok = c.get("kind") == "CXXOperatorCallExpr" and self.callee(c) == "operator[]" and len(c["inner"]) == 3
                m = self.core(c["inner"][1]) if ok else {}
                s_ = self.var(c["inner"][2], env, "str") if ok else None
                ok = ok and "std::unordered_map<std::basic_string<char>, const cctz::time_zone::Impl *>::mapped_type" in self.ty(c)
                if not (ok and s_ and m.get("kind") == "UnaryOperator" and m.get("opcode") == "*" and self.var(m["inner"][0], env, "mapp")):
                    raise Untranslatable("reference %s" % nm)
                mm = self.read_map(pre)
                pre.append("let time_zone_map := Some (map_index %s %s) in" % (mm, s_))
                env[nm] = ("implref", s_, self.epoch)
                return "\n".join(pre + [self.run(rest, scopes, env, nlk)])
            want = {"bool": "bool", "std::chrono::duration<long>": "Z"}.get(t)
            if want is None and re.match(r"^const (cctz::time_zone::)?Impl \*( ?const)?$", t):
                want = "iptr"
            if want is None and "const_iterator" in t:
                want = "itr"
            if want is None and t.startswith("std::unique_ptr<const") and "Impl>" in t:
                want = "uimpl"
            if want is None or init is None:
                raise Untranslatable("local %s of type %s" % (nm, t))
            e, ke = self.ex(init, env, pre, mods)
            if ke != want:
                raise Untranslatable("initialiser of %s: a %s" % (nm, ke))
            env[nm] = (want, self.epoch)
            return "\n".join(pre + ["let %s := %s in" % (nm, e), self.run(rest, scopes, env, nlk)])
        if k == "IfStmt":
            inner = s["inner"]
            if len(inner) not in (2, 3):
                raise Untranslatable("if with a declaration")
            c, kc = self.ex(inner[0], env, pre, mods)
            if kc != "bool":
                raise Untranslatable("condition of kind %s" % kc)
            br = [inner[1]] + ([inner[2]] if len(inner) == 3 else [])
            wrap = lambda b: b if b.get("kind") == "CompoundStmt" else {"kind": "CompoundStmt", "inner": [b]}
            if not any(m.get("kind") == "ReturnStmt" for b in br for m in walk(b)):
                vs = list(self.STATE) + [v for v in self.assigned(s, env)]
                a = self.run([wrap(br[0]), ("yield", vs)], scopes, env, nlk)
                b = self.run([wrap(br[1]), ("yield", vs)], scopes, env, nlk) if len(br) == 2 else "OK (%s)" % ", ".join(vs)
                self.kill_refs_if_map_assigned(s, env)
                return "\n".join(pre + ["do '(%s) <- (if %s then (" % (", ".join(vs), c), a, ") else (", b, ")) ;;",
                                        self.run(rest, scopes, self.env_after(s, env), nlk)])
            a = self.run([wrap(br[0])] + rest, scopes, env, nlk)
            b = self.run(([wrap(br[1])] if len(br) == 2 else []) + rest, scopes, env, nlk)
            return "\n".join(pre + ["if %s then (" % c, a, ") else (", b, ")"])
        if k == "ReturnStmt":
            e, ke = self.ex(s["inner"][0], env, pre, mods)
            if ke != "bool":
                raise Untranslatable("return of a %s" % ke)
            lines = pre + ["let ret__ := %s in" % e]
            for sc in reversed(scopes):
                lines += self.unlock(sc)
            return "\n".join(lines + ["OK (ret__, tz, time_zone_map, trace)"])
        c = self.core(s)
        if c.get("kind") == "CXXOperatorCallExpr" and self.callee(c) == "operator=" and len(c["inner"]) == 3:
            l = self.core(c["inner"][1])
            if l.get("kind") == "UnaryOperator" and l.get("opcode") == "*" and self.var(l["inner"][0], env, "tzp"):
                e, ke = self.ex(c["inner"][2], env, pre, mods)
                if ke != "iptr":
                    raise Untranslatable("*tz = a %s" % ke)
                return "\n".join(pre + ["let tz := %s in" % e, self.run(rest, scopes, env, nlk)])
        if c.get("kind") == "BinaryOperator" and c.get("opcode") == "=":
            v = self.var(c["inner"][0], env)
            if v:
                kind = env[v][0]
                e, ke = self.ex(c["inner"][1], env, pre, mods)
                if kind == "mapp" and ke == "mapp":
                    self.need_lock("time_zone_map written")
                    self.epoch += 1
                    env = {k_: v_ for k_, v_ in env.items() if v_[0] != "implref"}
                    return "\n".join(pre + ["let time_zone_map := %s in" % e, self.run(rest, scopes, env, nlk)])
                if kind == "implref" and ke in ("iptr", "null"):
                    if env[v][2] != self.epoch:
                        raise Untranslatable("write through a stale reference")
                    m = self.read_map(pre)
                    return "\n".join(pre + ["let time_zone_map := Some (map_set %s %s %s) in" % (m, env[v][1], e), self.run(rest, scopes, env, nlk)])
                if kind in ("bool", "iptr", "Z") and (ke == kind or (kind == "iptr" and ke == "null")):
                    return "\n".join(pre + ["let %s := %s in" % (v, e), self.run(rest, scopes, env, nlk)])
        raise Untranslatable("statement %s" % k)

    def map_assigned(self, n, env):
        return any(m.get("kind") == "BinaryOperator" and m.get("opcode") == "=" and self.var(m["inner"][0], env, "mapp") for m in walk(n))

    def kill_refs_if_map_assigned(self, n, env):
        pass

    def env_after(self, n, env):
        if self.map_assigned(n, env):
            self.epoch += 1
            return {k: v for k, v in env.items() if v[0] not in ("implref", "itr")}
        return env

    def translate(self):
        ps = [c for c in self.ast.get("inner", []) if c.get("kind") == "ParmVarDecl"]
        if [(p.get("name"), self.ty(p)) for p in ps] != [("name", "const std::string &"), ("tz", "cctz::time_zone *")]:
            raise Untranslatable("parameters of LoadTimeZone %s" % [(p.get("name"), self.ty(p)) for p in ps])
        if self.ty(self.ast) != "bool (const std::string &, cctz::time_zone *)":
            raise Untranslatable("type of LoadTimeZone")
        self.check_globals()
        body = [c for c in self.ast["inner"] if c.get("kind") == "CompoundStmt"][0]
        self.epoch = 0
        env = {"name": ("str",), "tz": ("tzp",), "time_zone_map": ("mapp",)}
        text = self.run(list(body.get("inner", [])), ((),), env, 0)
        return ("Definition sn_LoadTimeZone (world__ : nat -> option imap -> option imap) (new_impl__ : list Z -> nat * bool)\n"
                "  (time_zone_map : option imap) (trace : list lk_event) (name : list Z) (tz : option nat)\n"
                "  : res (bool * option nat * option imap * list lk_event) :=\n" + text + ".\n")


class LUnit:
    def __init__(self):
        self.known = {}
        self.civil_default = None
        self._tables = {}

    def resolve(self, name, args, member):
        return None                     # the zone translator's call resolution is not used here

    def resolve_node(self, m):
        return None

    def global_table(self, name):
        """a namespace-scope const array of integers with a constant initialiser: its values, or None"""
        if name not in self._tables:
            self._tables[name] = None
            for d in clang_docs(name, SRC):
                if d.get("kind") == "VarDecl" and d.get("name") == name and d.get("inner") and "const" in d.get("type", {}).get("qualType", ""):
                    core = strip(d["inner"][-1])
                    if core.get("kind") == "InitListExpr":
                        vals = [fold(e) for e in core.get("inner", [])]
                        m = re.match(r"^const .*\[(\d+)\]$", d.get("type", {}).get("qualType", ""))
                        if m and len(vals) == int(m.group(1)) and all(v is not None for v in vals):
                            self._tables[name] = vals
                            break
        return self._tables[name]

    def run(self):
        parts, done, failed = [PRELUDE], [], {}
        try:
            ZM.check_records()
            self.civil_default = ZM.civil_default()
            self.ctor_defaults = ctor_defaults()
            self.tzhead = record_layout("tzhead")
            hdr = None
            for d in clang_docs("Header", SRC):
                for m in walk(d):
                    if m.get("kind") == "CXXRecordDecl" and m.get("name") == "Header" and m.get("completeDefinition"):
                        hdr = [(c.get("name"), clean(c.get("type", {}).get("desugaredQualType") or "")) for c in m.get("inner", []) if c.get("kind") == "FieldDecl"]
            if hdr != [(m, "unsigned long") for m, _, _ in HEADER_MEMBERS]:
                raise Untranslatable("members of Header: %s" % hdr)
        except Untranslatable as e:
            return None, [], {"*": str(e)}
        nparts, ndone, nfailed = [PRELUDE_NAMES], [], {}
        for tgt in TARGETS:
            flt, name, owner, fil, key, sel = tgt[:6]
            path = tgt[6] if len(tgt) > 6 else SRC
            self.cur_file = fil
            P, D, F = (parts, done, failed) if fil == "load" else (nparts, ndone, nfailed)
            defs, seen = [], set()
            for d in clang_docs(flt, path):
                for m in walk(d):
                    if m.get("kind") in ("FunctionDecl", "CXXMethodDecl") and m.get("name") == name and m.get("id") not in seen \
                            and any(c.get("kind") == "CompoundStmt" for c in m.get("inner", [])):
                        seen.add(m.get("id"))
                        defs.append(m)
            defs = [m for m in defs if sel in m.get("type", {}).get("qualType", "")]
            if len(defs) != 1:
                F[key] = "no single definition"
                P.append("(* %s: not translated: no single definition *)\n\n" % key)
                continue
            try:
                if owner == "cache":
                    text, info = CacheFn(key, defs[0], path).translate(), None
                else:
                    f = LFn(key, defs[0], owner, self)
                    info = f.prepare()
                    text = f.translate()
                P.append(text + "\n")
                if key != "LoadName" and info is not None:          # the other overload is called as Load
                    self.known[name] = info
                D.append(key)
            except Untranslatable as e:
                F[key] = str(e)
                P.append("(* %s: not translated: %s *)\n\n" % (key, e))
        return "".join(parts), done, failed, "".join(nparts), ndone, nfailed


PRELUDE_NAMES = """(* SourceNames.v - GENERATED by gen/ast_translate_load.py from clang's AST of /repo's current
   src/time_zone_info.cc (ResetToBuiltinUTC, Load(name), FileZoneInfoSource::Open), src/time_zone_lookup.cc
   (local_time_zone) and src/time_zone_impl.cc (time_zone::Impl::LoadTimeZone) on every run.  Do not edit.
   Same reading as SourceLoad.v; the outside world is a set of oracles: zone_info_source_factory (with the default
   sources it may fall back to) [factory__ : name -> option (bytes, Version())], getenv__, fopen__,
   load_time_zone__, and for LoadTimeZone world__ (time_zone_map as found at each acquisition of the mutex) and
   new_impl__ (identity of the constructed Impl, zone_ != nullptr). *)
From CCTZ Require Import Base Cal CivilImpl PosixImpl ZoneLoad ZoneImpl SourceZone SourceLoad.
From CCTZ Require Source64 SourceDecode Source64InfoProofs SourceFixed.
Local Open Scope Z_scope.
(* std::string operations whose position argument must not exceed size() (they throw otherwise) *)
Definition str_compare_eq (s : list Z) (p n : Z) (lit : list Z) : res bool :=
  if (0 <=? p) && (p <=? vec_size s) then OK (list_eqb (firstn (Z.to_nat n) (skipn (Z.to_nat p) s)) lit) else Err OOB.
Definition str_from (s : list Z) (p : Z) : res (list Z) :=
  if (0 <=? p) && (p <=? vec_size s) then OK (skipn (Z.to_nat p) s) else Err OOB.
(* ++p for a pointer into a C string: *p must not be the NUL *)
Definition cstr_next (s : list Z) : res (list Z) := match s with _ :: r => OK r | [] => Err OOB end.
(* s[i]: the character, the NUL at i = size() *)
Definition str_at (s : list Z) (i : Z) : res Z := if i <? 0 then Err OOB else cstr_at s (Z.to_nat i).
(* LoadTimeZone: events on TimeZoneMutex; time_zone_map as an association list (newest key first) of nullable Impl
   pointers (None = nullptr; an Impl is its identity, UTCImpl() is 0) *)
Inductive lk_event := LkLock | LkUnlock.
Definition imap := list (list Z * option nat).
Definition utc_impl_ptr : option nat := Some O.
Definition optnat_eqb (a b : option nat) : bool :=
  match a, b with Some x, Some y => Nat.eqb x y | None, None => true | _, _ => false end.
Fixpoint map_find (m : imap) (k : list Z) : option (option nat) :=
  match m with [] => None | (k', v) :: r => if list_eqb k' k then Some v else map_find r k end.
Fixpoint map_set (m : imap) (k : list Z) (v : option nat) : imap :=
  match m with [] => [] | (k', v') :: r => if list_eqb k' k then (k', v) :: r else (k', v') :: map_set r k v end.
(* operator[]: a missing key is inserted with a null pointer *)
Definition map_index (m : imap) (k : list Z) : imap := match map_find m k with Some _ => m | None => (k, None) :: m end.

"""


def emit(out, text, done, failed, force):
    if failed:
        if force and text is not None:
            open(out, "w").write(text)
        return {"written": False, "translated": done, "untranslated": failed, "kept_previous": True}
    changed = not os.path.exists(out) or open(out).read() != text
    if changed:
        open(out, "w").write(text)
    return {"written": changed, "translated": done, "untranslated": failed}


def main():
    out = sys.argv[1] if len(sys.argv) > 1 and not sys.argv[1].startswith("--") else os.path.join(os.path.dirname(__file__), "..", "coq", "SourceLoad.v")
    r = LUnit().run()
    if len(r) == 3:
        print(json.dumps({"written": False, "translated": [], "untranslated": r[2], "kept_previous": True}))
        return
    text, done, failed, ntext, ndone, nfailed = r
    st = emit(out, text, done, failed, "--force" in sys.argv)
    st["names"] = emit(os.path.join(os.path.dirname(out), "SourceNames.v"), ntext, ndone, nfailed, "--force" in sys.argv)
    print(json.dumps(st))


if __name__ == "__main__":
    main()
