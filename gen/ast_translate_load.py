#!/usr/bin/env python3
"""Translator for the LOADER side of src/time_zone_info.cc: clang JSON AST -> Gallina (coq/SourceLoad.v), re-run
on every check.  Sibling of gen/ast_translate_zone.py (whose expression / statement translation it reuses):

  Header::Build, Header::DataLength, TimeZoneInfo::GetTransitionType, TimeZoneInfo::ExtendTransitions,
  TimeZoneInfo::Load(ZoneInfoSource*).

The loader MUTATES the object, so `this` is a state that is threaded through:

 * a non-const member function of TimeZoneInfo takes the object's value on entry, `z : zone` (ZoneLoad.v), reads
   its seven modelled members into variables (transitions_, transition_types_, default_transition_type_,
   abbreviations_, future_spec_, extended_, last_year_), and returns (C++ result, the zone on exit[, further
   state][, outputs]).  version_ (not part of the zone record) and the ZoneInfoSource are further threaded state.
   Header's members may be unset: `oheader` has `option Z` members (reading an unset one is Err Uninit).  A const
   member function gets the value only.  The const query functions (EquivTransitions, LocalTime, the comparators)
   are the source-derived ones of SourceZone.v, called on the zone rebuilt from the current values of the members.
 * std::vector / std::string members are lists: `.size()` `.empty()` `[i]` `.back()` `.front()` (Err OOB when empty)
   `.push_back(x)` `.append(s)` `.append(n, c)` `.assign(p, n)` `.clear()` `.resize(n)` (value-initialised
   elements: zeros and civil_second()) `.reserve(n)` / `.shrink_to_fit()` (no effect on the value).
   `v[i].m = e` rewrites element i (`vec_set`).  `T& r(*v.emplace(v.end()))` / `(v.begin())` inserts the
   value-initialised element and makes r an ALIAS of that element, `T& r(v[i])` an alias of element i: `r.m = e`
   rewrites the element, `r.m` reads it; an alias, a `const T&` snapshot of an element or a `T*` into the vector
   is dropped (its later use makes the function untranslated) as soon as the vector's size changes or, for a
   snapshot, an element is written.  `for (auto& x : v)` is a loop on the index with x an alias of element i.
 * a scalar local declared without initialiser, and an integer output parameter (`std::uint_least8_t* index`),
   is an `option Z` that starts as / is passed in as its current value; reading it while None is `Err Uninit`.
 * the ZoneInfoSource is the list of the bytes it has yet to deliver: `zip->Read(p, n)` takes min(n, remaining)
   bytes and returns how many; `zip->Skip(n)` is ZoneLoad.skip_z and returns 0; `zip->Version()` is a parameter.
   The destinations of Read: a `tzhead` local (an `option (list Z)`: a short read leaves it unreadable), a
   `std::vector<char>` local (n zero bytes, overwritten from the front), an `unsigned char` local.
 * `const char[k]` members of a tzhead are pointers into its 44 bytes (offsets computed from the struct declaration
   in the AST), `v.data()` is a pointer into the byte vector; such pointers are indices with STRICT bounds
   (`cadd`, `byte_at`, `csub`); Decode8/32/64 are the source-derived SourceDecode functions, guarded by `span_ok`
   (the bytes they read lie inside the buffer); `strncmp(p, "literal", k) != 0` with k <= strlen(literal) compares
   the k bytes at p with the literal's; `sizeof` of a tzhead / char array is read off the AST; a conversion to
   plain `char` is the byte (`u8`: the signedness of char is abstracted, as in the pointer translator).
 * `PosixTimeZone posix; ParsePosixSpec(spec, &posix)` is the hand-written parser model PosixImpl.ParsePosixSpec
   (tied to the source-derived parser by SourcePosixProofs.v): posix is an `option posix_tz`, its members are read
   through get_opt (Err Uninit for a member the parser did not write); TransOffset / AllYearDST are the
   source-derived Source64 functions applied to the flattened struct (Source64InfoProofs.flat_trans /
   flat_allyear); IsLeap, ToPosixWeekday, get_weekday are Source64's.
 * a `Transition` local is a record value; `x.m = e` is a functional update; `c ? &a : &b` / `&a` on such locals
   is the VALUE of the pointee at that point, dropped as soon as a pointee is assigned.
 * `const char* p = &abbreviations_[i]` is the C string (cstr_from); `p == str` is list_eqb.
 * a capture-less local lambda whose body is declarations followed by one return is expanded at each call.
 * a loop that contains `return` is a Fixpoint returning (Some result | None, loop state); `while` is a `for`
   without header; when both branches of an `if` that contains a `return` can reach a LARGE rest of the block
   (one with loops in it), that rest is translated once, as a separate function sl_<fn>_k<i> of everything in scope.
 * everything else (checked signed arithmetic, wrapping size_t arithmetic, narrowing through narrow32, loops on
   fuel, if-joins, short-circuit, assert) as in ast_translate_zone.py.

Anything else makes that function 'untranslated' (previous SourceLoad.v kept, fact recorded; not an alarm).
coq/SourceLoadProofs.v ties each function to the hand-written model of ZoneLoad.v."""
import json, os, re, sys

sys.path.insert(0, os.path.dirname(__file__))
from ast_translate import Untranslatable  # noqa: E402
from ast_translate64 import clang_docs, walk, zl, TRANSPARENT, CASTS  # noqa: E402
import ast_translate_zone as ZM  # noqa: E402
from ast_translate_zone import (Fn, B, txt, rebound, mentions, strip, strip_copies, callee_ref, fold, dty, clean,  # noqa: E402
                                 kind_of, int_type, zk, RECORDS, SRC, INT_S, INT_U)

ZONE_MEMBERS = [("transitions_", "vec:tr", "z_trans"), ("transition_types_", "vec:tt", "z_types"),
                ("default_transition_type_", "Z", "z_default"), ("abbreviations_", "str", "z_abbrs"),
                ("future_spec_", "str", "z_future"), ("extended_", "bool", "z_extended"), ("last_year_", "Z", "z_last_year")]
ZONE_CTYPE = {"default_transition_type_": (8, False), "last_year_": (64, True)}
HEADER_MEMBERS = [("timecnt", "oZ", "oh_timecnt"), ("typecnt", "oZ", "oh_typecnt"), ("charcnt", "oZ", "oh_charcnt"),
                  ("leapcnt", "oZ", "oh_leapcnt"), ("ttisstdcnt", "oZ", "oh_isstdcnt"), ("ttisutcnt", "oZ", "oh_isutcnt")]
OWNERS = {"TimeZoneInfo": ("z", "zone", "mkZone", ZONE_MEMBERS), "Header": ("h", "oheader", "mkOH", HEADER_MEMBERS)}
XSTATE_MEMBERS = {"version_": "str"}          # members of TimeZoneInfo outside the zone record: threaded separately
PTZ_FIELDS = {"std_abbr": "str", "std_offset": "oZ", "dst_abbr": "str", "dst_offset": "oZ", "dst_start": "ptrans", "dst_end": "ptrans"}
# source-derived functions of other generated files: name -> (Gallina name, parameter kinds, result kind, fuel)
EXTERNAL = {"IsLeap": ("Source64.s64_IsLeap", ["Z"], "bool", False),
            "ToPosixWeekday": ("Source64.s64_ToPosixWeekday", ["Z"], "Z", False),
            "get_weekday": ("Source64.s64_get_weekday", ["cs"], "Z", False),
            "TransOffset": ("Source64InfoProofs.flat_trans", ["bool", "Z", "ptrans"], "Z", False),
            "AllYearDST": ("Source64InfoProofs.flat_allyear", ["ptz"], "bool", False)}
# the byte decoders of SourceDecode.v and the number of bytes each reads from its argument (SourceDecode reads through the
# C-string convention of the pointer translator - index length is a readable NUL - so the span is checked here)
DECODE = {"Decode32": ("SourceDecode.sd_Decode32", 4), "Decode64": ("SourceDecode.sd_Decode64", 8), "Decode8": ("SourceDecode.sd_Decode8", 1)}
# const member functions translated in SourceZone.v: (name, parameter kinds) -> (Gallina name, result kind)
ZONE_QUERIES = {("EquivTransitions", ("Z", "Z")): ("sz_EquivTransitions", "bool"),
                ("LocalTime", ("Z", "tt")): ("sz_LocalTime_i64_tt", "al"),
                ("LocalTime", ("Z", "tr")): ("sz_LocalTime_i64_tr", "al")}
TARGETS = [("Header::Build", "Build", "Header"), ("Header::DataLength", "DataLength", "Header"),
           ("GetTransitionType", "GetTransitionType", "TimeZoneInfo"), ("ExtendTransitions", "ExtendTransitions", "TimeZoneInfo"),
           ("TimeZoneInfo::Load", "Load", "TimeZoneInfo")]

ZM.GTYPE.update({"vec:tr": "list transition", "vec:tt": "list ttype", "str": "list Z", "oZ": "option Z", "optz": "option posix_tz",
                 "ptz": "posix_tz", "ptrans": "ptrans", "lref": "transition", "bytes": "list Z", "otzh": "option (list Z)",
                 "ohdr": "oheader", "cvec": "list Z", "zip": "list Z", "ttptr": "Z"})
# C++ locals that would capture an identifier the translation itself emits get a trailing underscore
ZM.RESERVED |= {p for r in RECORDS.values() for _, p in r[4]} | {p for _, _, p in ZONE_MEMBERS + HEADER_MEMBERS} | set(PTZ_FIELDS) | \
    {"fy", "fm", "fd", "fhh", "fmm", "fss", "h", "repeat", "length", "firstn", "skipn", "nth_res", "vec_size", "vec_empty", "vec_back",
     "vec_set", "cstr_from", "get_opt", "list_eqb", "b2z", "u8", "u16", "u32", "u64", "narrow8", "narrow32", "pt_date", "pt_time"}
_zone_classify = ZM.classify


def lclassify(s):
    if s in ("std::basic_string<char>", "std::string"):
        return "str"
    if s == "std::vector<cctz::Transition>":
        return "vec:tr"
    if s == "std::vector<cctz::TransitionType>":
        return "vec:tt"
    if s == "tzhead":
        return "tzhead"
    if re.match(r"^char\[\d+\]$", s):
        return "chararr"
    if s == "cctz::PosixTimeZone":
        return "optz"
    if s == "cctz::PosixTimeZone *":
        return "optz*"
    if s == "cctz::PosixTransition":
        return "ptrans"
    if s in ("cctz::detail::weekday", "enum cctz::detail::weekday"):
        return "Z"
    if s in ("unsigned char *", "std::uint_least8_t *"):
        return "outz"
    if s == "cctz::(anonymous namespace)::Header":
        return "ohdr"
    if s == "std::vector<char>":
        return "cvec"
    if s == "cctz::ZoneInfoSource *":
        return "zip"
    if s == "cctz::TransitionType *":
        return "ttptr"
    if s == "char *":
        return "abbr"                      # refined by the initialiser (a pointer into a local byte buffer is cptr:<buf>)
    if s == "void *":
        return "voidp"
    if s.startswith("(lambda at "):
        return "lambda"
    return _zone_classify(s)


ZM.classify = lclassify
_zone_int_type = ZM.int_type


def l_int_type(n):
    if dty(n) in ("cctz::detail::weekday", "enum cctz::detail::weekday"):
        return 32, True
    return _zone_int_type(n)


ZM.int_type = l_int_type
int_type = l_int_type


def record_layout(name):
    """byte offsets of the char-array members of a plain struct (no padding: every member is a char array)"""
    for d in clang_docs(name, SRC):
        for m in walk(d):
            if m.get("kind") == "CXXRecordDecl" and m.get("name") == name and m.get("completeDefinition"):
                off, out = 0, {}
                for c in m.get("inner", []):
                    if c.get("kind") == "FieldDecl":
                        mt = re.match(r"^char\[(\d+)\]$", clean(c.get("type", {}).get("qualType", "")))
                        if not mt:
                            raise Untranslatable("member %s of %s" % (c.get("name"), name))
                        out[c["name"]] = (off, int(mt.group(1)))
                        off += int(mt.group(1))
                return out, off
    raise Untranslatable("record " + name)


def ctor_defaults():
    """default arguments of civil_time(year_t y, diff_t m = 1, ...): list of 6 (None for y)"""
    found = set()
    for d in clang_docs("civil_time::civil_time", SRC):
        for m in walk(d):
            if m.get("kind") == "CXXConstructorDecl":
                ps = [c for c in m.get("inner", []) if c.get("kind") == "ParmVarDecl"]
                if len(ps) == 6 and all(clean(p.get("type", {}).get("desugaredQualType") or p.get("type", {}).get("qualType")) in ("long", "cctz::year_t", "cctz::diff_t") for p in ps):
                    vals = tuple(fold(p["inner"][-1]) if p.get("inner") else None for p in ps)
                    found.add(vals)
    if len(found) != 1:
        raise Untranslatable("default arguments of the civil_time constructor")
    return list(found.pop())


class LFn(Fn):
    def __init__(self, key, ast, owner, unit):
        Fn.__init__(self, key, ast, None, unit)
        self.owner = owner
        self.gname = "sl_" + key
        self.this_var, self.this_type, self.this_ctor, self.members = OWNERS[owner]
        self.mkinds = {m: k for m, k, _ in self.members}
        self.const_method = re.search(r"\)\s*const\s*$", ast.get("type", {}).get("qualType", "")) is not None
        self.member = True
        self.refs = {}                 # alias of a vector element: name -> (vector variable, index term, element kind)
        self.snaps = {}                # const-reference snapshot of a vector element: name -> vector variable
        self.lrefs = {}                # value of a pointee local: name -> set of locals
        self.bufs = {}                 # pointer parameter / tzhead parameter -> buffer variable
        self.outz = []                 # integer output parameters (option Z)
        self.xstates = []              # further threaded state: members outside the zone record, the ZoneInfoSource
        self.zipalias = {}             # lambda parameter -> the ZoneInfoSource variable it is called with
        self.lambdas = {}              # local lambda -> (parameter names, body)
        self.cptrs = {}                # pointer variable into a local byte buffer -> buffer
        self.vptrs = {}                # pointer variable into a vector member -> vector
        self.uses_version = any(m.get("kind") == "MemberExpr" and m.get("name") == "Version" for m in walk(self.body))
        self.nlam = 0
        self.fuel = any(m.get("kind") in ("ForStmt", "WhileStmt", "DoStmt") for m in walk(self.body))

    # ------------------------------------------------------------ state
    def zone_term(self):
        return "(%s %s)" % (self.this_ctor, " ".join(m for m, _, _ in self.members))

    def ret_tuple(self, val):
        parts = [val] + ([] if self.const_method else [self.zone_term()]) + list(self.xstates) + list(self.outz)
        return parts[0] if len(parts) == 1 else "(%s)" % ", ".join(parts)

    def ret_type(self):
        parts = [ZM.GTYPE[zk(self.ret_kind)]] + ([] if self.const_method else [self.this_type]) + \
            [ZM.GTYPE[self.kinds[x]] for x in self.xstates] + ["option Z"] * len(self.outz)
        return " * ".join(parts)

    def state_vars(self):
        """everything a `return` hands back"""
        return ([] if self.const_method else [m for m, _, _ in self.members]) + list(self.xstates) + list(self.outz)

    def kill(self, names, scope):
        for n in names:
            if n in scope:
                scope.remove(n)

    def vec_resized(self, vec, scope):
        self.kill([n for n, (v, _, _) in self.refs.items() if v == vec] + [n for n, v in self.snaps.items() if v == vec] +
                  [n for n, v in self.vptrs.items() if v == vec], scope)

    def buf_written(self, buf, scope):
        self.kill([n for n, b in self.cptrs.items() if b == buf], scope)

    def vec_written(self, vec, scope):
        self.kill([n for n, v in self.snaps.items() if v == vec], scope)

    def local_assigned(self, name, scope):
        self.kill([n for n, src in self.lrefs.items() if name in src], scope)

    # ------------------------------------------------------------ lvalues
    def this_member(self, n):
        n = strip(n)
        if n.get("kind") == "MemberExpr" and strip(n["inner"][0]).get("kind") == "CXXThisExpr" and \
                (n.get("name") in self.mkinds or n.get("name") in self.xstates):
            return n["name"]
        return None

    def zip_var(self, n):
        """the ZoneInfoSource state variable a pointer expression designates"""
        n = strip(n)
        if n.get("kind") == "DeclRefExpr":
            v = n.get("referencedDecl", {}).get("name")
            v = self.zipalias.get(v, v)
            if self.kinds.get(v) == "zip":
                return v
        return None

    def local_of(self, n, kind):
        n = strip(n)
        if n.get("kind") == "DeclRefExpr":
            v = n.get("referencedDecl", {}).get("name")
            if self.kinds.get(v) == kind:
                return v
        return None

    def place(self, n, scope):
        m = self.this_member(n)
        if m is not None:
            return m
        s = strip(n)
        if s.get("kind") == "UnaryOperator" and s.get("opcode") == "*":
            p = strip(s["inner"][0])
            if p.get("kind") == "DeclRefExpr" and p.get("referencedDecl", {}).get("name") in self.outz:
                return p["referencedDecl"]["name"]
        if s.get("kind") == "DeclRefExpr" and (s.get("referencedDecl", {}).get("name") in self.refs or s.get("referencedDecl", {}).get("name") in self.outz):
            return None
        return Fn.place(self, n, scope)

    def assign(self, v, b, t, kd, scope, n=None):
        if self.kinds.get(v) == "oZ":
            if kd not in ("Z", "bool"):
                raise Untranslatable("assignment of a %s to %s" % (kd, v))
            return b + [B("let %s := Some %s in\n" % (v, self.as_z(t, kd)), v)]
        if self.kinds.get(v) == "str" and kd == "str" and v in scope:
            self.vec_resized(v, scope)
            return b + [B("let %s := %s in\n" % (v, t), v)]
        if self.kinds.get(v, "").startswith("vec:") or self.kinds.get(v) == "str":
            raise Untranslatable("assignment to the container " + v)
        if self.kinds.get(v) == "ttptr":
            if kd != "ttptr" or v not in scope:
                raise Untranslatable("assignment to " + v)
            return b + [B("let %s := %s in\n" % (v, t), v)]
        out = Fn.assign(self, v, b, t, kd, scope, n)
        if self.kinds.get(v) == "tr":
            self.local_assigned(v, scope)
        return out

    def field_target(self, lhs, scope):
        """lhs designates a member of a record local, of an aliased vector element or of v[i]:
           ('local', var, member) / ('ref', name, member) / ('elem', vector, index node, element kind, member)"""
        lhs = strip(lhs)
        if lhs.get("kind") != "MemberExpr" or lhs.get("isArrow"):
            return None
        base = strip(lhs["inner"][0])
        if base.get("kind") == "CXXOperatorCallExpr" and callee_ref(base).get("referencedDecl", {}).get("name") == "operator[]":
            vk = self.vec_of(base["inner"][1], scope)
            if vk is not None and vk[1].startswith("vec:"):
                return ("elem", vk[0], base["inner"][2], vk[1][4:], lhs.get("name"))
            return None
        if base.get("kind") != "DeclRefExpr":
            return None
        r = base.get("referencedDecl", {}).get("name")
        if r in self.refs:
            return ("ref", r, lhs.get("name"))
        if self.kinds.get(r) in ("tr", "tt") and r in scope and r not in self.snaps:
            return ("local", r, lhs.get("name"))
        return None

    def record_with(self, kd, x, member, val):
        rec = RECORDS[kd]
        if member not in [c for c, _ in rec[4]]:
            raise Untranslatable("member " + str(member))
        return "(%s %s)" % (rec[3], " ".join(val if c == member else "(%s %s)" % (p, x) for c, p in rec[4]))

    def assign_field(self, tgt, lhs, rhs, scope):
        ib, it = [], None
        if tgt[0] == "elem":                                       # the index is evaluated like any operand
            ib, it, ik = self.expr(tgt[2], scope)
            if ik != "Z" or int_type(tgt[2]) != (64, False):
                raise Untranslatable("index type")
        b, t, kd = self.expr(rhs, scope)
        fk = zk(kind_of(lhs))
        if fk == "Z":
            if kd not in ("Z", "bool"):
                raise Untranslatable("assignment of a " + kd)
            t = self.as_z(t, kd)
        elif fk == "bool":
            t = self.as_b(t, kd)
        elif fk != zk(kd):
            raise Untranslatable("assignment of a %s to a %s member" % (kd, fk))
        if tgt[0] == "local":
            _, v, member = tgt
            if any(x.var == v for x in b):
                raise Untranslatable("unsequenced modification of " + v)
            out = b + [B("let %s := %s in\n" % (v, self.record_with(self.kinds[v], v, member, t)), v)]
            self.local_assigned(v, scope)
            return out, t, fk
        if tgt[0] == "elem":
            _, vec, _, ek, member = tgt
            binds = self.unseq(ib, it, b, t)
            if any(x.var == vec for x in binds):
                raise Untranslatable("unsequenced modification of " + vec)
            idx = it
        else:
            _, r, member = tgt
            if r not in scope:
                raise Untranslatable("use of the reference %s after its vector changed" % r)
            vec, idx, ek = self.refs[r]
            binds = b
        x, y = self.fresh(), self.fresh()
        out = binds + [B("do %s <- nth_res %s %s ;;\n" % (x, vec, idx)),
                       B("do %s <- vec_set %s %s %s ;;\n" % (y, vec, idx, self.record_with(ek, x, member, t))),
                       B("let %s := %s in\n" % (vec, y), vec)]
        self.vec_written(vec, scope)
        return out, t, fk

    # ------------------------------------------------------------ expressions
    def read_var(self, v, scope):
        b, t, kd = Fn.read_var(self, v, scope)
        if kd == "oZ":
            x = self.fresh()
            return [B("do %s <- get_opt %s ;;\n" % (x, v))], x, "Z"
        if kd == "lref":
            return b, t, "tr"
        if kd == "otzh":
            x = self.fresh()
            return [B("do %s <- get_opt %s ;;\n" % (x, v))], x, "bytes"
        if kd == "tzhead":
            return b, t, "bytes"
        return b, t, kd

    def declref(self, n, scope):
        name = n.get("referencedDecl", {}).get("name")
        if name in self.refs:
            if name not in scope:
                raise Untranslatable("use of the reference %s after its vector changed" % name)
            vec, idx, ek = self.refs[name]
            x = self.fresh()
            return [B("do %s <- nth_res %s %s ;;\n" % (x, vec, idx))], x, ek
        if name in self.outz:
            raise Untranslatable("use of the output pointer %s as a value" % name)
        if self.kinds.get(name) == "optz":
            if name not in scope:
                raise Untranslatable("read of " + str(name))
            x = self.fresh()
            return [B("do %s <- get_opt %s ;;\n" % (x, name))], x, "ptz"
        if self.kinds.get(name) in ("zip", "lambda", "cvec") or name in self.zipalias:
            raise Untranslatable("use of %s as a value" % name)
        return Fn.declref(self, n, scope)

    def member_expr(self, n, scope):
        m = self.this_member(n)
        if m is not None:
            return self.read_var(m, scope)
        base = strip(n["inner"][0])
        bname = base.get("referencedDecl", {}).get("name") if base.get("kind") == "DeclRefExpr" else None
        bk = self.kinds.get(bname) if bname is not None else None
        if bk == "optz" and not n.get("isArrow"):
            f = n.get("name")
            if f not in PTZ_FIELDS:
                raise Untranslatable("member %s of PosixTimeZone" % f)
            b, p, _ = self.declref(base, scope)
            if PTZ_FIELDS[f] == "oZ":
                x = self.fresh()
                return b + [B("do %s <- get_opt (%s %s) ;;\n" % (x, f, p))], x, "Z"
            return b, "(%s %s)" % (f, p), PTZ_FIELDS[f]
        if bk in ("tzhead", "otzh") and not n.get("isArrow"):
            lay, _ = self.unit.tzhead
            if n.get("name") not in lay:
                raise Untranslatable("member of tzhead")
            b, t, _ = self.read_var(bname, scope)
            return b, zl(lay[n["name"]][0]), "cptr:" + t
        if bk == "ohdr" and not n.get("isArrow"):
            for cname, _, proj in HEADER_MEMBERS:
                if cname == n.get("name"):
                    if bname not in scope:
                        raise Untranslatable("read of " + bname)
                    x = self.fresh()
                    return [B("do %s <- get_opt (%s %s) ;;\n" % (x, proj, bname))], x, "Z"
            raise Untranslatable("member of Header")
        if bk == "lref" and n.get("isArrow"):
            b, t, _ = self.read_var(bname, scope)
            for cname, proj in RECORDS["tr"][4]:
                if cname == n.get("name"):
                    return b, "(%s %s)" % (proj, t), zk(kind_of(n))
        return Fn.member_expr(self, n, scope)

    def cast(self, n, scope):
        ck = n.get("castKind")
        if ck == "ArrayToPointerDecay":
            b, t, kd = self.expr(n["inner"][-1], scope)
            if kd.startswith("cptr:"):
                return b, t, kd
            raise Untranslatable("array decay of a " + kd)
        if ck == "BitCast" and dty(n) == "void *":
            return self.expr(n["inner"][-1], scope)
        if ck == "IntegralCast" and dty(n) == "char":
            b, t, kd = self.expr(n["inner"][-1], scope)        # a byte: the signedness of plain char is abstracted
            if kd != "Z":
                raise Untranslatable("conversion of a %s to char" % kd)
            c = fold(n["inner"][-1])
            return b, (t if c is not None and 0 <= c <= 255 else "(u8 %s)" % t), "Z"
        b, t, kd = Fn.cast(self, n, scope)
        return b, t, kd

    def construct(self, n, scope):
        inner = n.get("inner", [])
        if kind_of(n) == "cs" and len(inner) == 6 and any(a.get("kind") == "CXXDefaultArgExpr" for a in inner):
            binds, terms = [], []
            for a, dflt in zip(inner, self.unit.ctor_defaults):
                if a.get("kind") == "CXXDefaultArgExpr":
                    if dflt is None:
                        raise Untranslatable("default argument")
                    terms.append(zl(dflt))
                    continue
                if int_type(a) != (64, True):
                    raise Untranslatable("civil_second constructor argument type")
                b, t, k1 = self.expr(a, scope)
                if rebound(b):
                    raise Untranslatable("argument with a side effect")
                binds += b
                terms.append(self.as_z(t, k1))
            x = self.fresh()
            return binds + [B("do %s <- construct64 0 %s ;;\n" % (x, " ".join(terms)))], x, "cs"
        return Fn.construct(self, n, scope)

    def vec_of(self, n, scope):
        """(variable, kind) if n designates a container member of this"""
        m = self.this_member(n)
        if m is not None and (self.mkinds[m].startswith("vec:") or self.mkinds[m] == "str"):
            if m not in scope:
                raise Untranslatable("read of " + m)
            return m, self.mkinds[m]
        return None

    def dflt_elem(self, ek):
        cd = self.unit.civil_default
        return {"tr": "(mkTr 0 0 %s %s)" % (cd, cd), "tt": "(mkTT 0 %s %s false 0)" % (cd, cd)}[ek]

    def zip_call(self, zv, name, args, scope):
        """Read / Skip / Version on the ZoneInfoSource: the source is the list of the bytes it has yet to deliver"""
        if zv not in scope:
            raise Untranslatable("read of " + zv)
        if name == "Version" and not args:
            return [], "zip__version", "str"
        if name == "Skip" and len(args) == 1:
            b, t, kd = self.expr(args[0], scope)
            if kd != "Z" or int_type(args[0]) != (64, False):
                raise Untranslatable("argument of Skip")
            return b + [B("let %s := skip_z %s %s in\n" % (zv, t, zv), zv)], "0", "Z"
        if name == "Read" and len(args) == 2:
            bn, tn, kn = self.expr(args[1], scope)
            if kn != "Z" or int_type(args[1]) != (64, False) or rebound(bn):
                raise Untranslatable("count of Read")
            dest = args[0]
            while dest.get("kind") in TRANSPARENT or dest.get("kind") in CASTS:
                dest = dest["inner"][-1]
            g = self.fresh()
            binds = bn + [B("let %s := firstn (Z.to_nat %s) %s in\n" % (g, tn, zv)),
                          B("let %s := skipn (Z.to_nat %s) %s in\n" % (zv, tn, zv), zv)]
            c = fold(args[1])
            if c is None and re.match(r"^\d+$", tn):
                c = int(tn)                                          # a sizeof
            if dest.get("kind") == "UnaryOperator" and dest.get("opcode") == "&":
                v = self.local_of(dest["inner"][0], "otzh")
                if v is not None and v in scope and c == self.unit.tzhead[1]:
                    # a short read leaves the rest of the struct indeterminate: the whole of it is then unreadable
                    binds.append(B("let %s := (if vec_size %s =? %s then Some %s else None) in\n" % (v, g, tn, g), v))
                    return binds, "(vec_size %s)" % g, "Z"
                v = self.local_of(dest["inner"][0], "oZ")
                if v is not None and v in scope and c == 1 and self.ctype.get(v) == (8, False):
                    binds.append(B("let %s := (match %s with c_ :: _ => Some c_ | [] => %s end) in\n" % (v, g, v), v))
                    return binds, "(vec_size %s)" % g, "Z"
            if dest.get("kind") == "CXXMemberCallExpr" and dest["inner"][0].get("name") == "data" and len(dest["inner"]) == 1:
                v = self.local_of(dest["inner"][0]["inner"][0], "cvec")
                if v is not None and v in scope:
                    self.buf_written(v, scope)
                    binds.append(B("do _ <- span_ok %s 0 %s ;;\n" % (v, tn)))
                    binds.append(B("let %s := %s ++ skipn (length %s) %s in\n" % (v, g, g, v), v))
                    return binds, "(vec_size %s)" % g, "Z"
            raise Untranslatable("destination of Read")
        raise Untranslatable("call of ZoneInfoSource::" + str(name))

    def object_call(self, v, name, args, scope):
        """member call on a local Header object"""
        info = self.unit.known.get(name)
        if info is None or info["owner"] != "Header" or len(args) != len(info["params"]) or v not in scope:
            raise Untranslatable("member call %s on a Header" % name)
        binds, terms = [], []
        for a, (pname, pkind) in zip(args, info["params"]):
            b, t, kd = self.expr(a, scope)
            if zk(kd) != zk(pkind):
                raise Untranslatable("argument %s of %s is a %s" % (pname, name, kd))
            if rebound(b):
                raise Untranslatable("argument with a side effect")
            binds += b
            terms.append(t)
        r = self.fresh()
        head = info["gname"] + (" fuel" if info["fuel"] else "")
        if info["const"]:
            return binds + [B("do %s <- %s %s %s ;;\n" % (r, head, v, " ".join(terms)))], r, info["ret"]
        return binds + [B("do '(%s, %s) <- %s %s %s ;;\n" % (r, v, head, v, " ".join(terms))), B("", v)], r, info["ret"]

    def member_call(self, n, scope):
        inner = n["inner"]
        me = inner[0]
        if me.get("kind") != "MemberExpr":
            raise Untranslatable("member call")
        name, args = me.get("name"), inner[1:]
        if strip(me["inner"][0]).get("kind") == "CXXThisExpr":
            return self.call_member(name, args, scope)
        zv = self.zip_var(me["inner"][0])
        if zv is not None:
            return self.zip_call(zv, name, args, scope)
        ov = self.local_of(me["inner"][0], "ohdr")
        if ov is not None:
            return self.object_call(ov, name, args, scope)
        cv = self.local_of(me["inner"][0], "cvec")
        if cv is not None and cv in scope and not args:
            if name == "data":
                return [], "0", "cptr:" + cv
            if name == "size":
                return [], "(vec_size %s)" % cv, "Z"
        vk = self.vec_of(me["inner"][0], scope)
        if vk is not None:
            v, kd = vk
            if name == "size" and not args:
                return [], "(vec_size %s)" % v, "Z"
            if name == "empty" and not args:
                return [], "(vec_empty %s)" % v, "bool"
            if name in ("back", "front") and not args and kd.startswith("vec:"):
                x = self.fresh()
                return [B("do %s <- vec_%s %s ;;\n" % (x, name, v))], x, kd[4:]
            if name == "reserve" and len(args) == 1:
                b, t, k1 = self.expr(args[0], scope)
                if k1 != "Z" or int_type(args[0]) != (64, False):
                    raise Untranslatable("argument of reserve")
                self.vec_resized(v, scope)
                return b, "tt", "void"
            if name == "shrink_to_fit" and not args:
                self.vec_resized(v, scope)
                return [], "tt", "void"
            if name == "clear" and not args:
                self.vec_resized(v, scope)
                return [B("let %s := [] in\n" % v, v)], "tt", "void"
            if name == "resize" and len(args) == 1 and kd.startswith("vec:"):
                b, t, k1 = self.expr(args[0], scope)
                if k1 != "Z" or int_type(args[0]) != (64, False) or rebound(b):
                    raise Untranslatable("argument of resize")
                self.vec_resized(v, scope)
                return b + [B("let %s := vec_resize %s %s %s in\n" % (v, v, t, self.dflt_elem(kd[4:])), v)], "tt", "void"
            if name == "push_back" and len(args) == 1:
                b, t, k1 = self.expr(args[0], scope)
                if not (kd.startswith("vec:") and k1 == kd[4:]) and not (kd == "str" and k1 == "Z" and dty(args[0]) == "char"):
                    raise Untranslatable("push_back of a " + k1)
                self.vec_resized(v, scope)
                return b + [B("let %s := %s ++ [%s] in\n" % (v, v, t), v)], "tt", "void"
            if name == "append" and kd == "str" and len(args) == 1:
                b, t, k1 = self.expr(args[0], scope)
                if k1 != "str":
                    raise Untranslatable("append of a " + k1)
                self.vec_resized(v, scope)
                return b + [B("let %s := %s ++ %s in\n" % (v, v, t), v)], "tt", "void"
            if name in ("append", "assign") and kd == "str" and len(args) == 2:
                b1, t1, k1 = self.expr(args[0], scope)
                b2, t2, k2 = self.expr(args[1], scope)
                if rebound(b1 + b2):
                    raise Untranslatable("argument with a side effect")
                if name == "append" and k1 == "Z" and k2 == "Z" and int_type(args[0]) == (64, False):
                    self.vec_resized(v, scope)
                    return b1 + b2 + [B("let %s := %s ++ repeat %s (Z.to_nat %s) in\n" % (v, v, t2, t1), v)], "tt", "void"
                if name == "assign" and k1.startswith("cptr:") and k2 == "Z" and int_type(args[1]) == (64, False):
                    x = self.fresh()
                    self.vec_resized(v, scope)
                    return b1 + b2 + [B("do %s <- csub %s %s %s ;;\n" % (x, k1[5:], t1, t2)), B("let %s := %s in\n" % (v, x), v)], "tt", "void"
                raise Untranslatable("arguments of " + name)
            raise Untranslatable("member call .%s on a container" % name)
        base = strip(me["inner"][0])
        if base.get("kind") == "MemberExpr" and name == "empty" and not args:
            b, t, kd = self.expr(me["inner"][0], scope)
            if kd == "str":
                return b, "(vec_empty %s)" % t, "bool"
        return Fn.member_call(self, n, scope)

    def out_arg(self, a, scope):
        """&x for an option-Z local x"""
        a = strip(a)
        if a.get("kind") == "UnaryOperator" and a.get("opcode") == "&":
            t = strip(a["inner"][0])
            v = t.get("referencedDecl", {}).get("name") if t.get("kind") == "DeclRefExpr" else None
            if v is not None and self.kinds.get(v) == "oZ" and v in scope:
                return v
        return None

    def rebind_this(self, zvar):
        out = []
        for m, _, proj in self.members:
            out.append(B("let %s := %s %s in\n" % (m, proj, zvar), m))
        return out

    def call_member(self, name, args, scope):
        """call of a member function on this: a loader function translated here, or a const query of SourceZone.v"""
        if self.owner != "TimeZoneInfo":
            raise Untranslatable("member call " + str(name))
        info = self.unit.known.get(name)
        for m, _, _ in self.members:
            if m not in scope:
                raise Untranslatable("member %s is not readable here" % m)
        if info is not None and info["owner"] == "TimeZoneInfo":
            if info.get("xstates"):
                raise Untranslatable("call of a function that threads further state")
            if len(args) != len(info["params"]) + len(info["outz"]):
                raise Untranslatable("argument count of " + name)
            binds, terms, parts, outs = [], [], [], []
            for a, (pname, pkind) in zip(args, info["params"] + [(o, "outz") for o in info["outz"]]):
                if pkind == "outz":
                    v = self.out_arg(a, scope)
                    if v is None:
                        raise Untranslatable("output argument of " + name)
                    outs.append(v)
                    continue
                b, t, kd = self.expr(a, scope)
                if zk(kd) != zk(pkind) and not (pkind == "Z" and kd == "bool"):
                    raise Untranslatable("argument %s of %s is a %s" % (pname, name, kd))
                for (b0, t0) in parts:
                    self.unseq(b0, t0, b, t)
                if any(x.var in self.mkinds for x in b):
                    raise Untranslatable("argument that modifies the object")
                parts.append((b, t))
                binds += b
                terms.append(self.as_z(t, kd) if pkind == "Z" else t)
            r, z1 = self.fresh(), self.fresh()
            pat = [r] + ([] if info["const"] else [z1]) + outs
            head = info["gname"] + (" fuel" if info["fuel"] else "")
            out = binds + [B("do %s <- %s %s %s ;;\n" % ("'(%s)" % ", ".join(pat) if len(pat) > 1 else r, head, self.zone_term(), " ".join(terms + outs)))]
            out += [B("", o) for o in outs]
            if not info["const"]:
                out += self.rebind_this(z1)
                for m, k, _ in self.members:
                    if k.startswith("vec:") or k == "str":
                        self.vec_resized(m, scope)
            return out, r, info["ret"]
        try:
            kinds = tuple(zk(kind_of(a)) for a in args)
        except Untranslatable:
            kinds = None
        q = ZONE_QUERIES.get((name, kinds))
        if q is None:
            raise Untranslatable("member call " + str(name))
        binds, terms, parts = [], [], []
        for a in args:
            b, t, kd = self.expr(a, scope)
            for (b0, t0) in parts:
                self.unseq(b0, t0, b, t)
            if rebound(b):
                raise Untranslatable("argument with a side effect")
            parts.append((b, t))
            binds += b
            terms.append(self.as_z(t, kd) if kd in ("Z", "bool") and zk(kind_of(a)) == "Z" else t)
        r = self.fresh()
        return binds + [B("do %s <- %s %s %s ;;\n" % (r, q[0], self.zone_term(), " ".join(terms)))], r, q[1]

    def call(self, n, scope):
        c = callee_ref(n)
        ref = c.get("referencedDecl", {})
        name, args = ref.get("name"), n["inner"][1:]
        if name in DECODE and len(args) == 1:
            b, t, kd = self.expr(args[0], scope)
            if not kd.startswith("cptr:"):
                raise Untranslatable("argument of " + name)
            x = self.fresh()
            return b + [B("do _ <- span_ok %s %s %d ;;\n" % (kd[5:], t, DECODE[name][1])),
                        B("do %s <- %s fuel %s %s ;;\n" % (x, DECODE[name][0], kd[5:], t))], x, "Z"
        if name == "ParsePosixSpec" and len(args) == 2:
            b, t, kd = self.expr(args[0], scope)
            a = strip(args[1])
            tgt = strip(a["inner"][0]) if a.get("kind") == "UnaryOperator" and a.get("opcode") == "&" else {}
            v = tgt.get("referencedDecl", {}).get("name") if tgt.get("kind") == "DeclRefExpr" else None
            if kd != "str" or v is None or self.kinds.get(v) != "optz" or v not in scope or rebound(b):
                raise Untranslatable("arguments of ParsePosixSpec")
            return b + [B("let %s := ParsePosixSpec %s in\n" % (v, t), v)], "(match %s with Some _ => true | None => false end)" % v, "bool"
        if name in EXTERNAL and ref.get("kind") == "FunctionDecl":
            gname, pk, rk, fuel = EXTERNAL[name]
            if len(args) != len(pk):
                raise Untranslatable("argument count of " + name)
            binds, terms, parts = [], [], []
            for a, k in zip(args, pk):
                b, t, kd = self.expr(a, scope)
                if zk(kd) != k and not (k == "Z" and kd == "bool"):
                    raise Untranslatable("argument of %s is a %s" % (name, kd))
                for (b0, t0) in parts:
                    self.unseq(b0, t0, b, t)
                parts.append((b, t))
                binds += b
                terms.append(self.as_z(t, kd) if k == "Z" else t)
            x = self.fresh()
            return binds + [B("do %s <- %s %s ;;\n" % (x, gname, " ".join(terms)))], x, rk
        return Fn.call(self, n, scope)

    def lambda_call(self, name, args, scope):
        """a capture-less local lambda whose body is declarations followed by one return: expanded in place"""
        params, body = self.lambdas[name]
        if len(args) != len(params):
            raise Untranslatable("arguments of the lambda " + name)
        saved = dict(self.zipalias)
        for pn, a in zip(params, args):
            zv = self.zip_var(a)
            if zv is None:
                raise Untranslatable("argument of the lambda " + name)
            self.zipalias[pn] = zv
        self.nlam += 1
        body = json.loads(json.dumps(body))
        ren = {}
        for m in walk(body):
            if m.get("kind") == "VarDecl":
                ren[m["name"]] = "%s_%d" % (m["name"], self.nlam)
        for m in walk(body):
            if m.get("kind") == "VarDecl":
                m["name"] = ren[m["name"]]
            ref = m.get("referencedDecl")
            if isinstance(ref, dict) and ref.get("kind") == "VarDecl" and ref.get("name") in ren:
                ref["name"] = ren[ref["name"]]
        stmts = self.body_list(body)
        if not stmts or stmts[-1].get("kind") != "ReturnStmt" or any(x.get("kind") != "DeclStmt" for x in stmts[:-1]):
            raise Untranslatable("body of the lambda " + name)
        binds = []
        for st in stmts[:-1]:
            for vd in st.get("inner", []):
                binds += self.decl(vd, scope)
        b, t, kd = self.expr(stmts[-1]["inner"][0], scope)
        self.zipalias = saved
        return binds + b, t, kd

    def operator_call(self, n, scope):
        inner = n["inner"]
        op = callee_ref(n).get("referencedDecl", {}).get("name")
        args = inner[1:]
        if op == "operator()" and args:
            obj = strip(args[0])
            if obj.get("kind") == "DeclRefExpr" and obj.get("referencedDecl", {}).get("name") in self.lambdas \
                    and obj["referencedDecl"]["name"] in scope:
                return self.lambda_call(obj["referencedDecl"]["name"], args[1:], scope)
            try:
                ck = kind_of(args[0])
            except Untranslatable:
                ck = ""
            if ck.startswith("cmp:") and len(args) == 3 and ck[4:] in ("ByUnixTime", "ByCivilTime"):
                b1, t1, k1 = self.expr(args[1], scope)
                b2, t2, k2 = self.expr(args[2], scope)
                if k1 != "tr" or k2 != "tr":
                    raise Untranslatable("arguments of the comparator")
                return self.unseq(b1, t1, b2, t2), "(sz_%s %s %s)" % (ck[4:], t1, t2), "bool"
        if op == "operator=" and len(args) == 2:
            tgt = self.field_target(args[0], scope)
            if tgt is not None:
                return self.assign_field(tgt, args[0], args[1], scope)
        if op == "operator[]" and len(args) == 2:
            vk = self.vec_of(args[0], scope)
            if vk is not None and vk[1].startswith("vec:"):
                ib, it, ik = self.expr(args[1], scope)
                if ik != "Z" or int_type(args[1]) != (64, False):
                    raise Untranslatable("index type")
                x = self.fresh()
                return ib + [B("do %s <- nth_res %s %s ;;\n" % (x, vk[0], it))], x, vk[1][4:]
        if op == "operator==" and len(args) == 2:
            try:
                k1, k2 = kind_of(args[0]), kind_of(args[1])
            except Untranslatable:
                k1 = k2 = None
            if (k1, k2) in (("abbr", "str"), ("str", "abbr")):
                b1, t1, e1 = self.expr(args[0], scope)
                b2, t2, e2 = self.expr(args[1], scope)
                if not (e1 in ("abbr", "str") and e2 in ("abbr", "str")):
                    raise Untranslatable("comparison of a %s with a %s" % (e1, e2))
                return self.unseq(b1, t1, b2, t2), "(list_eqb %s %s)" % ((t1, t2) if k1 == "abbr" else (t2, t1)), "bool"
        return Fn.operator_call(self, n, scope)

    def unary(self, n, scope):
        op, inner = n["opcode"], n["inner"]
        if op == "&":
            tgt = strip(inner[0])
            if tgt.get("kind") == "CXXOperatorCallExpr" and callee_ref(tgt).get("referencedDecl", {}).get("name") == "operator[]":
                vk = self.vec_of(tgt["inner"][1], scope)
                if vk is not None and vk[1] in ("str", "vec:tt"):
                    ib, it, ik = self.expr(tgt["inner"][2], scope)
                    if ik != "Z" or int_type(tgt["inner"][2]) != (64, False):
                        raise Untranslatable("index type")
                    x = self.fresh()
                    if vk[1] == "str":
                        return ib + [B("do %s <- cstr_from %s %s ;;\n" % (x, vk[0], it))], x, "abbr"
                    return ib + [B("do %s <- vec_addr %s %s ;;\n" % (x, vk[0], it))], x, "ttptr"
            if tgt.get("kind") == "DeclRefExpr":
                v = tgt.get("referencedDecl", {}).get("name")
                if self.kinds.get(v) == "tr" and v in scope and v not in self.snaps and v not in self.refs:
                    return [], v, "lref:" + v
            raise Untranslatable("address-of")
        if op == "*":
            p = strip(inner[0])
            v = p.get("referencedDecl", {}).get("name") if p.get("kind") == "DeclRefExpr" else None
            if v is not None and self.kinds.get(v) == "lref":
                return self.read_var(v, scope)
            if v is not None and v in self.outz:
                return self.read_var(v, scope)
            if v is not None and self.kinds.get(v) == "ttptr":
                b, t, _ = Fn.read_var(self, v, scope)
                x = self.fresh()
                return b + [B("do %s <- ptr_rd %s %s ;;\n" % (x, self.vptrs[v], t))], x, "tt"
        if op in ("++", "--"):
            m = self.this_member(inner[0])
            if m is not None and m not in self.ctype:
                raise Untranslatable("increment of " + m)
            v = self.place(inner[0], scope)
            if v is not None and self.kinds.get(v, "").startswith("cptr:") and v in scope:
                x = self.fresh()
                step = [B("do %s <- cadd %s %s %s ;;\n" % (x, self.kinds[v][5:], v, "1" if op == "++" else "(-1)"))]
                if n.get("isPostfix"):
                    old = self.fresh()
                    return [B("let %s := %s in\n" % (old, v))] + step + [B("let %s := %s in\n" % (v, x), v)], old, self.kinds[v]
                return step + [B("let %s := %s in\n" % (v, x), v)], v, self.kinds[v]
        return Fn.unary(self, n, scope)

    def is_strncmp(self, n):
        n = strip(n)
        return n.get("kind") == "CallExpr" and callee_ref(n).get("referencedDecl", {}).get("name") == "strncmp" and len(n["inner"]) == 4

    def binary(self, n, scope):
        op, inner = n["opcode"], n["inner"]
        if op == "=":
            tgt = self.field_target(inner[0], scope)
            if tgt is not None:
                return self.assign_field(tgt, inner[0], inner[1], scope)
            v = self.place(inner[0], scope)
            if v is not None and self.kinds.get(v) == "oZ":
                b, t, kd = self.expr(inner[1], scope)
                if kd not in ("Z", "bool"):
                    raise Untranslatable("assignment of a %s to %s" % (kd, v))
                t = self.as_z(t, kd)
                if b and not re.match(r"^t\d+$", t):
                    x = self.fresh()
                    b, t = b + [B("let %s := %s in\n" % (x, t))], x
                return b + [B("let %s := Some %s in\n" % (v, t), v)], t, "Z"
        if op in ("==", "!=") and (self.is_strncmp(inner[0]) and fold(inner[1]) == 0 or self.is_strncmp(inner[1]) and fold(inner[0]) == 0):
            # strncmp(p, "literal", k) with k <= strlen(literal): equality of the k bytes at p with the literal's first k
            call = strip(inner[0]) if self.is_strncmp(inner[0]) else strip(inner[1])
            b1, t1, k1 = self.expr(call["inner"][1], scope)
            lit = strip(call["inner"][2])
            k = fold(call["inner"][3])
            if k is None:
                kb, kt, kk = self.expr(call["inner"][3], scope)
                k = int(kt) if not kb and re.match(r"^\d+$", kt) else None
            if not k1.startswith("cptr:") or lit.get("kind") != "StringLiteral" or k is None or rebound(b1):
                raise Untranslatable("arguments of strncmp")
            text = json.loads(lit["value"])
            if not (0 <= k <= len(text)) or "\0" in text[:k]:
                raise Untranslatable("length of strncmp")
            x = self.fresh()
            want = "[%s]" % "; ".join(str(ord(ch)) for ch in text[:k])
            e = "(list_eqb %s %s)" % (x, want)
            return b1 + [B("do %s <- csub %s %s %d ;;\n" % (x, k1[5:], t1, k))], (e if op == "==" else "(negb %s)" % e), "bool"
        if op in ("==", "!=", "+", "-") and "char *" in (dty(inner[0]), dty(inner[1])):
            if True:
                b1, t1, k1 = self.expr(inner[0], scope)
                b2, t2, k2 = self.expr(inner[1], scope)
                binds = self.unseq(b1, t1, b2, t2)
                if op in ("==", "!=") and k1 == k2:
                    return binds, ("(%s =? %s)" if op == "==" else "(negb (%s =? %s))") % (t1, t2), "bool"
                if op in ("+", "-") and k1.startswith("cptr:") and k2 == "Z":
                    x = self.fresh()
                    return binds + [B("do %s <- cadd %s %s %s ;;\n" % (x, k1[5:], t1, t2 if op == "+" else "(- %s)" % t2))], x, k1
                raise Untranslatable("pointer operand of " + op)
        return Fn.binary(self, n, scope)

    def expr(self, n, scope):
        k = n.get("kind")
        if k == "CharacterLiteral":
            return [], zl(int(n["value"])), "Z"
        if k == "UnaryExprOrTypeTraitExpr" and n.get("name") == "sizeof":
            t = clean((n.get("argType") or (n.get("inner") or [{}])[0].get("type", {})).get("qualType", ""))
            if t == "tzhead":
                return [], zl(self.unit.tzhead[1]), "Z"
            mt = re.match(r"^char\[(\d+)\]$", t)
            if mt:
                return [], mt.group(1), "Z"
            raise Untranslatable("sizeof " + t)
        if k == "ConditionalOperator":
            inner = n["inner"]
            ka = kb = ""
            if dty(n) == "cctz::Transition *":
                ba, ta, ka = self.expr(inner[1], scope)
                bb, tb, kb = self.expr(inner[2], scope)
            if ka.startswith("lref:") and kb.startswith("lref:") and not ba and not bb:
                bc, tc, kc = self.expr(inner[0], scope)
                if rebound(bc):
                    raise Untranslatable("condition with a side effect")
                return bc, "(if %s then %s else %s)" % (self.as_b(tc, kc), ta, tb), "lref:%s,%s" % (ka[5:], kb[5:])
        if k == "ArraySubscriptExpr":
            base = strip(n["inner"][0])
            if base.get("kind") == "DeclRefExpr" and base.get("referencedDecl", {}).get("kind") == "VarDecl" and base["referencedDecl"]["name"] not in self.kinds:
                tbl = self.unit.global_table(base["referencedDecl"]["name"])
                if tbl is not None:
                    ib, it, ik = self.expr(n["inner"][1], scope)
                    if ik not in ("Z", "bool"):
                        raise Untranslatable("subscript type")
                    x = self.fresh()
                    return ib + [B("do %s <- nth_res [%s] %s ;;\n" % (x, "; ".join(zl(v) for v in tbl), self.as_z(it, ik)))], x, "Z"
            if dty(n) == "char":
                bb, bt, bk = self.expr(n["inner"][0], scope)
                ib, it, ik = self.expr(n["inner"][1], scope)
                if bk.startswith("cptr:") and ik == "Z" and not rebound(bb + ib):
                    x = self.fresh()
                    return bb + ib + [B("do %s <- byte_at %s (%s + %s) ;;\n" % (x, bk[5:], bt, it))], x, "Z"
                raise Untranslatable("subscript of a " + bk)
        return Fn.expr(self, n, scope)

    def compound_assign(self, n, scope):
        op, inner = n["opcode"], n["inner"]
        v = self.place(inner[0], scope)
        if v is not None and v in scope and self.kinds.get(v, "").startswith("cptr:") and op in ("+=", "-="):
            b, t, kd = self.expr(inner[1], scope)
            if kd != "Z" or any(x.var == v for x in b):
                raise Untranslatable("pointer compound assignment")
            x = self.fresh()
            return b + [B("do %s <- cadd %s %s %s ;;\n" % (x, self.kinds[v][5:], v, t if op == "+=" else "(- %s)" % t)),
                        B("let %s := %s in\n" % (v, x), v)], v, self.kinds[v]
        if v is not None and v in scope and self.kinds.get(v) == "Z" and v in self.ctype and not self.ctype[v][1] and op in ("+=", "-=", "*="):
            b, t, kd = self.expr(inner[1], scope)
            if kd != "Z" or int_type(inner[1]) != self.ctype[v]:
                raise Untranslatable("compound assignment at mixed types")
            return b + [B("let %s := u%d (%s %s %s) in\n" % (v, self.ctype[v][0], v, op[0], t), v)], v, "Z"
        return Fn.compound_assign(self, n, scope)

    # ------------------------------------------------------------ statements
    RESIZERS = ("push_back", "append", "emplace", "resize", "clear", "assign")

    def assigned(self, stmts, scope):
        got = set(Fn.assigned(self, stmts, scope))
        for st in stmts:
            for m in walk(st):
                k = m.get("kind")
                if k == "BinaryOperator" and m.get("opcode") == "=":
                    tgt = self.field_target(m["inner"][0], list(scope) + list(self.refs))
                    if tgt is not None and tgt[0] in ("local", "elem"):
                        got.add(tgt[1])
                    elif tgt is not None:
                        got.add(self.refs[tgt[1]][0])
                elif k == "CXXOperatorCallExpr" and callee_ref(m).get("referencedDecl", {}).get("name") == "operator=":
                    tgt = self.field_target(m["inner"][1], list(scope) + list(self.refs))
                    if tgt is not None and tgt[0] in ("local", "elem"):
                        got.add(tgt[1])
                    elif tgt is not None:
                        got.add(self.refs[tgt[1]][0])
                elif k == "CXXOperatorCallExpr" and callee_ref(m).get("referencedDecl", {}).get("name") == "operator()":
                    obj = strip(m["inner"][1])
                    if obj.get("kind") == "DeclRefExpr" and dty(obj).startswith("(lambda at "):
                        for a in m["inner"][2:]:                     # whatever the lambda does to the source it is given
                            got.add(self.zip_var(a))
                elif k == "VarDecl" and m.get("type", {}).get("qualType", "").rstrip().endswith("&") and not m.get("type", {}).get("qualType", "").startswith("const "):
                    for q in walk(m):                                  # a non-const reference to an element: the vector may be written
                        vm = self.this_member(q) if q.get("kind") == "MemberExpr" else None
                        if vm is not None and self.mkinds.get(vm, "").startswith("vec:"):
                            got.add(vm)
                elif k == "CXXForRangeStmt":
                    for q in walk(m["inner"][1]):
                        vm = self.this_member(q) if q.get("kind") == "MemberExpr" else None
                        if vm is not None:
                            got.add(vm)
                elif k == "CXXMemberCallExpr":
                    me = m["inner"][0]
                    if me.get("kind") == "MemberExpr":
                        vm = self.this_member(me["inner"][0])
                        if vm is not None and me.get("name") in self.RESIZERS:
                            got.add(vm)
                        zv = self.zip_var(me["inner"][0])
                        if zv is not None and me.get("name") in ("Read", "Skip"):
                            got.add(zv)
                            if me.get("name") == "Read":
                                d = m["inner"][1]
                                while d.get("kind") in TRANSPARENT or d.get("kind") in CASTS:
                                    d = d["inner"][-1]
                                if d.get("kind") == "UnaryOperator":
                                    got.add(strip(d["inner"][0]).get("referencedDecl", {}).get("name"))
                                elif d.get("kind") == "CXXMemberCallExpr":
                                    got.add(self.local_of(d["inner"][0]["inner"][0], "cvec"))
                        ov = self.local_of(me["inner"][0], "ohdr")
                        if ov is not None:
                            info = self.unit.known.get(me.get("name"))
                            if info is None or not info["const"]:
                                got.add(ov)
                        if strip(me["inner"][0]).get("kind") == "CXXThisExpr":
                            info = self.unit.known.get(me.get("name"))
                            if info is not None and not info["const"]:
                                got.update(x for x, _, _ in self.members)
                            for a in m["inner"][1:]:
                                v = self.out_arg(a, scope)
                                if v is not None:
                                    got.add(v)
                elif k == "CallExpr" and callee_ref(m).get("referencedDecl", {}).get("name") == "ParsePosixSpec":
                    a = strip(m["inner"][2])
                    if a.get("kind") == "UnaryOperator":
                        got.add(strip(a["inner"][0]).get("referencedDecl", {}).get("name"))
        return [v for v in scope if v in got and self.kinds.get(v) != "struct"]

    def used(self, stmts, scope):
        names = set(Fn.used(self, stmts, scope))
        for st in stmts:
            for m in walk(st):
                tm = self.this_member(m) if m.get("kind") == "MemberExpr" else None
                if tm is not None:
                    names.add(tm)
                if m.get("kind") == "CXXMemberCallExpr" and m["inner"][0].get("kind") == "MemberExpr" \
                        and strip(m["inner"][0]["inner"][0]).get("kind") == "CXXThisExpr":
                    names.update(x for x, _, _ in self.members)            # the callee sees the whole object
                if m.get("kind") == "DeclRefExpr":
                    nm = m.get("referencedDecl", {}).get("name")
                    if nm in self.refs:
                        names.add(self.refs[nm][0])
                    if nm in self.cptrs:
                        names.add(self.cptrs[nm])
                    if nm in self.vptrs:
                        names.add(self.vptrs[nm])
                    if nm in self.zipalias:
                        names.add(self.zipalias[nm])
                    if nm in self.lambdas:
                        names.update(v for v in scope if self.kinds.get(v) == "zip")
        return [v for v in scope if v in names and self.kinds.get(v) not in ("struct", "lambda")]

    def emplace_alias(self, vd, scope):
        """T& r(*v.emplace(v.end())) / (v.begin()): bindings, or None"""
        init = strip_copies(vd["inner"][-1]) if vd.get("inner") else None
        if init is None or init.get("kind") != "CXXOperatorCallExpr" or callee_ref(init).get("referencedDecl", {}).get("name") != "operator*":
            return None
        call = init["inner"][1]
        while call.get("kind") in TRANSPARENT or call.get("kind") in CASTS:
            call = call["inner"][-1]
        if call.get("kind") != "CXXMemberCallExpr" or call["inner"][0].get("name") != "emplace" or len(call["inner"]) != 2:
            return None
        vk = self.vec_of(call["inner"][0]["inner"][0], scope)
        if vk is None or not vk[1].startswith("vec:"):
            raise Untranslatable("emplace on something that is not a vector member")
        pos = None
        for m in walk(call["inner"][1]):
            if m.get("kind") == "CXXMemberCallExpr" and m["inner"][0].get("name") in ("end", "begin") and len(m["inner"]) == 1:
                if self.vec_of(m["inner"][0]["inner"][0], scope) != vk or pos is not None:
                    raise Untranslatable("position of emplace")
                pos = m["inner"][0]["name"]
        if pos is None:
            raise Untranslatable("position of emplace")
        v, ek = vk[0], vk[1][4:]
        self.vec_resized(v, scope)
        name = vd["name"]
        if pos == "end":
            ix = self.fresh()
            binds = [B("let %s := vec_size %s in\n" % (ix, v)), B("let %s := %s ++ [%s] in\n" % (v, v, self.dflt_elem(ek)), v)]
        else:
            ix = "0"
            binds = [B("let %s := %s :: %s in\n" % (v, self.dflt_elem(ek), v), v)]
        self.refs[name] = (v, ix, ek)
        self.kinds[name] = "ref"
        scope.append(name)
        return binds

    def decl(self, vd, scope):
        name = vd["name"]
        if name in scope or name in self.alias or name in ("z", "h", "fuel", "zip__version") or re.match(r"^t\d+$", name) or "__" in name \
                or name in self.mkinds:
            raise Untranslatable("redeclaration of the name " + name)
        for d in (self.refs, self.snaps, self.lrefs, self.cptrs, self.vptrs):
            d.pop(name, None)
        qt = vd.get("type", {}).get("qualType", "")
        is_ref = qt.rstrip().endswith("&")
        is_const = qt.startswith("const ")
        kd = kind_of(vd)
        if kd == "lambda":
            lam = None
            for m in walk(vd):
                if m.get("kind") == "LambdaExpr":
                    lam = m
            if lam is None or len(lam.get("inner", [])) != 2:
                raise Untranslatable("lambda " + name)
            rec, body = lam["inner"]
            if any(c.get("kind") == "FieldDecl" for c in rec.get("inner", [])):
                raise Untranslatable("lambda with captures")
            ops = [c for c in rec.get("inner", []) if c.get("kind") == "CXXMethodDecl" and c.get("name") == "operator()"]
            if len(ops) != 1:
                raise Untranslatable("lambda " + name)
            params = [c for c in ops[0].get("inner", []) if c.get("kind") == "ParmVarDecl"]
            if any(lclassify(clean(c.get("type", {}).get("qualType", ""))) != "zip" for c in params):
                raise Untranslatable("parameters of the lambda " + name)
            self.lambdas[name] = ([c["name"] for c in params], body)
            self.kinds[name] = "lambda"
            scope.append(name)
            return []
        if is_ref and not is_const:
            al = self.emplace_alias(vd, scope)
            if al is None:
                al = self.index_alias(vd, scope)
            if al is None:
                raise Untranslatable("non-const reference " + name)
            return al
        if not vd.get("inner") or kd in ("otzh", "tzhead", "ohdr") and self.default_constructed(vd):
            if kd == "Z":
                self.kinds[name] = "oZ"
                self.ctype[name] = int_type(vd)
                scope.append(name)
                return [B("let %s := (None : option Z) in\n" % name, name)]
            if kd == "tzhead":
                self.kinds[name] = "otzh"
                scope.append(name)
                return [B("let %s := (None : option (list Z)) in\n" % name, name)]
            if kd == "ohdr":
                self.kinds[name] = "ohdr"
                scope.append(name)
                return [B("let %s := oh_unset in\n" % name, name)]
            raise Untranslatable("declaration of %s without initialiser" % name)
        if kd == "optz":
            if not self.default_constructed(vd):
                raise Untranslatable("initialiser of " + name)
            self.kinds[name] = "optz"
            scope.append(name)
            return [B("let %s := (None : option posix_tz) in\n" % name, name)]
        if kd == "cvec":                                        # std::vector<char> v(n): n zero bytes
            core = strip_copies(vd["inner"][-1])
            args = [a for a in core.get("inner", []) if a.get("kind") != "CXXDefaultArgExpr"] if core.get("kind") == "CXXConstructExpr" else None
            if args is None or len(args) != 1:
                raise Untranslatable("initialiser of " + name)
            b, t, k1 = self.expr(args[0], scope)
            if k1 != "Z" or int_type(args[0]) != (64, False):
                raise Untranslatable("size of " + name)
            self.kinds[name] = "cvec"
            scope.append(name)
            return b + [B("let %s := repeat 0 (Z.to_nat %s) in\n" % (name, t), name)]
        if kd == "ptr":                                         # a pointer to a Transition local: the pointee's value
            b, t, k1 = self.expr(vd["inner"][-1], scope)
            if not k1.startswith("lref:") or b and rebound(b):
                raise Untranslatable("pointer " + name)
            self.kinds[name] = "lref"
            self.lrefs[name] = set(k1[5:].split(","))
            scope.append(name)
            return b + [B("let %s := %s in\n" % (name, t), name)]
        if kd == "abbr" or kd == "ttptr":
            b, t, k1 = self.expr(vd["inner"][-1], scope)
            if k1.startswith("cptr:") and kd == "abbr":
                self.kinds[name] = k1
                self.cptrs[name] = k1[5:]
                scope.append(name)
                return b + [B("let %s := %s in\n" % (name, t), name)]
            if k1 == "ttptr" and kd == "ttptr":
                self.kinds[name] = "ttptr"
                self.vptrs[name] = "transition_types_"
                scope.append(name)
                return b + [B("let %s := %s in\n" % (name, t), name)]
            if k1 == "abbr" and kd == "abbr":
                self.kinds[name] = "abbr"
                scope.append(name)
                return b + [B("let %s := %s in\n" % (name, t), name)]
            raise Untranslatable("pointer " + name)
        out = Fn.decl(self, vd, scope)
        if is_ref and is_const and kd in ("tr", "tt"):
            core = strip_copies(vd["inner"][-1])
            vec = None
            if core.get("kind") == "CXXOperatorCallExpr" and callee_ref(core).get("referencedDecl", {}).get("name") == "operator[]":
                vec = self.this_member(core["inner"][1])
            elif core.get("kind") == "CXXMemberCallExpr" and core["inner"][0].get("name") in ("back", "front"):
                vec = self.this_member(core["inner"][0]["inner"][0])
            if vec is None:
                raise Untranslatable("const reference %s to something that is not a vector element" % name)
            self.snaps[name] = vec
        return out

    @staticmethod
    def default_constructed(vd):
        core = strip_copies(vd["inner"][-1]) if vd.get("inner") else None
        return core is None or (core.get("kind") == "CXXConstructExpr" and not core.get("inner"))

    def index_alias(self, vd, scope):
        """T& r(v[i]): r is an alias of that element"""
        init = strip_copies(vd["inner"][-1]) if vd.get("inner") else None
        if init is None or init.get("kind") != "CXXOperatorCallExpr" or callee_ref(init).get("referencedDecl", {}).get("name") != "operator[]":
            return None
        vk = self.vec_of(init["inner"][1], scope)
        if vk is None or not vk[1].startswith("vec:"):
            return None
        ib, it, ik = self.expr(init["inner"][2], scope)
        if ik != "Z" or int_type(init["inner"][2]) != (64, False) or rebound(ib):
            raise Untranslatable("index type")
        ix = self.fresh()
        name = vd["name"]
        self.refs[name] = (vk[0], ix, vk[1][4:])
        self.kinds[name] = "ref"
        scope.append(name)
        return ib + [B("let %s := %s in\n" % (ix, it)), B("do _ <- nth_res %s %s ;;\n" % (vk[0], ix))]

    def finish(self, tail, val):
        if tail[0] == "cont":
            return self.finish(tail[4], val)
        if tail[0] == "rloop":
            return "OK (Some %s, %s)" % (self.ret_tuple(val), self.tup(tail[3]))
        return Fn.finish(self, tail, val)

    @staticmethod
    def base_tail(tail):
        while tail[0] == "cont":
            tail = tail[4]
        return tail

    def seq(self, stmts, scope, tail):
        if tail[0] == "cont":
            if not stmts:                                          # fall through to the shared continuation
                for v in tail[2]:
                    if v not in scope:
                        raise Untranslatable("join on %s, which is no longer readable" % v)
                tail[3].append(list(scope))
                return "\x00%s\x00 %s\x01%s\x01" % (tail[1], " ".join(tail[2]), tail[1])
            if stmts[0].get("kind") == "BreakStmt":
                return self.seq(stmts, scope, tail[4])
        if tail[0] == "rloop":
            if not stmts:
                return tail[4]
            if stmts[0].get("kind") == "BreakStmt":
                return "OK (None, %s)" % self.tup(tail[3])
        if stmts and stmts[0].get("kind") == "WhileStmt":
            ins = stmts[0]["inner"]
            if len(ins) != 2:
                raise Untranslatable("while with a condition variable")
            return self.for_loop({"kind": "ForStmt", "inner": [None, None, ins[0], None, ins[1]]}, stmts[1:], list(scope), tail)
        if stmts and stmts[0].get("kind") == "IfStmt" and not stmts[0].get("hasVar") and not stmts[0].get("hasInit"):
            st, rest = stmts[0], stmts[1:]
            th = self.body_list(st["inner"][1])
            el = self.body_list(st["inner"][2]) if st.get("hasElse") else []
            if (self.escapes(th) or self.escapes(el)) and not self.always_escapes(th) and not self.always_escapes(el) \
                    and any(m.get("kind") in ("ForStmt", "WhileStmt", "DoStmt", "CXXForRangeStmt") for x in rest for m in walk(x)):
                # both branches can reach the rest of the block and that rest is large: it is translated ONCE, as a
                # local function of the variables the branches may have rebound
                scope = list(scope)
                cb, ct, ck = self.expr(st["inner"][0], scope)
                vs = [v for v in self.assigned(th + el, scope) if v is not None]
                self.nk = getattr(self, "nk", 0) + 1
                kname = "k%d" % self.nk
                rec = []
                a = self.seq(th, scope, ("cont", kname, vs, rec, tail))
                b = self.seq(el, scope, ("cont", kname, vs, rec, tail))
                srest = [v for v in scope if all(v in sc for sc in rec) and self.kinds.get(v) not in ("struct", "lambda", "ref")]
                r = self.seq(rest, list(srest), tail)
                # the shared rest becomes a top-level function of everything in scope (lambda lifting)
                cap = [v for v in srest if v not in vs]
                extra = ["zip__version"] if self.uses_version else []
                binders = (["(fuel : nat)"] if self.fuel else []) + ["(%s : %s)" % (v, self.gty(v)) for v in cap + vs] + \
                    ["(%s : list Z)" % v for v in extra]
                kdef = "Definition %s_%s %s : res (%s) :=\n%s.\n\n" % (self.gname, kname, " ".join(binders), self.ret_type(), r)
                self.loops.append(kdef)
                self.kcalls = getattr(self, "kcalls", {})
                self.kcalls[kname] = "%s_%s%s %s" % (self.gname, kname, " fuel" if self.fuel else "", " ".join(cap))
                a = a.replace("\x00%s\x00" % kname, self.kcalls[kname])
                b = b.replace("\x00%s\x00" % kname, self.kcalls[kname])
                extra_args = (" " + " ".join(extra)) if extra else ""
                a = a.replace("\x01%s\x01" % kname, extra_args)
                b = b.replace("\x01%s\x01" % kname, extra_args)
                return "%sif %s then (\n%s\n) else (\n%s\n)" % (txt(cb), self.as_b(ct, ck), a, b)
        return Fn.seq(self, stmts, scope, tail)

    def range_for(self, st, rest, scope, tail):
        """for (auto& x : vector_member) body: x is an alias of element i for i = 0 .. size-1"""
        ins = st["inner"]
        if len(ins) != 8 or ins[0]:
            raise Untranslatable("range-for with an init statement")
        rng, var, body = ins[1], ins[6], ins[7]
        rvd = rng["inner"][0]
        vk = self.vec_of(strip_copies(rvd["inner"][-1]), scope) if rvd.get("inner") else None
        vd = var["inner"][0]
        qt = vd.get("type", {}).get("qualType", "")
        if vk is None or not vk[1].startswith("vec:") or not qt.rstrip().endswith("&") or qt.startswith("const "):
            return Fn.range_for(self, st, rest, scope, tail)
        vec, ek = vk[0], vk[1][4:]
        name = vd["name"]
        if name in scope:
            raise Untranslatable("redeclaration of the name " + name)
        bl = self.body_list(body)
        if self.escapes(bl):
            raise Untranslatable("range-for body that leaves the loop")
        for m in walk(body):
            if m.get("kind") == "CXXMemberCallExpr" and m["inner"][0].get("kind") == "MemberExpr" and \
                    m["inner"][0].get("name") in self.RESIZERS + ("reserve", "shrink_to_fit") and self.this_member(m["inner"][0]["inner"][0]) == vec:
                raise Untranslatable("range-for body that resizes the vector")
        stv = [v for v in self.assigned(bl, scope) if v is not None]
        if vec not in stv:
            stv.append(vec)
        stv = [v for v in scope if v in stv]
        ro = [v for v in self.used(bl, scope) if v not in stv]
        lname = "%s_loop%d" % (self.gname, len(self.loops) + 1)
        self.loops.append(None)
        idx = len(self.loops) - 1
        ix = "%s_i" % name
        sc = list(scope)
        self.refs[name] = (vec, ix, ek)
        self.kinds[name] = "ref"
        sc.append(name)
        recur = "%s fuel %s (%s + 1)" % (lname, " ".join(ro + stv), ix)
        btxt = self.seq(bl, sc, ("loop", lname, ro, stv, recur))
        itxt = "if %s <? vec_size %s then (\n%s\n) else (\nOK %s\n)" % (ix, vec, btxt, self.tup(stv))
        sty = " * ".join(self.gty(v) for v in stv)
        self.loops[idx] = ("Fixpoint %s (fuel : nat) %s (%s : Z) {struct fuel} : res (%s) :=\n  match fuel with\n  | O => Err Fuel\n  | S fuel =>\n%s\n  end.\n\n"
                           % (lname, " ".join("(%s : %s)" % (v, self.gty(v)) for v in ro + stv), ix, sty, itxt))
        after = list(scope)
        for v in stv:
            if self.kinds.get(v, "").startswith("vec:") or self.kinds.get(v) == "str":
                self.vec_resized(v, after)
        return "do %s <- %s fuel %s 0 ;;\n%s" % (self.pat(stv), lname, " ".join(ro + stv), self.seq(rest, after, tail))

    def for_loop(self, st, rest, scope, tail, drop=()):
        init, cvar, cond, inc, body = (st["inner"] + [None] * 5)[:5]
        if init:
            if init.get("kind") != "DeclStmt":
                return self.seq([init, dict(st, inner=[None, cvar, cond, inc, body])] + rest, scope, tail)
            sc0 = list(scope)                                     # the loop's own variables end with the loop
            pre = "".join(txt(self.decl(vd, sc0)) for vd in init.get("inner", []))
            return pre + self.for_loop(dict(st, inner=[None, cvar, cond, inc, body]), rest, sc0, tail,
                                       drop=[v for v in sc0 if v not in scope])
        if cvar:
            raise Untranslatable("loop with a condition variable")
        bl = self.body_list(body)
        pieces = [x for x in [cond, inc] if x] + bl
        if any(m.get("kind") in ("ContinueStmt", "GotoStmt") for x in pieces for m in walk(x)):
            raise Untranslatable("continue inside a loop")
        has_ret = any(m.get("kind") == "ReturnStmt" and not self.in_lambda(x, m) for x in pieces for m in walk(x))
        if has_ret and self.base_tail(tail)[0] != "none":
            raise Untranslatable("return inside a nested loop or a joined branch")
        stv = [v for v in self.assigned(pieces, scope) if v is not None]
        ro = [v for v in self.used(pieces, scope) if v not in stv]
        if has_ret:                                              # a return hands back the whole state
            ro = [v for v in scope if v not in stv and (v in ro or v in self.state_vars())]
        if any(self.kinds.get(v) in ("ref",) for v in ro + stv):
            raise Untranslatable("reference alias used in a loop")
        lname = "%s_loop%d" % (self.gname, len(self.loops) + 1)
        self.loops.append(None)
        idx = len(self.loops) - 1
        sc = list(scope)
        cb, ct, ck = self.expr(cond, sc) if cond else ([], "true", "bool")
        if rebound(cb) - set(stv):
            raise Untranslatable("loop condition rebinds a non-state variable")
        recur = "%s fuel %s" % (lname, " ".join(ro + stv))
        isc = list(sc)
        btxt_tail = ("rloop" if has_ret else "loop", lname, ro, stv, None)
        # the increment runs after the body, in the scope the loop's own variables live in
        if inc:
            ib, it, ik = self.expr(inc, isc)
            recur = txt(ib) + recur
        btxt = self.seq(bl, sc, btxt_tail[:4] + (recur,))
        exit_ = ("OK (None, %s)" if has_ret else "OK %s") % self.tup(stv)
        itxt = "%sif %s then (\n%s\n) else (\n%s\n)" % (txt(cb), self.as_b(ct, ck), btxt, exit_)
        sty = " * ".join(self.gty(v) for v in stv) if stv else "unit"
        rty = "option (%s) * (%s)" % (self.ret_type(), sty) if has_ret else sty
        self.loops[idx] = ("Fixpoint %s (fuel : nat) %s {struct fuel} : res (%s) :=\n  match fuel with\n  | O => Err Fuel\n  | S fuel =>\n%s\n  end.\n\n"
                           % (lname, " ".join("(%s : %s)" % (v, self.gty(v)) for v in ro + stv), rty, itxt))
        after = [v for v in scope if v not in drop]
        for v in stv:
            if self.kinds.get(v, "").startswith("vec:") or self.kinds.get(v) == "str":
                self.vec_resized(v, after)
            if self.kinds.get(v) == "tr":
                self.local_assigned(v, after)
            if self.kinds.get(v) == "cvec":
                self.buf_written(v, after)
        call = "%s fuel %s" % (lname, " ".join(ro + stv))
        if has_ret:
            r = self.fresh()
            return "do '(%s, %s) <- %s ;;\nmatch %s with\n| Some rv_ => OK rv_\n| None =>\n%s\nend" % (
                r, self.tup(stv) if stv else "_", call, r, self.seq(rest, after, tail))
        return "do %s <- %s ;;\n%s" % (self.pat(stv), call, self.seq(rest, after, tail))

    @staticmethod
    def in_lambda(root, node):
        """node lies inside a lambda expression below root"""
        def go(n, inside):
            if n is node:
                return inside
            if isinstance(n, dict):
                for c in n.get("inner", []):
                    r = go(c, inside or n.get("kind") == "LambdaExpr")
                    if r is not None:
                        return r
            return None
        return bool(go(root, False))

    def gty(self, v):
        k = zk(self.kinds[v])
        return "Z" if k.startswith("cptr:") else ZM.GTYPE[k]

    # ------------------------------------------------------------ function
    def signature(self):
        binders, scope, sig = [], [], []
        for c in self.ast.get("inner", []):
            if c.get("kind") != "ParmVarDecl":
                continue
            p = c.get("name")
            if p is None:
                raise Untranslatable("unnamed parameter")
            for m in walk(self.body):
                if m.get("kind") == "DeclRefExpr" and m.get("referencedDecl", {}).get("id") == c.get("id") and "desugaredQualType" in m.get("type", {}):
                    c = dict(c, type=m["type"])
                    break
            kd = kind_of(c)
            if kd == "outz":
                self.outz.append(p)
                self.kinds[p] = "oZ"
                self.ctype[p] = {"unsigned char *": (8, False), "std::uint_least8_t *": (8, False)}[dty(c)]
                continue
            if kd == "zip":
                self.kinds[p] = "zip"
                self.xstates.append(p)
                sig.append((p, "zip"))
                continue
            if kd == "tzhead":
                self.kinds[p] = "tzhead"
                binders.append("(%s : list Z)" % p)
                scope.append(p)
                sig.append((p, "bytes"))
                continue
            if kd not in ("Z", "bool", "str", "cs", "tr", "tt", "tp", "dur"):
                raise Untranslatable("parameter of type " + kd)
            self.kinds[p] = zk(kd)
            if zk(kd) == "Z":
                self.ctype[p] = int_type(c)
            binders.append("(%s : %s)" % (p, ZM.GTYPE[zk(kd)]))
            scope.append(p)
            sig.append((p, zk(kd)))
        return binders, scope, sig

    def prepare(self):
        rt = clean(self.ast.get("type", {}).get("qualType", "").split("(")[0])
        rt = {"std::size_t": "unsigned long"}.get(rt, rt)
        self.ret_kind = lclassify(rt)
        if self.ret_kind not in ("bool", "Z"):
            raise Untranslatable("return type " + rt)
        if self.owner == "TimeZoneInfo":
            for x, k in XSTATE_MEMBERS.items():
                if any(m.get("kind") == "MemberExpr" and m.get("name") == x and strip(m["inner"][0]).get("kind") == "CXXThisExpr" for m in walk(self.body)):
                    self.xstates.append(x)
                    self.kinds[x] = k
                    self.mkinds[x] = k
        self.binders, self.scope0, self.sig = self.signature()
        for m in walk(self.body):
            if m.get("kind") == "CallExpr" and callee_ref(m).get("referencedDecl", {}).get("name") in DECODE:
                self.fuel = True
            if m.get("kind") == "CXXMemberCallExpr" and m["inner"][0].get("kind") == "MemberExpr":
                info = self.unit.known.get(m["inner"][0].get("name"))
                if info is not None and info["fuel"]:
                    self.fuel = True
        for m, k, _ in self.members:
            self.kinds[m] = k
            if k in ("Z", "oZ"):
                self.ctype[m] = ZONE_CTYPE.get(m, (64, False))
        return {"key": self.key, "gname": self.gname, "fuel": self.fuel, "owner": self.owner, "const": self.const_method,
                "params": self.sig, "outz": list(self.outz), "ret": zk(self.ret_kind), "xstates": list(self.xstates)}

    def translate(self):
        scope = [m for m, _, _ in self.members] + list(self.xstates) + self.scope0 + list(self.outz)
        term = self.seq(self.body_list(self.body), scope, ("none",))
        pre = "".join("let %s := %s %s in\n" % (m, proj, self.this_var) for m, _, proj in self.members)
        binders = (["(fuel : nat)"] if self.fuel else []) + ["(%s : %s)" % (self.this_var, self.this_type)] + \
            ["(%s : %s)" % (x, ZM.GTYPE[self.kinds[x]]) for x in self.xstates] + \
            (["(zip__version : list Z)"] if self.uses_version else []) + self.binders + ["(%s : option Z)" % o for o in self.outz]
        return "".join(self.loops) + "Definition %s %s : res (%s) :=\n%s%s.\n" % (self.gname, " ".join(binders), self.ret_type(), pre, term)

PRELUDE = """(* SourceLoad.v - GENERATED by gen/ast_translate_load.py from clang's AST of /repo's current
   src/time_zone_info.cc (the loader side) on every run.  Do not edit.
   The object is a value threaded through: a non-const member function takes [z : zone] (or [h : header]) as it
   is on entry and returns (C++ result, the object on exit[, outputs]); containers are lists; an unset scalar /
   an integer output parameter is an [option Z]; see the translator's header for the full reading. *)
From CCTZ Require Import Base Cal CivilImpl PosixImpl ZoneLoad ZoneImpl SourceZone.
From CCTZ Require Source64 SourceDecode Source64InfoProofs.
Local Open Scope Z_scope.
(* a Header whose members may be unset *)
Record oheader := mkOH { oh_timecnt : option Z; oh_typecnt : option Z; oh_charcnt : option Z;
                         oh_leapcnt : option Z; oh_isstdcnt : option Z; oh_isutcnt : option Z }.
Definition oh_unset : oheader := mkOH None None None None None None.
Definition oh_of (h : header) : oheader :=
  mkOH (Some (h_timecnt h)) (Some (h_typecnt h)) (Some (h_charcnt h)) (Some (h_leapcnt h)) (Some (h_isstdcnt h)) (Some (h_isutcnt h)).
(* byte buffers that are not C strings (a tzhead, a std::vector<char>): strict bounds *)
Definition byte_at (buf : list Z) (p : Z) : res Z :=
  if (0 <=? p) && (p <? Z.of_nat (length buf)) then OK (nth (Z.to_nat p) buf 0) else Err OOB.
Definition cadd (buf : list Z) (p k : Z) : res Z :=
  if (0 <=? p) && (0 <=? p + k) && (p + k <=? Z.of_nat (length buf)) then OK (p + k) else Err OOB.
Definition csub (buf : list Z) (p n : Z) : res (list Z) :=
  if (0 <=? p) && (0 <=? n) && (p + n <=? Z.of_nat (length buf)) then OK (firstn (Z.to_nat n) (skipn (Z.to_nat p) buf)) else Err OOB.
Definition vec_front {A} (l : list A) : res A := match l with x :: _ => OK x | [] => Err OOB end.
(* v.resize(n): truncated, or extended with value-initialised elements *)
Definition vec_resize {A} (l : list A) (n : Z) (d : A) : list A :=
  firstn (Z.to_nat n) l ++ repeat d (Z.to_nat n - length l).
(* v.back(): the vector must not be empty *)
Definition vec_back {A} (l : list A) : res A := match last_opt l with Some x => OK x | None => Err OOB end.
(* the n bytes at p lie inside the buffer *)
Definition span_ok (buf : list Z) (p n : Z) : res unit :=
  if (0 <=? p) && (p + n <=? Z.of_nat (length buf)) then OK tt else Err OOB.
(* the element an alias designates is rewritten in place *)
Definition vec_set {A} (l : list A) (i : Z) (x : A) : res (list A) :=
  if (0 <=? i) && (i <? vec_size l) then OK (firstn (Z.to_nat i) l ++ x :: skipn (S (Z.to_nat i)) l) else Err OOB.

"""


class LUnit:
    def __init__(self):
        self.known = {}
        self.civil_default = None
        self._tables = {}

    def resolve(self, name, args, member):
        return None                     # the zone translator's call resolution is not used here

    def resolve_node(self, m):
        return None

    def global_table(self, name):
        """a namespace-scope const array of integers with a constant initialiser: its values, or None"""
        if name not in self._tables:
            self._tables[name] = None
            for d in clang_docs(name, SRC):
                if d.get("kind") == "VarDecl" and d.get("name") == name and d.get("inner") and "const" in d.get("type", {}).get("qualType", ""):
                    core = strip(d["inner"][-1])
                    if core.get("kind") == "InitListExpr":
                        vals = [fold(e) for e in core.get("inner", [])]
                        m = re.match(r"^const .*\[(\d+)\]$", d.get("type", {}).get("qualType", ""))
                        if m and len(vals) == int(m.group(1)) and all(v is not None for v in vals):
                            self._tables[name] = vals
                            break
        return self._tables[name]

    def run(self):
        parts, done, failed = [PRELUDE], [], {}
        try:
            ZM.check_records()
            self.civil_default = ZM.civil_default()
            self.ctor_defaults = ctor_defaults()
            self.tzhead = record_layout("tzhead")
            hdr = None
            for d in clang_docs("Header", SRC):
                for m in walk(d):
                    if m.get("kind") == "CXXRecordDecl" and m.get("name") == "Header" and m.get("completeDefinition"):
                        hdr = [(c.get("name"), clean(c.get("type", {}).get("desugaredQualType") or "")) for c in m.get("inner", []) if c.get("kind") == "FieldDecl"]
            if hdr != [(m, "unsigned long") for m, _, _ in HEADER_MEMBERS]:
                raise Untranslatable("members of Header: %s" % hdr)
        except Untranslatable as e:
            return None, [], {"*": str(e)}
        for flt, name, owner in TARGETS:
            defs, seen = [], set()
            for d in clang_docs(flt, SRC):
                for m in walk(d):
                    if m.get("kind") in ("FunctionDecl", "CXXMethodDecl") and m.get("name") == name and m.get("id") not in seen \
                            and any(c.get("kind") == "CompoundStmt" for c in m.get("inner", [])):
                        seen.add(m.get("id"))
                        defs.append(m)
            if name == "Load":                                   # the overload that reads a ZoneInfoSource
                defs = [m for m in defs if "ZoneInfoSource" in m.get("type", {}).get("qualType", "")]
            if len(defs) != 1:
                failed[name] = "no single definition"
                parts.append("(* %s: not translated: no single definition *)\n\n" % name)
                continue
            try:
                f = LFn(name, defs[0], owner, self)
                info = f.prepare()
                text = f.translate()
                parts.append(text + "\n")
                self.known[name] = info
                done.append(name)
            except Untranslatable as e:
                failed[name] = str(e)
                parts.append("(* %s: not translated: %s *)\n\n" % (name, e))
        return "".join(parts), done, failed


def main():
    out = sys.argv[1] if len(sys.argv) > 1 and not sys.argv[1].startswith("--") else os.path.join(os.path.dirname(__file__), "..", "coq", "SourceLoad.v")
    text, done, failed = LUnit().run()
    if failed:
        print(json.dumps({"written": False, "translated": done, "untranslated": failed, "kept_previous": True}))
        if "--force" in sys.argv and text is not None:
            open(out, "w").write(text)
        return
    changed = not os.path.exists(out) or open(out).read() != text
    if changed:
        open(out, "w").write(text)
    print(json.dumps({"written": changed, "translated": done, "untranslated": failed}))


if __name__ == "__main__":
    main()
