#!/usr/bin/env python3
"""Regenerate coq/SrcConstants.v from the literal tables and numeric constants
in /repo's current sources (DESIGN.md section 3(b)).  Anchored regular
expressions over the source text; when an anchor is not found the committed
default is used and the name is recorded in the status JSON (not an alarm: the
behavioural correspondence still covers it)."""
import re, sys, json, os

REPO = os.environ.get("VERIF_REPO", "/repo")
WEEK = {"monday": 0, "tuesday": 1, "wednesday": 2, "thursday": 3,
        "friday": 4, "saturday": 5, "sunday": 6}

def read(p):
    with open(os.path.join(REPO, p)) as f:
        return f.read()

def strip_comments(s):
    s = re.sub(r"//[^\n]*", "", s)
    s = re.sub(r"/\*.*?\*/", "", s, flags=re.S)
    return s

def int_list(body):
    out = []
    for tok in body.replace("\n", " ").split(","):
        tok = tok.strip()
        if not tok:
            continue
        out.append(int(eval(tok.replace("LL", ""), {"__builtins__": {}})))
    return out

def wd_list(body):
    out = []
    for tok in body.split(","):
        tok = tok.strip()
        if not tok:
            continue
        m = re.fullmatch(r"weekday::(\w+)", tok)
        out.append(WEEK[m.group(1)])
    return out

def table(src, name, conv=int_list):
    m = re.search(re.escape(name) + r"\s*\[[^\]]*\]\s*(?:\[[^\]]*\]\s*)?=\s*\{(.*?)\};", src, re.S)
    if not m:
        raise KeyError(name)
    return conv(m.group(1))

def table2(src, name):
    m = re.search(re.escape(name) + r"\s*\[[^\]]*\]\s*\[[^\]]*\]\s*=\s*\{(.*?)\};", src, re.S)
    if not m:
        raise KeyError(name)
    rows = re.findall(r"\{([^{}]*)\}", m.group(1))
    return [int_list(r) for r in rows]

def rx(src, pattern, name, conv=int):
    m = re.search(pattern, src, re.S)
    if not m:
        raise KeyError(name)
    return conv(m.group(1))

def coq_z(n):
    return str(n) if n >= 0 else "(%d)" % n

def coq_list(xs):
    return "[" + "; ".join(coq_z(x) for x in xs) + "]"

DEFAULTS = {
    "src_k_days_per_month": [-1, 31, 28, 31, 30, 31, 30, 31, 31, 30, 31, 30, 31],
    "src_days_per_century_base": 36524,
    "src_days_per_4years_base": 1460,
    "src_k_weekday_by_mon_off": [0, 1, 2, 3, 4, 5, 6, 0, 1, 2, 3, 4, 5],
    "src_k_weekday_offsets": [-1, 0, 3, 2, 5, 0, 3, 5, 1, 4, 6, 2, 4],
    "src_k_weekdays_forw": [0, 1, 2, 3, 4, 5, 6, 0, 1, 2, 3, 4, 5, 6],
    "src_k_weekdays_back": [6, 5, 4, 3, 2, 1, 0, 6, 5, 4, 3, 2, 1, 0],
    "src_k_month_offsets": [-1, 0, 31, 59, 90, 120, 151, 181, 212, 243, 273, 304, 334],
    "src_kMonthOffsets0": [-1, 0, 31, 59, 90, 120, 151, 181, 212, 243, 273, 304, 334, 365],
    "src_kMonthOffsets1": [-1, 0, 31, 60, 91, 121, 152, 182, 213, 244, 274, 305, 335, 366],
    "src_kDaysPerYear": [365, 366],
    "src_kSecsPerDay": 86400,
    "src_kSecsPer400Years_days": 146097,
    "src_big_bang_shift": 59,
    "src_second_half_sentinel": 2147483647,
    "src_extend_years": 401,
    "src_kDigits10_64": 18,
    "src_kExp10": [10 ** i for i in range(19)],
    "src_fmt_scratch_extra": 3,
    "src_fixed_max_secs": 86400,
    "src_posix_offset_hours": [0, 24],
    "src_posix_time_hours": [-167, 167],
    "src_posix_J_range": [1, 365],
    "src_posix_N_range": [0, 365],
    "src_posix_default_time": 7200,
    "src_posix_default_dst_delta": 3600,
    "src_parse_range_m": [1, 12],
    "src_parse_range_d": [1, 31],
    "src_parse_range_H": [0, 23],
    "src_parse_range_M": [0, 59],
    "src_parse_range_S": [0, 60],
    "src_parse_range_UW": [0, 53],
    "src_parse_range_u": [1, 7],
    "src_parse_range_w": [0, 6],
    "src_parse_range_E4Y": [-999, 9999],
    "src_parse_off_hh": [0, 23],
    "src_parse_off_mm": [0, 59],
}

def extract():
    vals, missing = {}, []
    civ = strip_comments(read("include/cctz/civil_time_detail.h"))
    info = strip_comments(read("src/time_zone_info.cc"))
    fmt = strip_comments(read("src/time_zone_format.cc"))
    fixed = strip_comments(read("src/time_zone_fixed.cc"))
    posix = strip_comments(read("src/time_zone_posix.cc"))

    def put(name, fn):
        try:
            vals[name] = fn()
        except Exception:
            vals[name] = DEFAULTS[name]
            missing.append(name)

    put("src_k_days_per_month", lambda: table(civ, "k_days_per_month"))
    put("src_days_per_century_base", lambda: rx(civ, r"days_per_century\s*\(int yi\)[^{]*\{\s*return\s+(\d+)\s*\+", "c"))
    put("src_days_per_4years_base", lambda: rx(civ, r"days_per_4years\s*\(int yi\)[^{]*\{\s*return\s+(\d+)\s*\+", "c"))
    put("src_k_weekday_by_mon_off", lambda: table(civ, "k_weekday_by_mon_off", wd_list))
    put("src_k_weekday_offsets", lambda: table(civ, "k_weekday_offsets"))
    put("src_k_weekdays_forw", lambda: table(civ, "k_weekdays_forw", wd_list))
    put("src_k_weekdays_back", lambda: table(civ, "k_weekdays_back", wd_list))
    put("src_k_month_offsets", lambda: table(civ, "k_month_offsets"))
    put("src_kMonthOffsets0", lambda: table2(info, "kMonthOffsets")[0])
    put("src_kMonthOffsets1", lambda: table2(info, "kMonthOffsets")[1])
    put("src_kDaysPerYear", lambda: table(info, "kDaysPerYear"))
    put("src_kSecsPerDay", lambda: rx(info, r"kSecsPerDay\s*=\s*([0-9* ]+);", "k", lambda s: int(eval(s))))
    put("src_kSecsPer400Years_days", lambda: rx(info, r"kSecsPer400Years\s*=\s*(\d+)LL\s*\*\s*kSecsPerDay", "k"))
    put("src_big_bang_shift", lambda: rx(info, r"tr\.unix_time\s*=\s*-\(1LL\s*<<\s*(\d+)\)", "k"))
    put("src_second_half_sentinel", lambda: rx(info, r"if\s*\(last\.unix_time\s*<\s*0\)\s*\{.*?tr\.unix_time\s*=\s*(\d+)\s*;", "k"))
    put("src_extend_years", lambda: rx(info, r"limit\s*=\s*last_year_\s*\+\s*(\d+)", "k"))
    put("src_kDigits10_64", lambda: rx(fmt, r"kDigits10_64\s*=\s*(\d+)\s*;", "k"))
    put("src_kExp10", lambda: table(fmt, "kExp10"))
    put("src_fmt_scratch_extra", lambda: rx(fmt, r"char\s+buf\[(\d+)\s*\+\s*kDigits10_64\]", "k"))
    put("src_fixed_max_secs", lambda: rx(fixed, r"if\s*\(secs\s*>\s*([0-9* ]+)\)\s*return false", "k", lambda s: int(eval(s))))
    def two(src, pat, name):
        m = re.search(pat, src, re.S)
        if not m:
            raise KeyError(name)
        return [int(m.group(1)), int(m.group(2))]
    put("src_posix_offset_hours", lambda: two(posix, r"ParseOffset\(p,\s*(-?\d+),\s*(-?\d+),\s*-1,\s*&res->std_offset\)", "k"))
    put("src_posix_time_hours", lambda: two(posix, r"ParseOffset\(p \+ 1,\s*(-?\d+),\s*(-?\d+),\s*1,\s*&res->time\.offset\)", "k"))
    put("src_posix_J_range", lambda: two(posix, r"'J'\).*?ParseInt\(p \+ 1,\s*(-?\d+),\s*(-?\d+),\s*&day\)", "k"))
    put("src_posix_N_range", lambda: two(posix, r"ParseInt\(p,\s*(-?\d+),\s*(-?\d+),\s*&day\)", "k"))
    put("src_posix_default_time", lambda: rx(posix, r"res->time\.offset\s*=\s*([0-9* ]+);", "k", lambda s: int(eval(s))))
    put("src_posix_default_dst_delta", lambda: rx(posix, r"res->dst_offset\s*=\s*res->std_offset\s*\+\s*\(([0-9* ]+)\)", "k", lambda s: int(eval(s))))
    # parse(): per-specifier ParseInt ranges
    def prange(case, var):
        return two(fmt, r"case '%s':(?:\s*case '\w':)*\s*(?://[^\n]*\n\s*)*data = ParseInt\(data, \d+, (-?\d+), (-?\d+), &%s\)" % (case, var), case)
    put("src_parse_range_m", lambda: prange("m", r"tm\.tm_mon"))
    put("src_parse_range_d", lambda: two(fmt, r"case 'd':\s*case 'e':[^;]*?;\s*\} else \{\s*data = ParseInt\(data, \d+, (-?\d+), (-?\d+), &tm\.tm_mday\)", "d"))
    put("src_parse_range_H", lambda: prange("H", r"tm\.tm_hour"))
    put("src_parse_range_M", lambda: prange("M", r"tm\.tm_min"))
    put("src_parse_range_S", lambda: prange("S", r"tm\.tm_sec"))
    put("src_parse_range_UW", lambda: prange("U", "week_num"))
    put("src_parse_range_u", lambda: prange("u", r"tm\.tm_wday"))
    put("src_parse_range_w", lambda: prange("w", r"tm\.tm_wday"))
    put("src_parse_range_E4Y", lambda: two(fmt, r"ParseInt\(data, 4, year_t\{(-?\d+)\}, year_t\{(-?\d+)\}, &year\)", "E4Y"))
    put("src_parse_off_hh", lambda: two(fmt, r"ParseInt\(dp, 2, (-?\d+), (-?\d+), &hours\)", "hh"))
    put("src_parse_off_mm", lambda: two(fmt, r"ParseInt\(ap, 2, (-?\d+), (-?\d+), &minutes\)", "mm"))
    return vals, missing

def render(vals):
    lines = ["(* SrcConstants.v — GENERATED by gen/src_constants.py from /repo's current",
             "   sources on every run.  Do not edit. *)",
             "From Coq Require Import ZArith List.", "Import ListNotations.",
             "Local Open Scope Z_scope.", ""]
    for k in DEFAULTS:  # fixed order
        v = vals[k]
        if isinstance(v, list):
            lines.append("Definition %s : list Z := %s." % (k, coq_list(v)))
        else:
            lines.append("Definition %s : Z := %s." % (k, coq_z(v)))
    return "\n".join(lines) + "\n"

def main():
    out = sys.argv[1] if len(sys.argv) > 1 else os.path.join(os.path.dirname(__file__), "..", "coq", "SrcConstants.v")
    vals, missing = extract()
    text = render(vals)
    changed = True
    if os.path.exists(out):
        with open(out) as f:
            changed = f.read() != text
    if changed:
        with open(out, "w") as f:
            f.write(text)
    differs = [k for k in DEFAULTS if vals[k] != DEFAULTS[k]]
    print(json.dumps({"written": changed, "anchor_missing": missing, "differs_from_baseline": differs}))

if __name__ == "__main__":
    main()
