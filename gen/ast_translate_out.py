#!/usr/bin/env python3
"""Translator for the OUTPUT side helpers: src/time_zone_fixed.cc (Format02d, Parse02d,
FixedOffsetFromName, FixedOffsetToName, FixedOffsetToAbbr -> coq/SourceFixed.v) and the
output helpers of format() in src/time_zone_format.cc (Format64, Format02d, FormatOffset
-> coq/SourceFmtOut.v): clang JSON AST -> Gallina, re-run on every check.

It extends the pointer-level reading of gen/ast_translate_ptr.py (class Fn, reused here by
subclassing: literals, casts, checked int arithmetic, && / ||, if/else joins, strchr into
constant tables, output parameters) by the vocabulary these functions need.  Every
library idiom that is recognised carries its C++ precondition as an explicit error:

 * a WRITABLE char array (`char buf[N]`, or the array a `char*` parameter points into) is a
   `list (option Z)` (None = not yet written) threaded through the function; a `char*` is an index
   into it (kind wptr:<array>); `p + k`, `++p`, `--p` are `apadd arr p k` (Err OOB outside
   [0, N]); `*p = c` is `wr arr p c` (Err OOB unless 0 <= p < N); `*p` is `rdw` (Err Uninit on
   a cell never written).  A function with a `char*` parameter takes (array, index) and hands
   the array back in its result tuple; a returned `char*` is an index into the first such array;
 * `const std::string&` / `std::string` values are `list Z`; s.size() = blen s; s.data() / s.c_str()
   = index 0 into s (index length = the NUL); s == "lit" = list_eqb; s[i] = rd s i (i <= size());
   s.erase(pos, n) = str_erase (Err OOB when pos > size(): std::out_of_range); std::string("lit");
   std::string(char array) = cstr_of (the bytes up to the first NUL: Err Uninit / Err OOB when a
   cell was never written / there is no NUL inside the array);
 * std::equal(f1, l1, f2) = mem_equal (both ranges must be readable), std::copy_n(src, n, dst)
   = copy_n_w (source readable, destination inside the array);
 * a namespace-scope `const char X[] = "..."` is a read-only buffer g_X (table + k = padd g_X 0 k,
   X[i] = padd then rd); sizeof(char array) is the array's size as clang computed it;
 * std::chrono::duration<long, ratio<N,1>>: a value is its count; comparing durations of different
   periods multiplies into the common type with mul64 (checked); seconds::zero() = 0; .count();
 * assert(c) : `if c then ... else Err Precond`;  c ? a : b;  x /= k and x %= k for a positive
   literal k;  do { } while (c) / while / for loops are Fixpoints on fuel (only the functions that
   loop, or call one that does, take `fuel`).
Two more units read the body of detail::format() and ToTM (coq/SourceFmtLoop.v, coq/SourceFmtTM.v):
 * what a function obtains from code outside the translated subset is an explicit INPUT: `al = tz.lookup(tp)`
   (al_cs : fields, al_offset, al_abbr = the C string al.abbr points to), `tm = ToTM(al)` (tm : tmrec),
   `ToUnixSeconds(tp)`; the opaque parameters tz, tp may appear nowhere else.  FormatTM (strftime) and
   ToWeek are ORACLE parameters (Section variables ext_FormatTM, ext_ToWeek); get_weekday / get_yearday are
   the source-derived functions of Source64.v;
 * std::string result: `result.append(p, n)` (substr / substr_w: every cell read must exist and, in the
   scratch array, have been written), append("lit"), append(const char*) (cstr_ro), push_back,
   std::string(first, last) (substr_pp), reserve (no effect);  std::isdigit(c) needs c in [-1, 255];
   `char* bp;` has no value until assigned;  a switch whose cases end in break / return / continue is a
   chain of tests on the value computed once;  `continue`;  x / y by a non-constant is div64;
   `std::tm tm{}` is one variable per field, returned as a tmrec;
 * (these two units only) a loop is emitted as <loop>_body, taking the loop itself as `self_`, plus the
   Fixpoint that ties the knot, and big branches / the common continuation of an `if` whose branches
   may both fall through are outlined into definitions <loop>_b<n> / <loop>_k<n> - so that the tie
   proofs can treat one iteration, and each part of it, separately.
Anything else makes the function 'untranslated' (previous output kept, fact recorded; not an
alarm).  Honours VERIF_REPO.  Prints a one-line JSON status."""
import json, os, re, sys

sys.path.insert(0, os.path.dirname(__file__))
from ast_translate import Untranslatable  # noqa: E402
from ast_translate64 import walk, tystr, zl, TRANSPARENT, WIDTH, ACCESSORS, enum_value  # noqa: E402
import ast_translate_ptr as P  # noqa: E402
from ast_translate_ptr import Fn, B, txt, rebound, mentions, strip, qt, is_charptr, isptr, bufof, path_of, fn_key, UWIDTH  # noqa: E402

UNITS = [
    ("src/time_zone_fixed.cc", ["Format02d", "Parse02d", "FixedOffsetFromName", "FixedOffsetToName", "FixedOffsetToAbbr"],
     "SourceFixed.v", "so_"),
    ("src/time_zone_format.cc", ["Format64", "Format02d", "FormatOffset"], "SourceFmtOut.v", "sg_"),
    # the main loop of detail::format(); calls the functions of the unit above and ParseInt<int> of SourceFmtParse.v
    ("src/time_zone_format.cc", ["format"], "SourceFmtLoop.v", "sl_"),
    # ToTM: the struct tm fields; get_weekday / get_yearday are the functions of Source64.v (gen/ast_translate64.py)
    ("src/time_zone_format.cc", ["ToTmWday", "ToTM"], "SourceFmtTM.v", "st_"),
]
# functions of civil_time_detail.h translated by gen/ast_translate64.py into Source64.v: (Gallina name, C++ type)
EXT64 = {"get_weekday": ("Source64.s64_get_weekday", r"^(cctz::detail::)?weekday \(const (cctz::detail::)?civil_second &\)( noexcept)?$"),
         "get_yearday": ("Source64.s64_get_yearday", r"^int \(const (cctz::detail::)?civil_second &\)( noexcept)?$")}
# which definition of an overloaded name is meant (regular expression on the function type)
SIGNATURE = {"format": r"^std::string \(const std::string &, const time_point<cctz::seconds> &, const detail::femtoseconds &, const (cctz::)?time_zone &\)$"}
TM_FIELDS = ["tm_sec", "tm_min", "tm_hour", "tm_mday", "tm_mon", "tm_year", "tm_wday", "tm_yday", "tm_isdst"]
RESERVED = {"buf", "fuel", "at", "as", "in", "end", "fun", "fix", "let", "match", "with", "return", "exists", "forall", "then",
            "else", "if", "Set", "Prop", "Type", "where", "using", "rd", "wr", "rdw", "padd", "apadd", "pdiff", "blen", "alen",
            "bind", "OK", "Err", "nth", "length", "repeat", "tt", "true", "false", "None", "Some", "rv_", "st_", "tm_wday",
            "format", "fields", "tmrec", "fy", "fm", "fd", "fhh", "fmm", "fss", "substr", "cells", "c_str"} | set(TM_FIELDS)
DUR_RE = re.compile(r"^(?:std::chrono::)?duration<long(?:, (?:std::)?ratio<(\d+)(?:, (\d+))?>)?>$")


def iswptr(kd):
    return kd.startswith("wptr:")


def arrof(kd):
    return kd[5:]


def anyptr(kd):
    return isptr(kd) or kd.startswith("tptr") or iswptr(kd)


def dur_period(n):
    """(num, den) of a node whose type is std::chrono::duration<long, ratio<num, den>>, else None"""
    m = DUR_RE.match(tystr(n.get("type", {})))
    if not m:
        return None
    return int(m.group(1) or 1), int(m.group(2) or 1)


def is_string_type(n):
    s = tystr(n.get("type", {}))
    return re.match(r"^(std::)?(__cxx11::)?(basic_string<char(, .*)?>|string)$", s) is not None


def clashes(name):
    """would this C++ identifier capture a name the generated text uses (keywords, runtime functions, temporaries t<n>,
       tables g_* / lit_*, the arrays <p>_arr / <p>_buf behind pointer parameters)?"""
    return name in RESERVED or re.match(r"^(t\d+|g_.*|lit_.*|.*_arr|.*_buf|.*_loop\d+)$", name or "") is not None


def rename_reserved(ast):
    """C++ identifiers that would capture a name the generated text uses get a suffix"""
    for m in walk(ast):
        if m.get("kind") in ("VarDecl", "ParmVarDecl") and clashes(m.get("name")):
            m["name"] = m["name"] + "_v"
        ref = m.get("referencedDecl")
        if isinstance(ref, dict) and ref.get("kind") in ("VarDecl", "ParmVarDecl") and clashes(ref.get("name")):
            ref["name"] = ref["name"] + "_v"


def literal_bytes(n):
    s = json.loads(n["value"]) if n["value"].startswith('"') else n["value"]
    return [ord(c) for c in s]


class OFn(Fn):
    def __init__(self, key, ast, known, prefix, oracle_names=(), open_rec=False):
        super().__init__(key, ast, known, prefix)
        self.open_rec = open_rec  # loops as <loop>_body (self_ : the loop itself) + a Fixpoint tying the knot; big branches outlined
        self.outlines = 0
        self.needs_fuel = False
        self.oracle_names = set(oracle_names)
        self.loop_order = []
        self.tm_locals = set()
        self.recs = {}            # C++ record variable that is an INPUT -> {member: (term, kind)}
        self.rec_inputs = {}      # ... -> the parameters that carry it
        self.inputs = []          # [(parameter, Coq type)] created by abstracting external calls
        self.ext_calls = {}       # name of an external pure call on inputs only -> parameter
        self.oracles = set()      # oracle functions (Section variables) used
        self.conts = 0

    # ------------------------------------------------------------ types of the generated variables
    def vtype(self, v):
        return {"str": "list Z", "bool": "bool", "warr": "list (option Z)", "rec:fields": "fields",
                "rec:tmrec": "tmrec"}.get(self.kinds.get(v, "Z"), "Z")

    def ret_type(self):
        r = {"bool": "bool", "str": "list Z", "tmrec": "tmrec"}.get(self.ret_kind, "Z")
        return " * ".join([r] + [self.vtype(v) for v, _ in self.outs])

    def state_type(self, vs):
        return "unit" if not vs else " * ".join(self.vtype(v) for v in vs)

    def as_b(self, t, kd):
        if iswptr(kd):
            return "(negb (%s =? -1))" % t
        return super().as_b(t, kd)

    def independent(self, b1, t1, b2, t2):
        """two operands C++ leaves unsequenced: neither may rebind what the other mentions"""
        for (ba, bb, tb) in ((b1, b2, t2), (b2, b1, t1)):
            for v in rebound(ba):
                if mentions(txt(bb) + tb, v):
                    raise Untranslatable("unsequenced side effects on " + v)

    def lit_table(self, codes):
        name = "lit_" + "_".join(str(c) for c in codes) if codes else "lit_empty"
        self.tables[name] = list(codes)
        return name

    @staticmethod
    def core(n):
        """through parentheses, casts, temporaries and elidable copy/move constructions"""
        while True:
            n = strip(n)
            if n.get("kind") == "CXXConstructExpr" and len(n.get("inner", [])) == 1 \
                    and re.search(r"\((const )?[\w:<>, ]+ &&?\)( noexcept)?$", n.get("ctorType", {}).get("qualType", "")) \
                    and tystr(n.get("type", {})) == tystr(n["inner"][0].get("type", {})):
                n = n["inner"][0]
            else:
                return n

    @staticmethod
    def outer(tail):
        while tail[0] == "cont":
            tail = tail[3]
        return tail

    def ext_sig(self, call):
        """the parameter an external one-argument call is applied to, or None"""
        a = self.core(call["inner"][1])
        ref = a.get("referencedDecl", {})
        return ref.get("name") if a.get("kind") == "DeclRefExpr" and ref.get("kind") == "ParmVarDecl" else None

    def rec_member(self, n):
        """al.offset / tm.tm_wday / al.cs : (record variable, member name) or None"""
        n = strip(n)
        if n.get("kind") == "MemberExpr" and not n.get("isArrow"):
            b = strip(n["inner"][0])
            if b.get("kind") == "DeclRefExpr" and b.get("referencedDecl", {}).get("name") in self.recs:
                return b["referencedDecl"]["name"], n.get("name")
        return None

    def var_named(self, n, scope):
        n = strip(n)
        if n.get("kind") == "DeclRefExpr":
            v = n.get("referencedDecl", {}).get("name")
            if v in scope:
                return v
        return None

    # ------------------------------------------------------------ expressions
    def expr(self, n, scope):
        k = n.get("kind")
        inner = n.get("inner", [])
        if k == "UnaryExprOrTypeTraitExpr":
            if n.get("name") != "sizeof":
                raise Untranslatable("type trait " + str(n.get("name")))
            t = n["argType"].get("qualType", "") if "argType" in n else (qt(inner[0]) if inner else "")
            m = re.match(r"^(const )?char ?\[(\d+)\]$", t)      # the array type clang computed for the operand
            if not m:
                raise Untranslatable("sizeof of something that is not a char array")
            return [], zl(int(m.group(2))), "Z"
        if k == "ConditionalOperator":
            cb, ct, ck = self.expr(inner[0], scope)
            b1, t1, k1 = self.expr(inner[1], scope)
            b2, t2, k2 = self.expr(inner[2], scope)
            if anyptr(k1) or anyptr(k2) or "str" in (k1, k2):
                raise Untranslatable("conditional operator on pointers or strings")
            if rebound(b1) or rebound(b2):
                raise Untranslatable("conditional operator with side effects")
            kd = "bool" if (k1 == "bool" and k2 == "bool") else "Z"
            if kd == "Z":
                t1, t2 = self.as_z(t1, k1), self.as_z(t2, k2)
            c = self.as_b(ct, ck)
            if not b1 and not b2:
                return cb, "(if %s then %s else %s)" % (c, t1, t2), kd
            x = self.fresh()
            return cb + [B("do %s <- (if %s then %s else %s) ;;\n" % (x, c, self.block(b1, "OK %s" % t1), self.block(b2, "OK %s" % t2)))], x, kd
        if k == "DeclRefExpr":
            v = n.get("referencedDecl", {}).get("name")
            if v in scope and self.kinds.get(v) == "warr":
                return [], "0", "wptr:" + v                     # the array designates its first element
        if k == "SynthTest":
            return [], n["term"], "bool"                         # the label test of a switch case (see seq)
        if k == "StringLiteral":
            return [], "0", "tptr:" + self.table_of(n)          # a literal used as a const char*
        if k == "MemberExpr":
            rm = self.rec_member(n)
            if rm is not None:
                ent = self.recs[rm[0]].get(rm[1])
                if ent is None or ent[1] == "rec:fields":
                    raise Untranslatable("member %s of %s" % (rm[1], rm[0]))
                return [], ent[0], ent[1]
        if k == "UnaryOperator":
            op = n["opcode"]
            if op in ("++", "--"):
                v = self.var_named(inner[0], scope)
                if v is not None and iswptr(self.kinds.get(v, "Z")):
                    kd = self.kinds[v]
                    x = self.fresh()
                    step = [B("do %s <- apadd %s %s %s ;;\n" % (x, arrof(kd), v, "1" if op == "++" else "(-1)"))]
                    if n.get("isPostfix"):
                        old = self.fresh()
                        return [B("let %s := %s in\n" % (old, v))] + step + [B("let %s := %s in\n" % (v, x), v)], old, kd
                    return step + [B("let %s := %s in\n" % (v, x), v)], v, kd
            if op == "*":
                save = self.tmp
                b, t, kd = self.expr(inner[0], scope)
                if iswptr(kd):
                    x = self.fresh()
                    return b + [B("do %s <- rdw %s %s ;;\n" % (x, arrof(kd), t))], x, "Z"
                self.tmp = save
        if k == "BinaryOperator":
            op = n["opcode"]
            if op == "=":
                lhs = strip(inner[0])
                if lhs.get("kind") == "UnaryOperator" and lhs.get("opcode") == "*":
                    save = self.tmp
                    pb, pt, pk = self.expr(lhs["inner"][0], scope)
                    if iswptr(pk):
                        vb, vt, vk = self.expr(inner[1], scope)
                        if anyptr(vk) or vk == "str":
                            raise Untranslatable("store of a non-character")
                        self.independent(pb, pt, vb, vt)
                        arr = arrof(pk)
                        return vb + pb + [B("do %s <- wr %s %s %s ;;\n" % (arr, arr, pt, self.as_z(vt, vk)), arr)], self.as_z(vt, vk), "Z"
                    self.tmp = save
                v = self.var_named(inner[0], scope)
                if v is not None and iswptr(self.kinds.get(v, "Z")):
                    b, t, kd = self.expr(inner[1], scope)
                    if kd != self.kinds[v]:
                        raise Untranslatable("pointer into %s assigned from %s" % (arrof(self.kinds[v]), kd))
                    return b + [B("let %s := %s in\n" % (v, t), v)], v, kd
            if op == "/" and strip(inner[1]).get("kind") != "IntegerLiteral":
                w, sg = self.width(n)
                if not sg:
                    raise Untranslatable("unsigned division by a non-constant")
                b1, t1, k1 = self.expr(inner[0], scope)
                b2, t2, k2 = self.expr(inner[1], scope)
                b1, t1 = self.order(b1, t1, b2)
                if anyptr(k1) or anyptr(k2):
                    raise Untranslatable("division of pointers")
                x = self.fresh()
                if w != 64:
                    raise Untranslatable("int division by a non-constant")
                return b1 + b2 + [B("do %s <- div64 %s %s ;;\n" % (x, self.as_z(t1, k1), self.as_z(t2, k2)))], x, "Z"
            if op in ("+", "-", "==", "!=", "<", "<=", ">", ">=") and any("*" in qt(x) or "[" in qt(x) for x in inner):
                save = self.tmp                                   # an operand of pointer (or array) type
                b1, t1, k1 = self.expr(inner[0], scope)
                b2, t2, k2 = self.expr(inner[1], scope)
                b1, t1 = self.order(b1, t1, b2)
                if op in ("+", "-") and iswptr(k1) and not anyptr(k2) and k2 != "str":
                    x = self.fresh()
                    off = self.as_z(t2, k2) if op == "+" else "(- %s)" % self.as_z(t2, k2)
                    return b1 + b2 + [B("do %s <- apadd %s %s %s ;;\n" % (x, arrof(k1), t1, off))], x, k1
                if op in ("+", "-") and k1.startswith("tptr:") and not anyptr(k2) and k2 != "str":
                    x = self.fresh()
                    off = self.as_z(t2, k2) if op == "+" else "(- %s)" % self.as_z(t2, k2)
                    return b1 + b2 + [B("do %s <- padd %s %s %s ;;\n" % (x, k1[5:], t1, off))], x, "ptr:" + k1[5:]
                if iswptr(k1) or iswptr(k2):
                    if k1 != k2:
                        raise Untranslatable("pointers into different objects combined by " + op)
                    if op == "-":
                        x = self.fresh()
                        return b1 + b2 + [B("do %s <- pdiff %s %s ;;\n" % (x, t1, t2))], x, "Z"
                    if op == "+":
                        raise Untranslatable("sum of pointers")
                    m = {"==": "(%s =? %s)", "!=": "(negb (%s =? %s))", "<": "(%s <? %s)", "<=": "(%s <=? %s)"}
                    if op in (">", ">="):
                        op, t1, t2 = {">": "<", ">=": "<="}[op], t2, t1
                    return b1 + b2, m[op] % (t1, t2), "bool"
                self.tmp = save
        if k == "CompoundAssignOperator" and n["opcode"] in ("/=", "%="):
            v = self.var_named(inner[0], scope)
            d = strip(inner[1])
            if v is None or self.kinds.get(v, "Z") != "Z":
                raise Untranslatable("compound division of something that is not an integer variable")
            if d.get("kind") != "IntegerLiteral" or int(d["value"]) <= 0:
                raise Untranslatable("division by a non-constant or non-positive value")
            lw, lsg = self.width(strip(inner[0]))
            cw = WIDTH.get(tystr(n.get("computeResultType", {})))
            if not lsg or cw not in (32, 64) or lw > cw:
                raise Untranslatable("compound division at an unsupported type")
            f = "Z.quot" if n["opcode"] == "/=" else "Z.rem"
            return [B("let %s := (%s %s %s) in\n" % (v, f, v, d["value"]), v)], v, "Z"
        if k == "CompoundAssignOperator" and n["opcode"] in ("+=", "-="):
            v = self.var_named(inner[0], scope)
            if v is not None and iswptr(self.kinds.get(v, "Z")):
                b, t, kd = self.expr(inner[1], scope)
                if anyptr(kd) or kd == "str":
                    raise Untranslatable("pointer advanced by a non-integer")
                x = self.fresh()
                off = self.as_z(t, kd) if n["opcode"] == "+=" else "(- %s)" % self.as_z(t, kd)
                return b + [B("do %s <- apadd %s %s %s ;;\n" % (x, arrof(self.kinds[v]), v, off)), B("let %s := %s in\n" % (v, x), v)], v, self.kinds[v]
        if k == "ArraySubscriptExpr":
            base = strip(inner[0])
            ref = base.get("referencedDecl", {})
            chararr = re.match(r"^(const )?char ?\[\d+\]$", ref.get("type", {}).get("qualType", "")) is not None
            if base.get("kind") == "DeclRefExpr" and (ref.get("name") in scope or (ref.get("kind") == "VarDecl" and chararr)):
                bb, bt, bk = self.expr(inner[0], scope)
                ib, it, ik = self.expr(inner[1], scope)
                bb, bt = self.order(bb, bt, ib)
                if anyptr(ik) or ik == "str":
                    raise Untranslatable("subscript that is not an integer")
                x, y = self.fresh(), self.fresh()
                if iswptr(bk):
                    return bb + ib + [B("do %s <- apadd %s %s %s ;;\n" % (x, arrof(bk), bt, self.as_z(it, ik))),
                                      B("do %s <- rdw %s %s ;;\n" % (y, arrof(bk), x))], y, "Z"
                if isptr(bk) or bk.startswith("tptr:"):
                    bn = bk[5:] if bk.startswith("tptr:") else bufof(bk)
                    return bb + ib + [B("do %s <- padd %s %s %s ;;\n" % (x, bn, bt, self.as_z(it, ik))),
                                      B("do %s <- rd %s %s ;;\n" % (y, bn, x))], y, "Z"
                raise Untranslatable("subscript of " + bk)
        if k == "CXXOperatorCallExpr" and len(inner) == 3:
            opn = strip(inner[0]).get("referencedDecl", {}).get("name", "")
            a1, a2 = inner[1], inner[2]
            cmpm = {"operator==": "(%s =? %s)", "operator!=": "(negb (%s =? %s))", "operator<": "(%s <? %s)",
                    "operator<=": "(%s <=? %s)", "operator>": "(%s <? %s)", "operator>=": "(%s <=? %s)"}
            p1, p2 = dur_period(a1), dur_period(a2)
            if opn in cmpm and p1 and p2:
                if p1[1] != 1 or p2[1] != 1:
                    raise Untranslatable("duration with a fractional period")
                from math import gcd
                g = gcd(p1[0], p2[0])
                b1, t1, k1 = self.expr(a1, scope)
                b2, t2, k2 = self.expr(a2, scope)
                b1, t1 = self.order(b1, t1, b2)
                out = b1 + b2
                for (p, tt, which) in ((p1, t1, 0), (p2, t2, 1)):
                    if p[0] // g != 1:                          # conversion to the common type: count * (num / gcd), in long
                        x = self.fresh()
                        out.append(B("do %s <- mul64 %s %d ;;\n" % (x, tt, p[0] // g)))
                        if which == 0:
                            t1 = x
                        else:
                            t2 = x
                if opn in ("operator>", "operator>="):
                    t1, t2 = t2, t1
                return out, cmpm[opn] % (t1, t2), "bool"
            if opn in ("operator==", "operator!=") and is_string_type(a1) and strip(a2).get("kind") == "StringLiteral":
                codes = literal_bytes(strip(a2))
                if 0 in codes:
                    raise Untranslatable("string literal with an embedded NUL")
                b1, t1, k1 = self.expr(a1, scope)
                if k1 != "str":
                    raise Untranslatable("comparison of a non-string with a literal")
                e = "(list_eqb %s %s)" % (t1, self.lit_table(codes))
                return b1, e if opn == "operator==" else "(negb %s)" % e, "bool"
            if opn == "operator[]" and is_string_type(a1):
                b1, t1, k1 = self.expr(a1, scope)
                b2, t2, k2 = self.expr(a2, scope)
                b1, t1 = self.order(b1, t1, b2)
                if k1 != "str" or anyptr(k2) or k2 == "str":
                    raise Untranslatable("operator[] operands")
                x = self.fresh()
                return b1 + b2 + [B("do %s <- rd %s %s ;;\n" % (x, t1, self.as_z(t2, k2)))], x, "Z"
        if k == "CXXMemberCallExpr" and inner and inner[0].get("kind") == "MemberExpr":
            me = inner[0]
            mname = me.get("name")
            obj = me["inner"][0]
            if mname in ("size", "length") and len(inner) == 1 and is_string_type(obj):
                b, t, kd = self.expr(obj, scope)
                if kd != "str":
                    raise Untranslatable("size() of a non-string")
                return b, "(blen %s)" % t, "Z"
            if mname in ("data", "c_str") and len(inner) == 1 and is_string_type(obj):
                v = self.var_named(obj, scope)
                if v is None or self.kinds.get(v) != "str":
                    raise Untranslatable("data() of something that is not a string variable")
                return [], "0", "ptr:" + v
            if mname == "count" and len(inner) == 1 and dur_period(obj):
                b, t, kd = self.expr(obj, scope)
                return b, self.as_z(t, kd), "Z"
            rm = self.rec_member(obj)
            if mname in ACCESSORS and len(inner) == 1 and rm is not None and self.recs[rm[0]].get(rm[1], ("", ""))[1] == "rec:fields":
                self.width(n)                                     # al.cs.year() ... : a field of the civil-time input
                return [], "(%s %s)" % (ACCESSORS[mname], self.recs[rm[0]][rm[1]][0]), "Z"
            raise Untranslatable("member call " + str(mname))
        if k in ("CXXConstructExpr", "CXXTemporaryObjectExpr"):
            ct = n.get("ctorType", {}).get("qualType", "")
            if is_string_type(n):
                if re.match(r"^void \(\)( noexcept.*)?$", ct) and not inner:
                    return [], "(@nil Z)", "str"                 # std::string s;
                if re.match(r"^void \(const char \*, const char \*, const std::allocator<char> &\)$", ct) and len(inner) == 3 \
                        and inner[2].get("kind") == "CXXDefaultArgExpr":
                    b1, t1, k1 = self.expr(inner[0], scope)     # std::string(first, last)
                    b2, t2, k2 = self.expr(inner[1], scope)
                    if not (isptr(k1) and isptr(k2) and bufof(k1) == bufof(k2)) or rebound(b1) or rebound(b2):
                        raise Untranslatable("std::string(first, last) operands")
                    x = self.fresh()
                    return b1 + b2 + [B("do %s <- substr_pp %s %s %s ;;\n" % (x, bufof(k1), t1, t2))], x, "str"
                if re.match(r"^void \(const char \*, const std::allocator<char> &\)$", ct) and len(inner) == 2 \
                        and inner[1].get("kind") == "CXXDefaultArgExpr":
                    a = strip(inner[0])
                    if a.get("kind") == "StringLiteral":
                        codes = literal_bytes(a)
                        if 0 in codes:
                            codes = codes[:codes.index(0)]
                        return [], self.lit_table(codes), "str"
                    b, t, kd = self.expr(inner[0], scope)
                    if iswptr(kd):
                        x = self.fresh()
                        return b + [B("do %s <- cstr_of %s %s ;;\n" % (x, arrof(kd), t))], x, "str"
                    raise Untranslatable("std::string from " + kd)
                if re.match(r"^void \((const )?(std::)?basic_string<char(, .*)?> &&?\)( noexcept)?$", ct) and len(inner) == 1:
                    b, t, kd = self.expr(inner[0], scope)
                    if kd != "str":
                        raise Untranslatable("copy of a non-string")
                    return b, t, kd
                raise Untranslatable("std::string constructor " + ct)
            p = dur_period(n)
            if p is not None and len(inner) == 1:
                a = inner[0]
                w, sg = self.width(a)
                if not sg or w > 64:
                    raise Untranslatable("duration from an unsigned count")
                b, t, kd = self.expr(a, scope)
                return b, self.as_z(t, kd), "Z"
        return super().expr(n, scope)

    # ------------------------------------------------------------ calls
    def call(self, n, scope):
        inner = n["inner"]
        c = strip(inner[0])
        ref = c.get("referencedDecl", {})
        name = ref.get("name")
        fty = ref.get("type", {}).get("qualType", "")
        args = inner[1:]
        if name == "zero" and not args and ref.get("kind") == "CXXMethodDecl" and dur_period(n):
            return [], "0", "Z"
        if name in self.ext_calls and len(args) == 1 and self.ext_sig(n) in self.ext_calls[name]:
            return [], self.ext_calls[name][self.ext_sig(n)], "Z"   # a pure external function of the inputs: its value is an input
        if name in EXT64 and len(args) == 1 and re.match(EXT64[name][1], fty):
            rm = self.rec_member(self.core(args[0]))
            if rm is None or self.recs[rm[0]].get(rm[1], ("", ""))[1] != "rec:fields":
                raise Untranslatable(name + " of something that is not the civil time of an input")
            x = self.fresh()
            return [B("do %s <- %s %s ;;\n" % (x, EXT64[name][0], self.recs[rm[0]][rm[1]][0]))], x, "Z"
        if name == "isdigit" and len(args) == 1 and re.match(r"^int \(int\)", fty):
            b, t, kd = self.expr(args[0], scope)
            x = self.fresh()
            return b + [B("do %s <- isdigit_chk %s ;;\n" % (x, self.as_z(t, kd)))], x, "bool"
        if name == "ToWeek" and "ToWeek" in self.oracle_names and len(args) == 2 and re.match(r"^int \(const (cctz::detail::)?civil_day &, (cctz::detail::)?weekday\)$", fty):
            a0 = self.core(args[0])
            if a0.get("kind") == "CXXConstructExpr" and a0.get("inner"):
                a0 = self.core(a0["inner"][0])                    # civil_day(al.cs): the alignment is part of the oracle
            rm = self.rec_member(a0)
            if rm is None or self.recs[rm[0]].get(rm[1], ("", ""))[1] != "rec:fields":
                raise Untranslatable("ToWeek of something that is not the civil time of an input")
            b, t, kd = self.expr(args[1], scope)
            self.oracles.add("ToWeek")
            x = self.fresh()
            return b + [B("do %s <- ext_ToWeek %s %s ;;\n" % (x, self.recs[rm[0]][rm[1]][0], self.as_z(t, kd)))], x, "Z"
        if name == "equal" and len(args) == 3 and re.match(r"^bool \(const char \*, const char \*, ", fty):
            b1, t1, k1 = self.expr(args[0], scope)
            b2, t2, k2 = self.expr(args[1], scope)

            def rbuf(kd):
                if kd.startswith("tptr:"):
                    return kd[5:]
                if isptr(kd):
                    return bufof(kd)
                raise Untranslatable("std::equal on " + kd)
            if rbuf(k1) != rbuf(k2):
                raise Untranslatable("std::equal range over two objects")
            a3 = strip(args[2])
            while a3.get("kind") in ("CXXConstructExpr",) and len(a3.get("inner", [])) == 1:
                a3 = strip(a3["inner"][0])
            if a3.get("kind") == "CXXMemberCallExpr" and a3["inner"][0].get("name") == "begin" and len(a3["inner"]) == 1:
                v = self.var_named(a3["inner"][0]["inner"][0], scope)
                if v is None or self.kinds.get(v) != "str":
                    raise Untranslatable("begin() of something that is not a string variable")
                b3, t3, b3n, lim = [], "0", v, "(blen %s)" % v                      # [begin(), end()) is dereferenceable
            else:
                b3, t3, k3 = self.expr(args[2], scope)
                b3n, lim = rbuf(k3), "(blen %s + 1)" % rbuf(k3)                      # a C string: the NUL is readable too
            if rebound(b1) or rebound(b2) or rebound(b3):
                raise Untranslatable("argument evaluation order")
            x = self.fresh()
            return b1 + b2 + b3 + [B("do %s <- mem_equal %s %s %s %s %s %s ;;\n" % (x, rbuf(k1), t1, t2, b3n, t3, lim))], x, "bool"
        if name == "copy_n" and len(args) == 3 and re.match(r"^char \*\(const char \*, unsigned long, char \*\)$", fty):
            b1, t1, k1 = self.expr(args[0], scope)
            b2, t2, k2 = self.expr(args[1], scope)
            b3, t3, k3 = self.expr(args[2], scope)
            if rebound(b1) or rebound(b2) or rebound(b3):
                raise Untranslatable("argument evaluation order")
            if not (k1.startswith("tptr:") or isptr(k1)) or anyptr(k2) or k2 == "str" or not iswptr(k3):
                raise Untranslatable("std::copy_n operands")
            src = k1[5:] if k1.startswith("tptr:") else bufof(k1)
            arr = arrof(k3)
            x = self.fresh()
            return b1 + b2 + b3 + [B("do '(%s, %s) <- copy_n_w %s %s %s %s %s ;;\n" % (x, arr, src, t1, self.as_z(t2, k2), arr, t3), arr)], x, k3
        key = fn_key(ref, self.known)
        info = self.known.get(key) if key else None
        if info is None or "fuel" not in info:
            if info is not None:
                self.needs_fuel = True                            # a function translated by gen/ast_translate_ptr.py (its convention)
            return super().call(n, scope)                         # strchr, numeric_limits<>::min/max; anything else is refused there
        binds, terms, outvars = [], [], []
        bufarg, retarr = None, None
        if len(args) != len(info["params"]):
            raise Untranslatable("call with default arguments")
        for a, (pname, pkind) in zip(args, info["params"]):
            if pkind in ("int", "str"):
                p = path_of(a)
                lv = "_".join([p[0]] + p[1]) if p else None
                if lv is None or lv not in scope:
                    raise Untranslatable("output argument that is not a known variable")
                terms.append(lv)
                outvars.append(lv)
                continue
            b, t, kd = self.expr(a, scope)
            for v in rebound(b):
                if any(mentions(x, v) for x in terms):
                    raise Untranslatable("argument evaluation order")
            binds += b
            if pkind == "wptr":
                if not iswptr(kd):
                    raise Untranslatable("char* argument of kind " + kd)
                if arrof(kd) in outvars:
                    raise Untranslatable("two pointers into one array passed to a function")
                terms += [arrof(kd), t]
                outvars.append(arrof(kd))
                retarr = retarr or arrof(kd)
            elif pkind == "ptr:first":
                if kd.startswith("tptr:"):
                    bufarg = kd[5:]                               # a string literal: the table is the buffer
                elif isptr(kd):
                    bufarg = bufof(kd)
                else:
                    raise Untranslatable("pointer argument of kind " + kd)
                terms.append(t)
            elif pkind == "ptr:own":
                if not isptr(kd):
                    raise Untranslatable("pointer argument of kind " + kd)
                terms += [bufof(kd), t]
            elif pkind == "sval":
                if kd != "str":
                    raise Untranslatable("string argument of kind " + kd)
                terms.append(t)
            elif pkind == "bool":
                terms.append(self.as_b(t, kd))
            else:
                if anyptr(kd) or kd == "str":
                    raise Untranslatable("integer argument of kind " + kd)
                terms.append(self.as_z(t, kd))
        if info["fuel"]:
            self.needs_fuel = True
        head = info["gname"] + (" fuel" if info["fuel"] else "") + ((" " + bufarg) if bufarg else "")
        r = self.fresh()
        pat = "'(%s)" % ", ".join([r] + outvars) if outvars else r
        out = binds + [B("do %s <- %s %s ;;\n" % (pat, head, " ".join(terms)))] + [B("", v) for v in outvars]
        rk = info["ret"]
        if rk == "ptr":
            rk = "ptr" if bufarg == "buf" else "ptr:" + bufarg
        elif rk == "wptr":
            if retarr is None:
                raise Untranslatable("char* returned by a function without a char* parameter")
            rk = "wptr:" + retarr
        return out, r, rk

    # ------------------------------------------------------------ effects
    def ptr_vars(self, n):
        return [m.get("referencedDecl", {}).get("name") for m in walk(n) if m.get("kind") == "DeclRefExpr"]

    def assigned(self, stmts, scope):
        got = set(super().assigned(stmts, scope))
        for st in stmts:
            for m in walk(st):
                k = m.get("kind")
                if k == "BinaryOperator" and m.get("opcode") == "=":
                    lhs = strip(m["inner"][0])
                    if lhs.get("kind") == "UnaryOperator" and lhs.get("opcode") == "*":
                        for v in self.ptr_vars(lhs):
                            if iswptr(self.kinds.get(v, "Z")):
                                got.add(arrof(self.kinds[v]))
                            elif self.kinds.get(v) == "warr":
                                got.add(v)
                elif k == "CallExpr":
                    ref = strip(m["inner"][0]).get("referencedDecl", {})
                    ck = fn_key(ref, self.known)
                    info = self.known.get(ck) if ck else None
                    wargs = []
                    if info:
                        wargs = [a for a, (pn, pk) in zip(m["inner"][1:], info["params"]) if pk == "wptr"]
                    elif ref.get("name") == "copy_n" and len(m["inner"]) == 4:
                        wargs = [m["inner"][3]]
                    for a in wargs:
                        for v in self.ptr_vars(a):
                            if iswptr(self.kinds.get(v, "Z")):
                                got.add(arrof(self.kinds[v]))
                            elif self.kinds.get(v) == "warr":
                                got.add(v)
                elif k == "CXXMemberCallExpr":
                    me = m["inner"][0]
                    if me.get("kind") == "MemberExpr" and me.get("name") in ("erase", "append", "push_back"):
                        v = strip(me["inner"][0]).get("referencedDecl", {}).get("name")
                        if v:
                            got.add(v)
                if k == "CallExpr" and strip(m["inner"][0]).get("referencedDecl", {}).get("name") == "FormatTM" and len(m["inner"]) == 4:
                    a = strip(m["inner"][1])
                    if a.get("kind") == "UnaryOperator" and a.get("opcode") == "&":
                        got.add(strip(a["inner"][0]).get("referencedDecl", {}).get("name"))
        return [v for v in scope if v in got]

    def used(self, stmts, scope):
        names = set(super().used(stmts, scope))
        for st in stmts:
            for m in walk(st):
                if m.get("kind") == "DeclRefExpr" and m.get("referencedDecl", {}).get("name") in self.rec_inputs:
                    names.update(self.rec_inputs[m["referencedDecl"]["name"]])
                if m.get("kind") == "CallExpr":
                    nm = strip(m["inner"][0]).get("referencedDecl", {}).get("name")
                    if nm in self.ext_calls and len(m["inner"]) == 2:
                        names.update(self.ext_calls[nm].values())
        for v in list(names):
            kd = self.kinds.get(v, "Z")
            if kd == "ptr":
                names.add("buf")
            elif kd.startswith("ptr:"):
                names.add(bufof(kd))
            elif iswptr(kd):
                names.add(arrof(kd))
        return [v for v in scope if v in names]

    def walk_own(self, n):
        """the nodes whose return / break / continue leave the statement n itself"""
        if isinstance(n, dict):
            yield n
            if n.get("kind") in ("ForStmt", "WhileStmt", "DoStmt", "SwitchStmt"):
                for m in walk(n):
                    if m.get("kind") == "ReturnStmt" or (m.get("kind") == "ContinueStmt" and n.get("kind") == "SwitchStmt"):
                        yield m
                return
            for c in n.get("inner", []):
                yield from self.walk_own(c)

    def always_escapes(self, stmts):
        if stmts and stmts[-1].get("kind") == "ContinueStmt":
            return True
        return super().always_escapes(stmts)

    def finish(self, tail, val):
        return super().finish(self.outer(tail), val)

    def outline(self, stmts, scope, tail, tag):
        """(open_rec mode, inside a loop) the statements become a definition of their own, taking the loop (self_), fuel and
           every variable in scope; returns the call"""
        ot = self.outer(tail)
        self.outlines += 1
        name = "%s_%s%d" % (ot[1], tag, self.outlines)
        self.loops.append(None)
        idx = len(self.loops) - 1
        body = self.seq(stmts, scope, tail)
        self.loops[idx] = "Definition %s (self_ : %s) (fuel : nat) %s :=\n(*PRE*)%s.\n\n" % (
            name, ot[5], " ".join("(%s : %s)" % (v, self.vtype(v)) for v in scope), body)
        self.loop_order.append(idx)
        return "%s self_ fuel %s" % (name, " ".join(scope))

    def size(self, stmts):
        return sum(1 for x in stmts for _ in walk(x))

    def switch_groups(self, st):
        """switch (e) { case a: case b: S...; break; ... }  ->  [([a, b], [S...])]; every group ends in break"""
        body = st["inner"][-1]
        if body.get("kind") != "CompoundStmt":
            raise Untranslatable("switch body")
        groups, labels, cur = [], None, None
        for x in body.get("inner", []):
            while x.get("kind") == "CaseStmt":
                if cur:
                    raise Untranslatable("fall-through between switch cases")
                v = x["inner"][0]
                if v.get("kind") != "ConstantExpr" or "value" not in v or len(x["inner"]) != 2:
                    raise Untranslatable("case label")
                labels = (labels or []) + [int(v["value"])]
                cur = []
                x = x["inner"][1]
            if x.get("kind") == "DefaultStmt" or labels is None:
                raise Untranslatable("switch with default or a statement before the first case")
            if x.get("kind") == "BreakStmt":
                groups.append((labels, cur))
                labels, cur = None, None
            else:
                if any(m.get("kind") == "BreakStmt" for m in self.walk_own(x)):
                    raise Untranslatable("break nested inside a switch case")
                cur.append(x)
                if x.get("kind") in ("ReturnStmt", "ContinueStmt"):          # the case leaves the switch without break
                    groups.append((labels, cur))
                    labels, cur = None, None
        if labels is not None:
            raise Untranslatable("last switch case does not end in break")
        return groups

    # ------------------------------------------------------------ statements
    def seq(self, stmts, scope, tail):
        if not stmts:
            if tail[0] == "cont":
                return tail[1] if self.open_rec else "%s %s" % (tail[1], self.tup(tail[2]))
            return super().seq(stmts, scope, tail)
        st, rest = stmts[0], stmts[1:]
        k = st.get("kind")
        if k == "ContinueStmt":
            ot = self.outer(tail)
            if ot[0] not in ("loop", "ploop"):
                raise Untranslatable("continue inside a joined branch or outside a loop")
            return ot[4]
        if k == "BreakStmt":
            return super().seq(stmts, scope, self.outer(tail))
        if k == "SwitchStmt":
            groups = self.switch_groups(st)
            cb, ct, ck = self.expr(st["inner"][0], scope)
            if anyptr(ck) or ck == "str":
                raise Untranslatable("switch on a non-integer")
            x = self.fresh()
            chain = None
            for labels, body in reversed(groups):
                test = {"kind": "SynthTest", "term": "(%s)" % " || ".join("(%s =? %s)" % (x, zl(v)) for v in labels)}
                node = {"kind": "IfStmt", "inner": [test, {"kind": "CompoundStmt", "inner": body}]}
                if chain is not None:
                    node["inner"].append(chain)
                    node["hasElse"] = True
                chain = node
            head = txt(cb) + "let %s := %s in\n" % (x, self.as_z(ct, ck))
            return head + self.seq(([chain] if chain else []) + rest, scope, tail)
        if k == "IfStmt" and not st.get("hasVar") and self.open_rec and self.outer(tail)[0] in ("loop", "ploop") and tail[0] != "cont":
            th = self.body_list(st["inner"][1])
            el = self.body_list(st["inner"][2]) if st.get("hasElse") else []
            esc_t, esc_e = self.always_escapes(th), self.always_escapes(el)
            if (self.escapes(th) or self.escapes(el)) and (self.size(th) > 60 or self.size(el + rest) > 60):
                cb, ct, ck = self.expr(st["inner"][0], scope)
                if not esc_t and not esc_e and rest:
                    # both branches may reach the statements after the if: those become one outlined continuation
                    kcall = self.outline(rest, scope, tail, "k")
                    sub = ("cont", kcall, [], tail)
                    a, b = self.seq(th, scope, sub), self.seq(el, scope, sub)
                else:
                    ths = th if esc_t else th + rest
                    els = el if esc_e else el + rest
                    a = self.outline(ths, scope, tail, "b") if self.size(ths) > 60 else self.seq(ths, scope, tail)
                    b = self.outline(els, scope, tail, "b") if self.size(els) > 60 else self.seq(els, scope, tail)
                return "%sif %s then (\n%s\n) else (\n%s\n)" % (txt(cb), self.as_b(ct, ck), a, b)
        if k == "IfStmt" and not st.get("hasVar"):
            th = self.body_list(st["inner"][1])
            el = self.body_list(st["inner"][2]) if st.get("hasElse") else []
            if (self.escapes(th) or self.escapes(el)) and rest and not self.always_escapes(th) and not self.always_escapes(el) \
                    and self.outer(tail)[0] in ("loop", "none") and sum(1 for x in rest for _ in walk(x)) > 60:
                # both branches may reach the statements after the if: those are translated once, as a local continuation
                vs = self.assigned(th + el, scope)
                self.conts += 1
                kn = "k%d_" % self.conts
                cb, ct, ck = self.expr(st["inner"][0], scope)     # its side effects come before the continuation is formed
                rest_text = self.seq(rest, scope, tail)
                if not vs:
                    fn = "fun (st_ : unit) =>\n%s" % rest_text
                elif len(vs) == 1:
                    fn = "fun (%s : %s) =>\n%s" % (vs[0], self.vtype(vs[0]), rest_text)
                else:
                    fn = "fun (st_ : %s) => let %s := st_ in\n%s" % (self.state_type(vs), self.pat(vs), rest_text)
                sub = ("cont", kn, vs, tail)
                return "%slet %s := %s in\nif %s then (\n%s\n) else (\n%s\n)" % (
                    txt(cb), kn, fn, self.as_b(ct, ck), self.seq(th, scope, sub), self.seq(el, scope, sub))
        if k in TRANSPARENT and k != "ExprWithCleanups":
            return self.seq([st["inner"][-1]] + rest, scope, tail)
        if k == "ConditionalOperator":
            ins = st["inner"]
            fail = strip(ins[2])
            if qt(st) == "void" and fail.get("kind") == "CallExpr" \
                    and strip(fail["inner"][0]).get("referencedDecl", {}).get("name") == "__assert_fail" \
                    and not any(m.get("kind") in ("CallExpr", "BinaryOperator", "UnaryOperator") for m in walk(ins[1])):
                cb, ct, ck = self.expr(ins[0], scope)                     # assert(c)
                if rebound(cb):
                    raise Untranslatable("assert with side effects")
                return "%sif %s then (\n%s\n) else (\nErr Precond\n)" % (txt(cb), self.as_b(ct, ck), self.seq(rest, scope, tail))
            raise Untranslatable("conditional operator as a statement")
        if k == "DeclStmt":
            out, sc = "", list(scope)
            for vd in st.get("inner", []):
                if vd["kind"] != "VarDecl":
                    raise Untranslatable("declaration of " + vd["kind"])
                name = vd["name"]
                if name in self.recs:
                    if tail[0] != "none":
                        raise Untranslatable("input record declared inside a branch or loop")
                    continue                                                 # an INPUT (see scan_inputs): nothing to compute
                if name in sc or name in self.tables:
                    raise Untranslatable("shadowing declaration of " + name)
                q = qt(vd)
                m = re.match(r"^char ?\[(\d+)\]$", q)
                if m and not vd.get("inner"):
                    self.kinds[name] = "warr"                               # char buf[N]; : N cells, none written yet
                    out += "let %s := repeat (@None Z) %s in\n" % (name, m.group(1))
                    sc.append(name)
                    continue
                if re.match(r"^(std::)?tm$", q) and len(vd.get("inner", [])) == 1 and vd["inner"][0].get("kind") == "InitListExpr" \
                        and all(e.get("kind") == "ImplicitValueInitExpr" for e in vd["inner"][0].get("inner", [])):
                    if tail[0] != "none":
                        raise Untranslatable("struct tm declared inside a branch or loop")
                    self.local_outs[name] = "struct"                         # std::tm tm{}; : one variable per field, all zero
                    self.tm_locals.add(name)
                    for f in TM_FIELDS:
                        self.kinds["%s_%s" % (name, f)] = "Z"
                        out += "let %s_%s := 0 in\n" % (name, f)
                        sc.append("%s_%s" % (name, f))
                    continue
                if re.match(r"^char \*$", q.strip()) and not vd.get("inner"):
                    arrs = [v for v in sc if self.kinds.get(v) == "warr"]
                    if len(arrs) != 1:
                        raise Untranslatable("uninitialised char* with no unique array in scope")
                    self.kinds[name] = "wptr:" + arrs[0]                     # char* bp; : no value yet (any use before an assignment errs)
                    out += "let %s := (-1) in\n" % name
                    sc.append(name)
                    continue
                if not vd.get("inner"):
                    raise Untranslatable("declaration without initialiser")
                b, t, kd = self.expr(vd["inner"][-1], sc)
                ty = tystr(vd.get("type", {}))
                if is_charptr(q) or re.match(r"^char \*(const)?$", q.strip()):
                    if not anyptr(kd):
                        raise Untranslatable("pointer initialised from " + kd)
                    if iswptr(kd) != (re.match(r"^char \*(const)?$", q.strip()) is not None):
                        raise Untranslatable("constness of a pointer into " + kd)
                    self.kinds[name] = kd
                elif is_string_type(vd):
                    if kd != "str":
                        raise Untranslatable("string initialised from " + kd)
                    self.kinds[name] = "str"
                elif ty == "bool":
                    self.kinds[name] = "bool"
                    t = self.as_b(t, kd)
                elif ty in WIDTH or ty in UWIDTH:
                    if anyptr(kd) or kd == "str":
                        raise Untranslatable("integer initialised from " + kd)
                    self.kinds[name] = "Z"
                    t = self.as_z(t, kd)
                else:
                    raise Untranslatable("declaration of type " + ty)
                out += txt(b) + "let %s := %s in\n" % (name, t)
                sc.append(name)
            return out + self.seq(rest, sc, tail)
        if k == "ReturnStmt":
            if not st.get("inner"):
                raise Untranslatable("return without a value")
            rk = self.ret_kind
            if rk == "tmrec":
                v = self.core(st["inner"][0]).get("referencedDecl", {}).get("name")
                if v not in self.tm_locals:
                    raise Untranslatable("std::tm function returning something that is not a local struct tm")
                return self.finish(tail, "(mkTM %s)" % " ".join("%s_%s" % (v, f) for f in TM_FIELDS))
            b, t, kd = self.expr(st["inner"][0], scope)
            if rk == "bool":
                t = self.as_b(t, kd)
            elif rk == "Z":
                if anyptr(kd) or kd == "str":
                    raise Untranslatable("integer function returning " + kd)
                t = self.as_z(t, kd)
            elif rk == "str":
                if kd != "str":
                    raise Untranslatable("string function returning " + kd)
            elif rk == "wptr":
                if not iswptr(kd) or arrof(kd) != self.first_warr:
                    raise Untranslatable("char* function returning " + kd)
            elif rk == "ptr":
                if not (kd == "ptr" or t == "(-1)"):
                    raise Untranslatable("const char* function returning " + kd)
            return txt(b) + self.finish(tail, t)
        if k == "CXXMemberCallExpr" and st["inner"][0].get("kind") == "MemberExpr" and st["inner"][0].get("name") == "erase":
            me = st["inner"][0]
            v = self.var_named(me["inner"][0], scope)
            if v is None or self.kinds.get(v) != "str" or len(st["inner"]) != 3:
                raise Untranslatable("erase() form")
            b1, t1, k1 = self.expr(st["inner"][1], scope)
            b2, t2, k2 = self.expr(st["inner"][2], scope)
            if rebound(b1) or rebound(b2) or anyptr(k1) or anyptr(k2):
                raise Untranslatable("erase() arguments")
            return txt(b1 + b2) + "do %s <- str_erase %s %s %s ;;\n" % (v, v, self.as_z(t1, k1), self.as_z(t2, k2)) + self.seq(rest, scope, tail)
        if k == "CXXMemberCallExpr" and st["inner"][0].get("kind") == "MemberExpr" \
                and st["inner"][0].get("name") in ("append", "push_back", "reserve"):
            me, args = st["inner"][0], st["inner"][1:]
            v = self.var_named(me["inner"][0], scope)
            if v is None or self.kinds.get(v) != "str":
                raise Untranslatable("%s() on something that is not a string variable" % me["name"])
            go = lambda: self.seq(rest, scope, tail)
            if me["name"] == "reserve" and len(args) == 1:
                b, t, kd = self.expr(args[0], scope)
                if rebound(b) or anyptr(kd):
                    raise Untranslatable("reserve() argument")
                return txt(b) + go()                                         # capacity only
            if me["name"] == "push_back" and len(args) == 1:
                b, t, kd = self.expr(args[0], scope)
                if anyptr(kd) or kd == "str":
                    raise Untranslatable("push_back of a non-character")
                return txt(b) + "let %s := %s ++ [%s] in\n" % (v, v, self.as_z(t, kd)) + go()
            if me["name"] == "append" and len(args) == 2:                    # append(p, n)
                b1, t1, k1 = self.expr(args[0], scope)
                b2, t2, k2 = self.expr(args[1], scope)
                if rebound(b1) or rebound(b2) or anyptr(k2) or k2 == "str":
                    raise Untranslatable("append(p, n) arguments")
                x = self.fresh()
                if iswptr(k1):
                    rdr = "substr_w %s %s %s" % (arrof(k1), t1, self.as_z(t2, k2))
                elif isptr(k1):
                    rdr = "substr %s %s %s" % (bufof(k1), t1, self.as_z(t2, k2))
                else:
                    raise Untranslatable("append from " + k1)
                return txt(b1 + b2) + "do %s <- %s ;;\nlet %s := %s ++ %s in\n" % (x, rdr, v, v, x) + go()
            if me["name"] == "append" and len(args) == 1:
                a = strip(args[0])
                if a.get("kind") == "StringLiteral":                         # append("lit")
                    codes = literal_bytes(a)
                    codes = codes[:codes.index(0)] if 0 in codes else codes
                    return "let %s := %s ++ %s in\n" % (v, v, self.lit_table(codes)) + go()
                b, t, kd = self.expr(args[0], scope)
                if rebound(b):
                    raise Untranslatable("append() argument")
                if kd == "str":
                    return txt(b) + "let %s := %s ++ %s in\n" % (v, v, t) + go()
                if isptr(kd):                                                # append(const char*): the C string at p
                    x = self.fresh()
                    return txt(b) + "do %s <- cstr_ro %s %s ;;\nlet %s := %s ++ %s in\n" % (x, bufof(kd), t, v, v, x) + go()
                raise Untranslatable("append of " + kd)
            raise Untranslatable("%s() form" % me["name"])
        if k in ("ExprWithCleanups", "CallExpr"):
            c = st
            while c.get("kind") in TRANSPARENT:
                c = c["inner"][-1]
            if c.get("kind") == "CallExpr" and strip(c["inner"][0]).get("referencedDecl", {}).get("name") == "FormatTM" \
                    and len(c["inner"]) == 4 and "FormatTM" in self.oracle_names:
                a0, a1, a2 = c["inner"][1:]
                a0 = strip(a0)
                v = self.var_named(a0["inner"][0], scope) if a0.get("kind") == "UnaryOperator" and a0.get("opcode") == "&" else None
                tmv = strip(a2).get("referencedDecl", {}).get("name")
                if v is None or self.kinds.get(v) != "str" or self.kinds.get(tmv) != "rec:tmrec":
                    raise Untranslatable("FormatTM arguments")
                b, t, kd = self.expr(a1, scope)
                if kd != "str" or rebound(b):
                    raise Untranslatable("FormatTM format argument")
                self.oracles.add("FormatTM")
                return txt(b) + "let %s := %s ++ ext_FormatTM %s %s in\n" % (v, v, t, tmv) + self.seq(rest, scope, tail)
        if k in ("ForStmt", "WhileStmt", "DoStmt"):
            return self.loop(st, rest, scope, tail)
        return super().seq(stmts, scope, tail)

    def loop(self, st, rest, scope, tail):
        k = st["kind"]
        ins = st["inner"]
        if k == "ForStmt":
            init, cvar, cond, inc, body = (ins + [None] * 5)[:5]
        elif k == "WhileStmt":
            init, inc = None, None
            cvar, cond, body = (None, ins[0], ins[1]) if len(ins) == 2 else (ins[0], ins[1], ins[2])
        else:
            init, inc, cvar = None, None, None
            body, cond = ins[0], ins[1]
        if init:
            return self.seq([init, dict(st, inner=[None, cvar, cond, inc, body], kind="ForStmt")] + rest, scope, tail)
        if cvar and not cvar.get("inner"):
            cvar = None
        self.needs_fuel = True
        bl = self.body_list(body)
        pieces = ([cvar] if cvar else []) + ([cond] if cond else []) + ([inc] if inc else []) + bl
        stv = self.assigned(pieces, scope)
        ro = [v for v in self.used(pieces, scope) if v not in stv]
        has_ret = any(m.get("kind") == "ReturnStmt" for x in pieces if x for m in walk(x))
        if has_ret:
            ro = [v for v in scope if v not in stv and (v in ro or v in [o for o, _ in self.outs])]
        ot = self.outer(tail)
        plain_loop = ot[0] == "fall" or (self.open_rec and not has_ret)
        if plain_loop and has_ret:
            raise Untranslatable("return inside a loop inside a joined branch")
        self.nloops = getattr(self, "nloops", 0) + 1
        lname = "%s_loop%d" % (self.gname, self.nloops if self.open_rec else len(self.loops) + 1)
        self.loops.append(None)
        idx = len(self.loops) - 1
        sc = list(scope)
        head = ""
        if cvar:
            vd = cvar["inner"][0]
            b, t, kd = self.expr(vd["inner"][-1], sc)
            self.kinds[vd["name"]] = kd
            head += txt(b) + "let %s := %s in\n" % (vd["name"], t)
            sc.append(vd["name"])
        cb, ct, ck = self.expr(cond, sc) if cond else ([], "true", "bool")
        if rebound(cb) - set(stv):
            raise Untranslatable("loop condition rebinds a non-state variable")
        rty = self.state_type(stv) if plain_loop else "option (%s) * (%s)" % (self.ret_type(), self.state_type(stv))
        selfty = " -> ".join([self.vtype(v) for v in ro + stv] + ["res (%s)" % rty])
        recur = ("self_ %s" if self.open_rec else lname + " fuel %s") % " ".join(ro + stv)
        if inc:
            ib, it, ik = self.expr(inc, sc)
            recur = txt(ib) + recur
        stop = "OK %s" % self.tup(stv) if plain_loop else "OK (None, %s)" % self.tup(stv)
        mode = "ploop" if plain_loop else "loop"
        if k == "DoStmt":
            again = "%sif %s then (\n%s\n) else (\n%s\n)" % (txt(cb), self.as_b(ct, ck), recur, stop)
            itxt = self.seq(bl, sc, (mode, lname, ro, stv, again, selfty))
        else:
            btxt = self.seq(bl, sc, (mode, lname, ro, stv, recur, selfty))
            itxt = "%s%sif %s then (\n%s\n) else (\n%s\n)" % (head, txt(cb), self.as_b(ct, ck), btxt, stop)
        sig = " ".join("(%s : %s)" % (v, self.vtype(v)) for v in ro + stv)
        if self.open_rec:
            self.loops[idx] = ("Definition %s_body (self_ : %s) (fuel : nat) %s : res (%s) :=\n(*PRE*)%s.\n\n"
                               "Fixpoint %s (fuel : nat) %s {struct fuel} : res (%s) :=\n  match fuel with\n  | O => Err Fuel\n"
                               "  | S fuel => %s_body (%s fuel) fuel %s\n  end.\n\n"
                               % (lname, selfty, sig, rty, itxt, lname, sig, rty, lname, lname, " ".join(ro + stv)))
        else:
            self.loops[idx] = ("Fixpoint %s (fuel : nat) %s {struct fuel} : res (%s) :=\n  match fuel with\n  | O => Err Fuel\n  | S fuel =>\n%s\n  end.\n\n"
                               % (lname, sig, rty, itxt))
        self.loop_order.append(idx)                     # an inner loop is complete, hence defined, before the loop around it
        call = "%s fuel %s" % (lname, " ".join(ro + stv))
        if plain_loop:
            return "do %s <- %s ;;\n%s" % (self.pat(stv), call, self.seq(rest, scope, tail))
        r = self.fresh()
        after = self.seq(rest, scope, tail)
        if ot[0] == "loop":
            got = "OK (Some rv_, %s)" % self.tup(ot[3])
        elif ot[0] == "ploop":
            raise Untranslatable("returning loop inside a plain loop")
        else:
            got = "OK rv_"
        return "do '(%s, %s) <- %s ;;\nmatch %s with\n| Some rv_ => %s\n| None =>\n%s\nend" % (
            r, self.tup(stv) if len(stv) != 1 else stv[0], call, r, got, after)

    # ------------------------------------------------------------ function
    def check_seconds(self):
        """every node typed cctz::seconds must be a std::chrono::duration<long, ratio<1>>"""
        for m in walk(self.ast):
            t = m.get("type", {})
            if re.match(r"^(const )?(cctz::)?seconds$", t.get("qualType", "")) and "desugaredQualType" in t:
                if dur_period(m) != (1, 1):
                    raise Untranslatable("cctz::seconds is " + t["desugaredQualType"])

    def scan_inputs(self, body, params, scope):
        """what the function obtains from code outside the translated subset becomes an explicit INPUT (a parameter):
             const time_zone::absolute_lookup al = tz.lookup(tp);   ->  al_cs : fields, al_offset : Z, al_abbr : the C string
             const std::tm tm = ToTM(al);                            ->  tm : tmrec
             ToUnixSeconds(tp)                                       ->  ToUnixSeconds_tp : Z
           (tz, tp are opaque parameters and may appear nowhere else)"""
        def add(name, ty, kind):
            params.append("(%s : %s)" % (name, ty))
            scope.append(name)
            self.kinds[name] = kind
            self.inputs.append((name, ty))
        allowed = set()
        for st in body.get("inner", []):
            if st.get("kind") != "DeclStmt":
                continue
            for vd in st.get("inner", []):
                if vd.get("kind") != "VarDecl" or not vd.get("inner"):
                    continue
                init, q, v = self.core(vd["inner"][-1]), qt(vd), vd["name"]
                if re.match(r"^const (cctz::)?time_zone::absolute_lookup$", q) and init.get("kind") == "CXXMemberCallExpr" \
                        and init["inner"][0].get("name") == "lookup" and len(init["inner"]) == 2 \
                        and strip(init["inner"][0]["inner"][0]).get("referencedDecl", {}).get("name") in self.opaque \
                        and strip(init["inner"][1]).get("referencedDecl", {}).get("name") in self.opaque:
                    add(v + "_cs", "fields", "rec:fields")
                    add(v + "_offset", "Z", "Z")
                    add(v + "_abbr", "list Z", "str")
                    self.recs[v] = {"cs": (v + "_cs", "rec:fields"), "offset": (v + "_offset", "Z"), "abbr": ("0", "ptr:" + v + "_abbr")}
                    self.rec_inputs[v] = [v + "_cs", v + "_offset", v + "_abbr"]
                    allowed.update(id(m) for m in walk(vd))
                elif re.match(r"^const (std::)?tm$", q) and init.get("kind") == "CallExpr" and len(init["inner"]) == 2 \
                        and strip(init["inner"][0]).get("referencedDecl", {}).get("name") == "ToTM" \
                        and strip(init["inner"][1]).get("referencedDecl", {}).get("name") in self.recs:
                    add(v, "tmrec", "rec:tmrec")
                    self.recs[v] = {f: ("(%s %s)" % (f, v), "Z") for f in TM_FIELDS}
                    self.rec_inputs[v] = [v]
                    allowed.update(id(m) for m in walk(vd))
        for m in walk(body):
            if m.get("kind") == "CallExpr" and len(m.get("inner", [])) == 2:
                nm = strip(m["inner"][0]).get("referencedDecl", {}).get("name")
                arg = self.ext_sig(m)
                if nm == "ToUnixSeconds" and arg in self.opaque and WIDTH.get(tystr(m.get("type", {}))) == 64:
                    pn = "%s_%s" % (nm, arg)
                    if pn not in scope:
                        add(pn, "Z", "Z")
                    self.ext_calls.setdefault(nm, {})[arg] = pn
                    allowed.update(id(x) for x in walk(m))
        for m in walk(body):
            if m.get("kind") == "DeclRefExpr" and m.get("referencedDecl", {}).get("name") in self.opaque and id(m) not in allowed:
                raise Untranslatable("opaque parameter %s used outside the recognised external calls" % m["referencedDecl"]["name"])

    def translate(self):
        rename_reserved(self.ast)
        params, scope, sig, body = [], [], [], None
        self.first_warr = None
        self.opaque = set()
        for c in self.ast.get("inner", []):
            if c["kind"] == "ParmVarDecl":
                t, p = qt(c).strip(), c.get("name")
                if p is None:
                    raise Untranslatable("unnamed parameter")
                if re.match(r"^char \*$", t):
                    arr = p + "_arr"
                    self.kinds[p], self.kinds[arr] = "wptr:" + arr, "warr"
                    params.append("(%s : list (option Z)) (%s : Z)" % (arr, p))
                    scope += [arr, p]
                    self.outs.append((arr, "warr"))
                    self.first_warr = self.first_warr or arr
                    sig.append((p, "wptr"))
                elif is_charptr(t):
                    if not any(kd.startswith("ptr") for _, kd in sig):
                        self.kinds[p], self.kinds["buf"] = "ptr", "str"
                        params.insert(0, "(buf : list Z)")
                        params.append("(%s : Z)" % p)
                        scope += ["buf", p]
                        sig.append((p, "ptr:first"))
                    else:
                        self.kinds[p], self.kinds[p + "_buf"] = "ptr:%s_buf" % p, "str"
                        params.append("(%s_buf : list Z) (%s : Z)" % (p, p))
                        scope += [p + "_buf", p]
                        sig.append((p, "ptr:own"))
                elif re.match(r"^const std::string &$", t):
                    self.kinds[p] = "str"
                    params.append("(%s : list Z)" % p)
                    scope.append(p)
                    sig.append((p, "sval"))
                elif re.match(r"^(const )?(cctz::)?seconds( &)?$", t):
                    self.kinds[p] = "Z"
                    params.append("(%s : Z)" % p)
                    scope.append(p)
                    sig.append((p, "val"))
                elif re.match(r"^(int|long|std::int_fast32_t|std::int_fast64_t|(cctz::)?seconds) \*$", t):
                    self.out_roots[p] = "int"
                    self.kinds[p] = "Z"
                    self.outs.append((p, "int"))
                    sig.append((p, "int"))
                elif re.match(r"^std::string \*$", t):
                    self.out_roots[p] = "str"
                    self.kinds[p] = "str"
                    self.outs.append((p, "str"))
                    sig.append((p, "str"))
                elif tystr(c.get("type", {})) == "bool":
                    self.kinds[p] = "bool"
                    params.append("(%s : bool)" % p)
                    scope.append(p)
                    sig.append((p, "bool"))
                elif re.match(r"^const (detail::|cctz::detail::)?femtoseconds &$", t):
                    self.kinds[p] = "Z"                                      # a duration: its count
                    params.append("(%s : Z)" % p)
                    scope.append(p)
                    sig.append((p, "val"))
                elif re.match(r"^(cctz::detail::|cctz::)?weekday$", t):
                    self.kinds[p] = "Z"                                      # an enumerator: its value
                    params.append("(%s : Z)" % p)
                    scope.append(p)
                    sig.append((p, "val"))
                elif re.match(r"^const (cctz::)?time_zone::absolute_lookup &$", t):
                    for nm, ty, kd in ((p + "_cs", "fields", "rec:fields"), (p + "_offset", "Z", "Z"), (p + "_is_dst", "bool", "bool"),
                                       (p + "_abbr", "list Z", "str")):
                        params.append("(%s : %s)" % (nm, ty))
                        scope.append(nm)
                        self.kinds[nm] = kd
                    self.recs[p] = {"cs": (p + "_cs", "rec:fields"), "offset": (p + "_offset", "Z"), "is_dst": (p + "_is_dst", "bool"),
                                    "abbr": ("0", "ptr:" + p + "_abbr")}
                    self.rec_inputs[p] = [p + "_cs", p + "_offset", p + "_is_dst", p + "_abbr"]
                    sig.append((p, "rec"))
                elif re.match(r"^const (time_point<(cctz::)?seconds>|(cctz::)?time_zone) &$", t):
                    self.opaque.add(p)                                       # only ever handed to the external calls of scan_inputs
                    sig.append((p, "opaque"))
                else:
                    self.width(c)
                    self.kinds[p] = "Z"
                    params.append("(%s : Z)" % p)
                    scope.append(p)
                    sig.append((p, "val"))
            elif c["kind"] == "CompoundStmt":
                body = c
        if body is None:
            raise Untranslatable("no body")
        self.scan_inputs(body, params, scope)
        self.check_seconds()
        for m in walk(body):
            if m.get("kind") == "VarDecl" and tystr(m.get("type", {})) in WIDTH:
                self.local_outs[m["name"]] = "int"
        for v, kd in self.outs:
            if v not in scope:
                params.append("(%s : %s)" % (v, self.vtype(v)))
                scope.append(v)
        rt = qt(self.ast).split("(")[0].strip()
        if rt == "bool":
            self.ret_kind = "bool"
        elif rt == "char *":
            self.ret_kind = "wptr"
        elif is_charptr(rt):
            self.ret_kind = "ptr"
        elif rt == "std::string":
            self.ret_kind = "str"
        elif rt in ("int", "long", "std::int_fast64_t", "std::int_fast32_t"):
            self.ret_kind = "Z"
        elif rt == "std::tm":
            self.ret_kind = "tmrec"
        else:
            raise Untranslatable("return type " + rt)
        term = self.seq(self.body_list(body), scope, ("none",))
        pre = "".join("let %s := %s in\n" % (tn, "[%s]" % "; ".join(zl(c) for c in cs) if cs else "(@nil Z)")
                      for tn, cs in sorted(list(self.tables.items()) + list(self.itables.items())))
        text = "".join(l.replace("(*PRE*)", pre) if "(*PRE*)" in l else (l.replace("  | S fuel =>\n", "  | S fuel =>\n" + pre, 1) if pre else l)
                       for l in (self.loops[i] for i in self.loop_order))
        if self.needs_fuel:
            params.insert(0, "(fuel : nat)")
        text += "Definition %s %s : res (%s) :=\n%s%s.\n" % (self.gname, " ".join(params), self.ret_type(), pre, term)
        info = {"gname": self.gname, "params": sig, "ret": self.ret_kind, "outs": list(self.outs), "ctype": qt(self.ast),
                "fuel": self.needs_fuel, "outs_of": {}}
        return text, info


PRELUDE = """(* %(out)s - GENERATED by gen/ast_translate_out.py from clang's AST of /repo's current
   %(src)s (%(fns)s) on every run.  Do not edit.
   Read-only character data (std::string values, string literals, namespace-scope const char
   arrays) are [list Z] with the NUL at index length (rd / padd / pdiff of SourcePosix.v);
   writable char arrays are [list (option Z)] threaded through (None = never written);
   see the translator's header for the full reading. *)
From CCTZ Require Import Base.
From CCTZ Require Export SourcePosix.
Local Open Scope Z_scope.
"""

RUNTIME = """
(* ---- writable character arrays ---- *)
Definition alen (a : list (option Z)) : Z := Z.of_nat (length a).
(* p + k inside (or one past) an array of alen a chars *)
Definition apadd (a : list (option Z)) (p k : Z) : res Z :=
  if p <? 0 then Err Precond
  else if (0 <=? p + k) && (p + k <=? alen a) then OK (p + k) else Err OOB.
Fixpoint upd (a : list (option Z)) (i : nat) (c : Z) : list (option Z) :=
  match a, i with
  | [], _ => []
  | _ :: r, O => Some c :: r
  | x :: r, S j => x :: upd r j c
  end.
(* *p = c *)
Definition wr (a : list (option Z)) (p c : Z) : res (list (option Z)) :=
  if p <? 0 then Err Precond
  else if p <? alen a then OK (upd a (Z.to_nat p) c) else Err OOB.
(* *p as a value: the cell must have been written *)
Definition rdw (a : list (option Z)) (p : Z) : res Z :=
  if p <? 0 then Err Precond
  else match nth_error a (Z.to_nat p) with
       | Some (Some c) => OK c
       | Some None => Err Uninit
       | None => Err OOB
       end.
(* std::string(p) for a char* p: the characters before the first NUL, which must exist inside the array *)
Fixpoint cstr_scan (l : list (option Z)) : res (list Z) :=
  match l with
  | [] => Err OOB
  | None :: _ => Err Uninit
  | Some c :: r => if c =? 0 then OK [] else do s <- cstr_scan r ;; OK (c :: s)
  end.
Definition cstr_of (a : list (option Z)) (p : Z) : res (list Z) :=
  if p <? 0 then Err Precond
  else if p <=? alen a then cstr_scan (skipn (Z.to_nat p) a) else Err OOB.

(* ---- read-only ranges: n chars from index p of the C string b (its NUL included) ---- *)
Definition slice (b : list Z) (p n : Z) : list Z := firstn (Z.to_nat n) (skipn (Z.to_nat p) (b ++ [0])).
(* std::equal(first1, last1, first2): [first1, last1) a valid range of b1, and as many elements readable from first2
   (lim2 = how many elements of b2 may be read: blen for an iterator range, blen + 1 for a C string) *)
Definition mem_equal (b1 : list Z) (p1 q1 : Z) (b2 : list Z) (p2 lim2 : Z) : res bool :=
  if (p1 <? 0) || (q1 <? 0) || (p2 <? 0) || (q1 <? p1) then Err Precond
  else if (q1 <=? blen b1 + 1) && (p2 + (q1 - p1) <=? lim2) then OK (list_eqb (slice b1 p1 (q1 - p1)) (slice b2 p2 (q1 - p1)))
  else Err OOB.
Fixpoint upd_list (a : list (option Z)) (i : nat) (cs : list Z) : list (option Z) :=
  match cs with
  | [] => a
  | c :: r => upd_list (upd a i c) (S i) r
  end.
(* std::copy_n(src, n, dst): returns dst + n *)
Definition copy_n_w (b : list Z) (p n : Z) (a : list (option Z)) (d : Z) : res (Z * list (option Z)) :=
  if (p <? 0) || (d <? 0) || (n <? 0) then Err Precond
  else if (p + n <=? blen b + 1) && (d + n <=? alen a) then OK (d + n, upd_list a (Z.to_nat d) (slice b p n))
  else Err OOB.
(* s.erase(pos, n): std::out_of_range when pos > size() *)
Definition str_erase (s : list Z) (pos n : Z) : res (list Z) :=
  if (0 <=? pos) && (0 <=? n) && (pos <=? blen s)
  then OK (firstn (Z.to_nat pos) s ++ skipn (Z.to_nat (pos + Z.min n (blen s - pos))) s)
  else Err OOB.

"""


def asts_of(fn, src):
    """the definition(s) of fn in src (a FunctionDecl with a body); an overloaded name is selected by SIGNATURE"""
    P.SRC = src
    if fn in SIGNATURE:
        from ast_translate64 import clang_docs
        got, seen = [], set()
        for d in clang_docs(fn, src):
            for m in walk(d):
                if m.get("kind") == "FunctionDecl" and m.get("name") == fn and m.get("id") not in seen \
                        and any(c.get("kind") == "CompoundStmt" for c in m.get("inner", [])) and re.match(SIGNATURE[fn], qt(m)):
                    seen.add(m.get("id"))
                    got.append(m)
        if len(got) != 1:
            raise Untranslatable("%d definitions of %s with the expected signature" % (len(got), fn))
        return [(fn, got[0])]
    return P.asts_of(fn)


ORACLE_DECLS = {
    "FormatTM": "Variable ext_FormatTM : list Z -> tmrec -> list Z.   (* FormatTM(&out, fmt, tm): the text it appends to out *)\n",
    "ToWeek": "Variable ext_ToWeek : fields -> Z -> res Z.             (* ToWeek(civil_day(cs), week_start) *)\n",
}


def run_unit(src, targets, out, prefix, header, known=None, oracle_names=(), open_rec=False):
    P.SRC = src
    known = dict(known or {})
    done, failed, parts, oracles = [], {}, [], set()
    for fn in targets:
        try:
            defs = asts_of(fn, src)
        except Untranslatable as e:
            failed[fn] = str(e)
            parts.append("(* %s: not translated: %s *)\n\n" % (fn, e))
            continue
        for key, a in defs:
            try:
                f = OFn(key, a, known, prefix, oracle_names, open_rec)
                text, info = f.translate()
                parts.append(text + "\n")
                known[key] = info
                done.append(key)
                oracles |= f.oracles
            except Untranslatable as e:
                failed[key] = str(e)
                parts.append("(* %s: not translated: %s *)\n\n" % (key, e))
    body = "".join(parts)
    if oracles:
        body = "Section Oracles.\n" + "".join(ORACLE_DECLS[o] for o in sorted(oracles)) + "\n" + body + "End Oracles.\n"
    text = PRELUDE % {"out": os.path.basename(out), "src": src, "fns": ", ".join(targets)} + header + body
    if failed:
        if "--force" in sys.argv:
            open(out, "w").write(text)
        return {"written": False, "translated": done, "untranslated": failed, "kept_previous": True}, known
    changed = not os.path.exists(out) or open(out).read() != text
    if changed:
        open(out, "w").write(text)
    return {"written": changed, "translated": done, "untranslated": failed}, known


RUNTIME_LOOP = """From CCTZ Require Import Cal PosixImpl FormatImpl.
From CCTZ Require Export SourceFmtParse SourceFixed SourceFmtOut.

(* ---- inputs and oracles of format() ----
   What format() obtains from code outside the translated subset is an explicit input of sl_format:
     al = tz.lookup(tp)   ->  al_cs (the civil time), al_offset, al_abbr (the C string al.abbr points to)
     tm = ToTM(al)        ->  tm
     ToUnixSeconds(tp)    ->  ToUnixSeconds_tp
   FormatTM (strftime) and ToWeek are oracle parameters. *)
Fixpoint cells (l : list (option Z)) : res (list Z) :=
  match l with
  | [] => OK []
  | None :: _ => Err Uninit
  | Some c :: r => do s <- cells r ;; OK (c :: s)
  end.
(* s.append(p, n) for a char* p into a writable array: n cells from p, all of them written *)
Definition substr_w (a : list (option Z)) (p n : Z) : res (list Z) :=
  if p <? 0 then Err Precond
  else if (0 <=? n) && (p + n <=? alen a) then cells (firstn (Z.to_nat n) (skipn (Z.to_nat p) a)) else Err OOB.
(* std::string(first, last) over a read-only buffer *)
Definition substr_pp (b : list Z) (p q : Z) : res (list Z) :=
  if (p <? 0) || (q <? 0) || (q <? p) then Err Precond else substr b p (q - p).
(* s.append(p) for a const char* p: the C string at p *)
Definition cstr_ro (b : list Z) (p : Z) : res (list Z) :=
  if p <? 0 then Err Precond else if p <=? blen b then OK (c_str (skipn (Z.to_nat p) b)) else Err OOB.
(* std::isdigit(c): c must be representable as unsigned char, or EOF *)
Definition isdigit_chk (c : Z) : res bool :=
  if (-1 <=? c) && (c <=? 255) then OK (is_digit c) else Err Precond.

"""


def main():
    coq = os.path.join(os.path.dirname(os.path.abspath(__file__)), "..", "coq")
    outdir = next((a for a in sys.argv[1:] if not a.startswith("--")), coq)
    only = [a[7:] for a in sys.argv[1:] if a.startswith("--only=")]
    status, known_by_src = {}, {}
    keys = [None, "format_cc_out", "format_cc_loop", "format_cc_totm"]
    for i, (src, targets, fname, prefix) in enumerate(UNITS):
        if only and fname not in only and not (i == 1 and "SourceFmtLoop.v" in only):
            continue
        known, oracle_names = known_by_src.get(src, {}), ()
        if i == 0:
            header = RUNTIME
        elif i == 1:
            header = "From CCTZ Require Export SourceFixed.\n\n"
        elif i == 3:
            header = "From CCTZ Require Import Cal FormatImpl.\nFrom CCTZ Require Source64.\n\n"
        else:
            header, oracle_names = RUNTIME_LOOP, ("FormatTM", "ToWeek")
            try:                                        # ParseInt<int>, as gen/ast_translate_ptr.py translates it (SourceFmtParse.v)
                P.SRC = src
                for key, a in P.asts_of("ParseInt"):
                    known = dict(known)
                    known[key] = P.Fn(key, a, {}, "sf_").translate()[1]
            except Untranslatable:
                pass
        r, known = run_unit(src, targets, os.path.join(outdir, fname), prefix, header, known, oracle_names, open_rec=(i == 2))
        known_by_src[src] = known
        r["file"] = fname
        if keys[i] is None:
            status.update(r)                            # same shape as the other translators: first unit at top level
        else:
            status[keys[i]] = r
    print(json.dumps(status))


if __name__ == "__main__":
    main()
