#!/usr/bin/env python3
"""clang JSON AST -> Gallina for the TEMPLATES of include/cctz/time_zone.h that property C18 rests on
(coq/SourceSplit.v, regenerated on every run; tied to the hand-written model in coq/SourceSplitProofs.v).

Read from the AST (of a probe translation unit, PROBE_TU below, ONE dump so that declaration ids are consistent):
the instantiated bodies of detail::split_seconds, the detail::join_seconds overloads, time_zone::lookup<D>,
next_transition<D>, prev_transition<D>, convert<D>, format<D>, parse<D> for a panel of duration types - statement
structure, which <chrono> operation is applied to which operands, the instantiated operand/result TYPES as clang
resolved them (template argument deduction, overload resolution and common_type are clang's: every type below is
the desugared type recorded on the AST node), template constants (Num), and numeric_limits<Rep>::max/min (their
libstdc++ bodies `return <constant>` are constant-folded from the same dump).

<chrono> itself is NOT read from libstdc++'s AST; it is mapped by the following VOCABULARY (checked integer
arithmetic; a duration or time_point is its tick count; D = duration<Rep, ratio<N, D>> with Rep a signed integer
type of `bits` bits; arithmetic at 64 bits goes through add64/sub64/mul64 of Base.v, at 32 bits through
add32/sub32/mul32 (`Err Overflow` where the C++ operation would be undefined); a conversion to a narrower Rep goes
through ss_narrow (out of range = error, as in ast_translate64.py); / and % truncate):
  V1  duration_cast<To>(d)        CF = (N_from/D_from) / (N_to/D_to) in lowest terms, CR = intmax_t (64 bits; every Rep
                                  of the panel is at most 64 bits).  CF = 1/1: d;  CF = 1/q: d / q;  CF = p/1: d * p;
                                  else d * p / q   (the four __duration_cast_impl specialisations), then narrowing to To::rep.
  V2  time_point_cast<To>(tp)     V1 on the count.
  V3  duration<R2,P2>(const duration<R1,P1>&)   (implicit / explicit converting constructor)  V1.
      duration<R,P>(const Rep2& r)              r, narrowed to R.    duration / time_point default or zero(): 0.
  V4  time_point - time_point, duration +/- duration, time_point + duration:
                                  both operands converted (V3) to the common duration CD (period gcd(N1,N2)/lcm(D1,D2),
                                  rep = common_type<Rep1, Rep2>: Rep1 if the two are the same type, else the usual arithmetic
                                  conversion: 64 bits if either is, else 32), then +/- at max(32, CD's width) narrowed to CD's rep.  The CD computed here is compared with the node's type.
  V5  d += d2, d -= d2, tp += d, tp -= d    (the argument already has the left type: the conversion is a separate V3 node)
                                  +/- at max(bits, 32) bits, narrowed to bits.
  V6  == != < <= > >= on durations / time_points     both sides converted (V3) to the common duration, compared as integers.
  V7  .count(), .time_since_epoch()     identity.   duration/time_point ::max(), ::min(): 2^(bits-1)-1, -2^(bits-1).
  V8  std::pair{a, b} -> (a, b); .first / .second -> fst / snd.
Glue: a call of a function that has no body in the probe unit (the whole-second time_zone::lookup, next_transition,
prev_transition, detail::format, detail::parse) becomes a call of a PARAMETER of the generated function (named
k_<callee>), applied to the translated duration/time_point arguments; other arguments (strings, the zone, the
civil_transition*) must be passed through unchanged and are dropped.  For `k(..., &sec, &fs) && join(sec, fs, tpp)`
the parameter returns `res (option (Z * Z))` (None = false, Some = the values written through the pointers).
A function whose returns all hand on the result of such a parameter has the abstract result type A (the returned value
together with whatever the external function writes through the pointers passed on); `.member` of such a result is a
second parameter p_<member> : A -> B.
A function writing through a time_point<D>* and returning bool returns `res (option Z)`: None = false.
Anything else is reported `untranslated` (previous output kept)."""
import json, os, re, shutil, subprocess, sys, tempfile
from math import gcd

sys.path.insert(0, os.path.dirname(__file__))
from ast_translate import Untranslatable  # noqa: E402
from ast_translate64 import walk, zl, TRANSPARENT, CASTS, fold_lit, has_body  # noqa: E402

REPO = os.environ.get("VERIF_REPO", "/repo")

PROBE_TU = r"""#include "cctz/time_zone.h"
namespace verif_probe {
using namespace cctz;
typedef std::chrono::duration<std::int64_t, std::nano> d_ns;
typedef std::chrono::duration<std::int64_t, std::micro> d_us;
typedef std::chrono::duration<std::int64_t, std::milli> d_ms;
typedef std::chrono::duration<std::int64_t, std::ratio<1, 3>> d_third;
typedef std::chrono::duration<std::int32_t, std::ratio<60>> d_min32;
typedef std::chrono::duration<std::int32_t, std::ratio<3600>> d_hour32;
typedef std::chrono::duration<std::int8_t> d_s8;
typedef std::chrono::duration<std::int16_t> d_s16;
template <typename D> void use(const time_zone& tz) {
  time_point<D> tp;
  time_zone::civil_transition tr;
  (void)detail::split_seconds(tp);
  (void)tz.lookup(tp);
  (void)tz.next_transition(tp, &tr);
  (void)tz.prev_transition(tp, &tr);
  (void)format("", tp, tz);
  (void)parse("", "", tz, &tp);
  (void)convert(tp, tz);
}
template <typename D> void use_join() {
  time_point<D> tp; time_point<seconds> sec; detail::femtoseconds fs;
  (void)detail::join_seconds(sec, fs, &tp);
}
void all(const time_zone& tz) {
  use<d_ns>(tz); use<d_us>(tz); use<d_ms>(tz); use<d_third>(tz); use<d_min32>(tz); use<d_hour32>(tz);
  use_join<d_s8>(); use_join<d_s16>(); use_join<seconds>();
  time_point<seconds> s; (void)detail::split_seconds(s);
}
}
"""
# (bits, num, den) -> suffix of the generated names
PANEL = {(64, 1, 10 ** 9): "ns", (64, 1, 10 ** 6): "us", (64, 1, 1000): "ms", (64, 1, 3): "third",
         (32, 60, 1): "min32", (32, 3600, 1): "hour32", (8, 1, 1): "s8", (16, 1, 1): "s16", (64, 1, 1): "s64"}
INT_BITS = {"long": 64, "long long": 64, "int": 32, "short": 16, "signed char": 8, "char": 8}


def tstr(t):
    return (t.get("desugaredQualType") or t.get("qualType") or "")


def parse_type(s):
    """descriptor of a (desugared) type string: ('int', bits) | ('bool',) | ('dur', bits, n, d) | ('tp', bits, n, d) |
    ('pair', a, b) | ('ptr', a) | ('opaque', text)"""
    s = re.sub(r"\b(const|volatile|struct|class)\b", "", s).replace("&", "").strip()
    s = s.replace("std::chrono::", "").replace("std::", "").replace("cctz::", "")
    s = re.sub(r"\s+", " ", s)
    if s.endswith("*"):
        return ("ptr", parse_type(s[:-1]))
    if s == "bool":
        return ("bool",)
    if s in INT_BITS:
        return ("int", INT_BITS[s])
    m = re.fullmatch(r"duration<([\w ]+?)(?:, ratio<(\d+)L?(?:, (\d+)L?)?>)?>", s)
    if m and m.group(1).strip() in INT_BITS:
        n, d = int(m.group(2) or 1), int(m.group(3) or 1)
        if d <= 0 or n <= 0 or gcd(n, d) != 1:
            raise Untranslatable("period %d/%d is not a positive ratio in lowest terms" % (n, d))
        return ("dur", INT_BITS[m.group(1).strip()], n, d)
    m = re.fullmatch(r"time_point<(?:system_clock, )?(duration<.*>)>", s)
    if m:
        t = parse_type(m.group(1))
        if t[0] == "dur":
            return ("tp",) + t[1:]
    m = re.fullmatch(r"pair<(.*)>", s)
    if m:
        depth, parts, cur = 0, [], ""
        for ch in m.group(1):
            if ch == "<":
                depth += 1
            if ch == ">":
                depth -= 1
            if ch == "," and depth == 0:
                parts.append(cur)
                cur = ""
            else:
                cur += ch
        parts.append(cur)
        if len(parts) == 2:
            return ("pair", parse_type(parts[0]), parse_type(parts[1]))
    return ("opaque", s)


def ty(n):
    return parse_type(tstr(n.get("type", {})))


def is_q(t):
    return t[0] in ("dur", "tp")


def common(a, b):
    """common duration of two durations / time_points (V4)"""
    n = gcd(a[2], b[2])
    d = a[3] * b[3] // gcd(a[3], b[3])
    return ("dur", a[1] if a[1] == b[1] else 64 if max(a[1], b[1]) == 64 else 32, n, d)


def gtype(t):
    if t[0] == "bool":
        return "bool"
    if t[0] == "pair":
        return "(%s * %s)" % (gtype(t[1]), gtype(t[2]))
    if t[0] in ("int", "dur", "tp"):
        return "Z"
    raise Untranslatable("value of type " + str(t))


class Fn:
    def __init__(self, ast, gname, probe):
        self.ast, self.gname, self.pr = ast, gname, probe
        self.tmp = 0
        self.vars = {}          # name -> type descriptor (scalars, durations, time_points, pairs)
        self.unset = set()      # declared without a value
        self.out = None         # name of the time_point<D>* out-parameter, its pointee in variable out_v
        self.konts = []         # [(parameter name, Gallina type)]
        self.poly = False       # takes (A : Type): the result type of an external function
        self.proj = None        # field projected out of an external result: (B : Type) (p_<field> : A -> B)
        self.ret = None
        self.mask = []          # per C++ parameter: is it a parameter of the generated function
        self.kont_ret = False   # some return hands on the result of an external function (abstract type A)

    def fresh(self):
        self.tmp += 1
        return "t%d" % self.tmp

    # ---- vocabulary
    def cast(self, binds, c, frm, to):
        """V1: count c of duration frm as a count of duration to"""
        p, q = frm[2] * to[3], frm[3] * to[2]
        g = gcd(p, q)
        p, q = p // g, q // g
        if p != 1:
            x = self.fresh()
            binds.append("do %s <- mul64 %s %s ;;\n" % (x, c, zl(p)))
            c = x
        if q != 1:
            c = "(Z.quot %s %s)" % (c, zl(q))
        return self.narrow(binds, c, 64 if frm[1] == 64 or p != 1 or q != 1 else frm[1], to[1])

    def narrow(self, binds, c, have, want):
        if want < have:
            x = self.fresh()
            binds.append("do %s <- ss_narrow %d %s ;;\n" % (x, want, c))
            return x
        return c

    def arith(self, binds, op, a, b, bits):
        w = 64 if bits == 64 else 32
        x = self.fresh()
        binds.append("do %s <- %s%d %s %s ;;\n" % (x, {"+": "add", "-": "sub", "*": "mul"}[op], w, a, b))
        return self.narrow(binds, x, w, bits)

    # ---- expressions: (binds, term, type)
    def callee_ref(self, call):
        if call.get("kind") == "CXXMemberCallExpr":
            me = call["inner"][0]
            while me.get("kind") in ("ImplicitCastExpr", "ParenExpr"):
                me = me["inner"][0]
            return {"id": me.get("referencedMemberDecl"), "name": me.get("name")}, (me.get("inner") or [None])[0], call["inner"][1:]
        c = call["inner"][0]
        while c.get("kind") in ("ImplicitCastExpr", "ParenExpr"):
            c = c["inner"][0]
        return c.get("referencedDecl", {}), None, call["inner"][1:]

    def expr(self, n):
        k, inner = n.get("kind"), n.get("inner", [])
        if k in TRANSPARENT or k == "SubstNonTypeTemplateParmExpr":
            return self.expr(inner[-1])
        t = ty(n)
        if k in CASTS:
            ck = n.get("castKind")
            if ck in ("NoOp", "LValueToRValue", "ConstructorConversion", "FunctionToPointerDecay"):
                return self.expr(inner[-1])
            if ck == "IntegralCast":
                b, c, ft = self.expr(inner[-1])
                if ft[0] == "bool":
                    raise Untranslatable("bool used as an integer")
                v = fold_lit(inner[-1])
                if v is not None and -(1 << (t[1] - 1)) <= v < (1 << (t[1] - 1)):
                    return b, c, t
                b = list(b)
                return b, self.narrow(b, c, ft[1], t[1]), t
            raise Untranslatable("cast kind " + str(ck))
        if k == "IntegerLiteral":
            return [], zl(int(n["value"])), t
        if k == "CXXBoolLiteralExpr":
            return [], "true" if n.get("value") else "false", ("bool",)
        if k == "DeclRefExpr":
            v = n.get("referencedDecl", {}).get("name")
            if v in self.vars:
                if v in self.unset:
                    raise Untranslatable("read of %s before it has a value" % v)
                return [], v, self.vars[v]
            raise Untranslatable("name " + str(v))
        if k == "UnaryOperator" and n.get("opcode") == "*":
            b, c, pt = self.lvalue(n)
            if c in self.unset:
                raise Untranslatable("read through the out-parameter before it is written")
            return [], c, self.vars[c]
        if k == "UnaryOperator" and n.get("opcode") == "!":
            b, c, ct = self.expr(inner[0])
            if ct[0] != "bool":
                raise Untranslatable("! on a non-bool")
            return b, "(negb %s)" % c, ("bool",)
        if k == "UnaryOperator" and n.get("opcode") == "-" and fold_lit(n) is not None:
            return [], zl(fold_lit(n)), t
        if k == "MemberExpr" and n.get("name") in ("first", "second"):
            b, c, pt = self.expr(inner[0])
            if pt[0] != "pair":
                raise Untranslatable("member of a non-pair")
            return b, "(%s %s)" % ("fst" if n["name"] == "first" else "snd", c), pt[1 if n["name"] == "first" else 2]
        if k == "BinaryOperator":
            op = n["opcode"]
            if op in ("&&", "||"):
                b1, c1, t1 = self.expr(inner[0])
                b2, c2, t2 = self.expr(inner[1])
                if t1[0] != "bool" or t2[0] != "bool":
                    raise Untranslatable("&& / || on non-bools")
                if not b2:
                    return b1, "(%s %s %s)" % (c1, op, c2), ("bool",)
                x = self.fresh()
                body = "(" + "".join(b2) + "OK %s)" % c2
                e = "(if %s then %s else OK false)" % (c1, body) if op == "&&" else "(if %s then OK true else %s)" % (c1, body)
                return b1 + ["do %s <- %s ;;\n" % (x, e)], x, ("bool",)
            b1, c1, t1 = self.expr(inner[0])
            b2, c2, t2 = self.expr(inner[1])
            if t1[0] != "int" or t2[0] != "int":
                raise Untranslatable("built-in operator on non-integers")
            return self.int_binop(op, b1 + b2, c1, c2, t)
        if k in ("CXXConstructExpr", "CXXTemporaryObjectExpr", "InitListExpr"):
            args = [a for a in inner if a.get("kind") != "CXXDefaultArgExpr"]
            if t[0] == "pair" and len(args) == 2:
                b1, c1, t1 = self.expr(args[0])
                b2, c2, t2 = self.expr(args[1])
                if (t1, t2) != (t[1], t[2]):
                    raise Untranslatable("pair construction with conversions")
                return b1 + b2, "(%s, %s)" % (c1, c2), t
            if t[0] in ("opaque", "pair") and len(args) == 1 and ty(args[0]) == t:
                return self.expr(args[0])                                 # copy / move
            if is_q(t) and not args:
                return [], "0", t                                          # V3: default construction
            if is_q(t) and len(args) == 1:
                b, c, at = self.expr(args[0])
                b = list(b)
                if at == t:
                    return b, c, t                                        # copy / move
                if at[0] == "int" and t[0] == "dur":                     # V3: duration(const Rep2&)
                    v = fold_lit(args[0])
                    if v is not None and -(1 << (t[1] - 1)) <= v < (1 << (t[1] - 1)):
                        return b, c, t
                    return b, self.narrow(b, c, at[1], t[1]), t
                if at[0] == "dur" and t[0] == "dur":                     # V3: converting constructor
                    return b, self.cast(b, c, at, t), t
                if at[0] == "dur" and t[0] == "tp" and at[1:] == t[1:]:  # time_point(const duration&)
                    return b, c, t
            raise Untranslatable("construction of " + tstr(n.get("type", {})))
        if k in ("CallExpr", "CXXMemberCallExpr", "CXXOperatorCallExpr"):
            return self.call(n, t)
        raise Untranslatable("expression kind " + str(k))

    def int_binop(self, op, b, c1, c2, t):
        if op in ("+", "-", "*"):
            b = list(b)
            return b, self.arith(b, op, c1, c2, max(t[1], 32)), t
        if op in ("/", "%"):
            return b, "(Z.%s %s %s)" % ("quot" if op == "/" else "rem", c1, c2), t
        cmp = {"<": "(%s <? %s)", "<=": "(%s <=? %s)", ">": "(%s <? %s)", ">=": "(%s <=? %s)", "==": "(%s =? %s)", "!=": "(negb (%s =? %s))"}
        if op in cmp:
            a, z = (c2, c1) if op in (">", ">=") else (c1, c2)
            return b, cmp[op] % (a, z), ("bool",)
        raise Untranslatable("operator " + op)

    def call(self, n, t):
        ref, obj, args = self.callee_ref(n)
        name = ref.get("name")
        kind = n.get("kind")
        if kind == "CXXOperatorCallExpr":
            op = name[len("operator"):]
            if op in ("+=", "-=", "="):
                return self.assign(op, args[0], args[1])
            if len(args) == 2:
                b1, c1, t1 = self.expr(args[0])
                b2, c2, t2 = self.expr(args[1])
                b = b1 + b2
                if is_q(t1) and is_q(t2):
                    cd = common(t1, t2)
                    x1, x2 = self.cast(b, c1, t1, cd), self.cast(b, c2, t2, cd)
                    if op in ("+", "-"):                                  # V4
                        res = ("tp" if (t1[0] == "tp") != (t2[0] == "tp") else "dur",) + cd[1:]
                        if res != t:
                            raise Untranslatable("common type %s differs from clang's %s" % (res, t))
                        return b, self.arith(b, op, x1, x2, cd[1]), t
                    if t1[0] == t2[0]:                                    # V6
                        return self.int_binop(op, b, x1, x2, ("bool",))
            raise Untranslatable("operator" + op)
        if kind == "CXXMemberCallExpr" and name in ("count", "time_since_epoch") and not args:   # V7
            b, c, ot = self.expr(obj)
            if is_q(ot):
                return b, c, t
        if name in ("duration_cast", "time_point_cast") and len(args) == 1:                      # V1, V2
            b, c, at = self.expr(args[0])
            if is_q(at) and is_q(t) and at[0] == t[0]:
                b = list(b)
                return b, self.cast(b, c, at, t), t
        if name in ("max", "min", "zero") and not args and obj is None:
            if is_q(t):                                                                           # V7
                return [], {"max": zl((1 << (t[1] - 1)) - 1), "min": zl(-(1 << (t[1] - 1))), "zero": "0"}[name], t
            v = self.pr.lib_const(ref.get("id"))                                                  # numeric_limits: from its body
            if v is not None and t[0] == "int":
                return [], zl(v), t
        d = self.pr.decl(ref.get("id"))
        key = self.pr.known_ids.get(ref.get("id"))
        if key is not None:                                              # another translated instantiation
            if key not in self.pr.known:
                raise Untranslatable("call of %s, which is not translated" % key)
            gname, konts, rt, cpoly, mask = self.pr.known[key]
            b, cs = [], []
            if len(mask) != len(args):
                raise Untranslatable("argument count")
            for a, keep in zip(args, mask):
                if not keep:
                    continue
                at = ty(a)
                if is_q(at) or at[0] in ("int", "pair"):
                    ba, ca, _ = self.expr(a)
                    b += ba
                    cs.append(ca)
                elif self.is_out(a):
                    pass
                else:
                    self.passthrough(a)
            ks = ["A"] if cpoly else []
            self.poly = self.poly or cpoly
            for kn, kt in konts:
                if (kn, kt) not in self.konts:
                    self.konts.append((kn, kt))
                ks.append(kn)
            x = self.fresh()
            return b + ["do %s <- %s%s%s ;;\n" % (x, gname, "".join(" " + y for y in ks), "".join(" " + y for y in cs))], x, \
                (("optz",) if rt == "(option Z)" else t)
        if d is not None and not has_body(d) and d.get("kind") in ("FunctionDecl", "CXXMethodDecl") and name:
            # glue: a function defined elsewhere -> a parameter
            b, cs, outs = [], [], []
            if obj is not None:
                self.passthrough(obj)
            for a in args:
                if a.get("kind") == "CXXDefaultArgExpr":
                    continue
                at = ty(a)
                if is_q(at):
                    ba, ca, _ = self.expr(a)
                    b += ba
                    cs.append(ca)
                elif self.addr_of_local(a):
                    outs.append(self.addr_of_local(a))
                else:
                    self.passthrough(a)
            return b, ("kont", "k_" + name, cs, outs), t
        raise Untranslatable("call of " + str(name))

    def passthrough(self, a):
        """an argument that is not translated must be a parameter (or *this) passed on unchanged"""
        u = a
        while u.get("kind") in TRANSPARENT or u.get("kind") in CASTS or (u.get("kind") == "UnaryOperator" and u.get("opcode") == "&"):
            u = u["inner"][-1]
        if u.get("kind") == "CXXThisExpr":
            return
        if u.get("kind") == "DeclRefExpr" and u.get("referencedDecl", {}).get("kind") == "ParmVarDecl" \
                and u["referencedDecl"].get("name") not in self.vars:
            return
        raise Untranslatable("argument of an external call that is not a parameter passed through")

    def addr_of_local(self, a):
        u = a
        while u.get("kind") in TRANSPARENT or u.get("kind") in CASTS:
            u = u["inner"][-1]
        if u.get("kind") == "UnaryOperator" and u.get("opcode") == "&":
            v = u["inner"][0]
            if v.get("kind") == "DeclRefExpr" and v.get("referencedDecl", {}).get("name") in self.vars:
                return v["referencedDecl"]["name"]
        return None

    def is_out(self, a):
        u = a
        while u.get("kind") in TRANSPARENT or u.get("kind") in CASTS:
            u = u["inner"][-1]
        return u.get("kind") == "DeclRefExpr" and u.get("referencedDecl", {}).get("name") == self.out

    def lvalue(self, n):
        u = n
        while u.get("kind") in TRANSPARENT or (u.get("kind") in CASTS and u.get("castKind") == "NoOp"):
            u = u["inner"][-1]
        if u.get("kind") == "DeclRefExpr" and u.get("referencedDecl", {}).get("name") in self.vars:
            v = u["referencedDecl"]["name"]
            return [], v, self.vars[v]
        if u.get("kind") == "UnaryOperator" and u.get("opcode") == "*" and self.is_out(u["inner"][0]):
            return [], "out_v", self.vars["out_v"]
        raise Untranslatable("assignment target")

    def assign(self, op, tgt, src):
        """V5 and plain assignment; the new value is bound under the target's name"""
        _, v, vt = self.lvalue(tgt)
        b, c, st = self.expr(src)
        b = list(b)
        if isinstance(c, tuple):
            raise Untranslatable("call result assigned")
        if op == "=":
            if st != vt:
                raise Untranslatable("assignment with conversion")
            self.unset.discard(v)
            return b + ["let %s := %s in\n" % (v, c)], v, vt
        if v in self.unset:
            raise Untranslatable("compound assignment to a variable without a value")
        if is_q(vt) and is_q(st) and st[1:] == vt[1:]:
            x = self.arith(b, op[0], v, c, vt[1])
            return b + ["let %s := %s in\n" % (v, x)], v, vt
        raise Untranslatable("compound assignment " + op)

    # ---- statements
    def assigned(self, stmts):
        out = []
        for st in stmts:
            for m in walk(st):
                tgt = None
                if m.get("kind") == "CompoundAssignOperator" or (m.get("kind") == "BinaryOperator" and m.get("opcode") == "="):
                    tgt = m["inner"][0]
                elif m.get("kind") == "CXXOperatorCallExpr":
                    ref, _, args = self.callee_ref(m)
                    if (ref.get("name") or "")[len("operator"):] in ("=", "+=", "-="):
                        tgt = args[0]
                if tgt is not None:
                    try:
                        v = self.lvalue(tgt)[1]
                    except Untranslatable:
                        continue
                    if v not in out:
                        out.append(v)
        return [v for v in self.vars if v in out]

    @staticmethod
    def body(st):
        if st is None:
            return []
        return list(st.get("inner", [])) if st.get("kind") == "CompoundStmt" else [st]

    def returns(self, stmts):
        return any(m.get("kind") == "ReturnStmt" for s in stmts for m in walk(s))

    def ends_in_return(self, stmts):
        return bool(stmts) and stmts[-1].get("kind") == "ReturnStmt"

    def finish(self, b, c, t):
        """the result term of `return <expr>`"""
        if isinstance(c, tuple) and c[0] == "call":
            return "".join(b) + c[1]
        if isinstance(c, tuple) and c[0] == "kont":
            _, kn, cs, outs = c
            if outs:
                raise Untranslatable("external call with out-parameters in return position")
            self.kont_ret = True
            kt = "%sres A" % "".join("Z -> " for _ in cs)
            if (kn, kt) not in self.konts:
                self.konts.append((kn, kt))
            return "".join(b) + kn + "".join(" " + x for x in cs)
        if self.kont_ret and not self.proj:
            raise Untranslatable("returns both an external result and a computed value")
        if t == ("optz",):
            return "".join(b) + "OK %s" % c
        if self.out is not None:
            if t[0] != "bool":
                raise Untranslatable("return type")
            if c == "true":
                if "out_v" in self.unset:
                    raise Untranslatable("returns true without writing the out-parameter")
                return "".join(b) + "OK (Some out_v)"
            if c == "false":
                return "".join(b) + "OK None"
            raise Untranslatable("out-parameter function returning a computed bool")
        return "".join(b) + "OK %s" % c

    def ret_gtype(self):
        if self.kont_ret:
            return "A"
        if self.out is not None:
            return "(option Z)"
        if self.ret[0] == "opaque":
            return "A"
        return gtype(self.ret)

    def seq(self, stmts, fall=None):
        if not stmts:
            if fall is None:
                raise Untranslatable("control reaches the end of the function")
            return "OK %s" % self.tup(fall)
        st, rest = stmts[0], stmts[1:]
        k = st.get("kind")
        if k in ("CompoundStmt",):
            return self.seq(self.body(st) + rest, fall)
        if k == "NullStmt":
            return self.seq(rest, fall)
        if k == "DeclStmt":
            out = ""
            for vd in st.get("inner", []):
                if vd.get("kind") in ("TypeAliasDecl", "TypedefDecl"):
                    continue
                if vd.get("kind") != "VarDecl":
                    raise Untranslatable("declaration " + str(vd.get("kind")))
                name, vt = vd["name"], ty(vd)
                if name in self.vars:
                    raise Untranslatable("shadowing declaration")
                if vt[0] not in ("int", "dur", "tp", "pair", "bool"):
                    raise Untranslatable("local of type " + tstr(vd.get("type", {})))
                init = [c for c in vd.get("inner", []) if "kind" in c]
                plain = init and init[-1].get("kind") == "CXXConstructExpr" and not init[-1].get("inner") and is_q(vt)
                if not init or plain:
                    # `time_point<seconds> sec; femtoseconds fs;` : no value until written through a pointer
                    self.vars[name] = vt
                    self.unset.add(name)
                    continue
                b, c, et = self.expr(init[-1])
                if isinstance(c, tuple):
                    raise Untranslatable("call result stored in a local")
                if et != vt:
                    raise Untranslatable("initialisation with conversion")
                self.vars[name] = vt
                out += "".join(b) + "let %s := %s in\n" % (name, c)
            return out + self.seq(rest, fall)
        if k == "ReturnStmt":
            e = st["inner"][0]
            # k(..., &sec, &fs) && join(sec, fs, tpp)
            u = e
            while u.get("kind") in TRANSPARENT:
                u = u["inner"][-1]
            if u.get("kind") == "BinaryOperator" and u.get("opcode") == "&&":
                try:
                    b1, c1, t1 = self.expr(u["inner"][0])
                except Untranslatable:
                    c1 = None
                if isinstance(c1, tuple) and c1[0] == "kont" and c1[3]:
                    _, kn, cs, outs = c1
                    if cs or any(o not in self.unset for o in outs):
                        raise Untranslatable("external call mixing inputs and outputs")
                    kt = "res (option %s)" % (" * ".join(["Z"] * len(outs)) if len(outs) == 1 else "(%s)" % " * ".join(["Z"] * len(outs)))
                    if (kn, kt) not in self.konts:
                        self.konts.append((kn, kt))
                    for o in outs:
                        self.unset.discard(o)
                    b2, c2, t2 = self.expr(u["inner"][1])
                    r2 = self.finish(b2, c2, t2)
                    pat = outs[0] if len(outs) == 1 else "(%s)" % ", ".join(outs)
                    none = "OK None" if self.out is not None or t2 == ("optz",) else "OK false"
                    return "".join(b1) + "do o <- %s ;;\nmatch o with\n| None => %s\n| Some %s =>\n%s\nend" % (kn, none, pat, r2)
            if u.get("kind") == "CXXConstructExpr" and len(u.get("inner", [])) == 1 and ty(u)[0] == "opaque":
                u = u["inner"][0]                                           # copy of the projected member
                while u.get("kind") in TRANSPARENT or u.get("kind") in CASTS:
                    u = u["inner"][-1]
            if u.get("kind") == "MemberExpr" and u.get("name") and ty(u["inner"][0])[0] == "opaque":
                # the member of an external result: a second parameter, the projection
                b, c, t = self.expr(u["inner"][0])
                self.proj = u["name"]
                self.poly = True
                saved, self.ret = self.ret, ("opaque", "A")
                r = self.finish(b, c, t)
                self.ret = saved
                return "do r <- (%s) ;;\nOK (p_%s r)" % (r, u["name"])
            b, c, t = self.expr(e)
            return self.finish(b, c, t)
        if k in ("ExprWithCleanups", "CXXOperatorCallExpr", "CompoundAssignOperator", "BinaryOperator"):
            u = st
            while u.get("kind") in TRANSPARENT:
                u = u["inner"][-1]
            if u.get("kind") == "CXXOperatorCallExpr":
                b, c, t = self.expr(u)
                return "".join(b) + self.seq(rest, fall)
            if u.get("kind") in ("CompoundAssignOperator", "BinaryOperator") and u.get("opcode") in ("=", "+=", "-=", "*=", "/=", "%="):
                _, v, vt = self.lvalue(u["inner"][0])
                b, c, et = self.expr(u["inner"][1])
                if vt[0] != "int" or et[0] != "int":
                    raise Untranslatable("built-in assignment on non-integers")
                op = u["opcode"]
                if op == "=":
                    return "".join(b) + "let %s := %s in\n" % (v, c) + self.seq(rest, fall)
                cw = parse_type(tstr(u.get("computeResultType", {})))
                if cw[0] != "int":
                    raise Untranslatable("compound assignment type")
                b2, x, _ = self.int_binop(op[0], b, v, c, cw)
                b2 = list(b2)
                x = self.narrow(b2, x, max(cw[1], 32), vt[1])
                return "".join(b2) + "let %s := %s in\n" % (v, x) + self.seq(rest, fall)
            raise Untranslatable("expression statement")
        if k == "IfStmt":
            bc, cc, ct = self.expr(st["inner"][0])
            if ct[0] != "bool":
                raise Untranslatable("condition")
            th = self.body(st["inner"][1])
            el = self.body(st["inner"][2]) if st.get("hasElse") else []
            pre = "".join(bc)
            if self.returns(th) or self.returns(el):
                saved = (dict(self.vars), set(self.unset))
                a = self.seq(th if self.ends_in_return(th) else th + rest, fall)
                self.vars, self.unset = dict(saved[0]), set(saved[1])
                b = self.seq(el if self.ends_in_return(el) else el + rest, fall)
                return "%sif %s then (\n%s\n) else (\n%s\n)" % (pre, cc, a, b)
            vs = self.assigned(th + el)
            if not vs:
                raise Untranslatable("if without effect")
            if any(v in self.unset for v in vs):
                raise Untranslatable("conditional first write")
            a = self.seq(th, vs)
            b = self.seq(el, vs)
            return "%sdo %s <- (if %s then (\n%s\n) else (\n%s\n)) ;;\n%s" % (pre, self.pat(vs), cc, a, b, self.seq(rest, fall))
        raise Untranslatable("statement " + str(k))

    @staticmethod
    def tup(vs):
        return vs[0] if len(vs) == 1 else "(%s)" % ", ".join(vs)

    @staticmethod
    def pat(vs):
        return vs[0] if len(vs) == 1 else "'(%s)" % ", ".join(vs)

    def translate(self):
        params, body = [], None
        for c in self.ast.get("inner", []):
            if c.get("kind") == "ParmVarDecl":
                p, pt = c.get("name"), parm_type(self.ast, c)
                self.mask.append(p is not None and pt[0] in ("int", "dur", "tp", "bool"))
                if p is None:
                    continue
                if pt[0] in ("int", "dur", "tp", "bool"):
                    self.vars[p] = pt
                    params.append("(%s : %s)" % (p, gtype(pt)))
                elif pt[0] == "ptr" and is_q(pt[1]) and self.out is None and any(
                        m.get("kind") == "UnaryOperator" and m.get("opcode") == "*" for m in walk(self.ast)):
                    self.out = p
                    self.vars["out_v"] = pt[1]
                    self.unset.add("out_v")
                elif pt[0] == "ptr" and is_q(pt[1]) and self.out is None:
                    self.out = p                                              # only handed on to a translated callee
                # anything else: may only be passed through to external calls
            elif c.get("kind") == "CompoundStmt":
                body = c
        ft = tstr(self.ast.get("type", {}))
        self.ret = parse_type(ft.split("(")[0])
        for m in walk(self.ast):                                             # the (desugared) type of the returned expression
            if m.get("kind") == "ReturnStmt" and m.get("inner"):
                self.ret = ty(m["inner"][0])
                break
        if self.out is not None and self.ret[0] != "bool":
            raise Untranslatable("out-parameter function that does not return bool")
        term = self.seq(self.body(body))
        self.poly = self.poly or self.kont_ret or any(kt.endswith(" A") for _, kt in self.konts) or self.ret[0] == "opaque"
        poly = "(A : Type) " if self.poly else ""
        if self.proj:
            poly += "(B : Type) "
            self.konts.append(("p_" + self.proj, "A -> B"))
        ks = "".join("(%s : %s) " % (kn, kt) for kn, kt in self.konts)
        rt = "B" if self.proj else self.ret_gtype()
        text = "Definition %s %s%s%s : res %s :=\n%s.\n" % (self.gname, poly, ks, " ".join(params), rt, term)
        return text, [(kn, kt) for kn, kt in self.konts], rt, self.poly, self.mask


class Probe:
    def __init__(self):
        tmp = tempfile.mkdtemp(prefix="verif_probe_")
        try:
            src = os.path.join(tmp, "probe.cc")
            open(src, "w").write(PROBE_TU)
            r = subprocess.run(["clang++", "-std=c++11", "-fsyntax-only", "-I" + os.path.join(REPO, "include"),
                                "-Xclang", "-ast-dump=json", src], stdout=subprocess.PIPE, stderr=subprocess.PIPE, text=True)
        finally:
            shutil.rmtree(tmp, ignore_errors=True)
        if r.returncode != 0 or not r.stdout.strip():
            raise Untranslatable("the probe unit does not compile: " + r.stderr.strip().split("\n")[0][:200])
        self.tu = json.loads(r.stdout)
        self.cctz = [ns for ns in self.tu.get("inner", []) if ns.get("kind") == "NamespaceDecl" and ns.get("name") == "cctz"]
        self.by_id = {}
        for d in walk(self.tu):
            if d.get("kind") in ("CXXMethodDecl", "FunctionDecl") and d.get("id"):
                self.by_id.setdefault(d["id"], d)
        self.known_ids, self.known, self._lib = {}, {}, {}

    def decl(self, did):
        d = self.by_id.get(did)
        if d is None:
            return None
        # a declaration without a body whose definition appears elsewhere in the unit counts as defined
        if not has_body(d):
            for e in self.by_id.values():
                if e.get("previousDecl") == did and has_body(e):
                    return e
        return d

    def lib_const(self, did):
        if did not in self._lib:
            v, d = None, self.by_id.get(did)
            if d is not None and has_body(d) and not any(c.get("kind") == "ParmVarDecl" for c in d.get("inner", [])):
                body = [c for c in d["inner"] if c.get("kind") == "CompoundStmt"][0].get("inner", [])
                if len(body) == 1 and body[0].get("kind") == "ReturnStmt" and body[0].get("inner"):
                    v = fold_lit(body[0]["inner"][0])
            self._lib[did] = v
        return self._lib[did]

    def instances(self, name, scope):
        """instantiations (and non-template definitions) with a body of the function `name` declared in scope (a list of
        declaration lists)"""
        out = []
        for decls in scope:
            for d in decls:
                if d.get("kind") in ("FunctionTemplateDecl",) and d.get("name") == name:
                    for i in d.get("inner", []):
                        if i.get("kind") in ("FunctionDecl", "CXXMethodDecl") and has_body(i) and \
                                any(x.get("kind") == "TemplateArgument" for x in i.get("inner", [])) and i.get("isUsed"):
                            out.append(i)
                elif d.get("kind") in ("FunctionDecl", "CXXMethodDecl") and d.get("name") == name and has_body(d):
                    out.append(d)
        return out


def parm_type(fn, c):
    """type of a parameter: a reference / pointer type is not desugared on the declaration, so take the type clang
    records at a use"""
    pt = ty(c)
    if pt[0] == "opaque" or (pt[0] == "ptr" and pt[1][0] == "opaque"):
        for m in walk(fn):
            if m.get("kind") == "UnaryOperator" and m.get("opcode") == "*":
                u = m["inner"][0]
                while u.get("kind") in TRANSPARENT or u.get("kind") in CASTS:
                    u = u["inner"][-1]
                if u.get("kind") == "DeclRefExpr" and u.get("referencedDecl", {}).get("id") == c.get("id") and ty(m)[0] != "opaque":
                    return ("ptr", ty(m))
        for m in walk(fn):
            if m.get("kind") == "DeclRefExpr" and m.get("referencedDecl", {}).get("id") == c.get("id") and ty(m)[0] != "opaque":
                return ty(m)
    return pt


def key_of(d):
    """panel suffix of an instantiation: from the duration type of its (first) time_point parameter / out-parameter"""
    ps = [parm_type(d, c) for c in d.get("inner", []) if c.get("kind") == "ParmVarDecl"]
    cand = [p[1] if p[0] == "ptr" else p for p in ps]
    cand = [p for p in cand if p[0] == "tp"]
    if not cand:
        return None
    pick = cand[-1] if d.get("name") == "join_seconds" else cand[0]
    return PANEL.get(pick[1:])


PRELUDE = """(* SourceSplit.v - GENERATED by gen/ast_translate_chrono.py from clang's AST of the instantiations (probe unit in the
   generator) of the templates of /repo's current include/cctz/time_zone.h on every run.  Do not edit.
   A duration / time_point is its tick count.  The <chrono> operations are mapped by the vocabulary V1-V8 stated in the
   generator's header (checked 64/32-bit arithmetic, narrowing conversions through ss_narrow, / and % truncate); the
   operand types are those clang resolved.  k_<name>: the function of that name defined outside the header. *)
From CCTZ Require Import Base.
Local Open Scope Z_scope.
Definition ss_narrow (bits : Z) (v : Z) : res Z :=
  if (- 2 ^ (bits - 1) <=? v) && (v <=? 2 ^ (bits - 1) - 1) then OK v else Err Overflow.
"""
TARGETS = [("split_seconds", "detail"), ("join_seconds", "detail"), ("lookup", "time_zone"), ("next_transition", "time_zone"),
           ("prev_transition", "time_zone"), ("convert", "cctz"), ("format", "cctz"), ("parse", "cctz")]


def main():
    out = sys.argv[1] if len(sys.argv) > 1 else os.path.join(os.path.dirname(__file__), "..", "coq", "SourceSplit.v")
    done, failed, lines = [], {}, [PRELUDE]
    try:
        pr = Probe()
        top = [ns.get("inner", []) for ns in pr.cctz]
        detail = [d.get("inner", []) for l in top for d in l if d.get("kind") == "NamespaceDecl" and d.get("name") == "detail"]
        tzc = [d.get("inner", []) for l in top for d in l if d.get("kind") == "CXXRecordDecl" and d.get("name") == "time_zone" and d.get("inner")]
        scopes = {"detail": detail, "time_zone": tzc, "cctz": top}
        plan = []
        for fn, sc in TARGETS:
            insts = pr.instances(fn, scopes[sc])
            if not insts:
                failed[fn] = "no instantiation"
            seen = set()
            for i in insts:
                k = key_of(i)
                if k is None:
                    continue
                key = "%s_%s" % (fn, k)
                if key in seen:
                    continue
                seen.add(key)
                pr.known_ids[i["id"]] = key
                plan.append((key, i))
        order = {k: n for n, k in enumerate(PANEL.values())}
        plan.sort(key=lambda x: ([t[0] for t in TARGETS].index(x[0].rsplit("_", 1)[0]), order[x[0].rsplit("_", 1)[1]]))
        for key, d in plan:
            try:
                f = Fn(d, "ss_" + key, pr)
                text, konts, rt, poly, mask = f.translate()
                lines.append(text)
                pr.known[key] = ("ss_" + key, konts, rt, poly, mask)
                done.append(key)
            except Untranslatable as e:
                failed[key] = str(e)
                lines.append("(* %s: not translated: %s *)\n" % (key, e))
    except (Untranslatable, ValueError, OSError) as e:
        failed["probe"] = str(e) or type(e).__name__
    text = "\n".join(lines) + "\n"
    if failed:
        print(json.dumps({"written": False, "translated": done, "untranslated": failed, "kept_previous": True}))
        if "--force" in sys.argv[2:]:
            open(out, "w").write(text)
        return
    changed = not os.path.exists(out) or open(out).read() != text
    if changed:
        open(out, "w").write(text)
    print(json.dumps({"written": changed, "translated": done, "untranslated": failed}))


if __name__ == "__main__":
    main()
