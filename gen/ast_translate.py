#!/usr/bin/env python3
"""Translate the small pure arithmetic functions of cctz from clang's JSON AST
into Gallina (coq/Translated.v), on every run, so that the equalities in
coq/TranslatedProofs.v (translated function = hand-written model) are
re-checked against what the source says NOW.

Subset handled: a function body made of `const`/plain local declarations with
initialisers, constexpr tables (InitListExpr of literals), and one return
statement; expressions over integer literals, parameters, locals, + - * / %,
comparisons, && || !, ?:, parentheses, casts (dropped: the checked-int64 model
handles ranges), array subscripts into local tables, calls to other translated
functions, and the accessors .year() .month() .day() on a civil-time
parameter.  Integers and booleans are both Z (false = 0, true = 1); `/` and `%`
are Z.quot / Z.rem (C++ truncation).  Anything outside the subset makes the
function 'untranslated' (recorded in the status JSON; not an alarm)."""
import json, os, subprocess, sys

REPO = os.environ.get("VERIF_REPO", "/repo")
TARGETS = [
    ("include/cctz/civil_time_detail.h", ["is_leap_year", "year_index", "days_per_century", "days_per_4years",
                                          "days_per_year", "days_per_month", "scale_add", "ymd_ord",
                                          "get_weekday", "get_yearday"]),
]


class Untranslatable(Exception):
    pass


def docs(text):
    dec = json.JSONDecoder()
    i, out = 0, []
    while i < len(text):
        while i < len(text) and text[i].isspace():
            i += 1
        if i >= len(text):
            break
        d, i = dec.raw_decode(text, i)
        out.append(d)
    return out


def ast_of(path, fn):
    r = subprocess.run(["clang++", "-std=c++11", "-fsyntax-only", "-I" + os.path.join(REPO, "include"),
                        "-Xclang", "-ast-dump=json", "-Xclang", "-ast-dump-filter=" + fn, os.path.join(REPO, path)],
                       stdout=subprocess.PIPE, stderr=subprocess.DEVNULL, text=True)
    for d in docs(r.stdout):
        if d.get("kind") == "FunctionDecl" and d.get("name") == fn and any(c.get("kind") == "CompoundStmt" for c in d.get("inner", [])):
            return d
    raise Untranslatable("no definition found")


WEEKDAYS = {"monday": 0, "tuesday": 1, "wednesday": 2, "thursday": 3, "friday": 4, "saturday": 5, "sunday": 6}


def z(n):
    return str(n) if n >= 0 else "(%d)" % n


def expr(n, env):
    k = n.get("kind")
    inner = n.get("inner", [])
    if k in ("ParenExpr", "ImplicitCastExpr", "CXXStaticCastExpr", "CStyleCastExpr", "CXXFunctionalCastExpr",
             "ExprWithCleanups", "MaterializeTemporaryExpr", "ConstantExpr", "CXXBindTemporaryExpr"):
        return expr(inner[-1], env)
    if k == "IntegerLiteral":
        return z(int(n["value"]))
    if k == "CXXBoolLiteralExpr":
        return "1" if n.get("value") else "0"
    if k == "DeclRefExpr":
        ref = n.get("referencedDecl", {})
        name = ref.get("name")
        if ref.get("kind") == "EnumConstantDecl" and name in WEEKDAYS:
            return z(WEEKDAYS[name])
        if name in env:
            return env[name]
        raise Untranslatable("unknown name " + str(name))
    if k == "UnaryOperator":
        op = n["opcode"]
        a = expr(inner[0], env)
        if op == "-":
            return "(- %s)" % a
        if op == "!":
            return "(b2z (%s =? 0))" % a
        if op == "+":
            return a
        raise Untranslatable("unary " + op)
    if k == "BinaryOperator":
        op = n["opcode"]
        a, b = expr(inner[0], env), expr(inner[1], env)
        if op in ("+", "-", "*"):
            return "(%s %s %s)" % (a, op, b)
        if op == "/":
            return "(Z.quot %s %s)" % (a, b)
        if op == "%":
            return "(Z.rem %s %s)" % (a, b)
        cmp = {"<": "<?", "<=": "<=?", "==": "=?"}
        if op in cmp:
            return "(b2z (%s %s %s))" % (a, cmp[op], b)
        if op == ">":
            return "(b2z (%s <? %s))" % (b, a)
        if op == ">=":
            return "(b2z (%s <=? %s))" % (b, a)
        if op == "!=":
            return "(b2z (negb (%s =? %s)))" % (a, b)
        if op == "&&":
            return "(b2z (negb (%s =? 0) && negb (%s =? 0)))" % (a, b)
        if op == "||":
            return "(b2z (negb (%s =? 0) || negb (%s =? 0)))" % (a, b)
        raise Untranslatable("binary " + op)
    if k == "ConditionalOperator":
        c, a, b = (expr(x, env) for x in inner)
        return "(if negb (%s =? 0) then %s else %s)" % (c, a, b)
    if k == "ArraySubscriptExpr":
        base, idx = inner[0], inner[1]
        while base.get("kind") in ("ImplicitCastExpr", "ParenExpr"):
            base = base["inner"][0]
        tname = base.get("referencedDecl", {}).get("name")
        if ("tbl:" + str(tname)) not in env:
            raise Untranslatable("subscript of " + str(tname))
        return "(nth (Z.to_nat %s) %s 0)" % (expr(idx, env), env["tbl:" + tname])
    if k == "CallExpr":
        callee = inner[0]
        while callee.get("kind") in ("ImplicitCastExpr", "ParenExpr"):
            callee = callee["inner"][0]
        fname = callee.get("referencedDecl", {}).get("name")
        if fname is None or ("fn:" + fname) not in env:
            raise Untranslatable("call of " + str(fname))
        args = [expr(x, env) for x in inner[1:]]
        return "(tr_%s %s)" % (fname, " ".join(args))
    if k == "CXXMemberCallExpr":
        me = inner[0]
        if me.get("kind") == "MemberExpr":
            obj = me["inner"][0]
            while obj.get("kind") in ("ImplicitCastExpr", "ParenExpr"):
                obj = obj["inner"][0]
            oname = obj.get("referencedDecl", {}).get("name")
            acc = me.get("name")
            key = "%s.%s" % (oname, acc)
            if key in env:
                return env[key]
        raise Untranslatable("member call")
    raise Untranslatable("expression kind " + str(k))


def translate(fn_ast, known):
    name = fn_ast["name"]
    params, env = [], {}
    for f in known:
        env["fn:" + f] = True
    body = None
    for c in fn_ast.get("inner", []):
        if c["kind"] == "ParmVarDecl":
            p = c.get("name", "_p%d" % len(params))
            ty = c.get("type", {}).get("qualType", "")
            if "civil_time" in ty or "civil_second" in ty or "civil_day" in ty:
                for acc in ("year", "month", "day"):
                    env["%s.%s" % (p, acc)] = "%s_%s" % (p, acc)
                    params.append("%s_%s" % (p, acc))
            else:
                env[p] = p
                params.append(p)
        elif c["kind"] == "CompoundStmt":
            body = c
    if body is None:
        raise Untranslatable("no body")
    lets, ret = [], None
    for st in body.get("inner", []):
        if st["kind"] == "DeclStmt":
            for vd in st.get("inner", []):
                if vd["kind"] != "VarDecl" or not vd.get("inner"):
                    raise Untranslatable("declaration without initialiser")
                init = vd["inner"][-1]
                while init.get("kind") in ("ImplicitCastExpr", "ExprWithCleanups"):
                    init = init["inner"][0]
                v = vd["name"]
                if init.get("kind") == "InitListExpr":
                    elems = [expr(e, env) for e in init.get("inner", [])]
                    lets.append((v, "[" + "; ".join(elems) + "]"))
                    env["tbl:" + v] = v
                else:
                    lets.append((v, expr(vd["inner"][-1], env)))
                    env[v] = v
        elif st["kind"] == "ReturnStmt":
            ret = expr(st["inner"][0], env)
        elif st["kind"] == "BinaryOperator" or st["kind"] == "CompoundAssignOperator":
            # wd += e  /  x = e   on a local: rebind
            lhs = st["inner"][0]
            while lhs.get("kind") in ("ImplicitCastExpr", "ParenExpr"):
                lhs = lhs["inner"][0]
            v = lhs.get("referencedDecl", {}).get("name")
            if v not in env:
                raise Untranslatable("assignment to " + str(v))
            rhs = expr(st["inner"][1], env)
            op = st.get("opcode")
            if op == "=":
                lets.append((v, rhs))
            elif op in ("+=", "-=", "*="):
                lets.append((v, "(%s %s %s)" % (v, op[0], rhs)))
            else:
                raise Untranslatable("assignment op " + str(op))
        else:
            raise Untranslatable("statement " + st["kind"])
    if ret is None:
        raise Untranslatable("no return")
    text = "Definition tr_%s %s : Z :=\n" % (name, " ".join("(%s : Z)" % p for p in params))
    for v, e in lets:
        text += "  let %s := %s in\n" % (v, e)
    text += "  %s.\n" % ret
    return text


def main():
    out = sys.argv[1] if len(sys.argv) > 1 else os.path.join(os.path.dirname(__file__), "..", "coq", "Translated.v")
    lines = ["(* Translated.v — GENERATED by gen/ast_translate.py from clang's AST of /repo's",
             "   current sources on every run.  Do not edit.  Integers and booleans are Z",
             "   (false = 0); / and % are truncating. *)",
             "From Coq Require Import ZArith List Bool.", "Import ListNotations.", "Local Open Scope Z_scope.",
             "Definition b2z (b : bool) : Z := if b then 1 else 0.", ""]
    done, failed = [], {}
    for path, fns in TARGETS:
        for fn in fns:
            try:
                lines.append(translate(ast_of(path, fn), done))
                done.append(fn)
            except Untranslatable as e:
                failed[fn] = str(e)
                lines.append("(* %s: not translated: %s *)\n" % (fn, e))
    text = "\n".join(lines) + "\n"
    if failed:
        # a function left the translatable subset (harmless refactoring?): keep the last good
        # Translated.v so that the theorems still build; the behavioural correspondence still covers it
        print(json.dumps({"written": False, "translated": done, "untranslated": failed, "kept_previous": True}))
        return
    changed = True
    if os.path.exists(out):
        changed = open(out).read() != text
    if changed:
        open(out, "w").write(text)
    print(json.dumps({"written": changed, "translated": done, "untranslated": failed}))


if __name__ == "__main__":
    main()
